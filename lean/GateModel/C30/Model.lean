import GateModel.Base.Bytes
import GateModel.Gen.C30
/-
C30 — model of Lite backend selection (pkg/edition/java/lite: strategy.go, forward.go:findRoute's
`nextBackend` closure and `tryBackends`).  Core Lean only.

What Go does, and how it is mirrored here:

* `nextBackend` (one closure per connection attempt) owns the list `tryBackends` of the route's backend
  addresses.  Each call asks the strategy for one of them and removes it from the list:
  - repaired code: every entry that is the selected string or has the same address after the default port is
    applied is removed (`removeSelected`);
  - code before the fix: only the *first* entry with the same normal form is removed, and nothing at all when
    the selected address does not parse (`removeSelectedDefective`).
  Address parsing (`netutil.Parse`, `netutil.HostPort`: `net.SplitHostPort` + `strconv.Atoi`) is the parameter
  `parse : Addr → Option (Addr × Nat)` (`none` = error; otherwise the parsed address text — the host alone when
  the port is 0 — and its port).
* `tryBackends` loops: next → dial → stop at the first success, fail when next reports exhaustion → `attempt`.
  The strategy's choice at step `t` is `choose t remaining` — ANY member of the remaining list in the theorems
  (so every strategy, any random source, any concurrent change of strategy state is covered);
  `dialOk t a` is the dial outcome.
* the five strategies of `GetNextBackend` → `pick` over `SState`.
* `TrackConnection` / `IncrementConnection` and their closures: the Go maps key ↦ count are represented as
  multisets (a list with one occurrence per open connection): `m[k]++` = cons, "`count <= 1` → delete, else
  `count-1`" = erase one occurrence; `ActiveConnections()` (sum of counts) = length.
  Assumption: a returned closure is invoked at most once (Forward defers it exactly once).
* concurrency: a connection's counter work is four atomic sections in program order
  (`activeConnections[key]++` under activeConnectionsMu; counter.Add(1) under strategyCountersMu;
  counter decrement under strategyCountersMu; map decrement under activeConnectionsMu) → `Sys`, `sysStep`.
  Round-robin: repaired = one atomic section per pick (`rrPickAtomic`), before the fix = two
  (`LoadOrStore` … `Store`, `RRThread`).
-/
namespace Gate.C30
open Gate

abbrev Addr := Bytes
abbrev ParseFn := Addr → Option (Addr × Nat)

def colon : UInt8 := 58
def defaultPort : Addr := [50, 53, 53, 54, 53]   -- "25565"

/-- `net.JoinHostPort` -/
def joinHostPort (host port : Addr) : Addr :=
  if host.contains colon then [91] ++ host ++ [93, colon] ++ port else host ++ [colon] ++ port

/-- the closure's normal form of a parseable address: default port applied when the port is 0 -/
def normalize (parse : ParseFn) (a : Addr) : Option Addr :=
  (parse a).map fun sp => if sp.2 = 0 then joinHostPort sp.1 defaultPort else sp.1

/-- repaired code's `normalizeBackendAddr`: the normal form, or the address itself when it does not parse -/
def normOrSelf (parse : ParseFn) (a : Addr) : Addr := (normalize parse a).getD a

/-- "denotes the same backend as the selected one" -/
def sameBackend (parse : ParseFn) (sel b : Addr) : Bool := b == sel || normOrSelf parse b == normOrSelf parse sel

/-- repaired removal: drop every entry that denotes the selected backend -/
def removeSelected (parse : ParseFn) (sel : Addr) (l : List Addr) : List Addr :=
  l.filter (fun b => !sameBackend parse sel b)

/-- removal before the fix: the first entry whose normal form equals the selected one's; entries (or a selected
    address) that do not parse are skipped -/
def removeSelectedDefective (parse : ParseFn) (sel : Addr) : List Addr → List Addr
  | [] => []
  | b :: t =>
    match normalize parse b, normalize parse sel with
    | some nb, some ns => if nb = ns then t else b :: removeSelectedDefective parse sel t
    | _, _ => b :: removeSelectedDefective parse sel t

inductive Outcome where
  | connected (a : Addr)   -- a dial succeeded
  | failed                 -- next() reported exhaustion: errAllBackendsFailed
  | running                -- fuel exhausted: the loop is still going
  deriving DecidableEq, Repr

/-- `tryBackends(nextBackend, dial)`: dial sequence and outcome.  `t` counts the calls of next(). -/
def attemptF (remove : Addr → List Addr → List Addr) (choose : Nat → List Addr → Addr)
    (dialOk : Nat → Addr → Bool) : Nat → Nat → List Addr → List Addr × Outcome
  | 0, _, l => ([], if l.isEmpty then .failed else .running)
  | f + 1, t, l =>
    if l.isEmpty then ([], .failed)
    else
      let a := choose t l
      if dialOk t a then ([a], .connected a)
      else
        let r := attemptF remove choose dialOk f (t + 1) (remove a l)
        (a :: r.1, r.2)

/-- an attempt over the route's backends; `length + 1` steps always suffice for the repaired removal -/
def attempt (remove : Addr → List Addr → List Addr) (choose : Nat → List Addr → Addr)
    (dialOk : Nat → Addr → Bool) (backends : List Addr) : List Addr × Outcome :=
  attemptF remove choose dialOk (backends.length + 1) 0 backends

/-! ## strategies -/

inductive Strategy where
  | sequential | random | roundRobin | leastConnections | lowestLatency
  deriving DecidableEq, Repr

/-- `switch route.Strategy` of `GetNextBackend`: the empty and every unknown name mean sequential -/
def Strategy.ofName (s : String) : Strategy :=
  if s = "random" then .random else if s = "round-robin" then .roundRobin
  else if s = "least-connections" then .leastConnections else if s = "lowest-latency" then .lowestLatency
  else .sequential

structure SState where
  rr : List (Bytes × Nat) := []       -- roundRobinIndexes: route host ↦ next index
  counters : List Addr := []          -- connectionCounters as a multiset: one occurrence per counted connection
  latency : List (Addr × Nat) := []   -- latencyCache: backend ↦ last measured latency (ns), newest first
  active : List Bytes := []           -- activeConnections as a multiset of canonical keys
  deriving Repr

def rrIndex (s : SState) (host : Bytes) : Nat := ((s.rr.find? (fun p => p.1 == host)).map (·.2)).getD 0
def setRR (s : SState) (host : Bytes) (v : Nat) : SState :=
  { s with rr := (host, v) :: s.rr.filter (fun p => !(p.1 == host)) }
def latencyOf (s : SState) (b : Addr) : Option Nat := (s.latency.find? (fun p => p.1 == b)).map (·.2)
def connCount (s : SState) (b : Addr) : Nat := s.counters.count b

/-- `leastConnectionsNextBackend`: strict `<` scan starting from MaxUint32, so the first minimum wins -/
def leastScan (cnt : Addr → Nat) : List Addr → Addr × Nat → Addr × Nat
  | [], acc => acc
  | b :: t, acc => if cnt b < acc.2 then leastScan cnt t (b, cnt b) else leastScan cnt t acc
def maxUint32 : Nat := 4294967295
def leastPick (cnt : Addr → Nat) (l : List Addr) : Addr :=
  let r := (leastScan cnt l ([], maxUint32)).1
  if r.isEmpty then l.headD [] else r   -- `if leastBackend == "" { return backends[0] }`

/-- `lowestLatencyNextBackend`: first unmeasured backend, else scan with `lowestLatency == 0 || v < lowestLatency` -/
def latencyScan (lat : Addr → Option Nat) : List Addr → Addr × Nat → Option (Addr × Nat)
  | [], acc => some acc
  | b :: t, acc =>
    match lat b with
    | none => none                    -- unmeasured: returned immediately by the caller
    | some v => if acc.2 = 0 ∨ v < acc.2 then latencyScan lat t (b, v) else latencyScan lat t acc
def firstUnmeasured (lat : Addr → Option Nat) : List Addr → Option Addr
  | [] => none
  | b :: t => match lat b with
    | none => some b
    | some _ =>
      -- the Go loop interleaves the two scans; an unmeasured backend anywhere wins
      firstUnmeasured lat t
def latencyPick (lat : Addr → Option Nat) (l : List Addr) : Addr :=
  match firstUnmeasured lat l with
  | some b => b
  | none =>
    match latencyScan lat l ([], 0) with
    | some (r, _) => if r.isEmpty then l.headD [] else r
    | none => l.headD []

/-- one `GetNextBackend` call on a non-empty list.  `rnd` is the value `rng.Intn(len)` returned. -/
def pick (st : Strategy) (s : SState) (host : Bytes) (rnd : Nat) (l : List Addr) : Addr × SState :=
  match st with
  | .sequential => (l.headD [], s)
  | .random => (l.getD rnd [], s)
  | .roundRobin => let i := rrIndex s host; (l.getD (i % l.length) [], setRR s host (i + 1))
  | .leastConnections => (leastPick (connCount s) l, s)
  | .lowestLatency => (latencyPick (latencyOf s) l, s)

/-! ## connection counters -/

def asciiLower (b : UInt8) : UInt8 := if 65 ≤ b.toNat ∧ b.toNat ≤ 90 then b + 32 else b

/-- `TrackConnection` up to its return: activeConnections[key]++ then IncrementConnection(backend) -/
def trackOpen (s : SState) (key : Bytes) (backend : Addr) : SState :=
  { s with active := key :: s.active, counters := backend :: s.counters }
/-- the closure `TrackConnection` returned -/
def trackClose (s : SState) (key : Bytes) (backend : Addr) : SState :=
  { s with counters := s.counters.erase backend, active := s.active.erase key }
/-- `ActiveConnections()` -/
def activeConnections (s : SState) : Nat := s.active.length


/-! ## one `lite.Forward` call and the counters

`Forward`: findRoute → tryBackends (dial) → `emptyReadBuff` (flush of the client's buffered bytes to the backend) →
`TrackConnection` + `defer decrement` → `pipe` (until either side closes) → return (deferred release).
A call can end at four points; only the last one ever touches the counters. -/

inductive FwdEnd where
  | noRoute                       -- findRoute failed: nothing dialled
  | allDialsFailed                -- tryBackends exhausted the list
  | flushFailed (backend : Addr)  -- dial succeeded, ReadBuffered / the write of the buffered bytes failed
  | piped (backend : Addr)        -- forwarded; the call returns when the connection closes
  deriving DecidableEq, Repr

/-- where the code takes the connection into the counters: the repaired/current code after the flush, together with
    the deferred release; the defective class tracks before the flush but defers the release only after it -/
structure FwdVariant where
  trackBeforeFlush : Bool := false

/-- state while the call is in progress (for `piped`: while the connection is open) -/
def forwardDuring (v : FwdVariant) (s : SState) (key : Addr → Bytes) : FwdEnd → SState
  | .piped b => trackOpen s (key b) b
  | .flushFailed b => if v.trackBeforeFlush then trackOpen s (key b) b else s
  | _ => s

/-- state after the call has returned -/
def forwardAfter (v : FwdVariant) (s : SState) (key : Addr → Bytes) : FwdEnd → SState
  | .piped b => trackClose (trackOpen s (key b) b) (key b) b
  | .flushFailed b => if v.trackBeforeFlush then trackOpen s (key b) b else s   -- no deferred release registered yet
  | _ => s

/-! ## concurrency: all interleavings of the counters' atomic sections -/

structure Conn where
  key : Bytes
  backend : Addr
  pc : Nat := 0      -- 0 not opened, 1 active++ done, 2 counter++ done, 3 counter-- done, 4 active-- done (closed)
  deriving Repr

structure Sys where
  conns : List Conn
  active : List Bytes := []
  counters : List Addr := []
  deriving Repr

/-- connection `i` performs its next atomic section (nothing if it is finished or does not exist) -/
def sysStep (y : Sys) (i : Nat) : Sys :=
  match y.conns[i]? with
  | none => y
  | some c =>
    match c.pc with
    | 0 => { y with conns := y.conns.set i { c with pc := 1 }, active := c.key :: y.active }
    | 1 => { y with conns := y.conns.set i { c with pc := 2 }, counters := c.backend :: y.counters }
    | 2 => { y with conns := y.conns.set i { c with pc := 3 }, counters := y.counters.erase c.backend }
    | 3 => { y with conns := y.conns.set i { c with pc := 4 }, active := y.active.erase c.key }
    | _ => y

def sysRun (y : Sys) (sched : List Nat) : Sys := sched.foldl sysStep y

/-- a connection counts as open from its `activeConnections[key]++` until its closure's decrement -/
def Conn.isOpen (c : Conn) : Bool := 1 ≤ c.pc && c.pc ≤ 3
def Conn.counted (c : Conn) : Bool := c.pc == 2

/-! ### round-robin index under concurrency -/

/-- repaired: LoadOrStore + Store under one mutex = one atomic section; returns the index handed out -/
def rrPickAtomic (idx : Nat) : Nat × Nat := (idx, idx + 1)

/-- before the fix: a pick is two atomic sections (read the index; store read+1) -/
structure RRThread where
  read : Option Nat := none
  done : Bool := false
  deriving Repr, DecidableEq
structure RRSys where
  idx : Nat
  threads : List RRThread
  deriving Repr, DecidableEq
def rrStepDefective (y : RRSys) (i : Nat) : RRSys :=
  match y.threads[i]? with
  | none => y
  | some th =>
    match th.read, th.done with
    | none, _ => { y with threads := y.threads.set i { th with read := some y.idx } }
    | some v, false => { idx := v + 1, threads := y.threads.set i { th with done := true } }
    | some _, true => y

end Gate.C30
