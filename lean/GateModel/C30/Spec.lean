import GateModel.C30.Model
/-
C30 — the property's clauses as executable predicates on an observed attempt / pick (independent of how the
model computes its own answer), used by the driver as oracle on the implementation's output and by `Props`.
-/
namespace Gate.C30
open Gate

/-- no two dialled addresses denote the same backend -/
def noRepeat (parse : ParseFn) : List Addr → Bool
  | [] => true
  | d :: ds => !(ds.any (fun e => sameBackend parse d e)) && noRepeat parse ds

/-- every configured backend was dialled (possibly under another spelling) -/
def allTried (parse : ParseFn) (backends dials : List Addr) : Bool :=
  backends.all (fun b => dials.any (fun d => sameBackend parse d b))

/-- number of distinct backends of a list -/
def distinctCount (parse : ParseFn) : List Addr → Nat
  | [] => 0
  | b :: t => (if t.any (fun e => sameBackend parse b e) then 0 else 1) + distinctCount parse t

/-- first-minimum characterisation used for least-connections / lowest-latency -/
def isFirstMin (f : Addr → Nat) (l : List Addr) (r : Addr) : Bool :=
  match l.find? (fun b => l.all (fun c => f b ≤ f c)) with
  | some b => b == r
  | none => false

end Gate.C30
