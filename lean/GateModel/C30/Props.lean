import GateModel.C30.Lemmas
namespace Gate.C30.Props
theorem placeholder : True := trivial
end Gate.C30.Props
