import GateModel.C30.Lemmas
/-
C30 — Lite backend selection tries each backend once per attempt and counts fairly.

Property theorems only (helper lemmas live in `Lemmas.lean`).  Parameters: `parse` (Go's address parsing),
`choose` (the strategy's pick at each step — ANY function returning a member of the remaining list, so all
five strategies, every random source and every concurrent change of strategy state between two picks are
covered), `dialOk` (dial outcomes, may differ per step).  Clauses and where they are proved:

  each distinct backend tried at most once      each_once, dials_are_configured
  the attempt ends / fails only after all failed attempt_ends, fails_only_after_all, connects_to_first_success
  every strategy is such a `choose`             strategies_choose_members
  sequential: config order                      sequential_config_order
  round-robin: rotating                         round_robin_rotation, rr_atomic_all_interleavings
  least-connections: fewest active              least_connections_first_min
  lowest-latency: unmeasured first, then lowest lowest_latency_unmeasured_first, lowest_latency_first_min
  counts = open connections, back to zero,      counts_exact, counts_return_to_zero  (all interleavings of the
    also under concurrent connections             four atomic sections of each connection), track_open/close
  tie to the source                             src_counter_lock_regions, src_rng_locked, src_rr_locked,
                                                src_strategy_switch, src_try_loop, src_closure_removal
  the defects repaired                          each_once_fails, attempt_never_ends_fails,
                                                removeDefective_partial, rr_lost_update_fails
PARTIAL: interleaving semantics of critical sections is weaker than the Go memory model; the `math/rand`
data race is a memory-model fact — the model only records (src_rng_locked) that the generator is used under a mutex.
-/
namespace Gate.C30.Props
open Gate Gate.C30

/-! ### one connection attempt (repaired removal), for every selection function -/

/-- no two dialled addresses denote the same backend -/
theorem each_once (parse : ParseFn) (choose : Nat → List Addr → Addr) (hc : Chooses choose)
    (dialOk : Nat → Addr → Bool) (backends : List Addr) :
    noRepeat parse (attempt (removeSelected parse) choose dialOk backends).1 = true :=
  noRepeat_of_nodup parse _ (attemptF_nodup parse choose dialOk hc _ _ _)

theorem dials_are_configured (parse : ParseFn) (choose : Nat → List Addr → Addr) (hc : Chooses choose)
    (dialOk : Nat → Addr → Bool) (backends : List Addr) :
    ∀ d ∈ (attempt (removeSelected parse) choose dialOk backends).1, d ∈ backends :=
  attemptF_subset parse choose dialOk hc _ _ _

/-- the attempt ends (also with unparseable addresses) after at most `len(backends)` dials -/
theorem attempt_ends (parse : ParseFn) (choose : Nat → List Addr → Addr) (hc : Chooses choose)
    (dialOk : Nat → Addr → Bool) (backends : List Addr) :
    (attempt (removeSelected parse) choose dialOk backends).2 ≠ .running ∧
    (attempt (removeSelected parse) choose dialOk backends).1.length ≤ backends.length :=
  ⟨attemptF_ends parse choose dialOk hc _ _ _ (Nat.lt_succ_self _), attemptF_length_le parse choose dialOk hc _ _ _⟩

/-- failure is reported only after every configured backend was dialled, and every one of those dials failed -/
theorem fails_only_after_all (parse : ParseFn) (choose : Nat → List Addr → Addr)
    (dialOk : Nat → Addr → Bool) (backends : List Addr)
    (h : (attempt (removeSelected parse) choose dialOk backends).2 = .failed) :
    allTried parse backends (attempt (removeSelected parse) choose dialOk backends).1 = true ∧
    ∀ i d, (attempt (removeSelected parse) choose dialOk backends).1[i]? = some d → dialOk i d = false := by
  obtain ⟨h1, h2⟩ := attemptF_failed parse choose dialOk _ 0 backends h
  exact ⟨allTried_of parse _ _ h1, fun i d hi => by simpa using h2 i d hi⟩

/-- a connection is made to the last dialled address, the first whose dial succeeded -/
theorem connects_to_first_success (parse : ParseFn) (choose : Nat → List Addr → Addr)
    (dialOk : Nat → Addr → Bool) (backends : List Addr) (a : Addr)
    (h : (attempt (removeSelected parse) choose dialOk backends).2 = .connected a) :
    ∃ pre, (attempt (removeSelected parse) choose dialOk backends).1 = pre ++ [a] ∧
      dialOk pre.length a = true ∧ ∀ i d, pre[i]? = some d → dialOk i d = false := by
  obtain ⟨pre, h1, h2, h3⟩ := attemptF_connected parse choose dialOk _ 0 backends a h
  exact ⟨pre, h1, by simpa using h2, fun i d hi => by simpa using h3 i d hi⟩

/-- every strategy of `GetNextBackend`, in any state and with any value `rng.Intn(len)` can return, picks a member
    of the list it is given — so the theorems above apply to all of them, whatever other connections do to
    the strategy state between two picks -/
theorem strategies_choose_members (st : Strategy) (state : Nat → SState) (host : Bytes)
    (rnd : Nat → List Addr → Nat) (hr : ∀ t l, l ≠ [] → rnd t l < l.length) :
    Chooses (fun t l => (pick st (state t) host (rnd t l) l).1) :=
  fun t l hl => pick_mem st (state t) host (rnd t l) l hl (fun _ => hr t l hl)

example : Chooses (fun _ l => l.headD []) := fun _ l hl => headD_mem l hl
example : (attempt (removeSelected (fun a => some (a, 1))) (fun _ l => l.headD []) (fun _ _ => false) [[97], [97], [98]])
    = ([[97], [98]], .failed) := by decide

/-! ### the strategies' orders -/

/-- sequential: the dialled addresses appear in configuration order -/
theorem sequential_config_order (parse : ParseFn) (dialOk : Nat → Addr → Bool) (backends : List Addr) :
    (attempt (removeSelected parse) (fun _ l => l.headD []) dialOk backends).1.Sublist backends := by
  unfold attempt
  generalize backends.length + 1 = f
  generalize (0 : Nat) = t
  induction f generalizing t backends with
  | zero => simp [attemptF]
  | succ f ih =>
    unfold attemptF
    cases backends with
    | nil => simp
    | cons b rest =>
      simp only [List.isEmpty_cons, Bool.false_eq_true, if_false, List.headD_cons]
      by_cases hd : dialOk t b = true
      · simp [hd]
      · simp only [hd, Bool.false_eq_true, if_false]
        have h1 := ih (removeSelected parse b (b :: rest)) (t + 1)
        have h2 : (removeSelected parse b (b :: rest)).Sublist rest := by
          unfold removeSelected
          rw [List.filter_cons]
          simp only [sameBackend_refl, Bool.not_true, Bool.false_eq_true, if_false]
          exact List.filter_sublist
        exact (h1.trans h2).cons_cons b

/-- sequential: the first dial is the first configured backend -/
theorem sequential_first (s : SState) (host : Bytes) (rnd : Nat) (l : List Addr) :
    (pick .sequential s host rnd l).1 = l.headD [] ∧ (pick .sequential s host rnd l).2.rr = s.rr := ⟨rfl, rfl⟩

/-- `k` consecutive round-robin picks on one route host -/
def rrPicks (s : SState) (host : Bytes) (l : List Addr) : Nat → List Addr × SState
  | 0 => ([], s)
  | k + 1 =>
    let r := rrPicks s host l k
    let p := pick .roundRobin r.2 host 0 l
    (r.1 ++ [p.1], p.2)

/-- round-robin rotates: the i-th pick is entry `(start + i) mod len`, and the index advances once per pick -/
theorem round_robin_rotation (s : SState) (host : Bytes) (l : List Addr) (k : Nat) :
    (rrPicks s host l k).1 = (List.range k).map (fun i => l.getD ((rrIndex s host + i) % l.length) []) ∧
    rrIndex (rrPicks s host l k).2 host = rrIndex s host + k := by
  induction k with
  | zero => exact ⟨rfl, rfl⟩
  | succ k ih =>
    obtain ⟨h1, h2⟩ := ih
    simp only [rrPicks, pick]
    refine ⟨?_, ?_⟩
    · rw [h1, h2, List.range_succ, List.map_append]; rfl
    · rw [rrIndex_setRR_same, h2]; omega

/-- other routes' indices are untouched -/
theorem round_robin_per_route (s : SState) (host host' : Bytes) (l : List Addr) (h : host' ≠ host) :
    rrIndex (pick .roundRobin s host 0 l).2 host' = rrIndex s host' := rrIndex_setRR_other s host host' _ h

/-- least-connections returns the first backend with the fewest counted connections -/
theorem least_connections_first_min (s : SState) (host : Bytes) (rnd : Nat) (l : List Addr) (h : l ≠ [])
    (hne : ∀ b ∈ l, b ≠ []) (hlt : ∀ b ∈ l, connCount s b < maxUint32) :
    ∃ pre post, l = pre ++ (pick .leastConnections s host rnd l).1 :: post ∧
      (∀ b ∈ l, connCount s (pick .leastConnections s host rnd l).1 ≤ connCount s b) ∧
      ∀ b ∈ pre, connCount s (pick .leastConnections s host rnd l).1 < connCount s b :=
  leastPick_first_min (connCount s) l h hne hlt

/-- lowest-latency returns the first backend without a measurement, if there is one -/
theorem lowest_latency_unmeasured_first (s : SState) (host : Bytes) (rnd : Nat) (l : List Addr) (b : Addr)
    (pre post : List Addr) (hl : l = pre ++ b :: post) (hb : latencyOf s b = none)
    (hpre : ∀ c ∈ pre, (latencyOf s c).isSome = true) :
    (pick .lowestLatency s host rnd l).1 = b := by
  simp only [pick, latencyPick]
  have : firstUnmeasured (latencyOf s) l = some b := by
    subst hl
    induction pre with
    | nil => simp [firstUnmeasured, hb]
    | cons c t ih =>
      have hc := hpre c (by simp)
      cases hv : latencyOf s c with
      | none => simp [hv] at hc
      | some v =>
        simp only [List.cons_append, firstUnmeasured, hv]
        exact ih (fun x hx => hpre x (by simp [hx]))
  simp [this]

/-- … and otherwise the first backend with the lowest (positive) measured latency -/
theorem lowest_latency_first_min (s : SState) (host : Bytes) (rnd : Nat) (l : List Addr) (h : l ≠ [])
    (hne : ∀ b ∈ l, b ≠ []) (hm : ∀ b ∈ l, ∃ v, latencyOf s b = some v ∧ 0 < v) :
    ∃ pre post v, l = pre ++ (pick .lowestLatency s host rnd l).1 :: post ∧
      latencyOf s (pick .lowestLatency s host rnd l).1 = some v ∧
      (∀ b ∈ l, ∀ w, latencyOf s b = some w → v ≤ w) ∧
      ∀ b ∈ pre, ∀ w, latencyOf s b = some w → v < w := by
  have hnone : firstUnmeasured (latencyOf s) l = none := by
    cases hf : firstUnmeasured (latencyOf s) l with
    | none => rfl
    | some b =>
      obtain ⟨pre, post, e1, e2, _⟩ := firstUnmeasured_spec _ l b hf
      obtain ⟨v, hv, _⟩ := hm b (mem_of_split e1)
      rw [e2] at hv; cases hv
  cases l with
  | nil => exact absurd rfl h
  | cons b t =>
    obtain ⟨v, hv, hvpos⟩ := hm b (by simp)
    obtain ⟨r, e0, _, h1, h2, h3⟩ := latencyScan_spec (latencyOf s) t (b, v) (fun c hc => hm c (by simp [hc])) hvpos
    have hscan : latencyScan (latencyOf s) (b :: t) ([], 0) = some r := by
      unfold latencyScan; simp [hv, e0]
    have hr : r.1 ∈ b :: t ∧ latencyOf s r.1 = some r.2 ∧ (∀ c ∈ b :: t, ∀ w, latencyOf s c = some w → r.2 ≤ w) ∧
        ∃ pre post, b :: t = pre ++ r.1 :: post ∧ ∀ c ∈ pre, ∀ w, latencyOf s c = some w → r.2 < w := by
      rcases h3 with h3 | ⟨pre, post, e1, e2, e3, e4⟩
      · subst h3
        refine ⟨by simp, hv, ?_, [], t, rfl, by simp⟩
        intro c hc w hw
        rcases List.mem_cons.mp hc with rfl | hc
        · rw [hv] at hw; cases hw; exact Nat.le_refl _
        · exact h2 c hc w hw
      · refine ⟨by rw [e1]; simp, e2, ?_, b :: pre, post, by rw [e1]; rfl, ?_⟩
        · intro c hc w hw
          rcases List.mem_cons.mp hc with rfl | hc
          · rw [hv] at hw; cases hw; simp only at h1; exact h1
          · exact h2 c hc w hw
        · intro c hc w hw
          rcases List.mem_cons.mp hc with rfl | hc
          · rw [hv] at hw; cases hw; simp only at e3; exact e3
          · exact e4 c hc w hw
    obtain ⟨hmem, hlat, hmin, pre, post, hsplit, hpre⟩ := hr
    have hnonempty : r.1.isEmpty = false := by
      have := hne r.1 hmem
      cases hh : r.1 with
      | nil => exact absurd hh this
      | cons x xs => rfl
    have hp : (pick .lowestLatency s host rnd (b :: t)).1 = r.1 := by
      simp only [pick, latencyPick, hnone, hscan, hnonempty, Bool.false_eq_true, if_false]
    rw [hp]
    exact ⟨pre, post, r.2, hsplit, hlat, hmin, hpre⟩

/-! ### connection counters -/

theorem track_open (s : SState) (key : Bytes) (backend : Addr) :
    activeConnections (trackOpen s key backend) = activeConnections s + 1 ∧
    connCount (trackOpen s key backend) backend = connCount s backend + 1 := by
  simp [activeConnections, trackOpen, connCount]

theorem track_close (s : SState) (key : Bytes) (backend : Addr) (hk : key ∈ s.active) (hb : backend ∈ s.counters) :
    activeConnections (trackClose s key backend) + 1 = activeConnections s ∧
    connCount (trackClose s key backend) backend + 1 = connCount s backend := by
  have h1 := List.length_erase_of_mem hk
  have h2 : 0 < s.active.length := List.length_pos_of_mem hk
  have h3 : 0 < List.count backend s.counters := List.count_pos_iff.mpr hb
  simp only [activeConnections, trackClose, connCount, List.count_erase_self]
  omega

/-- For ANY number of connections and ANY interleaving of their atomic sections, at every moment
    `ActiveConnections()` equals the number of open connections, and each backend's least-connections counter
    equals the number of connections currently counted on it. -/
theorem counts_exact (conns : List Conn) (h0 : ∀ c ∈ conns, c.pc = 0) (sched : List Nat) :
    let y := sysRun { conns := conns } sched
    y.active.length = y.conns.countP Conn.isOpen ∧
    (∀ b, y.counters.count b = y.conns.countP (fun c => c.counted && c.backend == b)) ∧
    (∀ k, y.active.count k = y.conns.countP (fun c => c.isOpen && c.key == k)) := by
  have := sysRun_inv _ sched (sysInv_init conns h0)
  exact ⟨this.2.2.1, this.2.1, this.1⟩

/-- … and when every connection has closed, both are empty again (the counts return to zero) -/
theorem counts_return_to_zero (conns : List Conn) (h0 : ∀ c ∈ conns, c.pc = 0) (sched : List Nat)
    (hdone : ∀ c ∈ (sysRun { conns := conns } sched).conns, c.pc = 4) :
    (sysRun { conns := conns } sched).active = [] ∧ (sysRun { conns := conns } sched).counters = [] := by
  have inv := sysRun_inv _ sched (sysInv_init conns h0)
  have h1 : (sysRun { conns := conns } sched).conns.countP Conn.isOpen = 0 := by
    rw [List.countP_eq_zero]; intro c hc; simp [Conn.isOpen, hdone c hc]
  have h2 : (sysRun { conns := conns } sched).conns.countP Conn.counted = 0 := by
    rw [List.countP_eq_zero]; intro c hc; simp [Conn.counted, hdone c hc]
  exact ⟨List.eq_nil_of_length_eq_zero (inv.2.2.1.trans h1), List.eq_nil_of_length_eq_zero (inv.2.2.2.trans h2)⟩

example : (sysRun { conns := [⟨[1], [7], 0⟩, ⟨[2], [7], 0⟩] } [0, 1, 1, 0, 0, 1, 1, 0]).active = [] := by decide

/-- At a barrier — no connection inside `TrackConnection` or its closure: each is either not started, fully open
    and counted (pc 2) or closed (pc 4) — every backend's least-connections counter equals the number of connections
    open to it, whatever interleaving led there.  This is the spec the driver evaluates on the counter-drift probe
    (`conc-ctr`): `count(backend) = number of currently open connections`. -/
theorem barrier_counts (conns : List Conn) (h0 : ∀ c ∈ conns, c.pc = 0) (sched : List Nat)
    (hb : ∀ c ∈ (sysRun { conns := conns } sched).conns, c.pc = 0 ∨ c.pc = 2 ∨ c.pc = 4) (b : Addr) :
    (sysRun { conns := conns } sched).counters.count b =
      (sysRun { conns := conns } sched).conns.countP (fun c => c.isOpen && c.backend == b) := by
  rw [(counts_exact conns h0 sched).2.1 b]
  apply List.countP_congr
  intro c hc
  rcases hb c hc with h | h | h <;> simp [Conn.counted, Conn.isOpen, h]


/-! ### one `Forward` call: every way it can end leaves the counters as it found them -/

/-- whatever the end of a `Forward` call — no route, every dial failed, the flush of the buffered bytes failed after a
    successful dial, or a forwarded connection that was eventually closed — after it has returned
    `ActiveConnections()` and every backend's counter are exactly what they were before the call. -/
theorem forward_restores_counts (s : SState) (key : Addr → Bytes) (e : FwdEnd) :
    (forwardAfter {} s key e).active = s.active ∧ (forwardAfter {} s key e).counters = s.counters := by
  cases e <;> simp [forwardAfter, trackClose, trackOpen]

/-- so after any history of completed calls, with any mix of outcomes, the counts are back where they started
    (zero from a fresh manager) -/
theorem forward_history_restores_counts (s : SState) (key : Addr → Bytes) (calls : List FwdEnd) :
    (calls.foldl (fun st e => forwardAfter {} st key e) s).active = s.active ∧
    (calls.foldl (fun st e => forwardAfter {} st key e) s).counters = s.counters := by
  induction calls generalizing s with
  | nil => exact ⟨rfl, rfl⟩
  | cons e t ih =>
    obtain ⟨h1, h2⟩ := forward_restores_counts s key e
    obtain ⟨i1, i2⟩ := ih (forwardAfter {} s key e)
    exact ⟨i1.trans h1, i2.trans h2⟩

/-- while a call is in progress it is counted iff it is a forwarded (piping) connection -/
theorem forward_counted_iff_piping (s : SState) (key : Addr → Bytes) (e : FwdEnd) :
    activeConnections (forwardDuring {} s key e) =
      activeConnections s + (match e with | .piped _ => 1 | _ => 0) := by
  cases e <;> simp [forwardDuring, activeConnections, trackOpen]

/-- the defective class (tracking before the flush, release deferred only after it): a connection whose flush fails
    stays counted for ever -/
theorem forward_leak_fails :
    ¬ (∀ (s : SState) (key : Addr → Bytes) (e : FwdEnd),
        (forwardAfter { trackBeforeFlush := true } s key e).active = s.active) := by
  intro h
  have := h {} (fun b => b) (.flushFailed [97])
  revert this; decide

/-- … and is correct for every other ending -/
theorem forward_leak_partial (s : SState) (key : Addr → Bytes) (e : FwdEnd) (h : ∀ b, e ≠ .flushFailed b) :
    forwardAfter { trackBeforeFlush := true } s key e = forwardAfter {} s key e := by
  cases e with
  | flushFailed b => exact absurd rfl (h b)
  | _ => rfl

/-! ### round-robin index under concurrency -/

/-- picks as single atomic sections, in any order: (thread, index handed out) list and the final index -/
def rrRunAtomic (idx : Nat) : List Nat → List (Nat × Nat) × Nat
  | [] => ([], idx)
  | th :: rest =>
    let p := rrPickAtomic idx
    let r := rrRunAtomic p.2 rest
    ((th, p.1) :: r.1, r.2)

/-- with the read-increment-write in one critical section, whatever the order in which the threads get the
    mutex, the indices handed out are `idx, idx+1, …` — each exactly once — and the index ends at `idx + n` -/
theorem rr_atomic_all_interleavings (idx : Nat) (sched : List Nat) :
    (rrRunAtomic idx sched).1.map (·.2) = List.range' idx sched.length ∧
    (rrRunAtomic idx sched).2 = idx + sched.length := by
  induction sched generalizing idx with
  | nil => exact ⟨rfl, rfl⟩
  | cons th rest ih =>
    obtain ⟨h1, h2⟩ := ih (idx + 1)
    simp only [rrRunAtomic, rrPickAtomic, List.map_cons, List.length_cons, List.range'_succ]
    exact ⟨by rw [h1], by rw [h2]; omega⟩

/-- before the fix (read and store as two sections): two connections read the same index and it advances once -/
theorem rr_lost_update_fails :
    ∃ sched : List Nat,
      sched.foldl rrStepDefective { idx := 0, threads := [{}, {}] } =
        { idx := 1, threads := [{ read := some 0, done := true }, { read := some 0, done := true }] } :=
  ⟨[0, 1, 0, 1], by decide⟩

/-! ### the defects in the per-attempt removal, kept as kernel-checked witnesses -/

/-- before the fix a backend listed twice was dialled twice -/
theorem each_once_fails :
    ¬ (∀ (parse : ParseFn) (backends : List Addr),
        noRepeat parse (attempt (removeSelectedDefective parse) (fun _ l => l.headD []) (fun _ _ => false) backends).1 = true) := by
  intro h
  have := h (fun a => some (a, 1)) [[97], [97]]
  revert this; decide

/-- before the fix an address that does not parse was selected and dialled for ever: for every number of steps
    the loop is still running and has dialled that address every time -/
theorem attempt_never_ends_fails (bad : Addr) (n : Nat) :
    attemptF (removeSelectedDefective (fun _ => none)) (fun _ l => l.headD []) (fun _ _ => false) n 0 [bad]
      = (List.replicate n bad, .running) := by
  generalize (0 : Nat) = t
  induction n generalizing t with
  | zero => rfl
  | succ n ih =>
    simp only [attemptF, List.isEmpty_cons, Bool.false_eq_true, if_false, List.headD_cons, removeSelectedDefective,
      normalize, Option.map_none, List.replicate_succ]
    rw [ih (t + 1)]

/-- … and agreed with the repaired removal when every address parses and no two entries denote the same backend -/
theorem removeDefective_partial (parse : ParseFn) (sel : Addr) (l : List Addr)
    (hp : ∀ b ∈ l, (parse b).isSome = true) (hsel : sel ∈ l) (hn : (l.map (normOrSelf parse)).Nodup) :
    removeSelectedDefective parse sel l = removeSelected parse sel l :=
  Gate.C30.removeDefective_partial parse sel l hp hsel hn

/-! ### tie to the source: facts regenerated by `tools/gofacts` -/

def before (a b : String) (cs : List String) : Bool := cs.idxOf a < cs.idxOf b && cs.idxOf b < cs.length

open Gate.Gen.C30 in
/-- lock regions of the counters: each map update sits in its own Lock … Unlock region, in the order the model's
    four atomic sections assume -/
theorem src_counter_lock_regions :
    trackConnectionCalls = ["canonicalConnectionKey", "sm.activeConnectionsMu.Lock", "sm.activeConnectionsMu.Unlock",
      "sm.IncrementConnection", "func:{", "decrementStrategyCounter", "sm.activeConnectionsMu.Lock", "delete",
      "sm.activeConnectionsMu.Unlock", "}", "return"] ∧
    incrementConnectionCalls = ["sm.strategyCountersMu.Lock", "sm.getOrCreateCounter", "sm.strategyCountersMu.Unlock",
      "func:{", "}", "return", "counter.Add", "sm.strategyCountersMu.Unlock", "func:{", "sm.strategyCountersMu.Lock",
      "defer:sm.strategyCountersMu.Unlock", "counter.Load", "return", "uint32", "counter.Add", "counter.Load",
      "sm.connectionCounters.CompareAndDelete", "}", "return"] ∧
    activeConnectionsCalls = ["sm.activeConnectionsMu.RLock", "defer:sm.activeConnectionsMu.RUnlock", "return"] ∧
    before "strategyManager.TrackConnection" "defer:decrementConnection" forwardCalls ∧
    before "defer:decrementConnection" "pipe" forwardCalls ∧
    -- the release is deferred immediately after the connection is counted: no return can lie between them
    forwardCalls.idxOf "defer:decrementConnection" = forwardCalls.idxOf "strategyManager.TrackConnection" + 1 := by decide

open Gate.Gen.C30 in
/-- the shared random source is only used between `rngMu.Lock` and `rngMu.Unlock` -/
theorem src_rng_locked :
    randomCalls = ["len", "return", "sm.rngMu.Lock", "len", "sm.rng.Intn", "sm.rngMu.Unlock", "return"] := by decide

open Gate.Gen.C30 in
/-- the round-robin index is read and written inside one `roundRobinMu` region -/
theorem src_rr_locked :
    roundRobinCalls = ["len", "return", "sm.roundRobinMu.Lock", "sm.roundRobinIndexes.LoadOrStore",
      "sm.roundRobinIndexes.Store", "sm.roundRobinMu.Unlock", "len", "return"] := by decide

open Gate.Gen.C30 in
theorem src_strategy_switch :
    strategyCases = ["config.StrategySequential", "config.StrategyRandom", "config.StrategyRoundRobin",
      "config.StrategyLeastConnections", "config.StrategyLowestLatency", "\"\"", "default"] ∧
    getNextBackendCalls = ["len", "return", "sm.sequentialNextBackend", "return", "sm.randomNextBackend", "return",
      "sm.roundRobinNextBackend", "return", "sm.leastConnectionsNextBackend", "return",
      "sm.lowestLatencyNextBackend", "return", "sm.sequentialNextBackend", "return", "sm.sequentialNextBackend",
      "return"] := by decide

open Gate.Gen.C30 in
theorem src_try_loop :
    tryBackendsCalls = ["next", "return", "try", "errs.V", "errs.V().Info", "return"] := by decide

open Gate.Gen.C30 in
/-- the closure asks the strategy, then filters the list with `normalizeBackendAddr` (no early `break`) -/
theorem src_closure_removal :
    before "strategyManager.GetNextBackend" "normalizeBackendAddr" findRouteCalls ∧
    before "normalizeBackendAddr" "append" findRouteCalls ∧
    normalizeCalls = ["netutil.Parse", "return", "netutil.HostPort", "parsed.String", "net.JoinHostPort", "return",
      "parsed.String", "return"] ∧
    normalizeLits = ["25565"] ∧ defaultPort = [50, 53, 53, 54, 53] := by decide

end Gate.C30.Props
