import GateModel.C30.Model
import GateModel.C30.Spec
/-
C30 helper lemmas (core Lean only).
-/
namespace Gate.C30
open Gate

/-! ## one attempt -/

/-- two addresses denote the same backend iff their normal forms agree -/
theorem sameBackend_iff (parse : ParseFn) (sel b : Addr) :
    sameBackend parse sel b = true ↔ normOrSelf parse b = normOrSelf parse sel := by
  unfold sameBackend
  constructor
  · intro h
    rcases Bool.or_eq_true_iff.mp h with h | h
    · rw [eq_of_beq h]
    · exact eq_of_beq h
  · intro h; simp [h]

theorem sameBackend_refl (parse : ParseFn) (a : Addr) : sameBackend parse a a = true := by simp [sameBackend]

theorem mem_removeSelected (parse : ParseFn) (sel b : Addr) (l : List Addr) :
    b ∈ removeSelected parse sel l ↔ b ∈ l ∧ normOrSelf parse b ≠ normOrSelf parse sel := by
  unfold removeSelected
  rw [List.mem_filter]
  constructor
  · rintro ⟨h1, h2⟩
    refine ⟨h1, fun e => ?_⟩
    have := (sameBackend_iff parse sel b).mpr e
    simp [this] at h2
  · rintro ⟨h1, h2⟩
    refine ⟨h1, ?_⟩
    cases hs : sameBackend parse sel b with
    | false => rfl
    | true => exact absurd ((sameBackend_iff parse sel b).mp hs) h2

theorem length_removeSelected_lt (parse : ParseFn) (sel : Addr) (l : List Addr) (h : sel ∈ l) :
    (removeSelected parse sel l).length < l.length := by
  unfold removeSelected
  induction l with
  | nil => cases h
  | cons b t ih =>
    rw [List.filter_cons]
    by_cases hb : sameBackend parse sel b = true
    · simp only [hb, Bool.not_true, Bool.false_eq_true, if_false, List.length_cons]
      exact Nat.lt_succ_of_le (List.length_filter_le _ _)
    · have hb' : sameBackend parse sel b = false := by simpa using hb
      simp only [hb', Bool.not_false, if_true, List.length_cons]
      have hsel : sel ∈ t := by
        rcases List.mem_cons.mp h with rfl | h
        · rw [sameBackend_refl] at hb'; cases hb'
        · exact h
      exact Nat.succ_lt_succ (ih hsel)

/-- selection functions that return a member of every non-empty list: all that the attempt theorems need -/
def Chooses (choose : Nat → List Addr → Addr) : Prop := ∀ t l, l ≠ [] → choose t l ∈ l

section attempt
variable (parse : ParseFn) (choose : Nat → List Addr → Addr) (dialOk : Nat → Addr → Bool)

theorem attemptF_subset (hc : Chooses choose) (f t : Nat) (l : List Addr) :
    ∀ d ∈ (attemptF (removeSelected parse) choose dialOk f t l).1, d ∈ l := by
  induction f generalizing t l with
  | zero => simp [attemptF]
  | succ f ih =>
    unfold attemptF
    by_cases hl : l.isEmpty = true
    · simp [hl]
    · have hne : l ≠ [] := by intro e; simp [e] at hl
      simp only [hl, Bool.false_eq_true, if_false]
      by_cases hd : dialOk t (choose t l) = true
      · simp only [hd, if_true, List.mem_singleton]; rintro d rfl; exact hc t l hne
      · simp only [hd, Bool.false_eq_true, if_false, List.mem_cons]
        rintro d (rfl | hd')
        · exact hc t l hne
        · exact ((mem_removeSelected parse _ d l).mp (ih _ _ d hd')).1

/-- no two dialled addresses have the same normal form -/
theorem attemptF_nodup (hc : Chooses choose) (f t : Nat) (l : List Addr) :
    ((attemptF (removeSelected parse) choose dialOk f t l).1.map (normOrSelf parse)).Nodup := by
  induction f generalizing t l with
  | zero => simp [attemptF]
  | succ f ih =>
    unfold attemptF
    by_cases hl : l.isEmpty = true
    · simp [hl]
    · simp only [hl, Bool.false_eq_true, if_false]
      by_cases hd : dialOk t (choose t l) = true
      · simp [hd]
      · simp only [hd, Bool.false_eq_true, if_false, List.map_cons, List.nodup_cons]
        refine ⟨?_, ih _ _⟩
        intro hmem
        obtain ⟨d, hd1, hd2⟩ := List.mem_map.mp hmem
        have := attemptF_subset parse choose dialOk hc f (t + 1) _ d hd1
        exact ((mem_removeSelected parse _ d l).mp this).2 hd2

/-- with more fuel than entries the loop has ended -/
theorem attemptF_ends (hc : Chooses choose) (f t : Nat) (l : List Addr) (hf : l.length < f) :
    (attemptF (removeSelected parse) choose dialOk f t l).2 ≠ .running := by
  induction f generalizing t l with
  | zero => omega
  | succ f ih =>
    unfold attemptF
    by_cases hl : l.isEmpty = true
    · simp [hl]
    · have hne : l ≠ [] := by intro e; simp [e] at hl
      simp only [hl, Bool.false_eq_true, if_false]
      by_cases hd : dialOk t (choose t l) = true
      · simp [hd]
      · simp only [hd, Bool.false_eq_true, if_false]
        apply ih
        have := length_removeSelected_lt parse (choose t l) l (hc t l hne)
        omega

theorem attemptF_length_le (hc : Chooses choose) (f t : Nat) (l : List Addr) :
    (attemptF (removeSelected parse) choose dialOk f t l).1.length ≤ l.length := by
  induction f generalizing t l with
  | zero => simp [attemptF]
  | succ f ih =>
    unfold attemptF
    by_cases hl : l.isEmpty = true
    · simp [hl]
    · have hne : l ≠ [] := by intro e; simp [e] at hl
      simp only [hl, Bool.false_eq_true, if_false]
      by_cases hd : dialOk t (choose t l) = true
      · simp only [hd, if_true, List.length_singleton]
        exact List.length_pos_iff.mpr hne
      · simp only [hd, Bool.false_eq_true, if_false, List.length_cons]
        have h1 := ih (t + 1) (removeSelected parse (choose t l) l)
        have h2 := length_removeSelected_lt parse (choose t l) l (hc t l hne)
        omega

/-- failure is reported only after every entry's backend was dialled, and every dial failed -/
theorem attemptF_failed (f t : Nat) (l : List Addr)
    (h : (attemptF (removeSelected parse) choose dialOk f t l).2 = .failed) :
    (∀ b ∈ l, ∃ d ∈ (attemptF (removeSelected parse) choose dialOk f t l).1,
        normOrSelf parse d = normOrSelf parse b) ∧
    (∀ i d, (attemptF (removeSelected parse) choose dialOk f t l).1[i]? = some d → dialOk (t + i) d = false) := by
  induction f generalizing t l with
  | zero =>
    unfold attemptF at h ⊢
    by_cases hl : l.isEmpty = true
    · have : l = [] := by simpa using hl
      subst this; simp
    · simp [hl] at h
  | succ f ih =>
    unfold attemptF at h ⊢
    by_cases hl : l.isEmpty = true
    · have : l = [] := by simpa using hl
      subst this; simp
    · simp only [hl, Bool.false_eq_true, if_false] at h ⊢
      by_cases hd : dialOk t (choose t l) = true
      · simp [hd] at h
      · have hd' : dialOk t (choose t l) = false := by simpa using hd
        simp only [hd, Bool.false_eq_true, if_false] at h ⊢
        obtain ⟨ih1, ih2⟩ := ih (t + 1) _ h
        constructor
        · intro b hb
          by_cases hk : normOrSelf parse b = normOrSelf parse (choose t l)
          · exact ⟨choose t l, by simp, hk.symm⟩
          · obtain ⟨d, hd1, hd2⟩ := ih1 b ((mem_removeSelected parse _ b l).mpr ⟨hb, hk⟩)
            exact ⟨d, by simp [hd1], hd2⟩
        · intro i d hi
          cases i with
          | zero => simp only [List.getElem?_cons_zero, Option.some.injEq] at hi; subst hi; simpa using hd'
          | succ i =>
            have := ih2 i d (by simpa using hi)
            rw [show t + (i + 1) = t + 1 + i by omega]; exact this

/-- a connection is reported for the last dialled address, whose dial succeeded, all earlier ones having failed -/
theorem attemptF_connected (f t : Nat) (l : List Addr) (a : Addr)
    (h : (attemptF (removeSelected parse) choose dialOk f t l).2 = .connected a) :
    ∃ pre, (attemptF (removeSelected parse) choose dialOk f t l).1 = pre ++ [a] ∧
      dialOk (t + pre.length) a = true ∧
      ∀ i d, pre[i]? = some d → dialOk (t + i) d = false := by
  induction f generalizing t l with
  | zero => unfold attemptF at h; split at h <;> cases h
  | succ f ih =>
    unfold attemptF at h ⊢
    by_cases hl : l.isEmpty = true
    · simp [hl] at h
    · simp only [hl, Bool.false_eq_true, if_false] at h ⊢
      by_cases hd : dialOk t (choose t l) = true
      · simp only [hd, if_true, Outcome.connected.injEq] at h ⊢
        subst h
        exact ⟨[], rfl, by simpa using hd, by simp⟩
      · have hd' : dialOk t (choose t l) = false := by simpa using hd
        simp only [hd, Bool.false_eq_true, if_false] at h ⊢
        obtain ⟨pre, h1, h2, h3⟩ := ih (t + 1) _ h
        refine ⟨choose t l :: pre, by rw [h1]; rfl, ?_, ?_⟩
        · rw [show t + (choose t l :: pre).length = t + 1 + pre.length by simp only [List.length_cons]; omega]
          exact h2
        · intro i d hi
          cases i with
          | zero => simp only [List.getElem?_cons_zero, Option.some.injEq] at hi; subst hi; simpa using hd'
          | succ i =>
            have := h3 i d (by simpa using hi)
            rw [show t + (i + 1) = t + 1 + i by omega]; exact this

end attempt

/-! ### executable predicates of the spec -/

theorem noRepeat_of_nodup (parse : ParseFn) (ds : List Addr) (h : (ds.map (normOrSelf parse)).Nodup) :
    noRepeat parse ds = true := by
  induction ds with
  | nil => rfl
  | cons d ds ih =>
    simp only [List.map_cons, List.nodup_cons] at h
    simp only [noRepeat, Bool.and_eq_true, Bool.not_eq_true', ih h.2, and_true]
    cases ha : ds.any (fun e => sameBackend parse d e) with
    | false => rfl
    | true =>
      obtain ⟨e, he1, he2⟩ := List.any_eq_true.mp ha
      exact absurd (List.mem_map.mpr ⟨e, he1, (sameBackend_iff parse d e).mp he2⟩) h.1

theorem allTried_of (parse : ParseFn) (backends dials : List Addr)
    (h : ∀ b ∈ backends, ∃ d ∈ dials, normOrSelf parse d = normOrSelf parse b) :
    allTried parse backends dials = true := by
  unfold allTried
  rw [List.all_eq_true]
  intro b hb
  obtain ⟨d, hd1, hd2⟩ := h b hb
  exact List.any_eq_true.mpr ⟨d, hd1, (sameBackend_iff parse d b).mpr hd2.symm⟩

/-! ## the removal before the fix -/

theorem removeDefective_partial (parse : ParseFn) (sel : Addr) (l : List Addr)
    (hp : ∀ b ∈ l, (parse b).isSome = true) (hsel : sel ∈ l) (hn : (l.map (normOrSelf parse)).Nodup) :
    removeSelectedDefective parse sel l = removeSelected parse sel l := by
  have hps : (parse sel).isSome = true := hp sel hsel
  have key : ∀ b, (parse b).isSome = true → normalize parse b = some (normOrSelf parse b) := by
    intro b hb
    unfold normOrSelf normalize
    cases h : parse b with
    | none => simp [h] at hb
    | some v => simp
  induction l with
  | nil => rfl
  | cons b t ih =>
    have hb := hp b (by simp)
    simp only [List.map_cons, List.nodup_cons] at hn
    unfold removeSelectedDefective removeSelected
    rw [key b hb, key sel hps, List.filter_cons]
    by_cases hk : normOrSelf parse b = normOrSelf parse sel
    · have hs : sameBackend parse sel b = true := (sameBackend_iff parse sel b).mpr hk
      simp only [hk, if_true, hs, Bool.not_true, Bool.false_eq_true, if_false]
      symm
      rw [List.filter_eq_self]
      intro c hc
      cases hsc : sameBackend parse sel c with
      | false => rfl
      | true =>
        have := (sameBackend_iff parse sel c).mp hsc
        exact absurd (List.mem_map.mpr ⟨c, hc, this.trans hk.symm⟩) hn.1
    · have hs : sameBackend parse sel b = false := by
        cases h : sameBackend parse sel b with
        | false => rfl
        | true => exact absurd ((sameBackend_iff parse sel b).mp h) hk
      simp only [hk, if_false, hs, Bool.not_false, if_true]
      have hsel' : sel ∈ t := by
        rcases List.mem_cons.mp hsel with rfl | h
        · exact absurd rfl hk
        · exact h
      have := ih (fun c hc => hp c (by simp [hc])) hsel' hn.2
      unfold removeSelected at this
      rw [this]

/-! ## strategies -/

theorem leastScan_spec (cnt : Addr → Nat) (l : List Addr) (acc : Addr × Nat) :
    (leastScan cnt l acc).2 ≤ acc.2 ∧ (∀ b ∈ l, (leastScan cnt l acc).2 ≤ cnt b) ∧
    (leastScan cnt l acc = acc ∨
      ∃ pre post, l = pre ++ (leastScan cnt l acc).1 :: post ∧
        (leastScan cnt l acc).2 = cnt (leastScan cnt l acc).1 ∧ (leastScan cnt l acc).2 < acc.2 ∧
        ∀ b ∈ pre, (leastScan cnt l acc).2 < cnt b) := by
  induction l generalizing acc with
  | nil => simp [leastScan]
  | cons b t ih =>
    unfold leastScan
    by_cases hb : cnt b < acc.2
    · simp only [hb, if_true]
      obtain ⟨h1, h2, h3⟩ := ih (b, cnt b)
      simp only at h1
      refine ⟨by omega, ?_, Or.inr ?_⟩
      · intro c hc
        rcases List.mem_cons.mp hc with rfl | hc
        · exact h1
        · exact h2 c hc
      · rcases h3 with h3 | ⟨pre, post, e1, e2, e3, e4⟩
        · rw [h3]; exact ⟨[], t, rfl, rfl, hb, by simp⟩
        · refine ⟨b :: pre, post, by rw [List.cons_append, ← e1], e2, by simp only at e3; omega, ?_⟩
          intro c hc
          rcases List.mem_cons.mp hc with rfl | hc
          · exact e3
          · exact e4 c hc
    · simp only [hb, if_false]
      obtain ⟨h1, h2, h3⟩ := ih acc
      refine ⟨h1, ?_, ?_⟩
      · intro c hc
        rcases List.mem_cons.mp hc with rfl | hc
        · omega
        · exact h2 c hc
      · rcases h3 with h3 | ⟨pre, post, e1, e2, e3, e4⟩
        · exact Or.inl h3
        · refine Or.inr ⟨b :: pre, post, by rw [List.cons_append, ← e1], e2, e3, ?_⟩
          intro c hc
          rcases List.mem_cons.mp hc with rfl | hc
          · omega
          · exact e4 c hc

theorem mem_of_split {α : Type} {l pre post : List α} {x : α} (e : l = pre ++ x :: post) : x ∈ l :=
  (congrArg (fun z => x ∈ z) e).mpr (by simp)

theorem headD_mem (l : List Addr) (h : l ≠ []) : l.headD [] ∈ l := by
  cases l with
  | nil => exact absurd rfl h
  | cons a t => simp

theorem leastPick_mem (cnt : Addr → Nat) (l : List Addr) (h : l ≠ []) : leastPick cnt l ∈ l := by
  unfold leastPick
  simp only []
  by_cases he : (leastScan cnt l ([], maxUint32)).1.isEmpty = true
  · simp only [he, if_true]; exact headD_mem l h
  · simp only [he, Bool.false_eq_true, if_false]
    rcases (leastScan_spec cnt l ([], maxUint32)).2.2 with h3 | ⟨pre, post, e1, _⟩
    · rw [h3] at he; simp at he
    · exact mem_of_split e1

/-- least-connections returns a first minimum of the counts (addresses non-empty, counts below 2^32-1) -/
theorem leastPick_first_min (cnt : Addr → Nat) (l : List Addr) (h : l ≠ [])
    (hne : ∀ b ∈ l, b ≠ []) (hlt : ∀ b ∈ l, cnt b < maxUint32) :
    ∃ pre post, l = pre ++ leastPick cnt l :: post ∧ (∀ b ∈ l, cnt (leastPick cnt l) ≤ cnt b) ∧
      ∀ b ∈ pre, cnt (leastPick cnt l) < cnt b := by
  obtain ⟨_, h2, h3⟩ := leastScan_spec cnt l ([], maxUint32)
  rcases h3 with h3 | ⟨pre, post, e1, e2, _, e4⟩
  · exfalso
    cases l with
    | nil => exact h rfl
    | cons b t =>
      have := h2 b (by simp)
      rw [h3] at this
      have := hlt b (by simp)
      simp only at *
      omega
  · have hmem : (leastScan cnt l ([], maxUint32)).1 ∈ l := mem_of_split e1
    have hnon : (leastScan cnt l ([], maxUint32)).1.isEmpty = false := by
      have := hne _ hmem
      cases hh : (leastScan cnt l ([], maxUint32)).1 with
      | nil => exact absurd hh this
      | cons x xs => rfl
    have hp : leastPick cnt l = (leastScan cnt l ([], maxUint32)).1 := by
      unfold leastPick; simp [hnon]
    rw [hp]
    exact ⟨pre, post, e1, fun b hb => by rw [← e2]; exact h2 b hb, fun b hb => by rw [← e2]; exact e4 b hb⟩

theorem firstUnmeasured_spec (lat : Addr → Option Nat) (l : List Addr) (b : Addr)
    (h : firstUnmeasured lat l = some b) :
    ∃ pre post, l = pre ++ b :: post ∧ lat b = none ∧ ∀ c ∈ pre, (lat c).isSome = true := by
  induction l with
  | nil => simp [firstUnmeasured] at h
  | cons c t ih =>
    unfold firstUnmeasured at h
    cases hc : lat c with
    | none =>
      simp only [hc, Option.some.injEq] at h
      subst h
      exact ⟨[], t, rfl, hc, by simp⟩
    | some v =>
      simp only [hc] at h
      obtain ⟨pre, post, e1, e2, e3⟩ := ih h
      refine ⟨c :: pre, post, by rw [List.cons_append, ← e1], e2, ?_⟩
      intro x hx
      rcases List.mem_cons.mp hx with rfl | hx
      · simp [hc]
      · exact e3 x hx

theorem firstUnmeasured_none (lat : Addr → Option Nat) (l : List Addr)
    (h : firstUnmeasured lat l = none) : ∀ c ∈ l, (lat c).isSome = true := by
  induction l with
  | nil => simp
  | cons c t ih =>
    unfold firstUnmeasured at h
    cases hc : lat c with
    | none => simp [hc] at h
    | some v =>
      simp only [hc] at h
      intro x hx
      rcases List.mem_cons.mp hx with rfl | hx
      · simp [hc]
      · exact ih h x hx

/-- scan over measured, positive latencies starting from a positive accumulator -/
theorem latencyScan_spec (lat : Addr → Option Nat) (l : List Addr) (acc : Addr × Nat)
    (hm : ∀ b ∈ l, ∃ v, lat b = some v ∧ 0 < v) (hacc : 0 < acc.2) :
    ∃ r, latencyScan lat l acc = some r ∧ 0 < r.2 ∧ r.2 ≤ acc.2 ∧ (∀ b ∈ l, ∀ v, lat b = some v → r.2 ≤ v) ∧
      (r = acc ∨ ∃ pre post, l = pre ++ r.1 :: post ∧ lat r.1 = some r.2 ∧ r.2 < acc.2 ∧
          ∀ b ∈ pre, ∀ v, lat b = some v → r.2 < v) := by
  induction l generalizing acc with
  | nil => exact ⟨acc, rfl, hacc, Nat.le_refl _, by simp, Or.inl rfl⟩
  | cons b t ih =>
    obtain ⟨v, hv, hvpos⟩ := hm b (by simp)
    have hm' : ∀ c ∈ t, ∃ v, lat c = some v ∧ 0 < v := fun c hc => hm c (by simp [hc])
    unfold latencyScan
    simp only [hv]
    by_cases hb : acc.2 = 0 ∨ v < acc.2
    · have hlt : v < acc.2 := by rcases hb with h0 | h; omega; exact h
      simp only [hb, if_true]
      obtain ⟨r, e0, rpos, h1, h2, h3⟩ := ih (b, v) hm' hvpos
      simp only at h1
      refine ⟨r, e0, rpos, by omega, ?_, Or.inr ?_⟩
      · intro c hc w hw
        rcases List.mem_cons.mp hc with rfl | hc
        · rw [hv] at hw; cases hw; exact h1
        · exact h2 c hc w hw
      · rcases h3 with h3 | ⟨pre, post, e1, e2, e3, e4⟩
        · subst h3; exact ⟨[], t, rfl, hv, hlt, by simp⟩
        · refine ⟨b :: pre, post, by rw [List.cons_append, ← e1], e2, by simp only at e3; omega, ?_⟩
          intro c hc w hw
          rcases List.mem_cons.mp hc with rfl | hc
          · rw [hv] at hw; cases hw; exact e3
          · exact e4 c hc w hw
    · simp only [hb, if_false]
      have hge : acc.2 ≤ v := by
        have := not_or.mp hb; omega
      obtain ⟨r, e0, rpos, h1, h2, h3⟩ := ih acc hm' hacc
      refine ⟨r, e0, rpos, h1, ?_, ?_⟩
      · intro c hc w hw
        rcases List.mem_cons.mp hc with rfl | hc
        · rw [hv] at hw; cases hw; omega
        · exact h2 c hc w hw
      · rcases h3 with h3 | ⟨pre, post, e1, e2, e3, e4⟩
        · exact Or.inl h3
        · refine Or.inr ⟨b :: pre, post, by rw [List.cons_append, ← e1], e2, e3, ?_⟩
          intro c hc w hw
          rcases List.mem_cons.mp hc with rfl | hc
          · rw [hv] at hw; cases hw; omega
          · exact e4 c hc w hw

theorem latencyScan_mem (lat : Addr → Option Nat) (l : List Addr) (acc r : Addr × Nat)
    (h : latencyScan lat l acc = some r) : r.1 = acc.1 ∨ r.1 ∈ l := by
  induction l generalizing acc with
  | nil => simp only [latencyScan, Option.some.injEq] at h; subst h; exact Or.inl rfl
  | cons b t ih =>
    unfold latencyScan at h
    cases hb : lat b with
    | none => simp [hb] at h
    | some v =>
      simp only [hb] at h
      by_cases hc : acc.2 = 0 ∨ v < acc.2
      · simp only [hc, if_true] at h
        rcases ih _ h with e | e
        · right; simp only at e; rw [e]; simp
        · right; simp [e]
      · simp only [hc, if_false] at h
        rcases ih _ h with e | e
        · exact Or.inl e
        · right; simp [e]

theorem latencyPick_mem (lat : Addr → Option Nat) (l : List Addr) (h : l ≠ []) : latencyPick lat l ∈ l := by
  unfold latencyPick
  cases hf : firstUnmeasured lat l with
  | some b =>
    obtain ⟨pre, post, e1, _⟩ := firstUnmeasured_spec lat l b hf
    simp only []; rw [e1]; simp
  | none =>
    simp only []
    cases hs : latencyScan lat l ([], 0) with
    | none => exact headD_mem l h
    | some r =>
      simp only []
      by_cases he : r.1.isEmpty = true
      · simp only [he, if_true]; exact headD_mem l h
      · simp only [he, Bool.false_eq_true, if_false]
        rcases latencyScan_mem lat l _ r hs with e | e
        · simp only at e; rw [e] at he; simp at he
        · exact e

theorem pick_mem (st : Strategy) (s : SState) (host : Bytes) (rnd : Nat) (l : List Addr) (h : l ≠ [])
    (hr : st = .random → rnd < l.length) : (pick st s host rnd l).1 ∈ l := by
  have hpos : 0 < l.length := List.length_pos_iff.mpr h
  cases st with
  | sequential => exact headD_mem l h
  | random =>
    have := hr rfl
    simp only [pick, List.getD_eq_getElem?_getD, List.getElem?_eq_getElem this, Option.getD_some]
    exact List.getElem_mem this
  | roundRobin =>
    have : rrIndex s host % l.length < l.length := Nat.mod_lt _ hpos
    simp only [pick, List.getD_eq_getElem?_getD, List.getElem?_eq_getElem this, Option.getD_some]
    exact List.getElem_mem this
  | leastConnections => exact leastPick_mem _ l h
  | lowestLatency => exact latencyPick_mem _ l h

theorem rrIndex_setRR_same (s : SState) (host : Bytes) (v : Nat) : rrIndex (setRR s host v) host = v := by
  simp [rrIndex, setRR]

theorem rrIndex_setRR_other (s : SState) (host host' : Bytes) (v : Nat) (h : host' ≠ host) :
    rrIndex (setRR s host v) host' = rrIndex s host' := by
  have hne : (host == host') = false := by
    apply Bool.eq_false_iff.mpr; intro e; exact h (eq_of_beq e).symm
  simp only [rrIndex, setRR, List.find?_cons, hne]
  congr 2
  induction s.rr with
  | nil => rfl
  | cons p t ih =>
    rw [List.filter_cons]
    by_cases hp : (p.1 == host) = true
    · have hp' : (p.1 == host') = false := by
        apply Bool.eq_false_iff.mpr; intro e
        exact h ((eq_of_beq e).symm.trans (eq_of_beq hp))
      simp [hp, hp', List.find?_cons, ih]
    · simp only [hp, Bool.not_false, Bool.false_eq_true, if_true, Bool.not_eq_true] at *
      by_cases hq : (p.1 == host') = true
      · simp [hp, List.find?_cons, hq]
      · simp [hp, List.find?_cons, hq, ih]

/-! ## counters under all interleavings -/

theorem countP_set_add {α : Type} (p : α → Bool) (l : List α) (i : Nat) (c a : α) (h : l[i]? = some c) :
    (l.set i a).countP p + (if p c then 1 else 0) = l.countP p + (if p a then 1 else 0) := by
  obtain ⟨hi, hc⟩ := List.getElem?_eq_some_iff.mp h
  rw [List.countP_set hi, hc]
  have := List.boole_getElem_le_countP (p := p) hi
  rw [hc] at this
  omega

/-- the invariant: the multisets hold exactly the keys / backends of the connections that are open / counted -/
def SysInv (y : Sys) : Prop :=
  (∀ k, y.active.count k = y.conns.countP (fun c => c.isOpen && c.key == k)) ∧
  (∀ b, y.counters.count b = y.conns.countP (fun c => c.counted && c.backend == b)) ∧
  y.active.length = y.conns.countP Conn.isOpen ∧
  y.counters.length = y.conns.countP Conn.counted

theorem sysInv_init (cs : List Conn) (h : ∀ c ∈ cs, c.pc = 0) :
    SysInv { conns := cs, active := [], counters := [] } := by
  have h1 : ∀ (q : Conn → Bool), cs.countP (fun c => c.isOpen && q c) = 0 := by
    intro q; rw [List.countP_eq_zero]; intro c hc; simp [Conn.isOpen, h c hc]
  have h2 : ∀ (q : Conn → Bool), cs.countP (fun c => c.counted && q c) = 0 := by
    intro q; rw [List.countP_eq_zero]; intro c hc; simp [Conn.counted, h c hc]
  have h3 : cs.countP Conn.isOpen = 0 := by
    rw [List.countP_eq_zero]; intro c hc; simp [Conn.isOpen, h c hc]
  have h4 : cs.countP Conn.counted = 0 := by
    rw [List.countP_eq_zero]; intro c hc; simp [Conn.counted, h c hc]
  exact ⟨fun k => by simp [h1], fun b => by simp [h2], by simp [h3], by simp [h4]⟩

theorem sysStep_inv (y : Sys) (i : Nat) (h : SysInv y) : SysInv (sysStep y i) := by
  obtain ⟨hA, hC, hAl, hCl⟩ := h
  unfold sysStep
  cases hc : y.conns[i]? with
  | none => exact ⟨hA, hC, hAl, hCl⟩
  | some c =>
    simp only []
    have upd := fun (p : Conn → Bool) (a : Conn) => countP_set_add p y.conns i c a hc
    match hpc : c.pc with
    | 0 =>
      simp only []
      refine ⟨fun k => ?_, fun b => ?_, ?_, ?_⟩
      · have := upd (fun c => c.isOpen && c.key == k) { c with pc := 1 }
        simp only [Conn.isOpen, hpc] at this
        rw [List.count_cons, hA k]
        simp only [Conn.isOpen] at this ⊢
        by_cases hk : (c.key == k) = true <;> simp [hk] at this ⊢ <;> omega
      · have := upd (fun c => c.counted && c.backend == b) { c with pc := 1 }
        simp only [Conn.counted, hpc] at this
        rw [hC b]
        simp only [Conn.counted] at this ⊢
        (try simp at this); omega
      · have := upd Conn.isOpen { c with pc := 1 }
        simp only [Conn.isOpen, hpc] at this
        simp only [List.length_cons, hAl]
        (try simp at this); (try simp only [Conn.isOpen]); omega
      · have := upd Conn.counted { c with pc := 1 }
        simp only [Conn.counted, hpc] at this
        rw [hCl]; (try simp at this); (try simp only [Conn.counted]); omega
    | 1 =>
      simp only []
      refine ⟨fun k => ?_, fun b => ?_, ?_, ?_⟩
      · have := upd (fun c => c.isOpen && c.key == k) { c with pc := 2 }
        simp only [Conn.isOpen, hpc] at this
        rw [hA k]; simp only [Conn.isOpen] at this ⊢
        by_cases hk : (c.key == k) = true <;> simp [hk] at this ⊢ <;> omega
      · have := upd (fun c => c.counted && c.backend == b) { c with pc := 2 }
        simp only [Conn.counted, hpc] at this
        rw [List.count_cons, hC b]; simp only [Conn.counted] at this ⊢
        by_cases hk : (c.backend == b) = true <;> simp [hk] at this ⊢ <;> omega
      · have := upd Conn.isOpen { c with pc := 2 }
        simp only [Conn.isOpen, hpc] at this
        rw [hAl]; (try simp at this); (try simp only [Conn.isOpen]); omega
      · have := upd Conn.counted { c with pc := 2 }
        simp only [Conn.counted, hpc] at this
        simp only [List.length_cons, hCl]; (try simp at this); (try simp only [Conn.counted]); omega
    | 2 =>
      simp only []
      have hmem : c.backend ∈ y.counters := by
        rw [← List.count_pos_iff, hC c.backend, List.countP_pos_iff]
        exact ⟨c, List.mem_of_getElem? hc, by simp [Conn.counted, hpc]⟩
      refine ⟨fun k => ?_, fun b => ?_, ?_, ?_⟩
      · have := upd (fun c => c.isOpen && c.key == k) { c with pc := 3 }
        simp only [Conn.isOpen, hpc] at this
        rw [hA k]; simp only [Conn.isOpen] at this ⊢
        by_cases hk : (c.key == k) = true <;> simp [hk] at this ⊢ <;> omega
      · have := upd (fun c => c.counted && c.backend == b) { c with pc := 3 }
        simp only [Conn.counted, hpc] at this
        rw [List.count_erase, hC b]; simp only [Conn.counted] at this ⊢
        by_cases hk : (c.backend == b) = true <;> simp [hk] at this ⊢ <;> omega
      · have := upd Conn.isOpen { c with pc := 3 }
        simp only [Conn.isOpen, hpc] at this
        rw [hAl]; (try simp at this); (try simp only [Conn.isOpen]); omega
      · have := upd Conn.counted { c with pc := 3 }
        simp only [Conn.counted, hpc] at this
        have hl := List.length_erase_of_mem hmem
        have hpos : 0 < y.counters.length := List.length_pos_of_mem hmem
        (try simp at this); (try simp only [Conn.counted]); omega
    | 3 =>
      simp only []
      have hmem : c.key ∈ y.active := by
        rw [← List.count_pos_iff, hA c.key, List.countP_pos_iff]
        exact ⟨c, List.mem_of_getElem? hc, by simp [Conn.isOpen, hpc]⟩
      refine ⟨fun k => ?_, fun b => ?_, ?_, ?_⟩
      · have := upd (fun c => c.isOpen && c.key == k) { c with pc := 4 }
        simp only [Conn.isOpen, hpc] at this
        rw [List.count_erase, hA k]; simp only [Conn.isOpen] at this ⊢
        by_cases hk : (c.key == k) = true <;> simp [hk] at this ⊢ <;> omega
      · have := upd (fun c => c.counted && c.backend == b) { c with pc := 4 }
        simp only [Conn.counted, hpc] at this
        rw [hC b]; simp only [Conn.counted] at this ⊢
        (try simp at this); omega
      · have := upd Conn.isOpen { c with pc := 4 }
        simp only [Conn.isOpen, hpc] at this
        have hl := List.length_erase_of_mem hmem
        have hpos : 0 < y.active.length := List.length_pos_of_mem hmem
        (try simp at this); (try simp only [Conn.isOpen]); omega
      · have := upd Conn.counted { c with pc := 4 }
        simp only [Conn.counted, hpc] at this
        rw [hCl]; (try simp at this); (try simp only [Conn.counted]); omega
    | n + 4 => exact ⟨hA, hC, hAl, hCl⟩

theorem sysRun_inv (y : Sys) (sched : List Nat) (h : SysInv y) : SysInv (sysRun y sched) := by
  unfold sysRun
  induction sched generalizing y with
  | nil => exact h
  | cons i t ih => exact ih (sysStep y i) (sysStep_inv y i h)

end Gate.C30
