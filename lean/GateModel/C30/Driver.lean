import GateModel.Base.Line
import GateModel.C30.Model
import GateModel.C30.Spec
/-
C30 driver (stateful).  Case lines (strings hex, `-` empty string, `_` empty list):
  reset
  lat <backend> <ns>                                   RecordLatency                       → ok
  open <routeHost> <backend>                           TrackConnection                     → slot=<n> active=<k>
  inc <backend>                                        IncrementConnection                 → slot=<n> active=<k>
  close <slot>                                         the slot's closure                  → active=<k>
  pick <strategy> <routeHost> <backends>               GetNextBackend                      → <backend> | member (random)
  att <strategy> <routeHost> <backends> <parse> <ok>   findRoute's nextBackend under the real tryBackends, dial
        succeeds iff the address is in <ok>; then TrackConnection like Forward    → dials=<list> res=<ok:a|fail|running>[ slot= active=]
  conc-open <n> <host> <backends>                      concurrent TrackConnection/close    → peak= mid= final= least=
  conc-rr <n> <k> <host> <backends>                    concurrent round-robin picks        → counts=<b=c,…> next=<b>
  conc-rand <n> <k> <backends>                         concurrent random picks             → member
  fopen <strategy> <host> <routeHost> <tok,…> <mode>    the REAL lite.Forward: tokens L<i> = live loopback backend i, X<j> = an
        address whose dial fails; mode ok | okempty | okbuf (buffered client bytes) | flusherr | flusherrdata (ReadBuffered
        reports a pending read error); observed once Forward has returned or is piping
        → end=<none|returned:L<i>|open:L<i>> active=<n> cnt=<c0,c1,c2>[ slot=<k>]
  fclose <slot>                                        close that forwarded connection, wait for Forward → active=<n> cnt=<…>
  conc-ctr <rounds> <host> <backends>                  counter-drift probe: per backend one connection held; each round
        closes it while the next one opens (all backends at once); counters read at every barrier
        → barriers=<R> open=1 counts=<b:min:max,…> active=<min>:<max> final=<b:count,…> factive=<n>
<parse>: `,`-separated `<addr>=!` | `<addr>=<parsed>:<port>` (Go's netutil.Parse / HostPort per address).
The model output is the REPAIRED model's; random attempts are accepted as traces (any order the model allows).
Verdict signatures: backend-tried-twice, attempt-never-ends, failed-before-all-tried, alien-backend,
dial-after-success, strategy-order, active-count, rr-lost-update, rng-panic, counter-drift, forward-leak.
-/
namespace Gate.C30
open Gate

def parseList (s : String) : Option (List Bytes) :=
  if s = "_" then some [] else (s.splitOn ",").mapM parseHex
def showList (xs : List Bytes) : String :=
  if xs.isEmpty then "_" else ",".intercalate (xs.map toHex)

def parseTable (s : String) : Option (List (Addr × Option (Addr × Nat))) :=
  if s = "_" then some [] else
  (s.splitOn ",").mapM fun e => match e.splitOn "=" with
    | [a, "!"] => do pure (← parseHex a, none)
    | [a, v] => match v.splitOn ":" with
      | [p, n] => do pure (← parseHex a, some (← parseHex p, ← n.toNat?))
      | _ => none
    | _ => none

def tableFn (t : List (Addr × Option (Addr × Nat))) : ParseFn :=
  fun a => ((t.find? (fun e => e.1 == a)).map (·.2)).join

inductive SlotKind where | track | inc
structure Slot where
  key : Bytes
  backend : Addr
  kind : SlotKind
  isOpen : Bool := true

structure DState where
  s : SState := {}
  slots : List Slot := []
  /-- the implementation's slots as reported by its own outputs (is it a TrackConnection slot?, open?) — the
      verdicts count open connections from this view, so they stay meaningful if the model has diverged -/
  islots : List (Bool × Bool) := []
  /-- forwarded connections (fopen/fclose): the model's slots and the implementation's as reported by its outputs -/
  fslots : List (Bytes × Addr × Bool) := []
  ifslots : List (Addr × Bool) := []
  defective : Bool := false

def openCount (d : DState) : Nat := (d.islots.filter (fun x => x.1 && x.2)).length

def keyOf (host : Bytes) (backend : Addr) : Bytes := host ++ [0] ++ backend

/-- state of the strategy after `t` calls within one attempt (only round-robin moves) -/
def bump (st : Strategy) (s : SState) (host : Bytes) (t : Nat) : SState :=
  match st with
  | .roundRobin => if t = 0 then s else setRR s host (rrIndex s host + t)
  | _ => s

def chooseOf (st : Strategy) (s : SState) (host : Bytes) : Nat → List Addr → Addr :=
  fun t l => (pick st (bump st s host t) host 0 l).1

def showOutcome : Outcome → String
  | .connected a => "ok:" ++ toHex a
  | .failed => "fail"
  | .running => "running"

def kv (s key : String) : Option String :=
  if s.startsWith key then some ((s.drop key.length).toString) else none

/-- trace acceptance for an attempt whose selection order the model does not determine (random) -/
def acceptTrace (remove : Addr → List Addr → List Addr) (okSet : List Addr) : List Addr → List Addr → String → Bool
  | remaining, [], res => (res = "fail" && remaining.isEmpty) || (res = "running" && !remaining.isEmpty)
  | remaining, d :: ds, res =>
    remaining.contains d &&
    (if okSet.contains d then ds.isEmpty && res = "ok:" ++ toHex d
     else acceptTrace remove okSet (remove d remaining) ds res)

def judgeAttempt (parse : ParseFn) (backends okSet dials : List Addr) (res : String) : String :=
  if res = "running" then "viol:attempt-never-ends"
  else if !(dials.all backends.contains) then "viol:alien-backend"
  else if !(noRepeat parse dials) then "viol:backend-tried-twice"
  else if (dials.dropLast.any okSet.contains) then "viol:dial-after-success"
  else if res = "fail" then
    (if dials.any okSet.contains then "viol:dial-after-success"
     else if allTried parse backends dials then "ok" else "viol:failed-before-all-tried")
  else match dials.getLast? with
    | some a => if res = "ok:" ++ toHex a && okSet.contains a then "ok" else "viol:dial-after-success"
    | none => "viol:failed-before-all-tried"

def stepAtt (d : DState) (c : Case) (stName : String) (host : Bytes) (backends : List Addr)
    (parse : ParseFn) (okSet : List Addr) : DState × String × String :=
  let st := Strategy.ofName stName
  let remove := if d.defective then removeSelectedDefective parse else removeSelected parse
  let words := c.impl.splitOn " "
  let implDials := (words.head?.bind (kv · "dials=")).bind parseList
  let implRes := ((words.drop 1).head?.bind (kv · "res=")).getD "?"
  -- model
  let (dials, outcome) :=
    if st = .random then
      (match implDials with
       | some ds => if acceptTrace remove okSet backends ds implRes then
                      (ds, if implRes = "fail" then Outcome.failed else if implRes = "running" then Outcome.running else
                           match ds.getLast? with | some a => Outcome.connected a | none => Outcome.failed)
                    else ([], Outcome.running)
       | none => ([], Outcome.running))
    else
      let fuel := if d.defective then 3 * backends.length + 6 else backends.length + 1
      attemptF remove (chooseOf st d.s host) (fun _ a => okSet.contains a) fuel 0 backends
  -- the harness' cap fires inside the dial callback, i.e. after one more strategy call than recorded dials
  let s1 := bump st d.s host (dials.length + (if outcome = .running then 1 else 0))
  let base := "dials=" ++ showList dials ++ " res=" ++ showOutcome outcome
  let (d', out) := match outcome with
    | .connected a =>
      let s2 := trackOpen s1 (keyOf host a) a
      let d2 := { d with s := s2, slots := d.slots ++ [({ key := keyOf host a, backend := a, kind := .track } : Slot)] }
      (d2, base ++ " slot=" ++ toString d.slots.length ++ " active=" ++ toString (activeConnections s2))
    | _ => ({ d with s := s1 }, base)
  -- verdict on the implementation's output
  let verdict := match implDials with
    | some ds =>
      let v := judgeAttempt parse backends okSet ds implRes
      if v != "ok" then v
      else match (words.drop 3).head?.bind (kv · "active=") with
        | some a => if a.toNat? = some (openCount d + 1) then "ok" else "viol:active-count"
        | none => if implRes.startsWith "ok:" then "viol:active-count" else "ok"
    | none => "viol:attempt-never-ends"
  let d'' := if implRes.startsWith "ok:" then { d' with islots := d.islots ++ [(true, true)] } else { d' with islots := d.islots }
  (d'', out, verdict)

def judgePick (st : Strategy) (s : SState) (host : Bytes) (l : List Addr) (impl : String) : String :=
  match st with
  | .random => if impl = "member" then "ok" else "viol:alien-backend"
  | .sequential => if some impl = l.head?.map toHex then "ok" else "viol:strategy-order"
  | .roundRobin => if some impl = (l[rrIndex s host % l.length]?).map toHex then "ok" else "viol:strategy-order"
  | .leastConnections =>
    -- the empty address is never selectable unless first (quirk mirrored by the model): not judged
    if l.any (·.isEmpty) then "-" else
    match parseHex impl with
    | some r => if isFirstMin (connCount s) l r then "ok" else "viol:strategy-order"
    | none => "viol:strategy-order"
  | .lowestLatency =>
    if l.any (·.isEmpty) then "-" else
    match parseHex impl with
    | some r =>
      (match l.find? (fun b => (latencyOf s b).isNone) with
       | some b => if b == r then "ok" else "viol:strategy-order"
       | none =>
         -- a measured latency of 0 ns is outside the stated domain
         if l.any (fun b => latencyOf s b == some 0) then "-"
         else if isFirstMin (fun b => (latencyOf s b).getD 0) l r then "ok" else "viol:strategy-order")
    | none => "viol:strategy-order"

def rrCounts (n : Nat) (l : List Addr) : List (Addr × Nat) :=
  let picks := (List.range n).map (fun i => l.getD (i % l.length) [])
  let keys := picks.eraseDups
  keys.map (fun b => (b, picks.count b))

def insertSorted (x : String) : List String → List String
  | [] => [x]
  | y :: t => if x < y then x :: y :: t else y :: insertSorted x t
def sortStrings (xs : List String) : List String := xs.foldr insertSorted []

/-- counter-drift probe on the model: one held connection per backend; a round closes it while the next opens
    (one fixed interleaving — `counts_exact` / `barrier_counts` say every interleaving gives the same tables).
    Returns the counter table and ActiveConnections at the barrier after `rounds` (≤ 2 simulated: all barriers are
    equal) rounds, and both after everything was closed. -/
def ctrProbeModel (host : Bytes) (l : List Addr) (rounds : Nat) : List Nat × Nat × List Nat × Nat :=
  let n := l.length
  let mk := fun (b : Addr) => ({ key := keyOf host b, backend := b } : Conn)
  let y0 := sysRun { conns := l.map mk } ((List.range n) ++ (List.range n))
  let round := fun (y : Sys) =>
    -- live connections are the last n; append n new ones; interleave old.close₁, new.open₁, new.open₂, old.close₂
    let base := y.conns.length - n
    let y1 : Sys := { y with conns := y.conns ++ l.map mk }
    let sched := (List.range n).flatMap (fun i => [base + i, base + n + i, base + n + i, base + i])
    sysRun y1 sched
  let yb := (List.range (min rounds 2)).foldl (fun y _ => round y) y0
  let base := yb.conns.length - n
  let yf := sysRun yb (((List.range n).map (· + base)) ++ ((List.range n).map (· + base)))
  (l.map (fun b => yb.counters.count b), yb.active.length, l.map (fun b => yf.counters.count b), yf.active.length)

def judgeCtr (nb : Nat) (impl : String) : String :=
  let w := impl.splitOn " "
  let get := fun (k : String) => (w.filterMap (kv · k)).head?
  match get "counts=", get "active=", get "final=", get "factive=", get "open=" with
  | some cs, some act, some fin, some fa, some k =>
    let kN := k.toNat?.getD 1
    let okCounts := (cs.splitOn ",").all (fun e => match e.splitOn ":" with
      | [_, mn, mx] => mn.toNat? = some kN && mx.toNat? = some kN
      | _ => false)
    let okFinal := (fin.splitOn ",").all (fun e => match e.splitOn ":" with
      | [_, v] => v.toNat? = some 0
      | _ => false)
    let okAct := (match act.splitOn ":" with
      | [mn, mx] => mn.toNat? = some (nb * kN) && mx.toNat? = some (nb * kN)
      | _ => false) && fa.toNat? = some 0
    if !okCounts || !okFinal then "viol:counter-drift" else if !okAct then "viol:active-count" else "ok"
  | _, _, _, _, _ => "viol:counter-drift"

/-! ### the real Forward (fopen / fclose) -/

def tokBytes (t : String) : Addr := t.toList.map (fun ch => UInt8.ofNat ch.toNat)
def isLive (a : Addr) : Bool := a.head? == some 76          -- 'L'
def tokParse : ParseFn := fun a => if isLive a then some (a, 1) else none
def liveToks : List Addr := [tokBytes "L0", tokBytes "L1", tokBytes "L2"]
def tokName (a : Addr) : String := String.ofList (a.map (fun b => Char.ofNat b.toNat))

def showCounts (s : SState) : String :=
  "active=" ++ toString (activeConnections s) ++ " cnt=" ++ ",".intercalate (liveToks.map (fun t => toString (connCount s t)))

/-- the spec on the implementation's report: `ActiveConnections()` = number of forwarded connections currently open,
    each backend's counter = number of those open to it -/
def judgeForward (open_ : List Addr) (impl : String) : String :=
  let w := impl.splitOn " "
  let get := fun (k : String) => (w.filterMap (kv · k)).head?
  match get "active=", get "cnt=" with
  | some a, some cs =>
    let want := liveToks.map (fun t => open_.count t)
    let got := (cs.splitOn ",").map (fun x => x.toNat?.getD 0)
    let av := a.toNat?.getD 0
    if av > open_.length || (got.zip want).any (fun p => p.1 > p.2) then "viol:forward-leak"
    else if av < open_.length || got != want then "viol:active-count"
    else "ok"
  | _, _ => "viol:active-count"

def stepFopen (d : DState) (c : Case) (stn : String) (host routeHost : Bytes) (toks : List Addr) (mode : String) :
    DState × String × String :=
  let st := Strategy.ofName stn
  let v : FwdVariant := { trackBeforeFlush := d.defective }
  let key := fun (b : Addr) => keyOf routeHost b
  let (fend, s1) : FwdEnd × SState :=
    if host != routeHost then (.noRoute, d.s) else
    let (dials, outcome) := attemptF (removeSelected tokParse) (chooseOf st d.s routeHost) (fun _ a => isLive a)
      (toks.length + 1) 0 toks
    let s1 := bump st d.s routeHost dials.length
    match outcome with
    | .connected a => (if mode.startsWith "flusherr" then .flushFailed a else .piped a, s1)
    | _ => (.allDialsFailed, s1)
  let s2 := forwardDuring v s1 key fend
  let (d2, out) := match fend with
    | .piped a =>
      ({ d with s := s2, fslots := d.fslots ++ [(key a, a, true)] },
        "end=open:" ++ tokName a ++ " " ++ showCounts s2 ++ " slot=" ++ toString d.fslots.length)
    | .flushFailed a =>
      let s3 := forwardAfter v s1 key fend
      ({ d with s := s3 }, "end=returned:" ++ tokName a ++ " " ++ showCounts s3)
    | _ => ({ d with s := s2 }, "end=none " ++ showCounts s2)
  -- implementation's view
  let w := c.impl.splitOn " "
  let iend := ((w.filterMap (kv · "end=")).head?).getD ""
  let islots2 := match kv iend "open:" with
    | some t => d.ifslots ++ [(tokBytes t, true)]
    | none => d.ifslots
  let open_ := (islots2.filter (·.2)).map (·.1)
  ({ d2 with ifslots := islots2 }, out, judgeForward open_ c.impl)

def stepFclose (d : DState) (c : Case) (i : Nat) : DState × String × String :=
  let d1 := match d.fslots[i]? with
    | some (k, a, true) => { d with s := trackClose d.s k a, fslots := d.fslots.set i (k, a, false) }
    | _ => d
  let islots2 := match d.ifslots[i]? with
    | some (a, _) => d.ifslots.set i (a, false)
    | none => d.ifslots
  let open_ := (islots2.filter (·.2)).map (·.1)
  ({ d1 with ifslots := islots2 }, showCounts d1.s, judgeForward open_ c.impl)

def step (d : DState) (c : Case) : DState × String × String :=
  match c.op, c.args with
  | "reset", _ => ({ defective := d.defective }, "ok", "-")
  | "lat", [b, ns] => match parseHex b, ns.toNat? with
    | some b, some v => ({ d with s := { d.s with latency := (b, v) :: d.s.latency } }, "ok", "-")
    | _, _ => (d, "bad-op", "-")
  | "open", [h, b] => match parseHex h, parseHex b with
    | some h, some b =>
      let s2 := trackOpen d.s (keyOf h b) b
      let out := "slot=" ++ toString d.slots.length ++ " active=" ++ toString (activeConnections s2)
      let want := "slot=" ++ toString d.islots.length ++ " active=" ++ toString (openCount d + 1)
      ({ d with s := s2, slots := d.slots ++ [({ key := keyOf h b, backend := b, kind := .track } : Slot)],
                islots := d.islots ++ [(true, true)] }, out,
        if c.impl = want then "ok" else "viol:active-count")
    | _, _ => (d, "bad-op", "-")
  | "inc", [b] => match parseHex b with
    | some b =>
      let s2 := { d.s with counters := b :: d.s.counters }
      let out := "slot=" ++ toString d.slots.length ++ " active=" ++ toString (activeConnections s2)
      let want := "slot=" ++ toString d.islots.length ++ " active=" ++ toString (openCount d)
      ({ d with s := s2, slots := d.slots ++ [({ key := [], backend := b, kind := .inc } : Slot)],
                islots := d.islots ++ [(false, true)] }, out,
        if c.impl = want then "ok" else "viol:active-count")
    | none => (d, "bad-op", "-")
  | "close", [n] => match n.toNat? with
    | some i =>
      if c.impl = "noslot" then (d, (match d.slots[i]? with | some sl => if sl.isOpen then "active=?" else "noslot" | none => "noslot"), "-") else
      match d.slots[i]? with
      | some sl =>
        if !sl.isOpen then (d, "noslot", "-") else
        let s2 := match sl.kind with
          | .track => trackClose d.s sl.key sl.backend
          | .inc => { d.s with counters := d.s.counters.erase sl.backend }
        let d2 := { d with s := s2, slots := d.slots.set i { sl with isOpen := false },
                           islots := d.islots.set i ((d.islots.getD i (false, false)).1, false) }
        ("active=" ++ toString (activeConnections s2) |> fun out =>
          (d2, out, if c.impl = "active=" ++ toString (openCount d2) then "ok" else "viol:active-count"))
      | none =>
        let d2 := { d with islots := d.islots.set i ((d.islots.getD i (false, false)).1, false) }
        (d2, "noslot", if c.impl = "active=" ++ toString (openCount d2) then "ok" else "viol:active-count")
    | none => (d, "bad-op", "-")
  | "pick", [stn, h, bs] => match parseHex h, parseList bs with
    | some h, some l =>
      if l.isEmpty then (d, "none", "-") else
      let st := Strategy.ofName stn
      let (r, s2) := pick st d.s h 0 l
      ({ d with s := s2 }, (if st = .random then "member" else toHex r), judgePick st d.s h l c.impl)
    | _, _ => (d, "bad-op", "-")
  | "att", [stn, h, bs, pt, ok] => match parseHex h, parseList bs, parseTable pt, parseList ok with
    | some h, some l, some t, some okSet => stepAtt d c stn h l (tableFn t) okSet
    | _, _, _, _ => (d, "bad-op", "-")
  | "conc-open", [n, h, bs] => match n.toNat?, parseHex h, parseList bs with
    | some n, some h, some l =>
      -- the model runs one fixed interleaving; `counts_exact` says every interleaving gives the same numbers
      let conns := (List.range n).map (fun i => ({ key := keyOf h (l.getD (i % l.length) []), backend := l.getD (i % l.length) [] } : Conn))
      let y1 := sysRun { conns := conns } ((List.range n) ++ (List.range n))
      let peak := y1.active.length
      let extra := (List.range (n / 2)).map (fun i => ({ key := keyOf h (l.getD ((i + 1) % l.length) []), backend := l.getD ((i + 1) % l.length) [] } : Conn))
      let y2 := sysRun { y1 with conns := y1.conns ++ extra }
        (((List.range (n / 2)).map (· + n)) ++ ((List.range (n / 2)).map (· + n)) ++ (List.range n) ++ (List.range n))
      let mid := y2.active.length
      let y3 := sysRun y2 (((List.range (n / 2)).map (· + n)) ++ ((List.range (n / 2)).map (· + n)))
      let least := leastPick (fun b => y3.counters.count b) l
      let out := "peak=" ++ toString peak ++ " mid=" ++ toString mid ++ " final=" ++ toString y3.active.length ++
        " least=" ++ toHex least
      let want := "peak=" ++ toString n ++ " mid=" ++ toString (n / 2) ++ " final=0 least=" ++ toHex (l.headD [])
      (d, out, if l.any (·.isEmpty) then "-" else if c.impl = want then "ok" else "viol:active-count")
    | _, _, _ => (d, "bad-op", "-")
  | "conc-rr", [n, k, _h, bs] => match n.toNat?, k.toNat?, parseList bs with
    | some n, some k, some l =>
      if l.isEmpty then (d, "bad-op", "-") else
      let cs := rrCounts (n * k) l
      let parts := (sortStrings (cs.map (fun p => toHex p.1))).map (fun k =>
        k ++ "=" ++ toString (((cs.find? (fun p => toHex p.1 == k)).map (·.2)).getD 0))
      let out := "counts=" ++ ",".intercalate parts ++ " next=" ++ toHex (l.getD ((n * k) % l.length) [])
      (d, out, if c.impl = out then "ok" else if c.impl = "panic" then "viol:rng-panic" else "viol:rr-lost-update")
    | _, _, _ => (d, "bad-op", "-")
  | "fopen", [stn, h, rh, toks, mode] => match parseHex h, parseHex rh with
    | some h, some rh => stepFopen d c stn h rh ((toks.splitOn ",").map tokBytes) mode
    | _, _ => (d, "bad-op", "-")
  | "fclose", [n] => match n.toNat? with
    | some i => stepFclose d c i
    | none => (d, "bad-op", "-")
  | "conc-ctr", [r, h, bs] => match r.toNat?, parseHex h, parseList bs with
    | some rounds, some h, some l =>
      if l.isEmpty then (d, "bad-op", "-") else
      let (tb, ab, tf, af) := ctrProbeModel h l rounds
      let pair := fun (xs : List Nat) (both : Bool) => ",".intercalate ((l.zip xs).map (fun p =>
        toHex p.1 ++ ":" ++ toString p.2 ++ (if both then ":" ++ toString p.2 else "")))
      let out := "barriers=" ++ toString rounds ++ " open=1 counts=" ++ pair tb true ++ " active=" ++ toString ab ++ ":" ++
        toString ab ++ " final=" ++ pair tf false ++ " factive=" ++ toString af
      (d, out, judgeCtr l.length c.impl)
    | _, _, _ => (d, "bad-op", "-")
  | "conc-rand", _ => (d, "member", if c.impl = "member" then "ok" else if c.impl = "panic" then "viol:rng-panic" else "viol:alien-backend")
  | _, _ => (d, "bad-op", "-")

end Gate.C30

def main : IO Unit := do
  let defective := (← IO.getEnv "C30_VARIANT") == some "defective"
  Gate.runDriver ({ defective := defective } : Gate.C30.DState) Gate.C30.step
