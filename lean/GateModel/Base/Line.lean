import GateModel.Base.Bytes
/-
Line protocol shared by every property driver.

stdin : one case per line:   `<op> <arg> <arg> …<TAB><impl-output>`
stdout: one line per case:   `<model-output><TAB><spec-verdict>`

`spec-verdict` is `ok`, `-` (nothing to judge) or `viol:<signature>`: the executable spec evaluated on
the IMPLEMENTATION's output, so that a disagreement can be classified as a real failing input.
-/
namespace Gate

structure Case where
  op   : String
  args : List String
  impl : String

def parseCase (line : String) : Case :=
  let line := (line.dropEndWhile (fun c => c = '\n' || c = '\r')).toString
  let (l, impl) := match line.splitOn "\t" with
    | [a] => (a, "")
    | a :: b :: _ => (a, b)
    | [] => ("", "")
  match l.splitOn " " with
  | [] => ⟨"", [], impl⟩
  | o :: as => ⟨o, as, impl⟩

/-- Generic stdin/stdout loop for a (possibly stateful) driver. -/
partial def driverLoop {σ : Type} (step : σ → Case → σ × String × String)
    (h : IO.FS.Stream) (out : IO.FS.Stream) (s : σ) : IO Unit := do
  let line ← h.getLine
  if line.isEmpty then
    out.flush
    return ()
  let c := parseCase line
  let (s', m, v) := step s c
  out.putStrLn (m ++ "\t" ++ v)
  driverLoop step h out s'

def runDriver {σ : Type} (init : σ) (step : σ → Case → σ × String × String) : IO Unit := do
  let i ← IO.getStdin
  let o ← IO.getStdout
  driverLoop step i o init

/-- Stateless convenience wrapper. -/
def runPureDriver (step : Case → String × String) : IO Unit :=
  runDriver () (fun _ c => let (m, v) := step c; ((), m, v))

def rdOut {α} (show_ : α → String) : Rd α → String
  | .ok (v, rest) => "ok " ++ show_ v ++ " rest=" ++ toString rest.length
  | .error e => "err " ++ e.toString

end Gate
