/-
Base: byte strings, the two Go read primitives, hex.  Core Lean only (no Mathlib) so that
drivers can be compiled with `lean_exe`.
-/
namespace Gate

abbrev Bytes := List UInt8

/-- Error classes compared by the correspondence (never messages). -/
inductive Err where
  | eof        -- io.EOF / io.ErrUnexpectedEOF: ran out of input
  | tooBig     -- VarInt longer than 5 bytes
  | negative   -- negative length prefix
  | tooLong    -- length prefix above the permitted maximum
  | invalid    -- value-level rejection (bad key, bad utf8 …)
  | other
  deriving DecidableEq, Repr, Inhabited

def Err.toString : Err → String
  | .eof => "eof" | .tooBig => "too-big" | .negative => "negative"
  | .tooLong => "too-long" | .invalid => "invalid" | .other => "other"

instance : ToString Err := ⟨Err.toString⟩

/-- Result of a read: value and remaining input. -/
abbrev Rd (α : Type) := Except Err (α × Bytes)

/-- `io.ReadFull(rd, buf[:n])` on an in-memory reader: all `n` bytes or an error. -/
def readFull (n : Nat) (bs : Bytes) : Rd Bytes :=
  if n ≤ bs.length then .ok (bs.take n, bs.drop n) else .error .eof

/-- `rd.Read(buf[:n])` on a `bytes.Reader`/`bytes.Buffer` with a zeroed `buf`:
    short reads succeed with a nil error and leave the tail of `buf` zero;
    only `n > 0` with nothing left reports EOF. -/
def readSome (n : Nat) (bs : Bytes) : Rd Bytes :=
  if n = 0 then .ok ([], bs)
  else if bs.isEmpty then .error .eof
  else .ok (bs.take n ++ List.replicate (n - bs.length) 0, bs.drop n)

/-- `ReadByte` on an `io.ByteReader`. -/
def readByte : Bytes → Rd UInt8
  | [] => .error .eof
  | b :: r => .ok (b, r)

/-! ### hex -/

def hexDigitVal (c : Char) : Option Nat :=
  if '0' ≤ c ∧ c ≤ '9' then some (c.toNat - 48)
  else if 'a' ≤ c ∧ c ≤ 'f' then some (c.toNat - 87)
  else if 'A' ≤ c ∧ c ≤ 'F' then some (c.toNat - 55)
  else none

def parseHexChars : List Char → Option Bytes
  | [] => some []
  | a :: b :: r => do
    let x ← hexDigitVal a
    let y ← hexDigitVal b
    let t ← parseHexChars r
    pure (UInt8.ofNat (x * 16 + y) :: t)
  | _ => none

/-- `-` denotes the empty byte string on the wire of the line protocol. -/
def parseHex (s : String) : Option Bytes :=
  if s = "-" then some [] else parseHexChars s.toList

def hexChar (n : Nat) : Char :=
  if n < 10 then Char.ofNat (48 + n) else Char.ofNat (87 + n)

def toHex (bs : Bytes) : String :=
  if bs.isEmpty then "-" else
  String.ofList (bs.foldr (fun b acc => hexChar (b.toNat / 16) :: hexChar (b.toNat % 16) :: acc) [])

/-- big-endian natural number of a byte string -/
def beNat : Bytes → Nat
  | bs => bs.foldl (fun acc b => acc * 256 + b.toNat) 0

/-- `n` big-endian bytes of `v` (truncating like Go's `PutUintN` after a conversion). -/
def beBytes : Nat → Nat → Bytes
  | 0, _ => []
  | n + 1, v => beBytes n (v / 256) ++ [UInt8.ofNat (v % 256)]

end Gate
