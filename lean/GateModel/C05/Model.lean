import GateModel.C04.Model
import GateModel.C04.Packets
/-
C05 — cost component of the schema interpreter of C04.

`Schema.alloc s bs` sums the allocations the Go decoder performs WITH A SIZE TAKEN FROM THE WIRE while decoding
`bs` with schema `s`:
  * `make([]byte, n)` for strings / byte arrays / keys (after the length checks, BEFORE `io.ReadFull`) — `Prim.alloc`,
  * the pre-allocation of a collection, in element slots: `min(n, MaxPreAllocSize)` (or `n ≤ max` where the decoder has
    its own maximum),
  * the bytes a blob reader buffers.
Allocations of a fixed size per decoded field (structs, pointers) are not counted: they are bounded by a constant
times the number of fields decoded, which is bounded by the bytes consumed for productive schemas.

Static quantities of a schema (all computable because `sw` has finitely many cases):
  `minLen`     lower bound of the bytes a successful decode consumes
  `depth`      nesting depth of arrays
  `K`          the part of the allocation that is not backed by input bytes: the largest leaf cap plus one collection
               pre-allocation cap per array nesting level
  `productive` every array element consumes at least one byte (otherwise an element count alone could drive 2^31
               iterations: no hang, no pre-allocation per byte)
-/
namespace Gate.C05
open Gate Gate.C03 Gate.C04

def maxOver (n : Nat) (f : Fin n → Nat) : Nat := (List.finRange n).foldl (fun a i => max a (f i)) 0
def allOver (n : Nat) (f : Fin n → Bool) : Bool := (List.finRange n).all f

def primMinLen : Prim → Nat
  | .varint => 1
  | .sint n => n
  | .uint n => n
  | .bool => 1
  | .constBool _ => 1
  | .uuid => 16
  | .uuidInts => 16
  | .str _ => 1
  | .strNE _ => 1
  | .bytes _ => 1
  | .bytes17 _ => 2
  | .fixed n => n
  | .key => 1
  | .minKey => 1
  | .blob _ => 0

def minLen : Schema → Nat
  | .unit => 0
  | .fail => 0
  | .prim p => primMinLen p
  | .seq a b => minLen a + minLen b
  | .opt _ _ => 1
  | .optD _ _ => 1
  | .arr _ _ _ => 1
  | .sw tag _ _ _ => primMinLen tag

def depth : Schema → Nat
  | .unit => 0
  | .fail => 0
  | .prim _ => 0
  | .seq a b => max (depth a) (depth b)
  | .opt _ s => depth s
  | .optD _ s => depth s
  | .arr _ _ s => depth s + 1
  | .sw _ n body dflt => max (maxOver n fun i => depth (body i)) (depth dflt)

def maxPre : Nat := Gate.C04.maxPre

/-- slots pre-allocated for a collection of claimed size `n` -/
def prealloc (max : Option Nat) (n : Nat) : Nat := min n (max.getD maxPre)

def K : Schema → Nat
  | .unit => 0
  | .fail => 0
  | .prim p => p.cap
  | .seq a b => max (K a) (K b)
  | .opt _ s => K s
  | .optD _ s => K s
  | .arr _ max s => max.getD maxPre + K s
  | .sw tag n body dflt => max tag.cap (max (maxOver n fun i => K (body i)) (K dflt))

def productive : Schema → Bool
  | .unit => true
  | .fail => true
  | .prim _ => true
  | .seq a b => productive a && productive b
  | .opt _ s => productive s
  | .optD _ s => productive s
  | .arr _ _ s => decide (1 ≤ minLen s) && productive s
  | .sw _ n body dflt => (allOver n fun i => productive (body i)) && productive dflt

/-- allocations of the element loop `for i := 0; i < n; i++ { decode one }` -/
def allocN (al : Bytes → Nat) (dec : Bytes → Rd Val) : Nat → Bytes → Nat
  | 0, _ => 0
  | n + 1, bs => al bs + (match dec bs with | .ok (_, r) => allocN al dec n r | .error _ => 0)

def alloc : Schema → Bytes → Nat
  | .unit, _ => 0
  | .fail, _ => 0
  | .prim p, bs => p.alloc bs
  | .seq a b, bs => alloc a bs + (match a.decode bs with | .ok (_, r) => alloc b r | .error _ => 0)
  | .opt present s, bs =>
    match readBool bs with
    | .ok (b, r) => if b = present then alloc s r else 0
    | .error _ => 0
  | .optD _ s, bs =>
    match readBool bs with
    | .ok (b, r) => if b then alloc s r else 0
    | .error _ => 0
  | .arr _ max s, bs =>
    match readVarInt bs with
    | .error _ => 0
    | .ok (n, r) =>
      if n < 0 then 0 else if overMax max n then 0
      else prealloc max n.toNat + allocN (alloc s) s.decode n.toNat r
  | .sw tag n body dflt, bs =>
    tag.alloc bs +
      (match tag.dec bs with
       | .error _ => 0
       | .ok (t, r) =>
         if h : 0 ≤ t.getInt ∧ t.getInt.toNat < n then alloc (body ⟨t.getInt.toNat, h.2⟩) r else alloc dflt r)

/-- packet level: the tail `io.ReadAll` buffers the remaining bytes -/
def palloc (ps : PSchema) (bs : Bytes) : Nat :=
  match ps.tail with
  | .none => alloc ps.body bs
  | .rest _ => alloc ps.body bs + (match ps.body.decode bs with | .ok (_, r) => r.length | .error _ => 0)

/-! ### panic-to-error conversion around Decode (`util.RecoverFunc`, used by `codec.Decoder.decodePayload`)

What a decoder body can do, as far as the process is concerned: return, panic with a value that is an `error`
(the `util.PanicReader` helpers panic with the reader's error; run-time errors such as a negative `make` size or an
index out of range are `runtime.Error`s, which are `error`s), or panic with a value that is not an `error`. -/

inductive BodyOutcome (α : Type) where
  | returned (r : α)
  | panicError          -- panic(err) with err an error
  | panicOther          -- panic(x) with x not an error

inductive Outcome (α : Type) where
  | result (r : α)      -- Decode returned a packet or an error
  | errorValue          -- the panic was converted into an error return
  | escapes             -- the panic propagates out of Decode (it would terminate the connection goroutine/process)
  deriving DecidableEq

/-- `RecoverFunc`: `defer Recover(&err)`; `Recover` re-panics what is not an error -/
def recoverFunc {α} : BodyOutcome α → Outcome α
  | .returned r => .result r
  | .panicError => .errorValue
  | .panicOther => .escapes

/-- how the model's reader errors arise in the Go bodies: plain `return err`, or `panic(err)` in the PanicReader style —
    never a panic with a non-error value -/
def bodyOutcome (panicStyle : Bool) (r : Rd Val) : BodyOutcome (Rd Val) :=
  match r with
  | .ok x => .returned (.ok x)
  | .error e => if panicStyle then .panicError else .returned (.error e)

end Gate.C05
