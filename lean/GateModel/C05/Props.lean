import GateModel.C05.ShapesPackets
import GateModel.C05.Concurrent
import GateModel.Gen.C05
/-
C05 — Decoding untrusted packets never crashes or blows up memory.

The model is the schema interpreter of C04 (`Schema.decode`, a total Lean function) with the cost component of
`GateModel.C05.Model`.  Theorems, for ALL payload bytes (no bound on the payload length, on claimed lengths/counts,
or on nesting):

  * `decode_total`            decoding finishes with a value or an error — termination is kernel-checked (the
                              interpreter is structurally recursive; element loops recurse on the claimed count)
  * `decode_never_escapes`    the panic-to-error conversion around Decode never lets a panic escape for the ways the
                              model's decoders fail (error returns and `panic(err)` of the PanicReader helpers)
  * `decode_progress`         a successful decode consumed at least `minLen` bytes and never reads past the payload
  * `alloc_linear`            wire-sized allocations ≤ (array depth + 1) · |payload| + K, with K the static cap of the schema
  * `alloc_backed_on_success` … and on success they are backed by the bytes actually consumed
  * `registered_schemas_bounded` for every modelled packet type in EVERY context (any protocol number, direction,
                              registry, id): the schema is productive, its array depth is ≤ 3 and K ≤ 2 MiB + 96 KiB
  * `registered_alloc_bound`  hence ≤ 5 · |payload| + 2 MiB + 96 KiB for every one of them

  * `concurrent_read_only_never_faults` goroutines that only read the shared tables never reach the runtime's
                              unrecoverable concurrent-map fault, under any schedule

Process survival, real allocation and real termination of the Go decoders are runtime facts: they are observed by the
hostile-payload run of the harness (every registered (registry, direction, protocol, id), unmodelled types included),
not proved.
-/
namespace Gate.C05.Props
open Gate Gate.C03 Gate.C04 Gate.C05

/-! ### totality and the panic-to-error conversion -/

theorem decode_total (ps : PSchema) (bs : Bytes) :
    (∃ v r, ps.decode bs = .ok (v, r)) ∨ (∃ e, ps.decode bs = .error e) := by
  cases h : ps.decode bs with
  | ok p => exact .inl ⟨p.1, p.2, rfl⟩
  | error e => exact .inr ⟨e, rfl⟩

/-- whatever the decoder's result and whichever of the two error styles the Go body uses, `RecoverFunc` yields a
    result or an error value — never an escaping panic -/
theorem decode_never_escapes (panicStyle : Bool) (ps : PSchema) (bs : Bytes) :
    recoverFunc (bodyOutcome panicStyle (ps.decode bs)) ≠ .escapes := by
  unfold bodyOutcome
  cases ps.decode bs with
  | ok p => simp [recoverFunc]
  | error e => cases panicStyle <;> simp [recoverFunc]

/-- the only way past `RecoverFunc` is a panic whose value is not an `error` -/
theorem recover_escapes_iff {α} (o : BodyOutcome α) : recoverFunc o = .escapes ↔ o = .panicOther := by
  cases o <;> simp [recoverFunc]

/-! ### consumption and allocation -/

theorem decode_progress (s : Schema) (hp : productive s = true) (bs : Bytes) (v : Val) (r : Bytes)
    (h : s.decode bs = .ok (v, r)) : r.length + minLen s ≤ bs.length :=
  ((schema_cost s hp bs).2 v r h).1

theorem alloc_linear (s : Schema) (hp : productive s = true) (bs : Bytes) :
    alloc s bs ≤ (depth s + 1) * bs.length + K s :=
  (schema_cost s hp bs).1

theorem alloc_backed_on_success (s : Schema) (hp : productive s = true) (bs : Bytes) (v : Val) (r : Bytes)
    (h : s.decode bs = .ok (v, r)) : alloc s bs ≤ (depth s + 1) * (bs.length - r.length) :=
  ((schema_cost s hp bs).2 v r h).2

/-- whole packets: a tail (`io.ReadAll`) buffers the remaining bytes once more -/
theorem packet_alloc_linear (ps : PSchema) (hp : productive ps.body = true) (bs : Bytes) :
    palloc ps bs ≤ (depth ps.body + 2) * bs.length + K ps.body := by
  have h1 := alloc_linear ps.body hp bs
  have hexp : (depth ps.body + 2) * bs.length = (depth ps.body + 1) * bs.length + bs.length := by
    rw [show depth ps.body + 2 = depth ps.body + 1 + 1 by omega, Nat.add_mul]; omega
  unfold palloc
  cases ps.tail with
  | none => simp only; omega
  | rest m =>
    simp only
    cases hd : ps.body.decode bs with
    | error e => simp only; omega
    | ok p =>
      obtain ⟨v, r⟩ := p
      have := decode_progress ps.body hp bs v r hd
      simp only; omega

/-! ### every modelled packet schema is productive and capped — in EVERY context

`all_good` (ShapesPackets.lean) is proved per type by following the structure of the schema; the conditions on the
protocol number stay opaque, so the statement holds for every protocol number, direction, registry and packet id. -/

/-- 2 MiB (largest reader limit: the 1.7 byte-array limit 2 097 050) + one capped pre-allocation per array level -/
def capBound : Nat := 2 ^ 21 + 3 * 32768

theorem registered_schemas_bounded (name : String) (hn : name ∈ fullTypes ++ opaqueTypes) (c : Ctx) :
    ∃ ps, schemaOf name c = some ps ∧ productive ps.body = true ∧ depth ps.body ≤ 3 ∧ K ps.body ≤ capBound := by
  obtain ⟨ps, hs, hg⟩ := all_good name hn c
  refine ⟨ps, hs, hg.prod, hg.dep, ?_⟩
  have h := hg.cap
  have hm : maxPre = 32768 := by decide
  unfold capBound
  unfold L at h
  rw [hm] at h
  omega

/-- the bound of the property statement for every modelled packet in every context: linear in the payload plus a
    fixed cap -/
theorem registered_alloc_bound (name : String) (hn : name ∈ fullTypes ++ opaqueTypes) (c : Ctx) (bs : Bytes) :
    ∃ ps, schemaOf name c = some ps ∧ palloc ps bs ≤ 5 * bs.length + capBound := by
  obtain ⟨ps, hs, hp, hdp, hk⟩ := registered_schemas_bounded name hn c
  refine ⟨ps, hs, ?_⟩
  have h1 := packet_alloc_linear ps hp bs
  have h2 : (depth ps.body + 2) * bs.length ≤ 5 * bs.length := Nat.mul_le_mul_right _ (by omega)
  omega

/-- no modelled decoder can spin on a claimed count: every array element consumes at least one byte, so a decode
    that succeeds performed at most |payload| element iterations per array level (`decode_progress`), and one that
    fails stops at the first element that does not fit -/
theorem registered_decode_progress (name : String) (hn : name ∈ fullTypes ++ opaqueTypes) (c : Ctx) (bs : Bytes)
    (ps : PSchema) (hs : schemaOf name c = some ps) (v : Val) (r : Bytes) (h : ps.body.decode bs = .ok (v, r)) :
    r.length + minLen ps.body ≤ bs.length := by
  obtain ⟨ps', hs', hp, _, _⟩ := registered_schemas_bounded name hn c
  rw [hs] at hs'; cases hs'
  exact decode_progress ps.body hp bs v r h

/-! ### source shape (regenerated facts) -/

/-- in a call sequence `a` occurs, and before the first `b` -/
def before (a b : String) (cs : List String) : Bool := cs.idxOf a < cs.idxOf b && cs.idxOf a < cs.length

open Gate.Gen.C05 in
/-- `decodePayload` runs the packet's Decode inside the function literal handed to `util.RecoverFunc`; `Recover`
    recovers and re-panics (only what is not an error — modelled by `recoverFunc`) -/
theorem src_decode_is_recovered :
    before "func:{" "ctx.Packet.Decode" decodePayloadCalls ∧ before "ctx.Packet.Decode" "}" decodePayloadCalls ∧
    before "}" "util.RecoverFunc" decodePayloadCalls ∧ recoverCalls = ["recover", "panic"] ∧
    recoverFuncCalls = ["defer:Recover", "fn", "return"] := by decide

open Gate.Gen.C05 in
/-- collection readers cap their pre-allocation with `min(…)` before `make` (TagsUpdate after the C05 fix) -/
theorem src_preallocs_are_capped :
    before "min" "make" tagsUpdateDecodeCalls ∧ before "min" "make" customReportDetailsDecodeCalls ∧
    before "min" "make" knownPacksDecodeCalls ∧ before "min" "make" playerInfoRemoveDecodeCalls ∧
    before "min" "make" availableCommandsDecodeCalls ∧ before "min" "make" readStringArrayCalls ∧
    before "min" "make" readVarIntArrayCalls ∧ before "min" "make" readKeyArrayCalls ∧
    before "min" "make" readPropertiesCalls ∧
    (tagsUpdateDecodeCalls.filter (· == "make")).length = (tagsUpdateDecodeCalls.filter (· == "min")).length := by
  decide

/-- the model's pre-allocation cap is the regenerated constant -/
theorem src_max_prealloc : maxPre = 32768 := by decide

/-! ### concurrent decoding (one read goroutine per connection, process-wide tables shared)

The schema decoders are functions of the payload alone (`PSchema.decode : PSchema → Bytes → …` takes no state), i.e. with
respect to the shared tables (packet registries, brigadier argument registry) a decoding goroutine only READS.
For read-only goroutines no schedule whatsoever — any number of goroutines, any interleaving, any length — reaches the
runtime's unrecoverable "concurrent map access" fault. -/

theorem concurrent_read_only_never_faults (ts : List (List Access)) (h : ReadOnly ts) (sched : List Nat) :
    (runSched ts {} sched).faulted = false :=
  (read_only_no_fault ts h sched {} ⟨rfl, rfl⟩).2

/-- … whereas two decoders that fill a shared index lazily (look up, on a miss build and store) have a schedule that
    kills the process: goroutine 1 looks the index up while goroutine 0 is storing it -/
theorem concurrent_lazy_index_faults :
    (runSched [lazyIndexDecoder, lazyIndexDecoder] {} [0, 0, 1]).faulted = true := by decide

/-- … and so do two concurrent stores (both missed, both write) -/
theorem concurrent_lazy_index_double_write_faults :
    (runSched [lazyIndexDecoder, lazyIndexDecoder] {} [0, 1, 0, 1]).faulted = true := by decide

open Gate.Gen.C05 in
/-- secondary, source-shape signal for the read-only assumption: the decode path of the brigadier argument registry
    (`argPropReg.Decode` with its same-receiver helpers inlined) creates or grows no table -/
theorem src_registry_decode_builds_no_table :
    registryDecodeCalls.all (fun c => c != "make" && c != "append" && c != "delete" && c != "clear" && c != "new") = true := by
  decide

/-! ### the defect repaired by the C05 fix stays documented -/

/-- pre-fix `TagsUpdate.Decode`: `make(map, size)` with the claimed size itself -/
def preallocUncapped (n : Nat) : Nat := n

/-- five payload bytes (`ff ff ff ff 07` = 2^31-1) claimed 2^31-1 map slots before the fix; the capped reader takes 32768 -/
theorem tagsupdate_alloc_fails_for_uncapped_variant :
    readVarInt [0xff, 0xff, 0xff, 0xff, 0x07] = .ok (2147483647, []) ∧
    preallocUncapped 2147483647 > 5 * 5 + capBound ∧ prealloc none 2147483647 = 32768 := by
  have hw : writeVarInt 2147483647 = [0xff, 0xff, 0xff, 0xff, 0x07] := by decide +kernel
  have hr := readVarInt_writeVarInt 2147483647 [] (by omega) (by omega)
  rw [hw] at hr
  exact ⟨hr, by decide, by decide⟩

/-! ### non-vacuity -/

example : productive (seqs [varint, .arr .err none (seqs [string, string])]) = true := by decide
example : ∃ ps, schemaOf "packet.ServerLogin" ⟨767, 1, 3, 0⟩ = some ps ∧
    palloc ps [5, 104, 101, 108, 108, 111] ≤ 5 * 6 + capBound :=
  registered_alloc_bound "packet.ServerLogin" (by decide) ⟨767, 1, 3, 0⟩ _

end Gate.C05.Props
