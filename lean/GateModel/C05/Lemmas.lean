import GateModel.C05.Model
import GateModel.C04.Lemmas
/-
C05 — consumption and allocation bounds of the schema interpreter, by induction over `Schema`.
-/
namespace Gate.C05
open Gate Gate.C03 Gate.C04

/-! ## how much the primitive readers consume -/

theorem readFull_ok {n : Nat} {bs b r : Bytes} (h : readFull n bs = .ok (b, r)) :
    b.length = n ∧ bs.length = n + r.length := by
  unfold readFull at h
  split at h
  · simp only [Except.ok.injEq, Prod.mk.injEq] at h
    obtain ⟨rfl, rfl⟩ := h
    simp only [List.length_take, List.length_drop]; omega
  · cases h

theorem readByte_ok {bs r : Bytes} {b : UInt8} (h : readByte bs = .ok (b, r)) : bs.length = 1 + r.length := by
  cases bs with
  | nil => cases h
  | cons x t => simp only [readByte, Except.ok.injEq, Prod.mk.injEq] at h; obtain ⟨_, rfl⟩ := h; simp; omega

theorem readBool_ok {bs r : Bytes} {b : Bool} (h : readBool bs = .ok (b, r)) : bs.length = 1 + r.length := by
  unfold readBool at h
  cases hb : readByte bs with
  | error e => rw [hb] at h; cases h
  | ok p =>
    obtain ⟨x, r'⟩ := p
    rw [hb] at h; simp only [Except.ok.injEq, Prod.mk.injEq] at h
    obtain ⟨_, rfl⟩ := h
    exact readByte_ok hb

theorem readVarLoop_ok (fuel i acc : Nat) (bs : Bytes) (u : Nat) (r : Bytes)
    (h : readVarLoop fuel i acc bs = .ok (u, r)) : r.length < bs.length := by
  induction fuel generalizing i acc bs with
  | zero => cases h
  | succ f ih =>
    cases bs with
    | nil => cases h
    | cons b t =>
      simp only [readVarLoop] at h
      split at h
      · cases h
      · split at h
        · simp only [Except.ok.injEq, Prod.mk.injEq] at h; obtain ⟨_, rfl⟩ := h; simp
        · have := ih _ _ _ h; simp; omega

theorem readVarInt_ok {bs r : Bytes} {v : Int} (h : readVarInt bs = .ok (v, r)) : r.length < bs.length := by
  unfold readVarInt at h
  cases hl : readVarLoop 6 0 0 bs with
  | error e => rw [hl] at h; cases h
  | ok p =>
    obtain ⟨u, r'⟩ := p
    rw [hl] at h; simp only [Except.ok.injEq, Prod.mk.injEq] at h
    obtain ⟨_, rfl⟩ := h
    exact readVarLoop_ok _ _ _ _ _ _ hl

theorem readUint_ok {n : Nat} {bs r : Bytes} {v : Nat} (h : readUint n bs = .ok (v, r)) : bs.length = n + r.length := by
  unfold readUint at h
  cases hf : readFull n bs with
  | error e => rw [hf] at h; cases h
  | ok p =>
    obtain ⟨b, r'⟩ := p
    rw [hf] at h; simp only [Except.ok.injEq, Prod.mk.injEq] at h
    obtain ⟨_, rfl⟩ := h
    exact (readFull_ok hf).2

theorem readInt_ok {n : Nat} {bs r : Bytes} {v : Int} (h : readInt n bs = .ok (v, r)) : bs.length = n + r.length := by
  unfold readInt at h
  cases hf : readUint n bs with
  | error e => rw [hf] at h; cases h
  | ok p =>
    obtain ⟨b, r'⟩ := p
    rw [hf] at h; simp only [Except.ok.injEq, Prod.mk.injEq] at h
    obtain ⟨_, rfl⟩ := h
    exact readUint_ok hf

/-- a successful length-prefixed read: the claimed length passed the checks and is backed by bytes -/
theorem readLenPrefixed_ok {cap : Nat} {bs b r : Bytes} (h : readLenPrefixed cap bs = .ok (b, r)) :
    ∃ len r0, readVarInt bs = .ok (len, r0) ∧ ¬ len < 0 ∧ ¬ len > (cap : Int) ∧
      r0.length = len.toNat + r.length ∧ r0.length < bs.length := by
  unfold readLenPrefixed at h
  cases hv : readVarInt bs with
  | error e => rw [hv] at h; cases h
  | ok p =>
    obtain ⟨len, r0⟩ := p
    rw [hv] at h; simp only at h
    split at h
    · cases h
    · split at h
      · cases h
      · rename_i h1 h2
        exact ⟨len, r0, rfl, h1, h2, (readFull_ok h).2, readVarInt_ok hv⟩

theorem readExtShort_ok {bs r : Bytes} {n : Nat} (h : readExtShort bs = .ok (n, r)) : r.length + 2 ≤ bs.length := by
  unfold readExtShort at h
  cases hu : readUint 2 bs with
  | error e => rw [hu] at h; cases h
  | ok p =>
    obtain ⟨low, r0⟩ := p
    rw [hu] at h; simp only at h
    have := readUint_ok hu
    split at h
    · cases hb : readByte r0 with
      | error e => rw [hb] at h; cases h
      | ok q =>
        obtain ⟨x, r1⟩ := q
        rw [hb] at h; simp only [Except.ok.injEq, Prod.mk.injEq] at h
        obtain ⟨_, rfl⟩ := h
        have := readByte_ok hb; omega
    · simp only [Except.ok.injEq, Prod.mk.injEq] at h; obtain ⟨_, rfl⟩ := h; omega

theorem readBytes17_ok {bs b r : Bytes} (h : readBytes17 bs = .ok (b, r)) :
    ∃ len r0, readExtShort bs = .ok (len, r0) ∧ ¬ len > forgeMaxArrayLength ∧ r0.length = len + r.length ∧
      r0.length + 2 ≤ bs.length := by
  unfold readBytes17 at h
  cases he : readExtShort bs with
  | error e => rw [he] at h; cases h
  | ok p =>
    obtain ⟨len, r0⟩ := p
    rw [he] at h; simp only at h
    split at h
    · cases h
    · rename_i h1
      exact ⟨len, r0, rfl, h1, (readFull_ok h).2, readExtShort_ok he⟩

theorem readUUIDIntArray_ok {bs b r : Bytes} (h : readUUIDIntArray bs = .ok (b, r)) : bs.length = 16 + r.length := by
  unfold readUUIDIntArray at h
  cases h1 : readFull 4 bs with
  | error e => rw [h1] at h; cases h
  | ok p1 =>
    obtain ⟨a, r1⟩ := p1
    rw [h1] at h; simp only at h
    cases h2 : readFull 4 r1 with
    | error e => rw [h2] at h; cases h
    | ok p2 =>
      obtain ⟨b2, r2⟩ := p2
      rw [h2] at h; simp only at h
      cases h3 : readFull 4 r2 with
      | error e => rw [h3] at h; cases h
      | ok p3 =>
        obtain ⟨c, r3⟩ := p3
        rw [h3] at h; simp only at h
        cases h4 : readFull 4 r3 with
        | error e => rw [h4] at h; cases h
        | ok p4 =>
          obtain ⟨d, r4⟩ := p4
          rw [h4] at h; simp only [Except.ok.injEq, Prod.mk.injEq] at h
          obtain ⟨_, rfl⟩ := h
          have := (readFull_ok h1).2; have := (readFull_ok h2).2; have := (readFull_ok h3).2
          have := (readFull_ok h4).2; omega

theorem mapRd_ok {α β} {f : α → β} {x : Rd α} {v : β} {r : Bytes} (h : Prim.mapRd f x = .ok (v, r)) :
    ∃ a, x = .ok (a, r) ∧ v = f a := by
  cases x with
  | error e => cases h
  | ok p =>
    obtain ⟨a, r'⟩ := p
    simp only [Prim.mapRd, Except.ok.injEq, Prod.mk.injEq] at h
    obtain ⟨rfl, rfl⟩ := h
    exact ⟨a, rfl, rfl⟩

/-- allocation of a length-prefixed leaf: never above the cap; when the read succeeds, backed by consumed bytes -/
theorem lenPrefixed_alloc (cap : Nat) (bs : Bytes) : lenAlloc cap bs ≤ cap := by
  unfold lenAlloc
  cases readVarInt bs with
  | error e => simp
  | ok p =>
    obtain ⟨len, r0⟩ := p
    simp only
    split
    · omega
    · split
      · omega
      · omega

theorem lenPrefixed_alloc_ok (cap : Nat) {bs b r : Bytes} (h : readLenPrefixed cap bs = .ok (b, r)) :
    lenAlloc cap bs + r.length + 1 ≤ bs.length := by
  obtain ⟨len, r0, hv, h1, h2, h3, h4⟩ := readLenPrefixed_ok h
  unfold lenAlloc
  rw [hv]; simp only [h1, h2, if_false]; omega

/-! ## leaves: allocation and consumption -/

theorem prim_cost (p : Prim) (bs : Bytes) :
    p.alloc bs ≤ bs.length + p.cap ∧
    ∀ v r, p.dec bs = .ok (v, r) → r.length + primMinLen p ≤ bs.length ∧ p.alloc bs + r.length ≤ bs.length := by
  cases p with
  | varint =>
    refine ⟨by simp [Prim.alloc], fun v r h => ?_⟩
    obtain ⟨a, ha, _⟩ := mapRd_ok h
    have := readVarInt_ok ha
    simp only [Prim.alloc, primMinLen]; omega
  | sint n =>
    refine ⟨by simp [Prim.alloc], fun v r h => ?_⟩
    obtain ⟨a, ha, _⟩ := mapRd_ok h
    have := readInt_ok ha
    simp only [Prim.alloc, primMinLen]; omega
  | uint n =>
    refine ⟨by simp [Prim.alloc], fun v r h => ?_⟩
    obtain ⟨a, ha, _⟩ := mapRd_ok h
    have := readUint_ok ha
    simp only [Prim.alloc, primMinLen]; omega
  | bool =>
    refine ⟨by simp [Prim.alloc], fun v r h => ?_⟩
    obtain ⟨a, ha, _⟩ := mapRd_ok h
    have := readBool_ok ha
    simp only [Prim.alloc, primMinLen]; omega
  | constBool b =>
    refine ⟨by simp [Prim.alloc], fun v r h => ?_⟩
    obtain ⟨a, ha, _⟩ := mapRd_ok h
    have := readBool_ok ha
    simp only [Prim.alloc, primMinLen]; omega
  | uuid =>
    refine ⟨by simp [Prim.alloc, Prim.cap], fun v r h => ?_⟩
    obtain ⟨a, ha, _⟩ := mapRd_ok h
    have := (readFull_ok (show readFull 16 bs = .ok (a, r) from ha)).2
    simp only [Prim.alloc, primMinLen]; omega
  | uuidInts =>
    refine ⟨by simp [Prim.alloc], fun v r h => ?_⟩
    obtain ⟨a, ha, _⟩ := mapRd_ok h
    have := readUUIDIntArray_ok ha
    simp only [Prim.alloc, primMinLen]; omega
  | str max =>
    refine ⟨?_, fun v r h => ?_⟩
    · have := lenPrefixed_alloc (max * 4) bs
      simp only [Prim.alloc, Prim.cap]; omega
    · obtain ⟨a, ha, _⟩ := mapRd_ok h
      have := lenPrefixed_alloc_ok (max * 4) (show readLenPrefixed (max * 4) bs = .ok (a, r) from ha)
      simp only [Prim.alloc, primMinLen]; omega
  | strNE max =>
    refine ⟨?_, fun v r h => ?_⟩
    · have := lenPrefixed_alloc (max * 4) bs
      simp only [Prim.alloc, Prim.cap]; omega
    · simp only [Prim.dec] at h
      cases hs : readStringMax max bs with
      | error e => rw [hs] at h; cases h
      | ok q =>
        obtain ⟨b, r'⟩ := q
        rw [hs] at h; simp only at h
        split at h
        · cases h
        · simp only [Except.ok.injEq, Prod.mk.injEq] at h
          obtain ⟨_, rfl⟩ := h
          have := lenPrefixed_alloc_ok (max * 4) (show readLenPrefixed (max * 4) bs = .ok (b, r') from hs)
          simp only [Prim.alloc, primMinLen]; omega
  | bytes max =>
    refine ⟨?_, fun v r h => ?_⟩
    · have := lenPrefixed_alloc max bs
      simp only [Prim.alloc, Prim.cap]; omega
    · obtain ⟨a, ha, _⟩ := mapRd_ok h
      have := lenPrefixed_alloc_ok max (show readLenPrefixed max bs = .ok (a, r) from ha)
      simp only [Prim.alloc, primMinLen]; omega
  | bytes17 ext =>
    refine ⟨?_, fun v r h => ?_⟩
    · simp only [Prim.alloc, Prim.cap]
      cases readExtShort bs with
      | error e => simp
      | ok q => obtain ⟨len, r0⟩ := q; simp only; split <;> omega
    · obtain ⟨a, ha, _⟩ := mapRd_ok h
      obtain ⟨len, r0, he, h1, h2, h3⟩ := readBytes17_ok ha
      simp only [Prim.alloc, primMinLen, he, h1, if_false]; omega
  | fixed n =>
    refine ⟨by simp [Prim.alloc, Prim.cap], fun v r h => ?_⟩
    obtain ⟨a, ha, _⟩ := mapRd_ok h
    have := (readFull_ok ha).2
    simp only [Prim.alloc, primMinLen]; omega
  | key =>
    refine ⟨?_, fun v r h => ?_⟩
    · have := lenPrefixed_alloc (defaultMaxStringSize * 4) bs
      simp only [Prim.alloc, Prim.cap]; omega
    · obtain ⟨k, hk, _⟩ := mapRd_ok h
      unfold readKey at hk
      cases hs : readString bs with
      | error e => rw [hs] at hk; cases hk
      | ok q =>
        obtain ⟨s, r'⟩ := q
        rw [hs] at hk; simp only at hk
        split at hk
        · simp only [Except.ok.injEq, Prod.mk.injEq] at hk
          obtain ⟨_, rfl⟩ := hk
          have := lenPrefixed_alloc_ok (defaultMaxStringSize * 4)
            (show readLenPrefixed (defaultMaxStringSize * 4) bs = .ok (s, r') from hs)
          simp only [Prim.alloc, primMinLen]; omega
        · cases hk
  | minKey =>
    refine ⟨?_, fun v r h => ?_⟩
    · have := lenPrefixed_alloc (defaultMaxStringSize * 4) bs
      simp only [Prim.alloc, Prim.cap]; omega
    · obtain ⟨s, hs, _⟩ := mapRd_ok h
      have := lenPrefixed_alloc_ok (defaultMaxStringSize * 4)
        (show readLenPrefixed (defaultMaxStringSize * 4) bs = .ok (s, r) from hs)
      simp only [Prim.alloc, primMinLen]; omega
  | blob len =>
    refine ⟨?_, fun v r h => ?_⟩
    · simp only [Prim.alloc]
      cases len bs with
      | none => simp
      | some n => simp only; omega
    · simp only [Prim.dec] at h
      cases hl : len bs with
      | none => rw [hl] at h; cases h
      | some n =>
        rw [hl] at h; simp only at h
        split at h
        · simp only [Except.ok.injEq, Prod.mk.injEq] at h
          obtain ⟨_, rfl⟩ := h
          simp only [Prim.alloc, primMinLen, hl, List.length_drop]; omega
        · cases h

/-! ## arithmetic helpers -/

theorem mul_mono {d D : Nat} (x : Nat) (h : d ≤ D) : (d + 1) * x ≤ (D + 1) * x :=
  Nat.mul_le_mul_right x (by omega)

theorem le_maxOver (n : Nat) (f : Fin n → Nat) (i : Fin n) : f i ≤ maxOver n f := by
  unfold maxOver
  have key : ∀ (l : List (Fin n)) (a : Nat), a ≤ l.foldl (fun a i => max a (f i)) a ∧
      (i ∈ l → f i ≤ l.foldl (fun a i => max a (f i)) a) := by
    intro l
    induction l with
    | nil => intro a; simp
    | cons x t ih =>
      intro a
      simp only [List.foldl_cons, List.mem_cons]
      have h1 := (ih (max a (f x))).1
      refine ⟨by omega, fun hm => ?_⟩
      rcases hm with rfl | hm
      · omega
      · exact (ih (max a (f x))).2 hm
  exact (key (List.finRange n) 0).2 (List.mem_finRange i)

theorem allOver_get (n : Nat) (f : Fin n → Bool) (h : allOver n f = true) (i : Fin n) : f i = true := by
  unfold allOver at h
  exact (List.all_eq_true.1 h) i (List.mem_finRange i)

/-! ## the interpreter -/

/-- the three facts proved together by induction over the schema -/
def Cost (s : Schema) : Prop :=
  ∀ bs : Bytes,
    alloc s bs ≤ (depth s + 1) * bs.length + K s ∧
    ∀ v r, s.decode bs = .ok (v, r) →
      r.length + minLen s ≤ bs.length ∧ alloc s bs ≤ (depth s + 1) * (bs.length - r.length)

theorem alloc_sw (tag : Prim) (n : Nat) (body : Fin n → Schema) (dflt : Schema) (bs : Bytes) :
    alloc (.sw tag n body dflt) bs =
      tag.alloc bs + (match tag.dec bs with
        | .error _ => 0
        | .ok (t, r) => alloc (Schema.pick n body dflt t.getInt) r) := by
  simp only [alloc, Schema.pick]
  cases tag.dec bs with
  | error e => rfl
  | ok p =>
    obtain ⟨t, r⟩ := p
    simp only
    by_cases hc : 0 ≤ t.getInt ∧ t.getInt.toNat < n
    · simp only [dif_pos hc]
    · simp only [dif_neg hc]

theorem pick_bounds (n : Nat) (body : Fin n → Schema) (dflt : Schema) (tag : Prim) (t : Int) :
    depth (Schema.pick n body dflt t) ≤ depth (.sw tag n body dflt) ∧
    K (Schema.pick n body dflt t) ≤ K (.sw tag n body dflt) := by
  unfold Schema.pick
  by_cases hc : 0 ≤ t ∧ t.toNat < n
  · simp only [dif_pos hc, depth, K]
    have h1 : depth (body ⟨t.toNat, hc.2⟩) ≤ maxOver n fun i => depth (body i) :=
      le_maxOver n (fun i => depth (body i)) ⟨t.toNat, hc.2⟩
    have h2 : K (body ⟨t.toNat, hc.2⟩) ≤ maxOver n fun i => K (body i) :=
      le_maxOver n (fun i => K (body i)) ⟨t.toNat, hc.2⟩
    omega
  · simp only [dif_neg hc, depth, K]; omega

theorem pick_productive (n : Nat) (body : Fin n → Schema) (dflt : Schema) (tag : Prim) (t : Int)
    (h : productive (.sw tag n body dflt) = true) : productive (Schema.pick n body dflt t) = true := by
  simp only [productive, Bool.and_eq_true] at h
  unfold Schema.pick
  by_cases hc : 0 ≤ t ∧ t.toNat < n
  · simp only [dif_pos hc]; exact allOver_get n _ h.1 _
  · simp only [dif_neg hc]; exact h.2

/-- the element loop -/
theorem loop_cost (s : Schema) (hs : Cost s) (hmin : 1 ≤ minLen s) (n : Nat) (bs : Bytes) :
    allocN (alloc s) s.decode n bs ≤ (depth s + 1) * bs.length + K s ∧
    ∀ xs r, readN s.decode n bs = .ok (xs, r) →
      r.length + n ≤ bs.length ∧ allocN (alloc s) s.decode n bs ≤ (depth s + 1) * (bs.length - r.length) := by
  induction n generalizing bs with
  | zero =>
    refine ⟨by simp [allocN], fun xs r h => ?_⟩
    simp only [readN, Except.ok.injEq, Prod.mk.injEq] at h
    obtain ⟨_, rfl⟩ := h
    simp [allocN]
  | succ n ih =>
    obtain ⟨hB, hA⟩ := hs bs
    cases hd : s.decode bs with
    | error e =>
      refine ⟨by simp only [allocN, hd]; omega, fun xs r h => ?_⟩
      simp only [readN, hd] at h; cases h
    | ok p =>
      obtain ⟨x, r1⟩ := p
      obtain ⟨hc1, ha1⟩ := hA x r1 hd
      obtain ⟨ihB, ihA⟩ := ih r1
      have hmul : (depth s + 1) * (bs.length - r1.length) + (depth s + 1) * r1.length = (depth s + 1) * bs.length := by
        rw [← Nat.mul_add]; congr 1; omega
      refine ⟨by simp only [allocN, hd]; omega, fun xs r h => ?_⟩
      simp only [readN, hd] at h
      cases hr : readN s.decode n r1 with
      | error e => rw [hr] at h; cases h
      | ok q =>
        obtain ⟨ys, r2⟩ := q
        rw [hr] at h; simp only [Except.ok.injEq, Prod.mk.injEq] at h
        obtain ⟨_, rfl⟩ := h
        obtain ⟨hc2, ha2⟩ := ihA ys r2 hr
        have hmul2 : (depth s + 1) * (bs.length - r1.length) + (depth s + 1) * (r1.length - r2.length) =
            (depth s + 1) * (bs.length - r2.length) := by
          rw [← Nat.mul_add]; congr 1; omega
        refine ⟨by omega, by simp only [allocN, hd]; omega⟩

theorem schema_cost (s : Schema) (hp : productive s = true) : Cost s := by
  induction s with
  | unit =>
    intro bs
    refine ⟨by simp [alloc], fun v r h => ?_⟩
    simp only [Schema.decode, Except.ok.injEq, Prod.mk.injEq] at h
    obtain ⟨_, rfl⟩ := h
    simp [alloc, minLen]
  | fail =>
    intro bs
    refine ⟨by simp [alloc], fun v r h => ?_⟩
    simp [Schema.decode] at h
  | prim p =>
    intro bs
    obtain ⟨h1, h2⟩ := prim_cost p bs
    refine ⟨by simp only [alloc, depth, K]; omega, fun v r h => ?_⟩
    obtain ⟨h3, h4⟩ := h2 v r h
    simp only [alloc, depth, minLen]; omega
  | seq a b iha ihb =>
    simp only [productive, Bool.and_eq_true] at hp
    intro bs
    obtain ⟨hBa, hAa⟩ := iha hp.1 bs
    have hda : depth a ≤ depth (.seq a b) := by simp only [depth]; omega
    have hdb : depth b ≤ depth (.seq a b) := by simp only [depth]; omega
    have hka : K a ≤ K (.seq a b) := by simp only [K]; omega
    have hkb : K b ≤ K (.seq a b) := by simp only [K]; omega
    cases hd : a.decode bs with
    | error e =>
      have := mul_mono bs.length hda
      refine ⟨by simp only [alloc, hd]; omega, fun v r h => ?_⟩
      simp only [Schema.decode, hd] at h; cases h
    | ok p =>
      obtain ⟨x, r1⟩ := p
      obtain ⟨hc1, ha1⟩ := hAa x r1 hd
      obtain ⟨hBb, hAb⟩ := ihb hp.2 r1
      have m1 := mul_mono (bs.length - r1.length) hda
      have m2 := mul_mono r1.length hdb
      have hmul : (depth (.seq a b) + 1) * (bs.length - r1.length) + (depth (.seq a b) + 1) * r1.length =
          (depth (.seq a b) + 1) * bs.length := by
        rw [← Nat.mul_add]; congr 1; omega
      refine ⟨by simp only [alloc, hd]; omega, fun v r h => ?_⟩
      simp only [Schema.decode, hd] at h
      cases hd2 : b.decode r1 with
      | error e => rw [hd2] at h; cases h
      | ok q =>
        obtain ⟨y, r2⟩ := q
        rw [hd2] at h; simp only [Except.ok.injEq, Prod.mk.injEq] at h
        obtain ⟨_, rfl⟩ := h
        obtain ⟨hc2, ha2⟩ := hAb y r2 hd2
        have m3 := mul_mono (r1.length - r2.length) hdb
        have hmul2 : (depth (.seq a b) + 1) * (bs.length - r1.length) + (depth (.seq a b) + 1) * (r1.length - r2.length) =
            (depth (.seq a b) + 1) * (bs.length - r2.length) := by
          rw [← Nat.mul_add]; congr 1; omega
        refine ⟨by simp only [minLen]; omega, by simp only [alloc, hd]; omega⟩
  | opt present s ih =>
    simp only [productive] at hp
    intro bs
    cases hb : readBool bs with
    | error e =>
      refine ⟨by simp [alloc, hb], fun v r h => ?_⟩
      simp only [Schema.decode, hb] at h; cases h
    | ok p =>
      obtain ⟨b, r1⟩ := p
      have hlen := readBool_ok hb
      obtain ⟨hB, hA⟩ := ih hp r1
      have hmul : (depth s + 1) * r1.length ≤ (depth s + 1) * bs.length := Nat.mul_le_mul_left _ (by omega)
      by_cases hbp : b = present
      · refine ⟨by simp only [alloc, hb, hbp, if_true, depth, K]; omega, fun v r h => ?_⟩
        simp only [Schema.decode, hb, hbp, if_true] at h
        cases hd : s.decode r1 with
        | error e => rw [hd] at h; cases h
        | ok q =>
          obtain ⟨x, r2⟩ := q
          rw [hd] at h; simp only [Except.ok.injEq, Prod.mk.injEq] at h
          obtain ⟨_, rfl⟩ := h
          obtain ⟨hc, ha⟩ := hA x r2 hd
          have hm : (depth s + 1) * (r1.length - r2.length) ≤ (depth s + 1) * (bs.length - r2.length) :=
            Nat.mul_le_mul_left _ (by omega)
          refine ⟨by simp only [minLen]; omega, by simp only [alloc, hb, hbp, if_true, depth]; omega⟩
      · refine ⟨by simp [alloc, hb, hbp], fun v r h => ?_⟩
        simp only [Schema.decode, hb, hbp, if_false, Except.ok.injEq, Prod.mk.injEq] at h
        obtain ⟨_, rfl⟩ := h
        refine ⟨by simp only [minLen]; omega, by simp [alloc, hb, hbp]⟩
  | optD d s ih =>
    simp only [productive] at hp
    intro bs
    cases hb : readBool bs with
    | error e =>
      refine ⟨by simp [alloc, hb], fun v r h => ?_⟩
      simp only [Schema.decode, hb] at h; cases h
    | ok p =>
      obtain ⟨b, r1⟩ := p
      have hlen := readBool_ok hb
      obtain ⟨hB, hA⟩ := ih hp r1
      have hmul : (depth s + 1) * r1.length ≤ (depth s + 1) * bs.length := Nat.mul_le_mul_left _ (by omega)
      cases b with
      | true =>
        refine ⟨by simp only [alloc, hb, if_true, depth, K]; omega, fun v r h => ?_⟩
        simp only [Schema.decode, hb, if_true] at h
        obtain ⟨hc, ha⟩ := hA v r h
        have hm : (depth s + 1) * (r1.length - r.length) ≤ (depth s + 1) * (bs.length - r.length) :=
          Nat.mul_le_mul_left _ (by omega)
        refine ⟨by simp only [minLen]; omega, by simp only [alloc, hb, if_true, depth]; omega⟩
      | false =>
        refine ⟨by simp [alloc, hb], fun v r h => ?_⟩
        simp only [Schema.decode, hb, Bool.false_eq_true, if_false, Except.ok.injEq, Prod.mk.injEq] at h
        obtain ⟨_, rfl⟩ := h
        refine ⟨by simp only [minLen]; omega, by simp [alloc, hb]⟩
  | arr neg max s ih =>
    simp only [productive, Bool.and_eq_true, decide_eq_true_eq] at hp
    intro bs
    cases hv : readVarInt bs with
    | error e =>
      refine ⟨by simp [alloc, hv], fun v r h => ?_⟩
      simp only [Schema.decode, hv] at h; cases h
    | ok p =>
      obtain ⟨n, r1⟩ := p
      have hlen := readVarInt_ok hv
      by_cases hneg : n < 0
      · refine ⟨by simp [alloc, hv, hneg], fun v r h => ?_⟩
        simp only [Schema.decode, hv, hneg, if_true] at h
        cases neg with
        | err => cases h
        | empty =>
          simp only [Except.ok.injEq, Prod.mk.injEq] at h
          obtain ⟨_, rfl⟩ := h
          refine ⟨by simp only [minLen]; omega, by simp [alloc, hv, hneg]⟩
      · by_cases hmax : overMax max n = true
        · refine ⟨by simp [alloc, hv, hneg, hmax], fun v r h => ?_⟩
          simp only [Schema.decode, hv, hneg, hmax, if_true, if_false] at h; cases h
        · have hmax : overMax max n = false := by simpa using hmax
          obtain ⟨lB, lA⟩ := loop_cost s (ih hp.2) hp.1 n.toNat r1
          have hpre : prealloc max n.toNat ≤ max.getD maxPre := by unfold prealloc; omega
          have hpre2 : prealloc max n.toNat ≤ n.toNat := by unfold prealloc; omega
          have hm : (depth s + 1) * r1.length ≤ (depth s + 1) * bs.length := Nat.mul_le_mul_left _ (by omega)
          have hexp : (depth s + 1 + 1) * bs.length = (depth s + 1) * bs.length + bs.length := by
            rw [Nat.add_mul]; omega
          refine ⟨by simp only [alloc, hv, hneg, hmax, if_false, Bool.false_eq_true, depth, K, hexp]; omega, fun v r h => ?_⟩
          simp only [Schema.decode, hv, hneg, hmax, if_false, Bool.false_eq_true] at h
          cases hr : readN s.decode n.toNat r1 with
          | error e => simp only [hr] at h; cases h
          | ok q =>
            obtain ⟨xs, r2⟩ := q
            simp only [hr, Except.ok.injEq, Prod.mk.injEq] at h
            obtain ⟨_, rfl⟩ := h
            obtain ⟨hc, ha⟩ := lA xs r2 hr
            have hm2 : (depth s + 1) * (r1.length - r2.length) ≤ (depth s + 1) * (bs.length - r2.length) :=
              Nat.mul_le_mul_left _ (by omega)
            have hexp2 : (depth s + 1 + 1) * (bs.length - r2.length) =
                (depth s + 1) * (bs.length - r2.length) + (bs.length - r2.length) := by
              rw [Nat.add_mul]; omega
            refine ⟨by simp only [minLen]; omega,
              by simp only [alloc, hv, hneg, hmax, if_false, Bool.false_eq_true, depth, hexp2]; omega⟩
  | sw tag n body dflt ihb ihd =>
    intro bs
    obtain ⟨t1, t2⟩ := prim_cost tag bs
    have hK : tag.cap ≤ K (.sw tag n body dflt) := by simp only [K]; omega
    have hone : bs.length ≤ (depth (.sw tag n body dflt) + 1) * bs.length := by
      rw [Nat.add_mul]; omega
    cases hd : tag.dec bs with
    | error e =>
      refine ⟨by rw [alloc_sw, hd]; simp only; omega, fun v r h => ?_⟩
      rw [decode_sw, hd] at h; cases h
    | ok p =>
      obtain ⟨t, r1⟩ := p
      obtain ⟨tc, ta⟩ := t2 t r1 hd
      have ihp : Cost (Schema.pick n body dflt t.getInt) := by
        have hpp := pick_productive n body dflt tag t.getInt hp
        revert hpp
        unfold Schema.pick
        by_cases hc : 0 ≤ t.getInt ∧ t.getInt.toNat < n
        · simp only [dif_pos hc]; exact ihb _
        · simp only [dif_neg hc]; exact ihd
      obtain ⟨hdp, hkp⟩ := pick_bounds n body dflt tag t.getInt
      obtain ⟨hB, hA⟩ := ihp r1
      have m1 := mul_mono r1.length hdp
      have hsplit : (depth (.sw tag n body dflt) + 1) * (bs.length - r1.length) + (depth (.sw tag n body dflt) + 1) * r1.length =
          (depth (.sw tag n body dflt) + 1) * bs.length := by
        rw [← Nat.mul_add]; congr 1; omega
      have hone1 : bs.length - r1.length ≤ (depth (.sw tag n body dflt) + 1) * (bs.length - r1.length) := by
        rw [Nat.add_mul]; omega
      refine ⟨by rw [alloc_sw, hd]; simp only; omega, fun v r h => ?_⟩
      rw [decode_sw, hd] at h; simp only at h
      cases hd2 : (Schema.pick n body dflt t.getInt).decode r1 with
      | error e => rw [hd2] at h; cases h
      | ok q =>
        obtain ⟨x, r2⟩ := q
        rw [hd2] at h; simp only [Except.ok.injEq, Prod.mk.injEq] at h
        obtain ⟨_, rfl⟩ := h
        obtain ⟨hc, ha⟩ := hA x r2 hd2
        have m2 := mul_mono (r1.length - r2.length) hdp
        have hsplit2 : (depth (.sw tag n body dflt) + 1) * (bs.length - r1.length) +
            (depth (.sw tag n body dflt) + 1) * (r1.length - r2.length) =
            (depth (.sw tag n body dflt) + 1) * (bs.length - r2.length) := by
          rw [← Nat.mul_add]; congr 1; omega
        refine ⟨by simp only [minLen]; omega, by rw [alloc_sw, hd]; simp only; omega⟩

end Gate.C05
