import GateModel.C04.Exec
import GateModel.C05.Model
/-
C05 driver.  Case lines (`<ctx>` = `<type> <protocol> <direction> <registry> <packet-id>`):
  dec  <ctx> <hex>   the packet body bytes (after the id) fed to the real decoder (`Packet.Decode` under
                     util.RecoverFunc and, framed, through `codec.Decoder.Decode`).
                     impl:  `ok left=<n> alloc=<bucket>[ <val>]` | `err alloc=<bucket>` | `panic` | `hang` | `crash` | `incons`
                     model: the schema decoder's outcome for types with an exact schema, the value too where the
                            schema is value-exact; otherwise the implementation's line is echoed (no prediction)
  conc <child> <goroutines> <entry:hex,…>   valid AvailableCommands bodies of every protocol decoded concurrently in a fresh
                     child process; impl: `ok decoded=… rejected=…` | `crash concurrent-map` | `crash`
  decx <ctx> <hex>   same, never modelled (payloads too deep/large for the model evaluation)
verdict (the spec on the IMPLEMENTATION's outcome): a packet or an error, allocation in proportion → ok;
`panic` (escaped RecoverFunc), `hang`, `crash` (process died), `incons` (Decoder and direct call disagree) or
`alloc=big` → viol:<kind>-<type>.
-/
namespace Gate.C05
open Gate Gate.C04

def bucket (alloc len : Nat) : String := if alloc ≤ 128 * len + 8 * 2 ^ 20 then "prop" else "big"

def verdict (name impl : String) : String :=
  let w := impl.splitOn " "
  let head := w.headD ""
  if head = "panic" ∨ head = "hang" ∨ head = "crash" ∨ head = "incons" then "viol:" ++ head ++ "-" ++ name
  else if (head = "ok" ∨ head = "err") then
    (if w.contains "alloc=prop" then "ok" else "viol:alloc-" ++ name)
  else "viol:outcome-" ++ name

/-- the value part of an implementation line `ok left=n alloc=b <val>` -/
def implVal (impl : String) : String :=
  match impl.splitOn " " with
  | [_, _, _, v] => " " ++ v
  | _ => ""

def step (c : Case) : String × String :=
  if c.op = "conc" then
    -- concurrent decoding of valid bodies: the model's decoders are functions of their input only, so every
    -- interleaving decodes everything (`Props.concurrent_read_only_never_faults`); the process must survive
    let head := (c.impl.splitOn " ").headD ""
    ((if head = "ok" then c.impl else "ok"),
      if head = "ok" then "ok"
      else if c.impl = "crash concurrent-map" then "viol:crash-concurrent-decode" else "viol:crash-concurrent-other")
  else
  match parseCtx c.args with
  | some (name, ctx, [hx]) =>
    let v := verdict name c.impl
    if c.op = "decx" then (c.impl, v)
    else if c.op = "dec" then
      match schemaOf name ctx, parseHex hx with
      | some ps, some bs =>
        if !ps.exact then (c.impl, v)
        else
          let b := " alloc=" ++ bucket (palloc ps bs) bs.length
          match ps.decode bs with
          | .ok (val, rest) =>
            ("ok left=" ++ toString rest.length ++ b ++
              (if implVal c.impl = "" then "" else if ps.vals then " " ++ val.show else implVal c.impl), v)
          | .error _ => ("err" ++ b, v)
      | none, some _ => (c.impl, v)
      | _, none => ("bad-hex", "-")
    else ("bad-op", "-")
  | _ => ("bad-op", "-")

end Gate.C05

def main : IO Unit := Gate.runPureDriver Gate.C05.step
