/-
C05 — concurrent decoding.  Every connection decodes on its own goroutine; all decoders share the process-wide
tables (packet registries, the brigadier argument-type registry).  A Go map that is written while another goroutine
reads or writes it makes the runtime abort the whole process (`fatal error: concurrent map …`) — not a panic, so
nothing can recover it.  The model: a goroutine is the list of its accesses to one shared table; a write is not
atomic (`writeBegin … writeEnd`); any access by another goroutine inside that window, or a second writer, is the
fault.  A schedule is any list of goroutine numbers.
-/
namespace Gate.C05

inductive Access where
  | read
  | writeBegin
  | writeEnd
  deriving DecidableEq, Repr

structure Shared where
  writer : Option Nat := none     -- the goroutine currently inside a map write
  faulted : Bool := false         -- the runtime has detected unsynchronised access: the process is gone
  deriving DecidableEq, Repr

def access (s : Shared) (tid : Nat) : Access → Shared
  | .read => if s.writer.isSome ∧ s.writer ≠ some tid then { s with faulted := true } else s
  | .writeBegin => if s.writer.isSome then { s with faulted := true } else { s with writer := some tid }
  | .writeEnd => if s.writer = some tid then { s with writer := none } else s

/-- run a schedule: the scheduled goroutine performs its next access (a finished goroutine does nothing) -/
def runSched : List (List Access) → Shared → List Nat → Shared
  | _, s, [] => s
  | ts, s, t :: rest =>
    match ts[t]? with
    | some (a :: tl) => runSched (ts.set t tl) (access s t a) rest
    | _ => runSched ts s rest

/-- all goroutines only read the shared table -/
def ReadOnly (ts : List (List Access)) : Prop := ∀ t ∈ ts, ∀ a ∈ t, a = Access.read

theorem readOnly_set (ts : List (List Access)) (h : ReadOnly ts) (t : Nat) (a : Access) (tl : List Access)
    (ht : ts[t]? = some (a :: tl)) : ReadOnly (ts.set t tl) := by
  intro u hu b hb
  rcases List.mem_or_eq_of_mem_set hu with hmem | heq
  · exact h u hmem b hb
  · rw [heq] at hb
    have hm : (a :: tl) ∈ ts := List.mem_of_getElem? ht
    exact h (a :: tl) hm b (List.mem_cons_of_mem _ hb)

theorem read_only_no_fault (ts : List (List Access)) (h : ReadOnly ts) (sched : List Nat) (s : Shared)
    (hs : s.writer = none ∧ s.faulted = false) :
    (runSched ts s sched).writer = none ∧ (runSched ts s sched).faulted = false := by
  induction sched generalizing ts s with
  | nil => exact hs
  | cons t rest ih =>
    unfold runSched
    cases ht : ts[t]? with
    | none => exact ih ts h s hs
    | some l =>
      cases l with
      | nil => exact ih ts h s hs
      | cons a tl =>
        have ha : a = Access.read := h (a :: tl) (List.mem_of_getElem? ht) a (List.mem_cons_self ..)
        subst ha
        have hacc : access s t Access.read = s := by
          unfold access; simp [hs.1]
        simp only [hacc]
        exact ih _ (readOnly_set ts h t _ tl ht) s hs

/-- a decoder that builds a per-protocol index lazily: look the index up, and on a miss build and store it -/
def lazyIndexDecoder : List Access := [.read, .writeBegin, .writeEnd, .read]

end Gate.C05
