import GateModel.C05.Lemmas
/-
C05 — every packet schema of `Gate.C04.schemaOf`, in EVERY context (any protocol number, direction, registry, id),
is productive, has array depth ≤ 3 and a static cap K ≤ 2 MiB + 3 · MaxPreAllocSize.

`G d s` is the compositional form of that statement; the per-type proofs just follow the structure of the schema
(the conditions on the protocol stay opaque: both branches of every `if` are covered).
-/
namespace Gate.C05
open Gate Gate.C03 Gate.C04

/-- bound for a single leaf allocation: the largest reader limit is the 1.7 byte-array limit (2 097 050) -/
def L : Nat := 2 ^ 21

structure G (d : Nat) (s : Schema) : Prop where
  prod : productive s = true
  dep : depth s ≤ d
  cap : K s ≤ L + d * maxPre

theorem good_unit {d} : G d .unit := ⟨rfl, by simp [depth], by simp [K]⟩
theorem good_fail {d} : G d .fail := ⟨rfl, by simp [depth], by simp [K]⟩
theorem good_prim {d} (p : Prim) (h : p.cap ≤ L) : G d (.prim p) :=
  ⟨rfl, by simp [depth], by simp only [K]; omega⟩

theorem good_seq {d a b} (ha : G d a) (hb : G d b) : G d (.seq a b) :=
  ⟨by simp [productive, ha.prod, hb.prod], by have := ha.dep; have := hb.dep; simp only [depth]; omega,
   by have := ha.cap; have := hb.cap; simp only [K]; omega⟩

theorem good_opt {d present s} (h : G d s) : G d (.opt present s) :=
  ⟨by simp [productive, h.prod], by simpa [depth] using h.dep, by simpa [K] using h.cap⟩
theorem good_optD {d v s} (h : G d s) : G d (.optD v s) :=
  ⟨by simp [productive, h.prod], by simpa [depth] using h.dep, by simpa [K] using h.cap⟩

theorem good_arr {d neg max s} (h : G d s) (hmin : 1 ≤ minLen s) (hmax : max.getD maxPre ≤ maxPre) :
    G (d + 1) (.arr neg max s) :=
  ⟨by simp [productive, h.prod, hmin], by have := h.dep; simp only [depth]; omega,
   by have := h.cap; simp only [K, Nat.add_mul]; omega⟩

theorem maxOver_le (n : Nat) (f : Fin n → Nat) (b : Nat) (h : ∀ i, f i ≤ b) : maxOver n f ≤ b := by
  unfold maxOver
  have key : ∀ (l : List (Fin n)) (a : Nat), a ≤ b → l.foldl (fun a i => max a (f i)) a ≤ b := by
    intro l
    induction l with
    | nil => intro a ha; simpa using ha
    | cons x t ih => intro a ha; simp only [List.foldl_cons]; exact ih _ (by have := h x; omega)
  exact key _ 0 (Nat.zero_le _)

theorem good_sw {d tag n} {body : Fin n → Schema} {dflt} (ht : tag.cap ≤ L) (hb : ∀ i, G d (body i))
    (hd : G d dflt) : G d (.sw tag n body dflt) := by
  refine ⟨?_, ?_, ?_⟩
  · simp only [productive, Bool.and_eq_true]
    exact ⟨by unfold allOver; exact List.all_eq_true.2 fun i _ => (hb i).prod, hd.prod⟩
  · have := maxOver_le n (fun i => depth (body i)) d fun i => (hb i).dep
    have := hd.dep; simp only [depth]; omega
  · have := maxOver_le n (fun i => K (body i)) (L + d * maxPre) fun i => (hb i).cap
    have := hd.cap; simp only [K]; omega

theorem good_ite {d a b} {c : Prop} [Decidable c] (ha : G d a) (hb : G d b) : G d (if c then a else b) := by
  split <;> assumption

theorem good_mono {d d' s} (h : G d s) (hd : d ≤ d') : G d' s :=
  ⟨h.prod, by have := h.dep; omega, by
    have := h.cap
    have : d * maxPre ≤ d' * maxPre := Nat.mul_le_mul_right _ hd
    omega⟩

/-- all members of a field list are good -/
structure AllG (d : Nat) (l : List Schema) : Prop where
  all : ∀ s ∈ l, G d s

theorem allg_nil {d} : AllG d [] := ⟨fun _ h => by cases h⟩
theorem allg_cons {d a l} (ha : G d a) (hl : AllG d l) : AllG d (a :: l) := by
  refine ⟨fun s hs => ?_⟩
  rcases List.mem_cons.1 hs with rfl | h
  · exact ha
  · exact hl.all s h
theorem allg_onlyIf {d c fs} (h : AllG d fs) : AllG d (onlyIf c fs) := by
  unfold onlyIf; split
  · exact h
  · exact allg_nil
theorem allg_ite {d a b} {c : Prop} [Decidable c] (ha : AllG d a) (hb : AllG d b) : AllG d (if c then a else b) := by
  split <;> assumption
theorem allg_append {d a b} (ha : AllG d a) (hb : AllG d b) : AllG d (a ++ b) := by
  refine ⟨fun s hs => ?_⟩
  rcases List.mem_append.1 hs with h | h
  · exact ha.all s h
  · exact hb.all s h

theorem good_seqs {d l} (h : AllG d l) : G d (seqs l) := by
  induction l with
  | nil => exact good_unit
  | cons a t ih =>
    cases t with
    | nil => exact h.all a (by simp)
    | cons b t' =>
      show G d (.seq a (seqs (b :: t')))
      exact good_seq (h.all a (by simp)) (ih ⟨fun s hs => h.all s (List.mem_cons_of_mem _ hs)⟩)

/-- all groups of a `fields [...]` -/
structure AllGG (d : Nat) (gs : List (List Schema)) : Prop where
  all : ∀ g ∈ gs, AllG d g

theorem allgg_nil {d} : AllGG d [] := ⟨fun _ h => by cases h⟩
theorem allgg_cons {d g gs} (hg : AllG d g) (hgs : AllGG d gs) : AllGG d (g :: gs) := by
  refine ⟨fun x hx => ?_⟩
  rcases List.mem_cons.1 hx with rfl | h
  · exact hg
  · exact hgs.all x h

theorem good_fields {d gs} (h : AllGG d gs) : G d (fields gs) := by
  unfold fields
  apply good_seqs
  refine ⟨fun s hs => ?_⟩
  obtain ⟨g, hg, hsg⟩ := List.mem_flatten.1 hs
  exact (h.all g hg).all s hsg

theorem good_swL {d tag cases dflt} (ht : tag.cap ≤ L) (hc : AllG d cases) (hd : G d dflt) :
    G d (swL tag cases dflt) := by
  unfold swL
  exact good_sw ht (fun i => hc.all _ (List.get_mem cases i)) hd

theorem minLen_seqs_cons (a : Schema) (l : List Schema) : minLen a ≤ minLen (seqs (a :: l)) := by
  cases l with
  | nil => exact Nat.le_refl _
  | cons b t => show minLen a ≤ minLen (.seq a (seqs (b :: t))); simp only [minLen]; omega

theorem minLen_fields_cons (a : Schema) (g : List Schema) (gs : List (List Schema)) :
    minLen a ≤ minLen (fields ((a :: g) :: gs)) := by
  unfold fields
  simp only [List.flatten_cons, List.cons_append]
  exact minLen_seqs_cons a _

/-! ### the structural tactic -/

/-- closes / decomposes goals `G d s`, `AllG d l`, `AllGG d gs` following the shape of the schema -/
macro "good" : tactic => `(tactic| repeat' (first
  | exact good_unit
  | exact good_fail
  | (apply good_prim; decide)
  | exact allg_nil
  | exact allgg_nil
  | apply allg_cons
  | apply allgg_cons
  | apply allg_onlyIf
  | apply good_fields
  | apply good_seqs
  | apply good_swL
  | apply good_ite
  | apply allg_ite
  | apply good_seq
  | apply good_opt
  | apply good_optD
  | decide))

/-! ### shared sub-schemas -/

theorem good_string {d} : G d string := by unfold string; exact good_prim _ (by decide)
theorem good_nbt {d named} : G d (nbt named) := good_prim _ (Nat.zero_le _)
theorem good_nbtC {d named} : G d (nbtC named) := good_prim _ (Nat.zero_le _)
theorem good_component {d} (p : Int) : G d (component p) := by
  unfold component; exact good_ite good_nbt good_string

theorem good_props : G 1 props := by
  unfold props
  refine good_arr ?_ (by decide) (by decide)
  good

theorem good_lastSeen (p : Int) : G 0 (lastSeen p) := by unfold lastSeen; good
theorem good_soundSource (p : Int) : G 0 (soundSource p) := by
  unfold soundSource
  apply good_swL (by decide) _ good_unit
  apply allg_append
  · exact ⟨fun s hs => by rw [List.eq_of_mem_replicate hs]; exact good_unit⟩
  · exact allg_cons (good_ite good_fail good_unit) allg_nil

/-- the statement per packet schema -/
def GoodP (o : Option PSchema) : Prop := ∃ ps, o = some ps ∧ G 3 ps.body

theorem goodP_mk {s : Schema} (h : G 3 s) : GoodP (some (mk s)) := ⟨_, rfl, h⟩
theorem goodP_of {ps : PSchema} (h : G 3 ps.body) : GoodP (some ps) := ⟨_, rfl, h⟩

end Gate.C05
