import GateModel.C05.Shapes
/-
C05 — `GoodP (schemaOf T c)` for every modelled packet type `T` and EVERY context `c`, then assembled.
One theorem per type; the proofs follow the structure of the schema with the `goodp` tactic.
-/
namespace Gate.C05
open Gate Gate.C03 Gate.C04

macro "goodp" : tactic => `(tactic| repeat' (first
  | exact good_unit
  | exact good_fail
  | exact good_string
  | exact good_nbt
  | exact good_nbtC
  | exact good_component _
  | exact good_mono good_props (by decide)
  | exact good_mono (good_lastSeen _) (by decide)
  | exact good_mono (good_soundSource _) (by decide)
  | (apply good_prim; decide)
  | exact allg_nil
  | exact allgg_nil
  | apply allg_cons
  | apply allgg_cons
  | apply allg_onlyIf
  | apply good_fields
  | apply good_seqs
  | apply good_swL
  | (refine good_sw (by decide) ?_ ?_)
  | (refine good_arr ?_ ?_ ?_)
  | apply good_ite
  | apply allg_ite
  | apply good_seq
  | apply good_opt
  | apply good_optD
  | exact Nat.le_refl _
  | exact Nat.le_add_right _ _
  | exact Nat.le_trans (by decide) (minLen_fields_cons _ _ _)
  | decide
  | (split <;> decide)
  | intro _
  | split))

theorem g_packet_Handshake (c : Ctx) : GoodP (schemaOf "packet.Handshake" c) := by
  refine ⟨_, rfl, ?_⟩
  goodp

theorem g_packet_StatusRequest (c : Ctx) : GoodP (schemaOf "packet.StatusRequest" c) := by
  refine ⟨_, rfl, ?_⟩
  goodp

theorem g_packet_StatusPing (c : Ctx) : GoodP (schemaOf "packet.StatusPing" c) := by
  refine ⟨_, rfl, ?_⟩
  goodp

theorem g_packet_StatusResponse (c : Ctx) : GoodP (schemaOf "packet.StatusResponse" c) := by
  refine ⟨_, rfl, ?_⟩
  goodp

theorem g_packet_EncryptionRequest (c : Ctx) : GoodP (schemaOf "packet.EncryptionRequest" c) := by
  refine ⟨_, rfl, ?_⟩
  goodp

theorem g_packet_EncryptionResponse (c : Ctx) : GoodP (schemaOf "packet.EncryptionResponse" c) := by
  refine ⟨_, rfl, ?_⟩
  goodp

theorem g_packet_ServerLoginSuccess (c : Ctx) : GoodP (schemaOf "packet.ServerLoginSuccess" c) := by
  refine ⟨_, rfl, ?_⟩
  goodp

theorem g_packet_SetCompression (c : Ctx) : GoodP (schemaOf "packet.SetCompression" c) := by
  refine ⟨_, rfl, ?_⟩
  goodp

theorem g_packet_LoginPluginMessage (c : Ctx) : GoodP (schemaOf "packet.LoginPluginMessage" c) := by
  refine ⟨_, rfl, ?_⟩
  goodp

theorem g_packet_LoginPluginResponse (c : Ctx) : GoodP (schemaOf "packet.LoginPluginResponse" c) := by
  refine ⟨_, rfl, ?_⟩
  goodp

theorem g_packet_LoginAcknowledged (c : Ctx) : GoodP (schemaOf "packet.LoginAcknowledged" c) := by
  refine ⟨_, rfl, ?_⟩
  goodp

theorem g_packet_KeepAlive (c : Ctx) : GoodP (schemaOf "packet.KeepAlive" c) := by
  refine ⟨_, rfl, ?_⟩
  goodp

theorem g_packet_PingIdentify (c : Ctx) : GoodP (schemaOf "packet.PingIdentify" c) := by
  refine ⟨_, rfl, ?_⟩
  goodp

theorem g_plugin_Message (c : Ctx) : GoodP (schemaOf "plugin.Message" c) := by
  refine ⟨_, rfl, ?_⟩
  goodp

theorem g_packet_ClientSettings (c : Ctx) : GoodP (schemaOf "packet.ClientSettings" c) := by
  refine ⟨_, rfl, ?_⟩
  goodp

theorem g_packet_ResourcePackResponse (c : Ctx) : GoodP (schemaOf "packet.ResourcePackResponse" c) := by
  refine ⟨_, rfl, ?_⟩
  goodp

theorem g_packet_RemoveResourcePack (c : Ctx) : GoodP (schemaOf "packet.RemoveResourcePack" c) := by
  refine ⟨_, rfl, ?_⟩
  goodp

theorem g_packet_Transfer (c : Ctx) : GoodP (schemaOf "packet.Transfer" c) := by
  refine ⟨_, rfl, ?_⟩
  goodp

theorem g_packet_CustomClickActionPacket (c : Ctx) : GoodP (schemaOf "packet.CustomClickActionPacket" c) := by
  refine ⟨_, rfl, ?_⟩
  goodp

theorem g_packet_CustomReportDetails (c : Ctx) : GoodP (schemaOf "packet.CustomReportDetails" c) := by
  refine ⟨_, rfl, ?_⟩
  goodp

theorem g_packet_DialogClear (c : Ctx) : GoodP (schemaOf "packet.DialogClear" c) := by
  refine ⟨_, rfl, ?_⟩
  goodp

theorem g_packet_BundleDelimiter (c : Ctx) : GoodP (schemaOf "packet.BundleDelimiter" c) := by
  refine ⟨_, rfl, ?_⟩
  goodp

theorem g_config_FinishedUpdate (c : Ctx) : GoodP (schemaOf "config.FinishedUpdate" c) := by
  refine ⟨_, rfl, ?_⟩
  goodp

theorem g_config_StartUpdate (c : Ctx) : GoodP (schemaOf "config.StartUpdate" c) := by
  refine ⟨_, rfl, ?_⟩
  goodp

theorem g_config_CodeOfConductAcceptPacket (c : Ctx) : GoodP (schemaOf "config.CodeOfConductAcceptPacket" c) := by
  refine ⟨_, rfl, ?_⟩
  goodp

theorem g_config_CodeOfConductPacket (c : Ctx) : GoodP (schemaOf "config.CodeOfConductPacket" c) := by
  refine ⟨_, rfl, ?_⟩
  goodp

theorem g_config_RegistrySync (c : Ctx) : GoodP (schemaOf "config.RegistrySync" c) := by
  refine ⟨_, rfl, ?_⟩
  goodp

theorem g_config_KnownPacks (c : Ctx) : GoodP (schemaOf "config.KnownPacks" c) := by
  refine ⟨_, rfl, ?_⟩
  goodp

theorem g_config_ActiveFeatures (c : Ctx) : GoodP (schemaOf "config.ActiveFeatures" c) := by
  refine ⟨_, rfl, ?_⟩
  goodp

theorem g_config_TagsUpdate (c : Ctx) : GoodP (schemaOf "config.TagsUpdate" c) := by
  refine ⟨_, rfl, ?_⟩
  goodp

theorem g_cookie_CookieRequest (c : Ctx) : GoodP (schemaOf "cookie.CookieRequest" c) := by
  refine ⟨_, rfl, ?_⟩
  goodp

theorem g_cookie_CookieStore (c : Ctx) : GoodP (schemaOf "cookie.CookieStore" c) := by
  refine ⟨_, rfl, ?_⟩
  goodp

theorem g_cookie_CookieResponse (c : Ctx) : GoodP (schemaOf "cookie.CookieResponse" c) := by
  refine ⟨_, rfl, ?_⟩
  goodp

theorem g_packet_TabCompleteRequest (c : Ctx) : GoodP (schemaOf "packet.TabCompleteRequest" c) := by
  refine ⟨_, rfl, ?_⟩
  goodp

theorem g_packet_PlayerChatCompletion (c : Ctx) : GoodP (schemaOf "packet.PlayerChatCompletion" c) := by
  refine ⟨_, rfl, ?_⟩
  goodp

theorem g_packet_SoundEntityPacket (c : Ctx) : GoodP (schemaOf "packet.SoundEntityPacket" c) := by
  refine ⟨_, rfl, ?_⟩
  goodp

theorem g_packet_StopSoundPacket (c : Ctx) : GoodP (schemaOf "packet.StopSoundPacket" c) := by
  refine ⟨_, rfl, ?_⟩
  goodp

theorem g_title_Times (c : Ctx) : GoodP (schemaOf "title.Times" c) := by
  refine ⟨_, rfl, ?_⟩
  goodp

theorem g_title_Clear (c : Ctx) : GoodP (schemaOf "title.Clear" c) := by
  refine ⟨_, rfl, ?_⟩
  goodp

theorem g_chat_LegacyChat (c : Ctx) : GoodP (schemaOf "chat.LegacyChat" c) := by
  refine ⟨_, rfl, ?_⟩
  goodp

theorem g_chat_ChatAcknowledgement (c : Ctx) : GoodP (schemaOf "chat.ChatAcknowledgement" c) := by
  refine ⟨_, rfl, ?_⟩
  goodp

theorem g_chat_SessionPlayerChat (c : Ctx) : GoodP (schemaOf "chat.SessionPlayerChat" c) := by
  refine ⟨_, rfl, ?_⟩
  goodp

theorem g_chat_SessionPlayerCommand (c : Ctx) : GoodP (schemaOf "chat.SessionPlayerCommand" c) := by
  refine ⟨_, rfl, ?_⟩
  goodp

theorem g_chat_UnsignedPlayerCommand (c : Ctx) : GoodP (schemaOf "chat.UnsignedPlayerCommand" c) := by
  refine ⟨_, rfl, ?_⟩
  goodp

theorem g_playerinfo_Remove (c : Ctx) : GoodP (schemaOf "playerinfo.Remove" c) := by
  refine ⟨_, rfl, ?_⟩
  goodp

theorem g_packet_ServerLogin (c : Ctx) : GoodP (schemaOf "packet.ServerLogin" c) := by
  refine ⟨_, rfl, ?_⟩
  goodp

theorem g_packet_Disconnect (c : Ctx) : GoodP (schemaOf "packet.Disconnect" c) := by
  refine ⟨_, rfl, ?_⟩
  goodp

theorem g_packet_ResourcePackRequest (c : Ctx) : GoodP (schemaOf "packet.ResourcePackRequest" c) := by
  refine ⟨_, rfl, ?_⟩
  goodp

theorem g_packet_ServerLinks (c : Ctx) : GoodP (schemaOf "packet.ServerLinks" c) := by
  refine ⟨_, rfl, ?_⟩
  goodp

theorem g_packet_DialogShow (c : Ctx) : GoodP (schemaOf "packet.DialogShow" c) := by
  refine ⟨_, rfl, ?_⟩
  goodp

theorem g_packet_TabCompleteResponse (c : Ctx) : GoodP (schemaOf "packet.TabCompleteResponse" c) := by
  refine ⟨_, rfl, ?_⟩
  goodp

theorem g_packet_HeaderAndFooter (c : Ctx) : GoodP (schemaOf "packet.HeaderAndFooter" c) := by
  refine ⟨_, rfl, ?_⟩
  goodp

theorem g_packet_ServerData (c : Ctx) : GoodP (schemaOf "packet.ServerData" c) := by
  refine ⟨_, rfl, ?_⟩
  goodp

theorem g_bossbar_BossBar (c : Ctx) : GoodP (schemaOf "bossbar.BossBar" c) := by
  refine ⟨_, rfl, ?_⟩
  goodp

theorem g_title_Text (c : Ctx) : GoodP (schemaOf "title.Text" c) := by
  refine ⟨_, rfl, ?_⟩
  goodp

theorem g_title_Subtitle (c : Ctx) : GoodP (schemaOf "title.Subtitle" c) := by
  refine ⟨_, rfl, ?_⟩
  goodp

theorem g_title_Actionbar (c : Ctx) : GoodP (schemaOf "title.Actionbar" c) := by
  refine ⟨_, rfl, ?_⟩
  goodp

theorem g_title_Legacy (c : Ctx) : GoodP (schemaOf "title.Legacy" c) := by
  refine ⟨_, rfl, ?_⟩
  goodp

theorem g_chat_SystemChat (c : Ctx) : GoodP (schemaOf "chat.SystemChat" c) := by
  refine ⟨_, rfl, ?_⟩
  goodp

theorem g_playerinfo_Upsert (c : Ctx) : GoodP (schemaOf "playerinfo.Upsert" c) := by
  refine ⟨_, rfl, ?_⟩
  goodp

theorem g_packet_JoinGame (c : Ctx) : GoodP (schemaOf "packet.JoinGame" c) := by
  refine ⟨_, rfl, ?_⟩
  goodp

theorem g_packet_Respawn (c : Ctx) : GoodP (schemaOf "packet.Respawn" c) := by
  refine ⟨_, rfl, ?_⟩
  goodp

/-- every modelled packet schema, in every context -/
theorem all_good (name : String) (hn : name ∈ fullTypes ++ opaqueTypes) (c : Ctx) : GoodP (schemaOf name c) := by
  simp only [fullTypes, opaqueTypes, List.cons_append, List.nil_append, List.mem_cons, List.mem_nil_iff, or_false] at hn
  rcases hn with rfl | hn
  · exact g_packet_Handshake c
  rcases hn with rfl | hn
  · exact g_packet_StatusRequest c
  rcases hn with rfl | hn
  · exact g_packet_StatusPing c
  rcases hn with rfl | hn
  · exact g_packet_StatusResponse c
  rcases hn with rfl | hn
  · exact g_packet_EncryptionRequest c
  rcases hn with rfl | hn
  · exact g_packet_EncryptionResponse c
  rcases hn with rfl | hn
  · exact g_packet_ServerLoginSuccess c
  rcases hn with rfl | hn
  · exact g_packet_SetCompression c
  rcases hn with rfl | hn
  · exact g_packet_LoginPluginMessage c
  rcases hn with rfl | hn
  · exact g_packet_LoginPluginResponse c
  rcases hn with rfl | hn
  · exact g_packet_LoginAcknowledged c
  rcases hn with rfl | hn
  · exact g_packet_KeepAlive c
  rcases hn with rfl | hn
  · exact g_packet_PingIdentify c
  rcases hn with rfl | hn
  · exact g_plugin_Message c
  rcases hn with rfl | hn
  · exact g_packet_ClientSettings c
  rcases hn with rfl | hn
  · exact g_packet_ResourcePackResponse c
  rcases hn with rfl | hn
  · exact g_packet_RemoveResourcePack c
  rcases hn with rfl | hn
  · exact g_packet_Transfer c
  rcases hn with rfl | hn
  · exact g_packet_CustomClickActionPacket c
  rcases hn with rfl | hn
  · exact g_packet_CustomReportDetails c
  rcases hn with rfl | hn
  · exact g_packet_DialogClear c
  rcases hn with rfl | hn
  · exact g_packet_BundleDelimiter c
  rcases hn with rfl | hn
  · exact g_config_FinishedUpdate c
  rcases hn with rfl | hn
  · exact g_config_StartUpdate c
  rcases hn with rfl | hn
  · exact g_config_CodeOfConductAcceptPacket c
  rcases hn with rfl | hn
  · exact g_config_CodeOfConductPacket c
  rcases hn with rfl | hn
  · exact g_config_RegistrySync c
  rcases hn with rfl | hn
  · exact g_config_KnownPacks c
  rcases hn with rfl | hn
  · exact g_config_ActiveFeatures c
  rcases hn with rfl | hn
  · exact g_config_TagsUpdate c
  rcases hn with rfl | hn
  · exact g_cookie_CookieRequest c
  rcases hn with rfl | hn
  · exact g_cookie_CookieStore c
  rcases hn with rfl | hn
  · exact g_cookie_CookieResponse c
  rcases hn with rfl | hn
  · exact g_packet_TabCompleteRequest c
  rcases hn with rfl | hn
  · exact g_packet_PlayerChatCompletion c
  rcases hn with rfl | hn
  · exact g_packet_SoundEntityPacket c
  rcases hn with rfl | hn
  · exact g_packet_StopSoundPacket c
  rcases hn with rfl | hn
  · exact g_title_Times c
  rcases hn with rfl | hn
  · exact g_title_Clear c
  rcases hn with rfl | hn
  · exact g_chat_LegacyChat c
  rcases hn with rfl | hn
  · exact g_chat_ChatAcknowledgement c
  rcases hn with rfl | hn
  · exact g_chat_SessionPlayerChat c
  rcases hn with rfl | hn
  · exact g_chat_SessionPlayerCommand c
  rcases hn with rfl | hn
  · exact g_chat_UnsignedPlayerCommand c
  rcases hn with rfl | hn
  · exact g_playerinfo_Remove c
  rcases hn with rfl | hn
  · exact g_packet_ServerLogin c
  rcases hn with rfl | hn
  · exact g_packet_Disconnect c
  rcases hn with rfl | hn
  · exact g_packet_ResourcePackRequest c
  rcases hn with rfl | hn
  · exact g_packet_ServerLinks c
  rcases hn with rfl | hn
  · exact g_packet_DialogShow c
  rcases hn with rfl | hn
  · exact g_packet_TabCompleteResponse c
  rcases hn with rfl | hn
  · exact g_packet_HeaderAndFooter c
  rcases hn with rfl | hn
  · exact g_packet_ServerData c
  rcases hn with rfl | hn
  · exact g_bossbar_BossBar c
  rcases hn with rfl | hn
  · exact g_title_Text c
  rcases hn with rfl | hn
  · exact g_title_Subtitle c
  rcases hn with rfl | hn
  · exact g_title_Actionbar c
  rcases hn with rfl | hn
  · exact g_title_Legacy c
  rcases hn with rfl | hn
  · exact g_chat_SystemChat c
  rcases hn with rfl | hn
  · exact g_playerinfo_Upsert c
  rcases hn with rfl | hn
  · exact g_packet_JoinGame c
  subst hn
  exact g_packet_Respawn c

end Gate.C05
