import GateModel.C14.Lemmas
/-
C14 — Packets sent during configuration are delivered after it, in order, without loss.

All theorems quantify over EVERY schedule `sched` of a system built by `mkSys`: any number of goroutines,
each any list of `write p` (BufferPacket of a play-only or a config-valid packet), `setState` (SetState /
SetOutboundState), `setWire` (Writer().SetState) and `enableQueue` (EnablePlayPacketQueue) calls, starting
in PLAY (no queue) or in CONFIG (empty active queue).  `Mode.repaired` is the source (a regenerated fact
below), `Mode.defective` the code before the fix.
-/
namespace Gate.C14.Props
open Gate.C14

/-! ### held packets: no loss, no duplicate, FIFO -/

/-- At every moment of every schedule: the packets ever accepted into the holding queue, in acceptance
    order (`qlog`), are exactly the ones already released to the wire (in wire order) followed by the ones
    still held, followed by the ones discarded by a release on a closed connection. -/
theorem held_fifo_no_loss_no_dup (inConfig : Bool) (threads : List (List Act)) (sched : List Nat) (s : Sys)
    (h : exec .repaired (mkSys inConfig threads) sched = some s) :
    released s ++ held s ++ s.dropped = s.qlog ∧ (s.closed = false → s.dropped = []) ∧ s.lost = [] := by
  have inv := exec_Inv h (inv_mkSys inConfig threads)
  refine ⟨inv.fifo, fun hc => ?_, inv.noLost⟩
  apply Classical.byContradiction
  intro hne
  have := (inv.drop hne).1
  rw [hc] at this; cases this

/-- a write that reported success is in the queue log or went to the wire: nothing is dropped silently -/
theorem accepted_is_held_or_written (inConfig : Bool) (threads : List (List Act)) (sched : List Nat) (s : Sys)
    (h : exec .repaired (mkSys inConfig threads) sched = some s) (t : Nat) (p : Pkt)
    (hr : (t, p, Res.ok) ∈ s.results) : p ∈ s.qlog ∨ (p, false) ∈ s.wire :=
  (exec_Inv h (inv_mkSys inConfig threads)).accepted _ hr rfl

/-- open connection, no queue active (the client is back in PLAY): everything ever held is on the wire,
    in the order it was written -/
theorem all_released_when_no_queue (inConfig : Bool) (threads : List (List Act)) (sched : List Nat) (s : Sys)
    (h : exec .repaired (mkSys inConfig threads) sched = some s) (hq : s.queue = none) (hc : s.closed = false) :
    released s = s.qlog := by
  have ⟨hf, hd, _⟩ := held_fifo_no_loss_no_dup inConfig threads sched s h
  rw [hd hc] at hf
  simpa [held, hq] using hf

/-- the wire is append-only: whatever is written later comes after what is already there -/
theorem wire_append_only (m : Mode) (s s' : Sys) (sched : List Nat) (h : exec m s sched = some s') :
    ∃ ext, s'.wire = s.wire ++ ext :=
  (exec_mono sched s s' h).1

/-- together: a play packet written (decided) after the connection left CONFIG lands after every packet
    that was held: at its decision no queue is active, so all held packets are already on the wire, and
    its own wire write only appends -/
theorem later_play_packet_after_released (inConfig : Bool) (threads : List (List Act)) (sched : List Nat) (s : Sys)
    (h : exec .repaired (mkSys inConfig threads) sched = some s) (hq : s.queue = none) (hc : s.closed = false)
    (later : List Nat) (s' : Sys) (h' : exec .repaired s later = some s') :
    ∃ ext, s'.wire = s.wire ++ ext ∧ (s.wire.filter (·.2)).map (·.1) = s.qlog :=
  let ⟨ext, he⟩ := wire_append_only .repaired s s' later h'
  ⟨ext, he, all_released_when_no_queue inConfig threads sched s h hq hc⟩

/-! ### config-valid packets are written immediately -/

theorem config_valid_not_queued (s : Sys) (t : Nat) (p : Pkt) (hk : p.kind = .both) (hc : s.closed = false)
    (hm : s.mu = none) : effect .repaired s t (.write p) = some (s, [.wire p]) := by
  simp only [effect, hc, hm]
  cases hq : s.queue <;> simp [hk]

theorem config_valid_wire_write (m : Mode) (s : Sys) (t : Nat) (p : Pkt) (hk : p.kind = .both) :
    effect m s t (.wire p) =
      some ({ s with wire := s.wire ++ [(p, false)], results := s.results ++ [(t, p, .ok)] }, []) := by
  simp [effect, registered, hk]

/-- a play-only packet written while the queue is active (and not full) is held, not written -/
theorem play_only_held_in_config (s : Sys) (t : Nat) (p : Pkt) (ql : List Pkt) (hk : p.kind = .playOnly)
    (hc : s.closed = false) (hm : s.mu = none) (hq : s.queue = some ql) (hl : ql.length < cap) :
    effect .repaired s t (.write p) =
      some ({ s with queue := some (ql ++ [p]), qlog := s.qlog ++ [p], results := s.results ++ [(t, p, .ok)] }, []) := by
  simp only [effect, hc, hm, hq, hk]
  simp [Nat.not_le.2 hl]

/-! ### the queue is bounded; overflow closes the connection -/

theorem queue_bounded (inConfig : Bool) (threads : List (List Act)) (sched : List Nat) (s : Sys)
    (h : exec .repaired (mkSys inConfig threads) sched = some s) : (held s).length ≤ cap :=
  (exec_Inv h (inv_mkSys inConfig threads)).bound

theorem cap_is_1024 : cap = 1024 := by decide

theorem overflow_closes (s : Sys) (t : Nat) (p : Pkt) (ql : List Pkt) (hk : p.kind = .playOnly)
    (hc : s.closed = false) (hm : s.mu = none) (hq : s.queue = some ql) (hl : cap ≤ ql.length) :
    effect .repaired s t (.write p) =
      some ({ s with closed := true, results := s.results ++ [(t, p, .full)] }, []) := by
  simp only [effect, hc, hm, hq, hk]
  simp [hl]

theorem closed_is_forever (m : Mode) (s s' : Sys) (sched : List Nat) (h : exec m s sched = some s')
    (hc : s.closed = true) : s'.closed = true :=
  (exec_mono sched s s' h).2 hc

/-! ### non-vacuity: a concrete interleaving -/

def demo : List (List Act) :=
  [ [.write ⟨1, .playOnly⟩, .write ⟨2, .both⟩, .write ⟨3, .playOnly⟩, .write ⟨6, .playOnly⟩],
    [.setState .play], [.write ⟨4, .playOnly⟩, .write ⟨5, .playOnly⟩] ]
/-- held 1,4,3 are released in that order, the config-valid 2 went out immediately, 5 and 6 follow -/
example : (match exec .repaired (mkSys true demo) [0, 0, 2, 0, 0, 1, 1, 1, 1, 1, 1, 2, 2, 0, 0] with
    | some s => s.wire.map (·.1.tag) == [2, 1, 4, 3, 5, 6] && terminal s && s.queue.isNone | none => false) = true := by decide

/-! ### the code before the fix loses packets -/

/-- one writer, one goroutine leaving CONFIG -/
def lossProg : List (List Act) := [[.write ⟨7, .playOnly⟩], [.setState .play]]

/-- `BufferPacket` reported success, yet the packet is neither held, nor on the wire, nor was the connection
    closed: the writer read the queue pointer, the release emptied and dropped the queue, then the writer
    pushed onto the dead queue -/
def silentlyLost (m : Mode) (prog : List (List Act)) (sched : List Nat) (p : Pkt) : Bool :=
  match exec m (mkSys true prog) sched with
  | some s => terminal s && !s.closed && s.results.any (fun e => e.2.1 == p && e.2.2 == .ok)
      && !(s.qlog.contains p) && !(s.wire.any (·.1 == p)) && s.queue.isNone
  | none => false

theorem no_loss_defective_fails : silentlyLost .defective lossProg [0, 0, 1, 1, 1, 0] ⟨7, .playOnly⟩ = true := by decide

/-- the full-strength statement fails for the defective code -/
theorem accepted_is_held_or_written_defective_fails :
    ¬ (∀ (sched : List Nat) (s : Sys), exec .defective (mkSys true lossProg) sched = some s →
        ∀ t p, (t, p, Res.ok) ∈ s.results → p ∈ s.qlog ∨ (p, false) ∈ s.wire) := by
  intro hall
  have hw := no_loss_defective_fails
  unfold silentlyLost at hw
  split at hw
  · rename_i s hs
    simp only [Bool.and_eq_true, Bool.not_eq_true', List.any_eq_true] at hw
    obtain ⟨⟨⟨⟨⟨_, _⟩, ⟨e, he, hep⟩⟩, hq⟩, hwire⟩, _⟩ := hw
    simp only [Bool.and_eq_true, beq_iff_eq] at hep
    have hmem : (e.1, (⟨7, .playOnly⟩ : Pkt), Res.ok) ∈ s.results := by
      have : e = (e.1, (⟨7, .playOnly⟩ : Pkt), Res.ok) := by
        rcases e with ⟨a, b, c⟩; simp at hep; simp [hep.1, hep.2]
      rw [← this]; exact he
    rcases hall _ s hs _ _ hmem with h1 | h1
    · simp [List.contains_iff_mem] at hq; exact hq h1
    · have : s.wire.any (fun x => x.1 == (⟨7, .playOnly⟩ : Pkt)) = true :=
        List.any_eq_true.2 ⟨_, h1, by simp⟩
      rw [this] at hwire; cases hwire
  · cases hw

/-- the same schedule is impossible for the repaired code (the decision is one critical section), and the
    same program ends well under e.g. this schedule -/
example : (match exec .repaired (mkSys true lossProg) [1, 1, 1, 0, 0] with
    | some s => terminal s && s.wire.map (·.1.tag) == [7] | none => false) = true := by decide
example : (match exec .repaired (mkSys true lossProg) [0, 1, 1, 1, 1] with
    | some s => terminal s && s.wire.map (·.1.tag) == [7] && s.wire.all (·.2) | none => false) = true := by decide

/-! ### tie to the source: lock regions and the cap regenerated from connection.go / packet_queue.go -/

open Gate.Gen.C14 in
/-- `bufferPacket` calls `Queue` on the connection's queue inside the `c.mu` critical section, after the
    `Closed` check and before the encoder write -/
theorem queue_decision_under_lock :
    insideLock bufferPacketCalls "c.mu.Lock" "c.mu.Unlock" "c.playPacketQueue.Queue" = true ∧
    bufferPacketCalls.head? = some "Closed" ∧ before bufferPacketCalls "c.mu.Unlock" "c.wr.WritePacket" = true ∧
    (bufferPacketCalls.filter (· == "c.mu.Lock")).length = 1 ∧ has bufferPacketCalls "c.closeOnWriteErr" = true := by
  decide

open Gate.Gen.C14 in
/-- `SetState` / `SetOutboundState` switch the encoder and activate or release the queue in ONE critical section -/
theorem state_change_is_one_critical_section :
    insideLock setStateCalls "c.mu.Lock" "c.mu.Unlock" "c.wr.SetState" = true ∧
    insideLock setStateCalls "c.mu.Lock" "c.mu.Unlock" "c.ensurePlayPacketQueue" = true ∧
    before setStateCalls "c.wr.SetState" "c.ensurePlayPacketQueue" = true ∧
    insideLock setOutboundStateCalls "c.mu.Lock" "c.mu.Unlock" "c.wr.SetState" = true ∧
    insideLock setOutboundStateCalls "c.mu.Lock" "c.mu.Unlock" "c.ensurePlayPacketQueue" = true ∧
    ensureQueueCalls = ["c.activatePlayPacketQueue", "return", "c.playPacketQueue.ReleaseQueue", "c.log.Error"] ∧
    has activateCalls "queue.NewPlayPacketQueue" = true ∧ has enableQueueCalls "c.activatePlayPacketQueue" = true := by
  decide

open Gate.Gen.C14 in
/-- `Queue`: registry test, then length test, then `PushBack`; `ReleaseQueue`: pop front, buffer, finally flush -/
theorem queue_shape :
    queueCalls = ["return", "h.registry.PacketID", "h.queue.Len", "return", "h.queue.PushBack", "return", "return"] ∧
    releaseCalls = ["return", "h.queue.Len", "h.queue.PopFront", "buffer", "return", "flush", "return", "return"] ∧
    maxQueueLen = 1024 := by decide

end Gate.C14.Props
