import GateModel.C14.Model
/-
C14 helper lemmas: step inversion, the FIFO-log invariant of the repaired code, monotonicity of the wire.
-/
namespace Gate.C14

theorem step_inv {m s t s'} (h : step m s t = some s') :
    ∃ act rest s1 pushed, s.threads[t]? = some (act :: rest) ∧ effect m s t act = some (s1, pushed) ∧
      s' = { s1 with threads := s.threads.set t (pushed ++ rest) } := by
  unfold step at h
  split at h
  · rename_i act rest hth
    split at h
    · rename_i s1 pushed he
      simp at h
      exact ⟨act, rest, s1, pushed, hth, he, h.symm⟩
    · simp at h
  · simp at h

theorem exec_induct (m : Mode) (P : Sys → Prop)
    (hstep : ∀ s t s', P s → step m s t = some s' → P s') :
    ∀ (sched : List Nat) (s s' : Sys), P s → exec m s sched = some s' → P s'
  | [], s, s', hp, h => by simp [exec] at h; subst h; exact hp
  | t :: ts, s, s', hp, h => by
      simp only [exec] at h
      cases hs : step m s t with
      | none => simp [hs] at h
      | some s1 =>
        simp [hs] at h
        exact exec_induct m P hstep ts s1 s' (hstep s t s1 hp hs) h

theorem released_append_false (w : List (Pkt × Bool)) (p : Pkt) :
    ((w ++ [(p, false)]).filter (·.2)).map (·.1) = (w.filter (·.2)).map (·.1) := by
  simp [List.filter_append]
theorem released_append_true (w : List (Pkt × Bool)) (p : Pkt) :
    ((w ++ [(p, true)]).filter (·.2)).map (·.1) = (w.filter (·.2)).map (·.1) ++ [p] := by
  simp [List.filter_append]

/-- the invariant of the repaired code -/
structure Inv (s : Sys) : Prop where
  fifo : released s ++ held s ++ s.dropped = s.qlog
  bound : (held s).length ≤ cap
  drop : s.dropped ≠ [] → s.closed = true ∧ held s = []
  noLost : s.lost = []
  accepted : ∀ e ∈ s.results, e.2.2 = .ok → e.2.1 ∈ s.qlog ∨ (e.2.1, false) ∈ s.wire

theorem inv_mkSys (inConfig : Bool) (threads : List (List Act)) : Inv (mkSys inConfig threads) := by
  cases inConfig <;> exact ⟨rfl, Nat.zero_le _, fun h => absurd rfl h, rfl, fun e he => by simp [mkSys] at he⟩

theorem effect_inv {s t act s1 pushed} (he : effect .repaired s t act = some (s1, pushed)) (inv : Inv s) : Inv s1 := by
  have hdrop0 : s.closed = false → s.dropped = [] := by
    intro hc
    apply Classical.byContradiction
    intro hne
    have := (inv.drop hne).1
    rw [hc] at this; cases this
  have hacc : ∀ (q : List Pkt) (w : List (Pkt × Bool)), (∀ x ∈ s.qlog, x ∈ q) → (∀ x ∈ s.wire, x ∈ w) →
      ∀ e ∈ s.results, e.2.2 = .ok → e.2.1 ∈ q ∨ (e.2.1, false) ∈ w := by
    intro q w hq hw e he' hok
    rcases inv.accepted e he' hok with h | h
    · exact Or.inl (hq _ h)
    · exact Or.inr (hw _ h)
  unfold effect at he
  split at he
  · -- write
    rename_i p
    split at he
    · simp at he; obtain ⟨rfl, _⟩ := he
      refine ⟨inv.fifo, inv.bound, inv.drop, inv.noLost, ?_⟩
      intro e he' hok
      simp at he'
      rcases he' with he' | rfl
      · exact inv.accepted e he' hok
      · simp at hok
    · rename_i hcl
      have hcl' : s.closed = false := by simpa using hcl
      simp only at he
      split at he
      · simp at he
      · split at he
        · rename_i ql hq
          split at he
          · split at he
            · simp at he; obtain ⟨rfl, _⟩ := he
              refine ⟨inv.fifo, inv.bound, fun h => ⟨rfl, (inv.drop h).2⟩, inv.noLost, ?_⟩
              intro e he' hok
              simp at he'
              rcases he' with he' | rfl
              · exact inv.accepted e he' hok
              · simp at hok
            · rename_i hlen
              simp at he; obtain ⟨rfl, _⟩ := he
              have hd := hdrop0 hcl'
              have hheld : held s = ql := by simp [held, hq]
              refine ⟨?_, ?_, ?_, inv.noLost, ?_⟩
              · have := inv.fifo
                rw [hheld, hd] at this
                simp only [released, held, Option.getD_some, hd, List.append_nil] at this ⊢
                rw [← this]; simp
              · simp only [held, Option.getD_some, List.length_append, List.length_cons, List.length_nil]
                omega
              · intro h; exact absurd hd h
              · intro e he' hok
                simp at he'
                rcases he' with he' | rfl
                · exact hacc _ _ (fun x hx => List.mem_append_left _ hx) (fun x hx => hx) e he' hok
                · exact Or.inl (by simp)
          · simp at he; obtain ⟨rfl, _⟩ := he; exact inv
        · simp at he; obtain ⟨rfl, _⟩ := he; exact inv
  · simp at he
  · simp at he
  · simp at he
  · -- wire
    rename_i p
    split at he
    · simp at he; obtain ⟨rfl, _⟩ := he
      refine ⟨?_, inv.bound, inv.drop, inv.noLost, ?_⟩
      · have := inv.fifo
        simp only [released, held] at this ⊢
        rw [released_append_false]; exact this
      · intro e he' hok
        simp at he'
        rcases he' with he' | rfl
        · exact hacc _ _ (fun x hx => hx) (fun x hx => List.mem_append_left _ hx) e he' hok
        · exact Or.inr (by simp)
    · simp at he; obtain ⟨rfl, _⟩ := he
      refine ⟨inv.fifo, inv.bound, fun h => ⟨rfl, (inv.drop h).2⟩, inv.noLost, ?_⟩
      intro e he' hok
      simp at he'
      rcases he' with he' | rfl
      · exact inv.accepted e he' hok
      · simp at hok
  · -- setState
    rename_i st
    split at he
    · simp at he
    · split at he
      · split at he
        · simp at he; obtain ⟨rfl, _⟩ := he
          exact ⟨inv.fifo, inv.bound, inv.drop, inv.noLost, inv.accepted⟩
        · rename_i hq
          simp at he; obtain ⟨rfl, _⟩ := he
          have hh : held s = [] := by simp [held, hq]
          refine ⟨?_, ?_, ?_, inv.noLost, inv.accepted⟩
          · have := inv.fifo; rw [hh] at this; simpa [released, held] using this
          · simp [held]
          · intro h; exact ⟨(inv.drop h).1, by simp [held]⟩
      · split at he
        · simp at he; obtain ⟨rfl, _⟩ := he
          exact ⟨inv.fifo, inv.bound, inv.drop, inv.noLost, inv.accepted⟩
        · simp at he; obtain ⟨rfl, _⟩ := he
          exact ⟨inv.fifo, inv.bound, inv.drop, inv.noLost, inv.accepted⟩
  · simp at he; obtain ⟨rfl, _⟩ := he
    exact ⟨inv.fifo, inv.bound, inv.drop, inv.noLost, inv.accepted⟩
  · -- enableQueue
    split at he
    · simp at he
    · split at he
      · simp at he; obtain ⟨rfl, _⟩ := he; exact inv
      · rename_i hq
        simp at he; obtain ⟨rfl, _⟩ := he
        have hh : held s = [] := by simp [held, hq]
        refine ⟨?_, ?_, ?_, inv.noLost, inv.accepted⟩
        · have := inv.fifo; rw [hh] at this; simpa [released, held] using this
        · simp [held]
        · intro h; exact ⟨(inv.drop h).1, by simp [held]⟩
  · -- release
    split at he
    · rename_i p ql hq
      have hheld : held s = p :: ql := by simp [held, hq]
      have hd : s.dropped = [] := by
        apply Classical.byContradiction
        intro hne
        have := (inv.drop hne).2
        rw [hheld] at this; cases this
      have hf := inv.fifo
      rw [hheld, hd] at hf
      split at he
      · rename_i hcl
        simp at he; obtain ⟨rfl, _⟩ := he
        refine ⟨?_, by simp [held], fun _ => ⟨hcl, by simp [held]⟩, inv.noLost, inv.accepted⟩
        simp only [released, held, Option.getD_none, hd, List.nil_append, List.append_nil] at hf ⊢
        exact hf
      · split at he
        · simp at he; obtain ⟨rfl, _⟩ := he
          refine ⟨?_, ?_, ?_, inv.noLost, ?_⟩
          · simp only [released, held, Option.getD_some, hd, List.append_nil] at hf ⊢
            rw [released_append_true, ← hf]; simp
          · have := inv.bound; rw [hheld] at this
            simp only [held, Option.getD_some]; simp at this; omega
          · intro h; exact absurd hd h
          · exact hacc _ _ (fun x hx => hx) (fun x hx => List.mem_append_left _ hx)
        · simp at he; obtain ⟨rfl, _⟩ := he
          refine ⟨?_, by simp [held], fun _ => ⟨rfl, by simp [held]⟩, inv.noLost, inv.accepted⟩
          simp only [released, held, Option.getD_none, hd, List.nil_append, List.append_nil] at hf ⊢
          exact hf
    · rename_i hq
      simp at he; obtain ⟨rfl, _⟩ := he
      have hh : held s = [] := by simp [held, hq]
      refine ⟨?_, by simp [held], ?_, inv.noLost, inv.accepted⟩
      · have := inv.fifo; rw [hh] at this; simpa [released, held] using this
      · intro h; exact ⟨(inv.drop h).1, by simp [held]⟩
    · simp at he; obtain ⟨rfl, _⟩ := he; exact inv
  · simp at he; obtain ⟨rfl, _⟩ := he
    exact ⟨inv.fifo, inv.bound, inv.drop, inv.noLost, inv.accepted⟩

theorem step_Inv {s t s'} (h : step .repaired s t = some s') (inv : Inv s) : Inv s' := by
  obtain ⟨act, rest, s1, pushed, _, he, rfl⟩ := step_inv h
  have i1 := effect_inv he inv
  exact ⟨i1.fifo, i1.bound, i1.drop, i1.noLost, i1.accepted⟩

theorem exec_Inv {sched s s'} (h : exec .repaired s sched = some s') (inv : Inv s) : Inv s' :=
  exec_induct .repaired Inv (fun _ _ _ hp hs => step_Inv hs hp) sched s s' inv h

/-- the write buffer is append-only, and a closed connection stays closed (both lock disciplines) -/
theorem effect_mono {m s t act s1 pushed} (he : effect m s t act = some (s1, pushed)) :
    (∃ ext, s1.wire = s.wire ++ ext) ∧ (s.closed = true → s1.closed = true) := by
  unfold effect at he
  split at he
  · split at he
    · simp at he; obtain ⟨rfl, _⟩ := he; exact ⟨⟨[], by simp⟩, id⟩
    · split at he
      · simp at he; obtain ⟨rfl, _⟩ := he; exact ⟨⟨[], by simp⟩, id⟩
      · split at he
        · simp at he
        · split at he
          · split at he
            · split at he <;> simp at he <;> obtain ⟨rfl, _⟩ := he
              · exact ⟨⟨[], by simp⟩, fun _ => rfl⟩
              · exact ⟨⟨[], by simp⟩, id⟩
            · simp at he; obtain ⟨rfl, _⟩ := he; exact ⟨⟨[], by simp⟩, id⟩
          · simp at he; obtain ⟨rfl, _⟩ := he; exact ⟨⟨[], by simp⟩, id⟩
  · split at he
    · simp at he
    · split at he
      · simp at he
      · simp at he; obtain ⟨rfl, _⟩ := he; exact ⟨⟨[], by simp⟩, id⟩
  · split at he
    · simp at he
    · simp at he; obtain ⟨rfl, _⟩ := he; exact ⟨⟨[], by simp⟩, id⟩
  · split at he
    · simp at he
    · split at he
      · split at he
        · split at he
          · split at he <;> simp at he <;> obtain ⟨rfl, _⟩ := he
            · exact ⟨⟨[], by simp⟩, fun _ => rfl⟩
            · exact ⟨⟨[], by simp⟩, id⟩
          · simp at he; obtain ⟨rfl, _⟩ := he; exact ⟨⟨[], by simp⟩, id⟩
        · simp at he; obtain ⟨rfl, _⟩ := he; exact ⟨⟨[], by simp⟩, id⟩
      · simp at he; obtain ⟨rfl, _⟩ := he; exact ⟨⟨[], by simp⟩, id⟩
  · split at he <;> simp at he <;> obtain ⟨rfl, _⟩ := he
    · exact ⟨⟨_, rfl⟩, id⟩
    · exact ⟨⟨[], by simp⟩, fun _ => rfl⟩
  · split at he
    · simp at he
    · split at he
      · split at he <;> simp at he <;> obtain ⟨rfl, _⟩ := he <;> exact ⟨⟨[], by simp⟩, id⟩
      · split at he <;> simp at he <;> obtain ⟨rfl, _⟩ := he <;> exact ⟨⟨[], by simp⟩, id⟩
  · simp at he; obtain ⟨rfl, _⟩ := he; exact ⟨⟨[], by simp⟩, id⟩
  · split at he
    · simp at he
    · split at he <;> simp at he <;> obtain ⟨rfl, _⟩ := he <;> exact ⟨⟨[], by simp⟩, id⟩
  · split at he
    · split at he
      · simp at he; obtain ⟨rfl, _⟩ := he; exact ⟨⟨[], by simp⟩, id⟩
      · split at he <;> simp at he <;> obtain ⟨rfl, _⟩ := he
        · exact ⟨⟨_, rfl⟩, id⟩
        · exact ⟨⟨[], by simp⟩, fun _ => rfl⟩
    · simp at he; obtain ⟨rfl, _⟩ := he; exact ⟨⟨[], by simp⟩, id⟩
    · simp at he; obtain ⟨rfl, _⟩ := he; exact ⟨⟨[], by simp⟩, id⟩
  · simp at he; obtain ⟨rfl, _⟩ := he; exact ⟨⟨[], by simp⟩, id⟩

theorem step_mono {m s t s'} (h : step m s t = some s') :
    (∃ ext, s'.wire = s.wire ++ ext) ∧ (s.closed = true → s'.closed = true) := by
  obtain ⟨act, rest, s1, pushed, _, he, rfl⟩ := step_inv h
  have hm := effect_mono he
  exact ⟨hm.1, hm.2⟩

theorem exec_mono {m} : ∀ (sched : List Nat) (s s' : Sys), exec m s sched = some s' →
    (∃ ext, s'.wire = s.wire ++ ext) ∧ (s.closed = true → s'.closed = true)
  | [], s, s', h => by simp [exec] at h; subst h; exact ⟨⟨[], by simp⟩, id⟩
  | t :: ts, s, s', h => by
      simp only [exec] at h
      cases hs : step m s t with
      | none => simp [hs] at h
      | some s1 =>
        simp [hs] at h
        obtain ⟨⟨e1, h1⟩, c1⟩ := step_mono hs
        obtain ⟨⟨e2, h2⟩, c2⟩ := exec_mono ts s1 s' h
        exact ⟨⟨e1 ++ e2, by rw [h2, h1, List.append_assoc]⟩, fun hc => c2 (c1 hc)⟩

end Gate.C14
