import GateModel.Base.Line
import GateModel.C14.Model
/-
C14 driver.  Case lines (see harness/c14/main.go):

  seq <op>…                         one goroutine executes the ops in order (the model runs each op to completion)
  par <writers> <perWriter> <flipAt>  goroutine stress from CONFIG: the model runs ONE schedule (round robin);
                                    the summary is schedule independent (theorems of Props)

The model always runs `Mode.repaired`.

Verdict = the property evaluated on the IMPLEMENTATION's output:
  viol:lost        a write that reported success is not on the wire although the connection is open and out of CONFIG
  viol:duplicate   a packet reached the wire twice
  viol:order       held packets were not released in the order they were written / a later play packet overtook them
  viol:early       a play-only packet reached the wire while the model still holds it (written during CONFIG)
  viol:unbounded   more than the cap was accepted without an error / overflow did not close the connection
  viol:panic, viol:hang   the real code panicked / did not finish (stress)
-/
namespace Gate.C14
open Gate

inductive Op where
  | wr (p : Pkt) | rep (n tag : Nat) | act (a : Act)

def parseOp (s : String) : Option Op :=
  if s.startsWith "wp" then (s.drop 2).toString.toNat?.map fun t => .wr ⟨t, .playOnly⟩
  else if s.startsWith "wk" then (s.drop 2).toString.toNat?.map fun t => .wr ⟨t, .both⟩
  else if s.startsWith "rp" then
    match (s.drop 2).toString.splitOn ":" with
    | [a, b] => do pure (.rep (← a.toNat?) (← b.toNat?))
    | _ => none
  else match s with
    | "sc" => some (.act (.setState .config)) | "sp" => some (.act (.setState .play))
    | "oc" => some (.act (.setState .config)) | "op" => some (.act (.setState .play))
    | "wc" => some (.act (.setWire .config)) | "wy" => some (.act (.setWire .play))
    | "eq" => some (.act .enableQueue)
    | _ => none

def showRes : Res → String
  | .ok => "ok" | .closed => "closed" | .full => "full" | .err => "err"

/-- run one act on goroutine 0 to completion -/
def runAct (s : Sys) (a : Act) : Sys :=
  runThread .repaired 8192 { s with threads := [[a]] } 0

def lastRes (s0 s1 : Sys) : Option Res :=
  if s1.results.length > s0.results.length then s1.results.getLast?.map (·.2.2) else none

def runRep : Nat → Nat → Nat → Sys → Sys × String
  | 0, _, okN, s => (s, s!"{okN}/-")
  | n + 1, tag, okN, s =>
    let s1 := runAct s (.write ⟨tag, .playOnly⟩)
    match lastRes s s1 with
    | some .ok => runRep n (tag + 1) (okN + 1) s1
    | some r => (s1, s!"{okN}/{showRes r}")
    | none => (s1, s!"{okN}/?")

def runOps : List Op → Sys → List String → Sys × List String
  | [], s, acc => (s, acc)
  | .wr p :: ops, s, acc =>
    let s1 := runAct s (.write p)
    runOps ops s1 (acc ++ [((lastRes s s1).map showRes).getD "?"])
  | .rep n tag :: ops, s, acc =>
    let (s1, r) := runRep n tag 0 s
    runOps ops s1 (acc ++ [r])
  | .act a :: ops, s, acc => runOps ops (runAct s a) (acc ++ ["-"])

def showTags (l : List Nat) : String := if l.isEmpty then "-" else ",".intercalate (l.map toString)

def field (impl key : String) : String :=
  ((impl.splitOn " ").findSome? fun kv => match kv.splitOn "=" with
    | [k, v] => if k = key then some v else none
    | _ => none).getD "?"

def hasDup : List Nat → Bool
  | [] => false
  | x :: xs => xs.contains x || hasDup xs

/-- tags of the writes the implementation reported `ok` for, in op order -/
def okTags (ops : List Op) (res : List String) : List Nat :=
  (ops.zip res).flatMap fun (o, r) => match o with
    | .wr p => if r = "ok" then [p.tag] else []
    | .rep _ tag => match (r.splitOn "/").head?.bind String.toNat? with
      | some k => (List.range k).map (· + tag)
      | none => []
    | .act _ => []

def verdictSeq (ops : List Op) (s : Sys) (mres : List String) (impl : String) : String :=
  if impl = "panic" then "viol:panic" else if impl = "hang" then "viol:hang" else
  let ires := (field impl "res").splitOn ","
  let iwire := if field impl "wire" = "-" then [] else ((field impl "wire").splitOn ",").filterMap String.toNat?
  let iclosed := field impl "closed"
  let mwire := s.wire.map (·.1.tag)
  let heldNow := (held s).map (·.tag)
  let accepted := okTags ops ires
  if hasDup iwire then "viol:duplicate"
  else if iwire.any (heldNow.contains ·) then "viol:early"
  else if iclosed = "0" && accepted.any (fun t => !iwire.contains t && !heldNow.contains t) then "viol:lost"
  else if accepted.length > (okTags ops mres).length then "viol:unbounded"
  else if iclosed != (if s.closed then "1" else "0") then (if s.closed then "viol:unbounded" else "viol:closed")
  else if iwire != mwire then (if iwire.length = mwire.length then "viol:order" else "viol:lost")
  else if ires != mres then "viol:result"
  else "ok"

def seqCase (toks : List String) (impl : String) : String × String :=
  match toks.mapM parseOp with
  | none => ("bad-case", "-")
  | some ops =>
    let (s, res) := runOps ops (mkSys false []) []
    let out := s!"res={",".intercalate res} wire={showTags (s.wire.map (·.1.tag))} closed={if s.closed then 1 else 0}"
    (out, verdictSeq ops s res impl)

def parCase (writers per : Nat) (impl : String) : String × String :=
  let ths := (List.range writers).map fun i => (List.range per).map fun j => Act.write ⟨(i + 1) * 100000 + j, .playOnly⟩
  let s0 := mkSys true (ths ++ [[.setState .play]])
  let s1 := roundRobin .repaired (8 * writers * per + 4096) s0
  let s2 := runAct s1 (.setState .play)
  let tags := s2.wire.map (·.1.tag)
  let lost := ((List.range writers).flatMap fun i => (List.range per).map fun j => (i + 1) * 100000 + j).filter
    (fun t => !tags.contains t) |>.length
  let order := (List.range writers).all fun i =>
    let mine := tags.filter (fun t => t / 100000 = i + 1)
    (mine.zip (mine.drop 1)).all fun (a, b) => a < b
  let out := s!"lost={lost} dup={if hasDup tags then 1 else 0} order={if order then 1 else 0} closed={if s2.closed then 1 else 0}"
  let verdict :=
    if impl = "panic" then "viol:panic" else if impl = "hang" then "viol:hang"
    else if field impl "lost" != "0" then "viol:lost"
    else if field impl "dup" != "0" then "viol:duplicate"
    else if field impl "order" != "1" then "viol:order"
    else if field impl "closed" != "0" then "viol:closed"
    else "ok"
  (out, verdict)

def stepCase (c : Case) : String × String :=
  if c.op = "seq" then seqCase c.args c.impl
  else if c.op = "par" then
    match c.args.map String.toNat? with
    | [some w, some p, some _] => parCase w p c.impl
    | _ => ("bad-case", "-")
  else ("bad-op", "-")

end Gate.C14

def main : IO Unit := Gate.runPureDriver Gate.C14.stepCase
