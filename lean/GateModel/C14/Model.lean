import GateModel.Gen.C14
/-
C14 — model of the play-packet queue of `netmc.minecraftConn` (connection.go, queue/packet_queue.go).

Go (after the C14 fix; `Mode.defective` is the code before it):

    bufferPacket(p, canQueue=true): if Closed(c) { return ErrClosedConn }
        c.mu.Lock(); queued, err := c.playPacketQueue.Queue(p); c.mu.Unlock()      -- `write`
        if err != nil { return err → closeOnWriteErr → Close }; if queued { return nil }
        c.wr.WritePacket(p)                                                          -- `wire`
      before the fix: c.mu.Lock(); q := c.playPacketQueue; c.mu.Unlock()            -- `lookup`
                      queued, err := q.Queue(p)                                      -- `enqueue` (no lock)
    Queue(p): nil queue → not queued; p registered in CONFIG → not queued;
              Len() >= maxQueueLen → ErrQueueFull; else PushBack
    SetState(s) / SetOutboundState(s): c.mu.Lock(); c.wr.SetState(s); ensurePlayPacketQueue(s); c.mu.Unlock()
    ensurePlayPacketQueue(s): CONFIG → activate (new queue if nil)
                              else, if a queue exists: ReleaseQueue(bufferNoQueue, Flush); queue = nil
    ReleaseQueue: for Len() != 0 { p := PopFront(); if err := buffer(p) { return err } }; flush
    Writer().SetState(s): encoder only.   EnablePlayPacketQueue(): activate.

A goroutine is a work stack of `Act`s, a system a list of goroutines, a schedule a list of ids.
`wire` is the order in which packets enter the connection's write buffer, each tagged with whether it
came out of the queue.  `qlog`, `dropped`, `lost` are ghost logs used by the theorems.
-/
namespace Gate.C14

inductive Kind where
  | playOnly | both     -- registered in PLAY only / in CONFIG and PLAY
  deriving Repr, DecidableEq

structure Pkt where
  tag : Nat
  kind : Kind
  deriving Repr, DecidableEq

inductive St where
  | play | config
  deriving Repr, DecidableEq

inductive Res where
  | ok | closed | full | err
  deriving Repr, DecidableEq

inductive Mode where
  | repaired | defective
  deriving Repr, DecidableEq

inductive Act where
  | write (p : Pkt)                     -- BufferPacket(p)
  | lookup (p : Pkt)                    -- defective: read c.playPacketQueue under the lock
  | enqueue (p : Pkt) (q : Option Nat)  -- defective: Queue(p) on the captured queue object, no lock
  | wire (p : Pkt)                      -- c.wr.WritePacket(p)
  | setState (s : St)                   -- SetState / SetOutboundState
  | setWire (s : St)                    -- Writer().SetState(s)
  | enableQueue                         -- EnablePlayPacketQueue()
  | release                             -- one iteration of ReleaseQueue, c.mu held
  | unlock
  deriving Repr, DecidableEq

/-- the queue's capacity, regenerated from packet_queue.go -/
def cap : Nat := Gate.Gen.C14.maxQueueLen.toNat

structure Sys where
  wireState : St := .play
  queue : Option (List Pkt) := none
  epoch : Nat := 0                 -- identity of the current queue object
  mu : Option Nat := none          -- goroutine holding c.mu across a release
  closed : Bool := false
  wire : List (Pkt × Bool) := []   -- write-buffer order; flag: released from the queue
  qlog : List Pkt := []            -- ghost: packets accepted into a live queue, in order
  dropped : List Pkt := []         -- ghost: held packets discarded by a release on a closed/failing connection
  lost : List Pkt := []            -- ghost (defective): packets pushed onto a queue that was already released
  threads : List (List Act) := []
  results : List (Nat × Pkt × Res) := []
  deriving Repr

def registered (k : Kind) (s : St) : Bool :=
  match k, s with
  | .playOnly, .config => false
  | _, _ => true

def released (s : Sys) : List Pkt := (s.wire.filter (·.2)).map (·.1)
def held (s : Sys) : List Pkt := s.queue.getD []

/-- effect of one action of goroutine `t`: new state (threads untouched) and acts pushed in its place -/
def effect (m : Mode) (s : Sys) (t : Nat) : Act → Option (Sys × List Act)
  | .write p =>
    if s.closed then some ({ s with results := s.results ++ [(t, p, .closed)] }, []) else
    match m with
    | .defective => some (s, [.lookup p])
    | .repaired =>
      if s.mu.isSome then none else
      match s.queue with
      | some ql =>
        if p.kind = .playOnly then
          if ql.length ≥ cap then some ({ s with closed := true, results := s.results ++ [(t, p, .full)] }, [])
          else some ({ s with queue := some (ql ++ [p]), qlog := s.qlog ++ [p], results := s.results ++ [(t, p, .ok)] }, [])
        else some (s, [.wire p])
      | none => some (s, [.wire p])
  | .lookup p =>
    if m = .repaired then none else   -- these two actions exist only in the code before the fix
    if s.mu.isSome then none else
    some (s, [.enqueue p (if s.queue.isSome then some s.epoch else none)])
  | .enqueue p none => if m = .repaired then none else some (s, [.wire p])
  | .enqueue p (some e) =>
    if m = .repaired then none else
    if p.kind = .playOnly then
      match s.queue with
      | some ql =>
        if e = s.epoch then
          if ql.length ≥ cap then some ({ s with closed := true, results := s.results ++ [(t, p, .full)] }, [])
          else some ({ s with queue := some (ql ++ [p]), qlog := s.qlog ++ [p], results := s.results ++ [(t, p, .ok)] }, [])
        else some ({ s with lost := s.lost ++ [p], results := s.results ++ [(t, p, .ok)] }, [])
      | none => some ({ s with lost := s.lost ++ [p], results := s.results ++ [(t, p, .ok)] }, [])
    else some (s, [.wire p])
  | .wire p =>
    if registered p.kind s.wireState then
      some ({ s with wire := s.wire ++ [(p, false)], results := s.results ++ [(t, p, .ok)] }, [])
    else some ({ s with closed := true, results := s.results ++ [(t, p, .err)] }, [])
  | .setState st =>
    if s.mu.isSome then none else
    match st with
    | .config =>
      match s.queue with
      | some _ => some ({ s with wireState := .config }, [])
      | none => some ({ s with wireState := .config, queue := some [], epoch := s.epoch + 1 }, [])
    | .play =>
      match s.queue with
      | some _ => some ({ s with wireState := .play, mu := some t }, [.release, .unlock])
      | none => some ({ s with wireState := .play }, [])
  | .setWire st => some ({ s with wireState := st }, [])
  | .enableQueue =>
    if s.mu.isSome then none else
    match s.queue with
    | some _ => some (s, [])
    | none => some ({ s with queue := some [], epoch := s.epoch + 1 }, [])
  | .release =>
    match s.queue with
    | some (p :: ql) =>
      if s.closed then some ({ s with queue := none, dropped := s.dropped ++ (p :: ql) }, [])
      else if registered p.kind s.wireState then
        some ({ s with queue := some ql, wire := s.wire ++ [(p, true)] }, [.release])
      else some ({ s with closed := true, queue := none, dropped := s.dropped ++ (p :: ql) }, [])
    | some [] => some ({ s with queue := none }, [])
    | none => some (s, [])
  | .unlock => some ({ s with mu := none }, [])

def step (m : Mode) (s : Sys) (t : Nat) : Option Sys :=
  match s.threads[t]? with
  | some (act :: rest) =>
    match effect m s t act with
    | some (s', pushed) => some { s' with threads := s.threads.set t (pushed ++ rest) }
    | none => none
  | _ => none

def exec (m : Mode) (s : Sys) : List Nat → Option Sys
  | [] => some s
  | t :: ts => (step m s t).bind (fun s' => exec m s' ts)

def terminal (s : Sys) : Bool := s.threads.all (·.isEmpty)

/-- initial system: PLAY without a queue, or CONFIG with an empty active queue -/
def mkSys (inConfig : Bool) (threads : List (List Act)) : Sys :=
  if inConfig then { wireState := .config, queue := some [], epoch := 1, threads := threads }
  else { threads := threads }

def topLevel : Act → Bool
  | .write _ => true
  | .setState _ => true
  | .setWire _ => true
  | .enableQueue => true
  | _ => false

/-! ### schedules used by the driver -/

def runThread (m : Mode) : Nat → Sys → Nat → Sys
  | 0, s, _ => s
  | fuel + 1, s, t => match step m s t with
    | some s' => runThread m fuel s' t
    | none => s

def roundRobin (m : Mode) : Nat → Sys → Sys
  | 0, s => s
  | fuel + 1, s =>
    let (s', moved) := (List.range s.threads.length).foldl
      (fun (acc : Sys × Bool) t => match step m acc.1 t with
        | some s2 => (s2, true)
        | none => acc) (s, false)
    if moved then roundRobin m fuel s' else s'

/-! ### facts over `calls` lists of tools/gofacts -/

def idxOf (calls : List String) (x : String) : Nat := calls.findIdx (· == x)
def has (calls : List String) (x : String) : Bool := calls.contains x
def before (calls : List String) (a b : String) : Bool :=
  has calls a && has calls b && idxOf calls a < idxOf calls b
/-- `x` is called between `lock` and the first `unlock` after it -/
def insideLock (calls : List String) (lock unlock x : String) : Bool :=
  before calls lock x && (((calls.drop (idxOf calls lock)).takeWhile (· != unlock)).contains x)

end Gate.C14
