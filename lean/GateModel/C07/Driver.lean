import GateModel.Base.Line
import GateModel.C07.Intended
/-
C07 driver.  One case per line: `<op> <args…>\t<impl-output>`, impl-output = `ok <hex>` (bytes the
real `Encode` produced) or `err` (Encode returned an error).

  hs <p> <pv> <addr> <port> <next>            sreq | sresp <status> | sping <id>
  lstart <p> <name> <key|_> <holder>           key = expiry,pub,sig,holder
  ereq <p> <serverId> <pub> <token> <disableAuth>      eresp <p> <secret> <token> <salt|_>
  lsucc <p> <uuid> <name> <props|_> <session>  props = name,value,sig;…
  setc <threshold>   lpm <id> <channel> <data>   lpr <id> <success> <data>
  disc <p> <login> <comp|_>                    comp = json,nbtType,nbtData
  ka <p> <id>        xfer <host> <port>        pm <p> <serverbound> <channel> <data>
  ups <p> <acts|_> <entries|_>                 acts = i,i,… ; entries = e/e/… ;
                                               e = id|name|props|listed|latency|gameMode|display|hat|listOrder|chat
                                               display = comp|_ ; chat = id,expiry,pub,sig | _
  rem <ids|_>                                  ids = uuid,uuid,…
  pmseq <channel> <data> <p:sb,p:sb,…>         one *plugin.Message encoded for each step in turn (history);
                                               impl-output = the step outputs joined by `;`
(byte strings in hex, `-` = empty; integers decimal; booleans 0/1)

model-output: the bytes of the model encoder (`ok <hex>` / `err`).
verdict: the vanilla reference decoder run on the IMPLEMENTATION's bytes must return exactly the
intended value (`ok`), judged whenever the packet is inside the vanilla peer's domain (`okX`);
otherwise `viol:<signature>`; `-` outside the domain or when nothing was sent.
-/
namespace Gate.C07
open Gate Gate.C03 Gate.C07.Vanilla

def pInt (s : String) : Option Int := s.toInt?
def pBool (s : String) : Option Bool := if s = "1" then some true else if s = "0" then some false else none

def splitNE (s : String) (sep : String) : List String := if s = "_" then [] else s.splitOn sep

def pProps (s : String) : Option (List Property) :=
  (splitNE s ";").mapM fun e => match e.splitOn "," with
    | [a, b, c] => do pure ⟨← parseHex a, ← parseHex b, ← parseHex c⟩
    | _ => none

def pComp (s : String) : Option (Option Comp) :=
  if s = "_" then some none else
  match s.splitOn "," with
  | [j, t, d] => do
    let t ← t.toNat?
    pure (some ⟨← parseHex j, UInt8.ofNat t, ← parseHex d⟩)
  | _ => none

def pKey (s : String) : Option (Option PlayerKey) :=
  if s = "_" then some none else
  match s.splitOn "," with
  | [e, p, g, h] => do pure (some ⟨← pInt e, ← parseHex p, ← parseHex g, ← parseHex h⟩)
  | _ => none

def pChat (s : String) : Option (Option ChatSession) :=
  if s = "_" then some none else
  match s.splitOn "," with
  | [i, e, p, g] => do pure (some ⟨← parseHex i, ← pInt e, ← parseHex p, ← parseHex g⟩)
  | _ => none

def pEntry (s : String) : Option Entry :=
  match s.splitOn "|" with
  | [id, name, props, listed, lat, gm, disp, hat, lo, chat] => do
    pure { id := ← parseHex id, name := ← parseHex name, props := ← pProps props, listed := ← pBool listed,
           latency := ← pInt lat, gameMode := ← pInt gm, display := ← pComp disp, hat := ← pBool hat,
           listOrder := ← pInt lo, chat := ← pChat chat }
  | _ => none

def pActs (s : String) : Option (List Nat) := (splitNE s ",").mapM String.toNat?

/-- implementation output → bytes actually sent -/
def implBytes (impl : String) : Option Bytes :=
  if impl.startsWith "ok " then parseHex (impl.drop 3).toString else none

def showEnc : Option Bytes → String
  | some b => "ok " ++ toHex b
  | none => "err"

def okEq {α : Type} [DecidableEq α] (r : Except Err α) (v : α) : Bool :=
  match r with
  | .ok a => decide (a = v)
  | .error _ => false

/-- verdict: inside the domain, the vanilla decoder must recover the intended value from the
    implementation's bytes -/
def judge {α : Type} [DecidableEq α] (inDomain : Bool) (impl : String) (dec : Bytes → Except Err α) (meant : α)
    (sig : String) : String :=
  if !inDomain then "-" else
  match implBytes impl with
  | none => "-"
  | some b => if okEq (dec b) meant then "ok" else "viol:" ++ sig

def bad : String × String := ("bad-op", "-")

def step (c : Case) : String × String :=
  match c.op, c.args with
  | "hs", [p, pv, addr, port, next] =>
    (match pInt p, pInt pv, parseHex addr, pInt port, pInt next with
     | some p, some pv, some addr, some port, some next =>
       let h : Handshake := ⟨pv, addr, port, next⟩
       (showEnc (some (encHandshake h)),
        judge (decide (okHandshake p h)) c.impl (decHandshake p) (meantHandshake h) "handshake")
     | _, _, _, _, _ => bad)
  | "sreq", [] => (showEnc (some encStatusRequest), judge true c.impl decStatusRequest () "status-request")
  | "sresp", [s] =>
    (match parseHex s with
     | some s => (showEnc (some (encStatusResponse s)),
                  judge (decide (strOk 32767 s)) c.impl decStatusResponse s "status-response")
     | none => bad)
  | "sping", [id] =>
    (match pInt id with
     | some id => (showEnc (some (encStatusPing id)), judge (decide (i64 id)) c.impl decStatusPing id "status-ping")
     | none => bad)
  | "lstart", [p, name, key, holder] =>
    (match pInt p, parseHex name, pKey key, parseHex holder with
     | some p, some name, some key, some holder =>
       let s : ServerLogin := ⟨name, key, holder⟩
       (showEnc (encServerLogin p s),
        judge (decide (okLoginStart s)) c.impl (decLoginStart p) (meantLoginStart p s) "login-start")
     | _, _, _, _ => bad)
  | "ereq", [p, sid, pub, tok, dis] =>
    (match pInt p, parseHex sid, parseHex pub, parseHex tok, pBool dis with
     | some p, some sid, some pub, some tok, some dis =>
       let e : EncryptionRequest := ⟨sid, pub, tok, dis⟩
       (showEnc (encEncryptionRequest p e),
        judge (decide (okEncryptionRequest p e)) c.impl (decEncryptionRequest p) (meantEncryptionRequest p e)
          "encryption-request")
     | _, _, _, _, _ => bad)
  | "eresp", [p, sec, tok, salt] =>
    (match pInt p, parseHex sec, parseHex tok, (if salt = "_" then some none else (pInt salt).map some) with
     | some p, some sec, some tok, some salt =>
       let e : EncryptionResponse := ⟨sec, tok, salt⟩
       (showEnc (encEncryptionResponse p e),
        judge (decide (okEncryptionResponse p e)) c.impl (decEncryptionResponse p) (meantEncryptionResponse p e)
          "encryption-response")
     | _, _, _, _ => bad)
  | "lsucc", [p, uuid, name, props, sess] =>
    (match pInt p, parseHex uuid, parseHex name, pProps props, parseHex sess with
     | some p, some uuid, some name, some props, some sess =>
       let s : LoginSuccess := ⟨uuid, name, props, sess⟩
       (showEnc (encLoginSuccess p s),
        judge (decide (okLoginSuccess s)) c.impl (decLoginSuccess p) (meantLoginSuccess p s) "login-success")
     | _, _, _, _, _ => bad)
  | "setc", [t] =>
    (match pInt t with
     | some t => (showEnc (some (encSetCompression t)),
                  judge (decide (i32 t)) c.impl decSetCompression t "set-compression")
     | none => bad)
  | "lpm", [id, ch, data] =>
    (match pInt id, parseHex ch, parseHex data with
     | some id, some ch, some data =>
       let m : LoginPluginMessage := ⟨id, ch, data⟩
       (showEnc (some (encLoginPluginMessage m)),
        judge (decide (okLoginPluginMessage m)) c.impl decLoginPluginRequest (meantLoginPluginMessage m)
          "login-plugin-message")
     | _, _, _ => bad)
  | "lpr", [id, succ, data] =>
    (match pInt id, pBool succ, parseHex data with
     | some id, some succ, some data =>
       let r : LoginPluginResponse := ⟨id, succ, data⟩
       (showEnc (some (encLoginPluginResponse r)),
        judge (decide (okLoginPluginResponse r)) c.impl decLoginPluginResponse (meantLoginPluginResponse r)
          "login-plugin-response")
     | _, _, _ => bad)
  | "disc", [p, login, comp] =>
    (match pInt p, pBool login, pComp comp with
     | some p, some login, some comp =>
       (showEnc (encDisconnect p login comp),
        match comp with
        | some cmp => judge (decide (okDisconnect p login cmp)) c.impl (decDisconnect p login)
                        (meantDisconnect p login cmp) "disconnect"
        | none => "-")
     | _, _, _ => bad)
  | "ka", [p, id] =>
    (match pInt p, pInt id with
     | some p, some id => (showEnc (some (encKeepAlive p id)),
                           judge (decide (okKeepAlive p id)) c.impl (decKeepAlive p) id "keep-alive")
     | _, _ => bad)
  | "xfer", [host, port] =>
    (match parseHex host, pInt port with
     | some host, some port =>
       let t : Transfer := ⟨host, port⟩
       (showEnc (some (encTransfer t)), judge (decide (okTransfer t)) c.impl decTransfer (meantTransfer t) "transfer")
     | _, _ => bad)
  | "pm", [p, sb, ch, data] =>
    (match pInt p, pBool sb, parseHex ch, parseHex data with
     | some p, some sb, some ch, some data =>
       let m : PluginMessage := ⟨ch, data⟩
       let sig := if c.impl = showEnc (encPluginMessageDefective p m) ∧ encPluginMessageDefective p m ≠ encPluginMessage p m
                  then "plugin-channel-regex" else "plugin-message"
       (showEnc (encPluginMessage p m),
        judge (decide (okPluginMessage p sb m)) c.impl (decPluginMessage p sb) (meantPluginMessage p m) sig)
     | _, _, _, _ => bad)
  | "pmseq", [ch, data, steps] =>
    -- the SAME packet object encoded for each `p:sb` step in turn; impl = outputs joined by `;`
    (match parseHex ch, parseHex data,
       (steps.splitOn ",").mapM (fun st => match st.splitOn ":" with
          | [p, sb] => do pure ((← pInt p), (← pBool sb))
          | _ => none) with
     | some ch, some data, some sts =>
       let m : PluginMessage := ⟨ch, data⟩
       let outs := encHistory encPluginStep m (sts.map (·.1))
       let impls := c.impl.splitOn ";"
       let inDom := sts.all fun st => decide (okPluginMessage st.1 st.2 m)
       let good := impls.length == sts.length &&
         (List.zip sts impls).all fun (st, im) =>
           match implBytes im with
           | some b => okEq (decPluginMessage st.1 st.2 b) (meantPluginMessage st.1 m)
           | none => false
       let rewr := ";".intercalate ((encHistory encPluginStepRewriting m (sts.map (·.1))).map showEnc)
       let sig := if c.impl = rewr then "plugin-message-object-rewritten" else "plugin-message-history"
       (";".intercalate (outs.map showEnc),
        if !inDom then "-" else if good then "ok" else "viol:" ++ sig)
     | _, _, _ => bad)
  | "ups", [p, acts, ents] =>
    (match pInt p, pActs acts, (splitNE ents "/").mapM pEntry with
     | some p, some acts, some es =>
       let sig := if c.impl = showEnc (some (encUpsertDefective p acts es)) ∧ encUpsertDefective p acts es ≠ encUpsert p acts es
                  then "upsert-action-order" else "player-info-upsert"
       (showEnc (some (encUpsert p acts es)),
        judge (decide (okUpsert p acts es)) c.impl (decUpsert p) (meantUpsert p acts es) sig)
     | _, _, _ => bad)
  | "rem", [ids] =>
    (match (splitNE ids ",").mapM parseHex with
     | some ids => (showEnc (some (encRemove ids)), judge (decide (okRemove ids)) c.impl decRemove ids "player-info-remove")
     | none => bad)
  | _, _ => bad

end Gate.C07

def main : IO Unit := Gate.runPureDriver Gate.C07.step
