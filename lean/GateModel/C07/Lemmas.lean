import GateModel.C03.Lemmas
import GateModel.C07.Intended
/-
C07 — helper lemmas: the vanilla primitives read back what gate's primitive writers (C03 model)
wrote; era constants; bit set; hex; channel mapping; NBT skipper.
-/
set_option linter.unusedSimpArgs false
namespace Gate.C07
open Gate Gate.C03 Gate.C07.Vanilla

/-! ## era constants (regenerated numbers = the vanilla protocol numbers the reference uses) -/
theorem v1_7_6_eq : V.v1_7_6 = 5 := rfl
theorem v1_8_eq : V.v1_8 = 47 := rfl
theorem v1_12_2_eq : V.v1_12_2 = 340 := rfl
theorem v1_13_eq : V.v1_13 = 393 := rfl
theorem v1_16_eq : V.v1_16 = 735 := rfl
theorem v1_19_eq : V.v1_19 = 759 := rfl
theorem v1_19_1_eq : V.v1_19_1 = 760 := rfl
theorem v1_19_3_eq : V.v1_19_3 = 761 := rfl
theorem v1_20_2_eq : V.v1_20_2 = 764 := rfl
theorem v1_20_3_eq : V.v1_20_3 = 765 := rfl
theorem v1_20_5_eq : V.v1_20_5 = 766 := rfl
theorem v1_21_eq : V.v1_21 = 767 := rfl
theorem v26_2_eq : V.v26_2 = 776 := rfl

/-! ## sequencing -/
@[simp] theorem seq_ok {α β : Type} (a : α) (r : Bytes) (f : α → Bytes → Rd β) :
    seq (.ok (a, r)) f = f a r := rfl
@[simp] theorem seq_error {α β : Type} (e : Err) (f : α → Bytes → Rd β) :
    seq (.error e : Rd α) f = .error e := rfl
@[simp] theorem complete_ok {α : Type} (a : α) : complete (.ok (a, []) : Rd α) = .ok a := rfl

/-! ## primitives -/

theorem vVarInt_rt (v : Int) (rest : Bytes) (h : i32 v) : vVarInt (writeVarInt v ++ rest) = .ok (v, rest) :=
  readVarInt_writeVarInt v rest h.1 h.2

theorem vBool_rt (b : Bool) (rest : Bytes) : vBool (writeBool b ++ rest) = .ok (b, rest) := by
  cases b <;> simp [vBool, writeBool, readByte]

theorem vLong_rt (v : Int) (rest : Bytes) (h : i64 v) : vLong (writeInt 8 v ++ rest) = .ok (v, rest) :=
  readInt_rt 8 (by omega) v rest h.1 h.2

theorem vInt_rt (v : Int) (rest : Bytes) (h : i32 v) : vInt (writeInt 4 v ++ rest) = .ok (v, rest) :=
  readInt_rt 4 (by omega) v rest h.1 h.2

theorem vUUID_rt (u rest : Bytes) (h : isUUID u) : vUUID (writeUUID u ++ rest) = .ok (u, rest) :=
  readUUID_rt u rest h

theorem toU16_nonneg (v : Int) (h0 : 0 ≤ v) (h1 : v < 65536) : toU 16 v = v.toNat := by
  unfold toU
  have : ((2 ^ 16 : Nat) : Int) = 65536 := by decide
  rw [this, Int.emod_eq_of_lt h0 h1]

/-- `int16(port)` written as two bytes is read back as the unsigned short `port` -/
theorem vUShort_port (port : Int) (rest : Bytes) (h0 : 0 ≤ port) (h1 : port < 65536) :
    vUShort (writeInt 2 port ++ rest) = .ok (port.toNat, rest) := by
  unfold vUShort writeInt
  rw [toU16_nonneg port h0 h1]
  have := readUint_rt 2 port.toNat rest (by omega)
  unfold writeUint at this
  exact this

theorem vString_rt (max : Nat) (s rest : Bytes) (hm : max * 3 < 2 ^ 31) (h : strOk max s) :
    vString max (writeBytes s ++ rest) = .ok (s, rest) := by
  obtain ⟨h1, h2⟩ := h
  unfold vString writeBytes
  rw [List.append_assoc, vVarInt_rt _ _ (by unfold i32; omega)]
  simp only [seq_ok]
  have a : ¬ ((s.length : Int) < 0) := by omega
  have b : ¬ ((s.length : Int) > (max : Int) * 3) := by omega
  simp only [a, b, if_false, Int.toNat_natCast]
  rw [readFull_append]
  simp only [seq_ok]
  have c : ¬ (utf16Len s > max) := by omega
  simp [c]

theorem vByteArray_rt (max : Nat) (b rest : Bytes) (hm : max < 2 ^ 31) (h : b.length ≤ max) :
    vByteArray max (writeBytes b ++ rest) = .ok (b, rest) := by
  unfold vByteArray writeBytes
  rw [List.append_assoc, vVarInt_rt _ _ (by unfold i32; omega)]
  simp only [seq_ok]
  have a : ¬ ((b.length : Int) < 0) := by omega
  have c : ¬ ((b.length : Int) > (max : Int)) := by omega
  simp only [a, c, if_false, Int.toNat_natCast]
  exact readFull_append b rest

theorem vOptional_some {α : Type} (rd : Bytes → Rd α) (tail : Bytes) (v : α) (rest : Bytes)
    (h : rd tail = .ok (v, rest)) :
    vOptional rd (writeBool true ++ tail) = .ok (some v, rest) := by
  unfold vOptional
  rw [vBool_rt]
  simp [h]

theorem vOptional_none {α : Type} (rd : Bytes → Rd α) (rest : Bytes) :
    vOptional rd (writeBool false ++ rest) = .ok (none, rest) := by
  unfold vOptional
  rw [vBool_rt]
  simp

theorem vRest_rt (max : Nat) (d : Bytes) (h : d.length ≤ max) : vRest max d = .ok (d, []) := by
  unfold vRest
  have : ¬ d.length > max := by omega
  simp [this]

/-! ## 1.7 arrays -/

theorem writeBytes17_short (b : Bytes) (h : b.length ≤ 32767) : writeBytes17 b = beBytes 2 b.length ++ b := by
  unfold writeBytes17 writeExtShort
  have h1 : b.length / 32768 % 256 = 0 := by omega
  have h2 : b.length % 32768 = b.length := by omega
  simp [h1, h2]

theorem vShortArray_rt (b rest : Bytes) (h : b.length ≤ 32767) :
    vShortArray (writeBytes17 b ++ rest) = .ok (b, rest) := by
  rw [writeBytes17_short b h]
  unfold vShortArray vUShort
  have := readUint_rt 2 b.length (b ++ rest) (by omega)
  unfold writeUint at this
  rw [List.append_assoc, this]
  have : ¬ b.length ≥ 32768 := by omega
  simp only [seq_ok, this, if_false]
  exact readFull_append b rest

theorem vVarShort_rt (n : Nat) (rest : Bytes) (h : n < 2 ^ 23) :
    vVarShort (writeExtShort n ++ rest) = .ok (n, rest) := by
  unfold vVarShort vUShort writeExtShort
  simp only
  by_cases hh : n / 32768 % 256 ≠ 0
  · rw [if_pos hh, List.append_assoc]
    have := readUint_rt 2 (n % 32768 + 32768) ([UInt8.ofNat (n / 32768 % 256)] ++ rest) (by omega)
    unfold writeUint at this
    rw [this]
    simp only [seq_ok, show n % 32768 + 32768 ≥ 32768 by omega, if_true, List.cons_append, List.nil_append,
      readByte, u8_toNat_ofNat]
    have e : n / 32768 % 256 % 256 * 32768 + (n % 32768 + 32768 - 32768) = n := by omega
    rw [e]
  · rw [if_neg hh]
    have := readUint_rt 2 (n % 32768) rest (by omega)
    unfold writeUint at this
    rw [this]
    have : ¬ n % 32768 ≥ 32768 := by omega
    simp only [seq_ok, this, if_false]
    have e : n % 32768 = n := by omega
    rw [e]

theorem vVarShortArray_rt (b rest : Bytes) (h : b.length ≤ forgeMaxArrayLength) :
    vVarShortArray (writeBytes17 b ++ rest) = .ok (b, rest) := by
  unfold vVarShortArray writeBytes17
  have hf : forgeMaxArrayLength < 2 ^ 23 := by decide
  rw [List.append_assoc, vVarShort_rt _ _ (by omega)]
  simp only [seq_ok]
  exact readFull_append b rest

/-! ## lists -/

theorem readN_map_rt {α β : Type} (enc : α → Bytes) (dec : Bytes → Rd β) (f : α → β) (wf : α → Prop)
    (h : ∀ x rest, wf x → dec (enc x ++ rest) = .ok (f x, rest))
    (xs : List α) (rest : Bytes) (hw : ∀ x ∈ xs, wf x) :
    readN dec xs.length ((xs.map enc).flatten ++ rest) = .ok (xs.map f, rest) := by
  induction xs with
  | nil => simp [readN]
  | cons x t ih =>
    simp only [List.map_cons, List.flatten_cons, List.length_cons, readN, List.append_assoc]
    rw [h x _ (hw x (by simp))]
    simp only
    rw [ih (fun y hy => hw y (by simp [hy]))]

/-! ## properties -/

theorem vProperty_rt (p : Property) (rest : Bytes) (h : propOk p) :
    vProperty (writeProperty p ++ rest) = .ok (toVProp p, rest) := by
  obtain ⟨h1, h2, h3⟩ := h
  unfold vProperty writeProperty toVProp
  simp only [List.append_assoc]
  rw [vString_rt 64 _ _ (by omega) h1]; simp only [seq_ok]
  rw [vString_rt 32767 _ _ (by omega) h2]; simp only [seq_ok]
  by_cases hs : p.signature.length ≠ 0
  · rw [if_pos hs]
    simp only [List.append_assoc]
    have : p.signature.isEmpty = false := by
      cases hsig : p.signature with
      | nil => simp [hsig] at hs
      | cons a t => rfl
    rw [this]
    have := vOptional_some (vString 1024) (writeBytes p.signature ++ rest) p.signature rest
      (vString_rt 1024 _ _ (by omega) h3)
    rw [this]; simp
  · rw [if_neg hs]
    have : p.signature.isEmpty = true := by
      cases hsig : p.signature with
      | nil => rfl
      | cons a t => simp [hsig] at hs
    rw [this, vOptional_none]; simp

theorem vProperties_rt (ps : List Property) (rest : Bytes) (h : propsOk ps) :
    vProperties (writeProperties ps ++ rest) = .ok (ps.map toVProp, rest) := by
  obtain ⟨h1, h2⟩ := h
  unfold vProperties writeProperties writeList
  rw [List.append_assoc, vVarInt_rt _ _ (by unfold i32; omega)]
  simp only [seq_ok]
  have a : ¬ ((ps.length : Int) < 0) := by omega
  have b : ¬ ((ps.length : Int) > 16) := by omega
  simp only [a, b, if_false, Int.toNat_natCast]
  exact readN_map_rt writeProperty vProperty toVProp propOk vProperty_rt ps rest h2

/-! ## hex, UUID strings -/

theorem hexVal_hexDigit : ∀ n, n < 16 → hexVal (hexDigit n) = some n := by decide

theorem unhex_cons2 (b : UInt8) (r : Bytes) :
    unhex (hexDigit (b.toNat / 16) :: hexDigit (b.toNat % 16) :: r) = (unhex r).map (b :: ·) := by
  have hb := b.toNat_lt
  simp only [unhex, hexVal_hexDigit _ (show b.toNat / 16 < 16 by omega), hexVal_hexDigit _ (show b.toNat % 16 < 16 by omega)]
  have : UInt8.ofNat (b.toNat / 16 * 16 + b.toNat % 16) = b := by
    rw [Nat.div_add_mod' b.toNat 16]; simp
  cases unhex r with
  | none => rfl
  | some t => simp only [Option.map, this]

theorem unhex_hexBytes (u : Bytes) : unhex (hexBytes u) = some u := by
  induction u with
  | nil => rfl
  | cons b t ih => simp only [hexBytes, unhex_cons2, ih, Option.map]

theorem hexBytes_length (u : Bytes) : (hexBytes u).length = 2 * u.length := by
  induction u with
  | nil => rfl
  | cons b t ih => simp only [hexBytes, List.length_cons, ih]; omega

theorem parseUndashed_rt (u : Bytes) (h : isUUID u) : parseUndashedUUID (uuidUndashed u) = some u := by
  unfold parseUndashedUUID uuidUndashed
  rw [hexBytes_length, h, if_pos (by decide), unhex_hexBytes]

theorem len16 (u : Bytes) (h : u.length = 16) : ∃ b0 b1 b2 b3 b4 b5 b6 b7 b8 b9 b10 b11 b12 b13 b14 b15, u = [b0,b1,b2,b3,b4,b5,b6,b7,b8,b9,b10,b11,b12,b13,b14,b15] := by
  rcases u with _ | ⟨b0, u⟩
  · simp at h
  rcases u with _ | ⟨b1, u⟩
  · simp at h
  rcases u with _ | ⟨b2, u⟩
  · simp at h
  rcases u with _ | ⟨b3, u⟩
  · simp at h
  rcases u with _ | ⟨b4, u⟩
  · simp at h
  rcases u with _ | ⟨b5, u⟩
  · simp at h
  rcases u with _ | ⟨b6, u⟩
  · simp at h
  rcases u with _ | ⟨b7, u⟩
  · simp at h
  rcases u with _ | ⟨b8, u⟩
  · simp at h
  rcases u with _ | ⟨b9, u⟩
  · simp at h
  rcases u with _ | ⟨b10, u⟩
  · simp at h
  rcases u with _ | ⟨b11, u⟩
  · simp at h
  rcases u with _ | ⟨b12, u⟩
  · simp at h
  rcases u with _ | ⟨b13, u⟩
  · simp at h
  rcases u with _ | ⟨b14, u⟩
  · simp at h
  rcases u with _ | ⟨b15, u⟩
  · simp at h
  rcases u with _ | ⟨x, u⟩
  · exact ⟨b0,b1,b2,b3,b4,b5,b6,b7,b8,b9,b10,b11,b12,b13,b14,b15, rfl⟩
  · simp at h

theorem parseDashed_rt (u : Bytes) (h : isUUID u) : parseDashedUUID (uuidString u) = some u := by
  obtain ⟨b0,b1,b2,b3,b4,b5,b6,b7,b8,b9,b10,b11,b12,b13,b14,b15, rfl⟩ := len16 u h
  have e : uuidString [b0,b1,b2,b3,b4,b5,b6,b7,b8,b9,b10,b11,b12,b13,b14,b15] =
      hexBytes [b0,b1,b2,b3] ++ 45 :: (hexBytes [b4,b5] ++ 45 :: (hexBytes [b6,b7] ++ 45 :: (hexBytes [b8,b9] ++ 45 :: hexBytes [b10,b11,b12,b13,b14,b15]))) := by
    simp [uuidString]
  rw [e]
  simp only [hexBytes, parseDashedUUID, List.cons_append, List.nil_append, List.length_cons, List.length_nil,
    List.getD_cons_succ, List.getD_cons_zero, List.take_succ_cons, List.take_zero, List.drop_succ_cons, List.drop_zero]
  simp only [Nat.reduceAdd, and_self, if_true, List.cons_append, List.nil_append]
  simp only [unhex_cons2]
  simp [unhex]

/-! ## identifiers and the channel mapping -/

theorem splitFirstColon_append (a c : Bytes) (h : a.contains 58 = false) :
    splitFirstColon (a ++ 58 :: c) = some (a, c) := by
  induction a with
  | nil => simp [splitFirstColon]
  | cons x t ih =>
    simp only [List.contains_cons, Bool.or_eq_false_iff] at h
    have hx : x ≠ 58 := by
      intro hc; subst hc; simp at h
    simp only [List.cons_append, splitFirstColon, hx, if_false, ih h.2]

theorem transformChannel_eq (name : Bytes) : transformChannel name = legacyToModern name := by
  unfold transformChannel transformChannelWith legacyToModern
  rfl

/-! ### the mapped name is always a vanilla identifier -/

theorem keep_pathChar (b : UInt8) (h : (Vanilla.isLower b || Vanilla.isDigit b || b == 45 || b == 95) = true) :
    pathChar b = true := by
  unfold pathChar nsChar
  simp only [Bool.or_eq_true] at h ⊢
  rcases h with ((h | h) | h) | h <;> simp [h]

theorem keep_not_colon (b : UInt8) (h : (Vanilla.isLower b || Vanilla.isDigit b || b == 45 || b == 95) = true) :
    b ≠ 58 := by
  intro hc; subst hc; revert h; decide

theorem filter_no_colon (xs : Bytes) :
    (xs.filter (fun b => Vanilla.isLower b || Vanilla.isDigit b || b == 45 || b == 95)).contains 58 = false := by
  induction xs with
  | nil => rfl
  | cons x t ih =>
    simp only [List.filter_cons]
    split
    · rename_i hx
      have := keep_not_colon x hx
      simp only [List.contains_cons, ih, Bool.or_false]
      simp [this]
      exact fun h => this h.symm
    · exact ih

theorem filter_all_path (xs : Bytes) :
    (xs.filter (fun b => Vanilla.isLower b || Vanilla.isDigit b || b == 45 || b == 95)).all pathChar = true := by
  induction xs with
  | nil => rfl
  | cons x t ih =>
    simp only [List.filter_cons]
    split
    · rename_i hx
      simp only [List.all_cons, ih, Bool.and_true]
      exact keep_pathChar x hx
    · exact ih

/-- for every name without a colon the mapped name is a valid `ResourceLocation` -/
theorem legacyToModern_valid (name : Bytes) (h : name.contains 58 = false) :
    validIdentifier (legacyToModern name) = true := by
  unfold legacyToModern
  simp only [h, Bool.false_eq_true, if_false]
  split
  · decide
  · split
    · decide
    · split
      · decide
      · split
        · decide
        · unfold validIdentifier
          have : (List.map (fun c => UInt8.ofNat c.toNat) "legacy:".toList) = [108, 101, 103, 97, 99, 121] ++ [58] := by decide
          rw [this, List.append_assoc, List.singleton_append, splitFirstColon_append _ _ (by decide)]
          simp only [filter_all_path, Bool.and_true]
          decide

theorem utf16Len_ascii (s : Bytes) (h : isAscii s) : utf16Len s = s.length := by
  unfold utf16Len
  have h1 : s.filter (fun b => b.toNat / 64 != 2) = s := by
    rw [List.filter_eq_self]
    intro b hb
    have := h b hb
    simp only [bne_iff_ne, ne_eq]
    omega
  have h2 : s.filter (fun b => decide (b.toNat ≥ 240)) = [] := by
    rw [List.filter_eq_nil_iff]
    intro b hb
    have := h b hb
    simp only [decide_eq_true_eq]
    omega
  rw [h1, h2]; rfl

theorem asciiLower_ascii (b : UInt8) (h : b.toNat < 128) :
    (if (65 ≤ b && b ≤ 90) = true then b + 32 else b).toNat < 128 := by
  split
  · rename_i hc
    simp only [Bool.and_eq_true, decide_eq_true_eq, UInt8.le_iff_toNat_le] at hc
    have : (b + 32).toNat = (b.toNat + 32) % 256 := by simp [UInt8.toNat_add]
    rw [this]
    have h1 : (65 : UInt8).toNat = 65 := rfl
    have h2 : (90 : UInt8).toNat = 90 := rfl
    omega
  · exact h

theorem legacyToModern_ascii (name : Bytes) (h : isAscii name) : isAscii (legacyToModern name) := by
  unfold legacyToModern
  simp only
  split
  · exact h
  · split
    · decide
    · split
      · decide
      · split
        · decide
        · split
          · decide
          · intro b hb
            have hlit : isAscii (List.map (fun c => UInt8.ofNat c.toNat) "legacy:".toList) := by decide
            rw [List.mem_append] at hb
            rcases hb with hb | hb
            · exact hlit b hb
            · simp only [List.mem_filter, List.mem_map] at hb
              obtain ⟨⟨a, ha, rfl⟩, _⟩ := hb
              exact asciiLower_ascii a (h a ha)

theorem legacyToModern_length (name : Bytes) : (legacyToModern name).length ≤ name.length + 20 := by
  unfold legacyToModern
  simp only
  split
  · omega
  · split
    · simp
    · split
      · simp
      · split
        · simp
        · split
          · simp
          · simp only [List.length_append]
            have := List.length_filter_le (fun b => Vanilla.isLower b || Vanilla.isDigit b || b == 45 || b == 95)
              (name.map (fun b => if (65 ≤ b && b ≤ 90) = true then b + 32 else b))
            simp only [List.length_map] at this
            have h7 : (List.map (fun c => UInt8.ofNat c.toNat) "legacy:".toList).length = 7 := by decide
            omega

/-- 1.13+: the channel name gate writes is accepted by `readIdentifier` and is the mapped name -/
theorem vIdentifier_channel (name rest : Bytes) (ha : isAscii name) (hl : name.length ≤ 32000)
    (hc : name.contains 58 = true → validIdentifier name = true) :
    vIdentifier (writeBytes (transformChannel name) ++ rest) = .ok (legacyToModern name, rest) := by
  rw [transformChannel_eq]
  unfold vIdentifier
  have hs : strOk 32767 (legacyToModern name) := by
    have h1 := legacyToModern_length name
    have h2 := utf16Len_ascii _ (legacyToModern_ascii name ha)
    unfold strOk
    omega
  rw [vString_rt 32767 _ _ (by omega) hs]
  simp only [seq_ok]
  have hv : validIdentifier (legacyToModern name) = true := by
    by_cases h : name.contains 58 = true
    · have : legacyToModern name = name := by
        unfold legacyToModern; simp only [h, if_true]
      rw [this]; exact hc h
    · exact legacyToModern_valid name (by simpa using h)
  simp [hv]

/-! ## the action bit set -/

def bits8 (c : Nat → Bool) : UInt8 :=
  UInt8.ofNat ((upsertActions.map (fun i => if c i then 2 ^ i else 0)).sum)

theorem actionBits_eq (acts : List Action) : actionBits acts = bits8 (fun i => acts.contains i) := rfl

theorem testBit_bits8_aux : ∀ (c0 c1 c2 c3 c4 c5 c6 c7 : Bool),
    let b := UInt8.ofNat ((if c0 then 1 else 0) + ((if c1 then 2 else 0) + ((if c2 then 4 else 0) +
      ((if c3 then 8 else 0) + ((if c4 then 16 else 0) + ((if c5 then 32 else 0) + ((if c6 then 64 else 0) +
      ((if c7 then 128 else 0) + 0))))))))
    testBit b 0 = c0 ∧ testBit b 1 = c1 ∧ testBit b 2 = c2 ∧ testBit b 3 = c3 ∧
    testBit b 4 = c4 ∧ testBit b 5 = c5 ∧ testBit b 6 = c6 ∧ testBit b 7 = c7 := by decide

theorem testBit_bits8 (c : Nat → Bool) :
    testBit (bits8 c) 0 = c 0 ∧ testBit (bits8 c) 1 = c 1 ∧ testBit (bits8 c) 2 = c 2 ∧ testBit (bits8 c) 3 = c 3 ∧
    testBit (bits8 c) 4 = c 4 ∧ testBit (bits8 c) 5 = c 5 ∧ testBit (bits8 c) 6 = c 6 ∧ testBit (bits8 c) 7 = c 7 := by
  have := testBit_bits8_aux (c 0) (c 1) (c 2) (c 3) (c 4) (c 5) (c 6) (c 7)
  simpa [bits8, upsertActions] using this

/-! ## NBT: families of well-formed blobs (non-vacuity of `WfNbt`) -/

theorem skipBytes_append (a rest : Bytes) : skipBytes a.length (a ++ rest) = some rest := by
  simp [skipBytes]

theorem skipUtf_rt (s rest : Bytes) (h : s.length < 65536) :
    skipUtf (beBytes 2 s.length ++ (s ++ rest)) = some rest := by
  unfold skipUtf
  have := readUint_rt 2 s.length (s ++ rest) (by omega)
  unfold writeUint at this
  rw [this]
  exact skipBytes_append s rest

theorem take_sub_append (a rest : Bytes) : (a ++ rest).take ((a ++ rest).length - rest.length) = a := by
  simp

/-- a string tag (a plain-text component) is one well-formed nameless tag -/
theorem wfNbt_string (s : Bytes) (h : s.length < 65536) : WfNbt (8 :: (beBytes 2 s.length ++ s)) := by
  intro rest
  unfold vNbt
  simp only [List.cons_append, List.append_assoc]
  have : ¬ ((8 : UInt8) = 0) := by decide
  simp only [this, if_false]
  simp only [nbtSkip]
  have e : ∀ (x : UInt8), (8 : UInt8) = x ↔ x = 8 := fun x => eq_comm
  simp only [show ¬ ((8 : UInt8) = 1) by decide, show ¬ ((8 : UInt8) = 2) by decide, show ¬ ((8 : UInt8) = 3) by decide,
    show ¬ ((8 : UInt8) = 4) by decide, show ¬ ((8 : UInt8) = 5) by decide, show ¬ ((8 : UInt8) = 6) by decide,
    show ¬ ((8 : UInt8) = 7) by decide, if_false, if_true]
  rw [skipUtf_rt s rest h]
  simp only
  have := take_sub_append (8 :: (beBytes 2 s.length ++ s)) rest
  simp only [List.cons_append, List.append_assoc] at this
  rw [this]

/-- a compound `{text: <s>}` (what a text component with content `s` becomes) is well-formed -/
theorem wfNbt_text_compound (s : Bytes) (h : s.length < 65536) :
    WfNbt (10 :: 8 :: 0 :: 4 :: 116 :: 101 :: 120 :: 116 :: (beBytes 2 s.length ++ s ++ [0])) := by
  intro rest
  unfold vNbt
  simp only [List.cons_append, List.append_assoc, List.nil_append]
  have : ¬ ((10 : UInt8) = 0) := by decide
  simp only [this, if_false]
  have hf : ∀ n : Nat, 2 * n + 7 + 1 = (2 * n + 5) + 1 + 1 + 1 := by intro n; omega
  rw [hf]
  simp only [nbtSkip]
  simp only [show ¬ ((10 : UInt8) = 1) by decide, show ¬ ((10 : UInt8) = 2) by decide, show ¬ ((10 : UInt8) = 3) by decide,
    show ¬ ((10 : UInt8) = 4) by decide, show ¬ ((10 : UInt8) = 5) by decide, show ¬ ((10 : UInt8) = 6) by decide,
    show ¬ ((10 : UInt8) = 7) by decide, show ¬ ((10 : UInt8) = 8) by decide, show ¬ ((10 : UInt8) = 9) by decide,
    show ¬ ((8 : UInt8) = 0) by decide,
    show ¬ ((8 : UInt8) = 1) by decide, show ¬ ((8 : UInt8) = 2) by decide, show ¬ ((8 : UInt8) = 3) by decide,
    show ¬ ((8 : UInt8) = 4) by decide, show ¬ ((8 : UInt8) = 5) by decide, show ¬ ((8 : UInt8) = 6) by decide,
    show ¬ ((8 : UInt8) = 7) by decide, if_false, if_true]
  have hname : skipUtf (0 :: 4 :: 116 :: 101 :: 120 :: 116 :: (beBytes 2 s.length ++ (s ++ 0 :: rest))) =
      some (beBytes 2 s.length ++ (s ++ 0 :: rest)) := by
    simp [skipUtf, readUint, readFull, beNat, skipBytes]
  rw [hname]
  simp only
  have := skipUtf_rt s (0 :: rest) h
  rw [this]
  simp only
  have hend : ∀ (f : Nat) (r : Bytes), nbtSkip (f + 6) .compound (0 :: r) = some r := by
    intro f r; simp [nbtSkip]
  rw [hend]
  simp only
  have := take_sub_append (10 :: 8 :: 0 :: 4 :: 116 :: 101 :: 120 :: 116 :: (beBytes 2 s.length ++ s ++ [0])) rest
  simp only [List.cons_append, List.append_assoc, List.singleton_append, List.nil_append] at this
  rw [this]

/-! ## components -/

theorem vComponent_rt (p : Int) (c : Comp) (rest : Bytes) (h1 : compOk p c) (h2 : compNbtOk p c) :
    vComponent p (writeComp p c ++ rest) = .ok (compBytes p c, rest) := by
  unfold vComponent writeComp compBytes
  rw [v1_20_3_eq]
  by_cases hp : p ≥ 765
  · simp only [hp, if_true]
    unfold writeBinaryTag
    rw [v1_20_2_eq]
    have : ¬ p < 764 := by omega
    simp only [this, if_false, List.append_nil, List.singleton_append]
    exact h2 hp rest
  · simp only [hp, if_false]
    rcases h1 with h1 | h1
    · exact absurd h1 hp
    · exact vString_rt 262144 _ _ (by omega) h1

/-! ## conditional reads (player-info actions) -/

theorem vWhen_rt {α : Type} (c : Bool) (rd : Bytes → Rd α) (enc : Bytes) (v : α) (rest : Bytes)
    (h : c = true → rd (enc ++ rest) = .ok (v, rest)) :
    vWhen c rd ((if c then enc else []) ++ rest) = .ok (if c then some v else none, rest) := by
  cases c with
  | false => simp [vWhen]
  | true => simp [vWhen, h rfl]

theorem flatten_filter_cons {α : Type} (f : α → Bool) (g : α → Bytes) (a : α) (l : List α) :
    (((a :: l).filter f).map g).flatten = (if f a then g a else []) ++ ((l.filter f).map g).flatten := by
  cases h : f a <;> simp [List.filter_cons, h]

theorem vProfileKey_rt (expiry : Int) (pub sig rest : Bytes) (h1 : i64 expiry) (h2 : pub.length ≤ 512)
    (h3 : sig.length ≤ 4096) (holder : Bytes) :
    vProfileKey (writePlayerKey ⟨expiry, pub, sig, holder⟩ ++ rest) = .ok ((expiry, pub, sig), rest) := by
  unfold vProfileKey writePlayerKey
  simp only [List.append_assoc]
  rw [vLong_rt _ _ h1]; simp only [seq_ok]
  rw [vByteArray_rt 512 _ _ (by omega) h2]; simp only [seq_ok]
  rw [vByteArray_rt 4096 _ _ (by omega) h3]; simp only [seq_ok]

theorem vSession_rt (s : ChatSession) (rest : Bytes) (h : sessionOk s) :
    vSession (writeUUID s.id ++ (writePlayerKey ⟨s.expiry, s.pub, s.sig, []⟩ ++ rest)) = .ok (toVSession s, rest) := by
  obtain ⟨h1, h2, h3, h4⟩ := h
  unfold vSession
  rw [vUUID_rt _ _ h1]; simp only [seq_ok]
  rw [vProfileKey_rt _ _ _ _ h2 h3 h4]; simp only [seq_ok, toVSession]

theorem vAddPlayer_rt (name : Bytes) (ps : List Property) (rest : Bytes) (h1 : strOk 16 name) (h2 : propsOk ps) :
    vAddPlayer (writeBytes name ++ writeProperties ps ++ rest) = .ok ((name, ps.map toVProp), rest) := by
  unfold vAddPlayer
  rw [List.append_assoc, vString_rt 16 _ _ (by omega) h1]; simp only [seq_ok]
  rw [vProperties_rt _ _ h2]; simp only [seq_ok]

/-- one entry, given that the decoder's action predicate agrees with the sender's set on 0..7 -/
theorem rdEntry_rt (p : Int) (acts : List Action) (has : Nat → Bool) (e : Entry) (rest : Bytes)
    (hh : ∀ i, i < 8 → has i = acts.contains i) (ok : entryOk p acts e) (okn : entryNbtOk p acts e) :
    rdEntry p has (encEntry p acts e ++ rest) = .ok (meantEntry p acts e, rest) := by
  obtain ⟨hid, h0, h1, h2, h4, h5, h6⟩ := ok
  unfold rdEntry encEntry meantEntry upsertActions
  rw [hh 0 (by omega), hh 1 (by omega), hh 2 (by omega), hh 3 (by omega), hh 4 (by omega), hh 5 (by omega),
    hh 6 (by omega), hh 7 (by omega)]
  simp only [flatten_filter_cons, List.filter_nil, List.map_nil, List.flatten_nil, List.append_nil, List.append_assoc]
  rw [vUUID_rt _ _ hid]; simp only [seq_ok]
  rw [vWhen_rt (acts.contains 0) vAddPlayer (encAction p e 0) (e.name, e.props.map toVProp) _
    (fun hc => by
      have := vAddPlayer_rt e.name e.props
      simp only [encAction]
      exact this _ (h0 hc).1 (h0 hc).2)]
  simp only [seq_ok]
  rw [vWhen_rt (acts.contains 1) (vOptional vSession) (encAction p e 1) (e.chat.map toVSession) _
    (fun hc => by
      simp only [encAction]
      cases hs : e.chat with
      | none => exact vOptional_none _ _
      | some s =>
        try simp only [List.append_assoc]
        exact vOptional_some vSession _ _ _ (vSession_rt s _ (optAll_some (h1 hc) hs)))]
  simp only [seq_ok]
  rw [vWhen_rt (acts.contains 2) vVarInt (encAction p e 2) e.gameMode _
    (fun hc => by simp only [encAction]; exact vVarInt_rt _ _ (h2 hc))]
  simp only [seq_ok]
  rw [vWhen_rt (acts.contains 3) vBool (encAction p e 3) e.listed _
    (fun _ => by simp only [encAction]; exact vBool_rt _ _)]
  simp only [seq_ok]
  rw [vWhen_rt (acts.contains 4) vVarInt (encAction p e 4) e.latency _
    (fun hc => by simp only [encAction]; exact vVarInt_rt _ _ (h4 hc))]
  simp only [seq_ok]
  rw [vWhen_rt (acts.contains 5) (vOptional (vComponent p)) (encAction p e 5) (e.display.map (compBytes p)) _
    (fun hc => by
      simp only [encAction]
      cases hs : e.display with
      | none => exact vOptional_none _ _
      | some c =>
        try simp only [List.append_assoc]
        exact vOptional_some (vComponent p) _ _ _ (vComponent_rt p c _ (optAll_some (h5 hc) hs) (okn hc c hs)))]
  simp only [seq_ok]
  rw [vWhen_rt (acts.contains 6) vVarInt (encAction p e 6) e.listOrder _
    (fun hc => by simp only [encAction]; exact vVarInt_rt _ _ (h6 hc))]
  simp only [seq_ok]
  have := vWhen_rt (acts.contains 7) vBool (encAction p e 7) e.hat rest
    (fun _ => by simp only [encAction]; exact vBool_rt _ _)
  rw [this]
  simp only [seq_ok]

theorem nActions_le (p : Int) : nActions p ≤ 8 := by
  unfold nActions; split <;> (try split) <;> omega

/-- the decoder's view of the bit set = membership in the sender's action list -/
theorem has_eq (p : Int) (acts : List Action) (hw : ∀ a ∈ acts, a < nActions p) (i : Nat) (hi : i < 8) :
    (decide (i < nActions p) && testBit (actionBits acts) i) = acts.contains i := by
  have hb := testBit_bits8 (fun i => acts.contains i)
  rw [← actionBits_eq] at hb
  have ht : testBit (actionBits acts) i = acts.contains i := by
    obtain ⟨b0, b1, b2, b3, b4, b5, b6, b7⟩ := hb
    have : i = 0 ∨ i = 1 ∨ i = 2 ∨ i = 3 ∨ i = 4 ∨ i = 5 ∨ i = 6 ∨ i = 7 := by omega
    rcases this with rfl | rfl | rfl | rfl | rfl | rfl | rfl | rfl <;> assumption
  rw [ht]
  by_cases hc : acts.contains i = true
  · have : i ∈ acts := by simpa using hc
    have := hw i this
    simp [hc, this]
  · have : acts.contains i = false := by simpa using hc
    rw [this, Bool.and_false]

theorem rdUpsert_rt (p : Int) (acts : List Action) (es : List Entry) (rest : Bytes)
    (ok : okUpsert p acts es) (okn : ∀ e ∈ es, entryNbtOk p acts e) :
    rdUpsert p (encUpsert p acts es ++ rest) = .ok (meantUpsert p acts es, rest) := by
  obtain ⟨hw, hlen, hes⟩ := ok
  unfold rdUpsert encUpsert meantUpsert
  simp only [List.singleton_append, List.cons_append, List.append_assoc, List.nil_append, readByte, seq_ok]
  rw [vVarInt_rt _ _ (by unfold i32; omega)]
  simp only [seq_ok]
  have a : ¬ ((es.length : Int) < 0) := by omega
  simp only [a, if_false, Int.toNat_natCast]
  have hh := has_eq p acts hw
  rw [readN_map_rt (encEntry p acts) _ (meantEntry p acts) (fun e => entryOk p acts e ∧ entryNbtOk p acts e)
    (fun e r h => rdEntry_rt p acts _ e r hh h.1 h.2) es rest (fun e he => ⟨hes e he, okn e he⟩)]
  simp only [seq_ok]
  have hf : List.filter (fun i => decide (i < nActions p) && testBit (actionBits acts) i) (List.range 8) =
      List.filter (fun i => acts.contains i) (List.range 8) :=
    List.filter_congr (fun i hi => hh i (by simpa using hi))
  rw [hf]

theorem rdRemove_rt (ids : List Bytes) (rest : Bytes) (ok : okRemove ids) :
    (seq (vVarInt (encRemove ids ++ rest)) fun n r =>
      if n < 0 then .error .negative else readN vUUID n.toNat r) = .ok (ids, rest) := by
  obtain ⟨hlen, hu⟩ := ok
  unfold encRemove
  rw [List.append_assoc, vVarInt_rt _ _ (by unfold i32; omega)]
  simp only [seq_ok]
  have a : ¬ ((ids.length : Int) < 0) := by omega
  simp only [a, if_false, Int.toNat_natCast]
  have := readN_map_rt writeUUID vUUID id isUUID (fun u r h => vUUID_rt u r h) ids rest hu
  simpa using this

/-! ## UUID strings are ASCII strings of the right length -/

theorem isAscii_append (a b : Bytes) : isAscii (a ++ b) ↔ isAscii a ∧ isAscii b := by
  unfold isAscii
  constructor
  · intro h; exact ⟨fun x hx => h x (by simp [hx]), fun x hx => h x (by simp [hx])⟩
  · intro ⟨h1, h2⟩ x hx
    rw [List.mem_append] at hx
    rcases hx with hx | hx
    · exact h1 x hx
    · exact h2 x hx

theorem hexDigit_ascii : ∀ n, n < 16 → (hexDigit n).toNat < 128 := by decide

theorem hexBytes_ascii (u : Bytes) : isAscii (hexBytes u) := by
  induction u with
  | nil => intro b hb; simp [hexBytes] at hb
  | cons x t ih =>
    intro b hb
    simp only [hexBytes, List.mem_cons] at hb
    have hx := x.toNat_lt
    rcases hb with rfl | rfl | hb
    · exact hexDigit_ascii _ (by omega)
    · exact hexDigit_ascii _ (by omega)
    · exact ih b hb

theorem uuidString_ascii (u : Bytes) : isAscii (uuidString u) := by
  unfold uuidString
  have d : isAscii [45] := by decide
  simp only [isAscii_append, hexBytes_ascii, d, and_self]

theorem uuidString_length (u : Bytes) (h : isUUID u) : (uuidString u).length = 36 := by
  unfold uuidString isUUID at *
  simp only [List.length_append, hexBytes_length, List.length_take, List.length_drop, List.length_cons,
    List.length_nil, h]
  omega

theorem strOk_ascii (max : Nat) (s : Bytes) (ha : isAscii s) (hl : s.length ≤ max) : strOk max s := by
  unfold strOk
  rw [utf16Len_ascii _ ha]; omega

theorem rdUuidEra_rt (p : Int) (u rest : Bytes) (hu : isUUID u) :
    rdUuidEra p
      ((if p ≥ V.v1_19 then writeUUID u else if p ≥ V.v1_16 then writeUUID u
        else if p ≥ V.v1_7_6 then writeBytes (uuidString u) else writeBytes (uuidUndashed u)) ++ rest) =
      .ok (u, rest) := by
  unfold rdUuidEra
  rw [v1_19_eq, v1_16_eq, v1_7_6_eq]
  by_cases e1 : p ≥ 759
  · have : p ≥ 735 := by omega
    simp only [e1, this, if_true]; exact vUUID_rt _ _ hu
  · by_cases e2 : p ≥ 735
    · simp only [e1, e2, if_true, if_false]; exact vUUID_rt _ _ hu
    · by_cases e3 : p ≥ 5
      · simp only [e1, e2, e3, if_true, if_false]
        have hs : strOk 36 (uuidString u) :=
          strOk_ascii 36 _ (uuidString_ascii u) (by rw [uuidString_length u hu]; omega)
        rw [vString_rt 36 _ _ (by omega) hs]; simp only [seq_ok]
        rw [parseDashed_rt u hu]
      · simp only [e1, e2, e3, if_false]
        have hl : (uuidUndashed u).length = 32 := by
          unfold uuidUndashed; rw [hexBytes_length, hu]
        have hs : strOk 32 (uuidUndashed u) :=
          strOk_ascii 32 _ (hexBytes_ascii u) (by omega)
        rw [vString_rt 32 _ _ (by omega) hs]; simp only [seq_ok]
        rw [parseUndashed_rt u hu]

/-! ## the NBT hypothesis is decidable: a blob the skipper accepts exactly is self-delimiting -/

theorem skipBytes_app (n : Nat) (bs r x : Bytes) (h : skipBytes n bs = some r) :
    skipBytes n (bs ++ x) = some (r ++ x) := by
  unfold skipBytes at *
  split at h
  · rename_i hn
    have : n ≤ (bs ++ x).length := by simp; omega
    simp only [this, if_true]
    injection h with h
    rw [← h, List.drop_append_of_le_length hn]
  · cases h

theorem readFull_app (n : Nat) (bs a r x : Bytes) (h : readFull n bs = .ok (a, r)) :
    readFull n (bs ++ x) = .ok (a, r ++ x) := by
  unfold readFull at *
  split at h
  · rename_i hn
    have : n ≤ (bs ++ x).length := by simp; omega
    simp only [this, if_true]
    injection h with h
    injection h with h1 h2
    rw [← h1, ← h2, List.take_append_of_le_length hn, List.drop_append_of_le_length hn]
  · cases h

theorem readUint_app (n : Nat) (bs : Bytes) (v : Nat) (r x : Bytes) (h : readUint n bs = .ok (v, r)) :
    readUint n (bs ++ x) = .ok (v, r ++ x) := by
  unfold readUint at *
  cases hf : readFull n bs with
  | error e => rw [hf] at h; cases h
  | ok p =>
    obtain ⟨a, r'⟩ := p
    rw [hf] at h
    rw [readFull_app n bs a r' x hf]
    simp only at h ⊢
    injection h with h
    injection h with h1 h2
    rw [h1, h2]

theorem readInt_app (n : Nat) (bs : Bytes) (v : Int) (r x : Bytes) (h : readInt n bs = .ok (v, r)) :
    readInt n (bs ++ x) = .ok (v, r ++ x) := by
  unfold readInt at *
  cases hf : readUint n bs with
  | error e => rw [hf] at h; cases h
  | ok p =>
    obtain ⟨a, r'⟩ := p
    rw [hf] at h
    rw [readUint_app n bs a r' x hf]
    simp only at h ⊢
    injection h with h
    injection h with h1 h2
    rw [h1, h2]

theorem skipArray_app (w : Nat) (bs r x : Bytes) (h : skipArray w bs = some r) :
    skipArray w (bs ++ x) = some (r ++ x) := by
  unfold skipArray at *
  cases hf : readInt 4 bs with
  | error e => rw [hf] at h; cases h
  | ok p =>
    obtain ⟨len, r'⟩ := p
    rw [hf] at h
    rw [readInt_app 4 bs len r' x hf]
    simp only at h ⊢
    split at h
    · cases h
    · rename_i hl
      simp only [hl, if_false]
      exact skipBytes_app _ _ _ _ h

theorem skipUtf_app (bs r x : Bytes) (h : skipUtf bs = some r) : skipUtf (bs ++ x) = some (r ++ x) := by
  unfold skipUtf at *
  cases hf : readUint 2 bs with
  | error e => rw [hf] at h; cases h
  | ok p =>
    obtain ⟨len, r'⟩ := p
    rw [hf] at h
    rw [readUint_app 2 bs len r' x hf]
    simp only at h ⊢
    exact skipBytes_app _ _ _ _ h

theorem nbtSkip_app (f : Nat) : ∀ (m : NbtMode) (bs r x : Bytes) (k : Nat),
    nbtSkip f m bs = some r → nbtSkip (f + k) m (bs ++ x) = some (r ++ x) := by
  induction f with
  | zero => intro m bs r x k h; simp [nbtSkip] at h
  | succ f ih =>
    intro m bs r x k h
    rw [show f + 1 + k = (f + k) + 1 by omega]
    cases m with
    | payload t =>
      simp only [nbtSkip] at h ⊢
      by_cases h1 : t = 1
      · simp only [h1, if_true] at h ⊢; exact skipBytes_app _ _ _ _ h
      simp only [h1, if_false] at h ⊢
      by_cases h2 : t = 2
      · simp only [h2, if_true] at h ⊢; exact skipBytes_app _ _ _ _ h
      simp only [h2, if_false] at h ⊢
      by_cases h3 : t = 3
      · simp only [h3, if_true] at h ⊢; exact skipBytes_app _ _ _ _ h
      simp only [h3, if_false] at h ⊢
      by_cases h4 : t = 4
      · simp only [h4, if_true] at h ⊢; exact skipBytes_app _ _ _ _ h
      simp only [h4, if_false] at h ⊢
      by_cases h5 : t = 5
      · simp only [h5, if_true] at h ⊢; exact skipBytes_app _ _ _ _ h
      simp only [h5, if_false] at h ⊢
      by_cases h6 : t = 6
      · simp only [h6, if_true] at h ⊢; exact skipBytes_app _ _ _ _ h
      simp only [h6, if_false] at h ⊢
      by_cases h7 : t = 7
      · simp only [h7, if_true] at h ⊢; exact skipArray_app _ _ _ _ h
      simp only [h7, if_false] at h ⊢
      by_cases h8 : t = 8
      · simp only [h8, if_true] at h ⊢; exact skipUtf_app _ _ _ h
      simp only [h8, if_false] at h ⊢
      by_cases h9 : t = 9
      · simp only [h9, if_true] at h ⊢
        cases bs with
        | nil => simp at h
        | cons et r0 =>
          simp only [List.cons_append] at h ⊢
          cases hf : readInt 4 r0 with
          | error e => rw [hf] at h; simp at h
          | ok p =>
            obtain ⟨cnt, r'⟩ := p
            rw [hf] at h
            rw [readInt_app 4 r0 cnt r' x hf]
            simp only at h ⊢
            by_cases hc : cnt ≤ 0
            · simp only [hc, if_true] at h ⊢
              injection h with h; rw [h]
            · simp only [hc, if_false] at h ⊢
              by_cases he : et = 0
              · simp only [he, if_true] at h; cases h
              · simp only [he, if_false] at h ⊢
                exact ih _ _ _ _ _ h
      simp only [h9, if_false] at h ⊢
      by_cases h10 : t = 10
      · simp only [h10, if_true] at h ⊢; exact ih _ _ _ _ _ h
      simp only [h10, if_false] at h ⊢
      by_cases h11 : t = 11
      · simp only [h11, if_true] at h ⊢; exact skipArray_app _ _ _ _ h
      simp only [h11, if_false] at h ⊢
      by_cases h12 : t = 12
      · simp only [h12, if_true] at h ⊢; exact skipArray_app _ _ _ _ h
      simp only [h12, if_false] at h
      cases h
    | list t n =>
      cases n with
      | zero =>
        simp only [nbtSkip] at h ⊢
        injection h with h; rw [h]
      | succ n =>
        simp only [nbtSkip] at h ⊢
        cases hp : nbtSkip f (.payload t) bs with
        | none => rw [hp] at h; cases h
        | some r1 =>
          rw [hp] at h
          rw [ih _ _ _ x k hp]
          simp only at h ⊢
          exact ih _ _ _ _ _ h
    | compound =>
      cases bs with
      | nil => simp [nbtSkip] at h
      | cons t r0 =>
        simp only [List.cons_append, nbtSkip] at h ⊢
        by_cases ht : t = 0
        · simp only [ht, if_true] at h ⊢
          injection h with h; rw [h]
        · simp only [ht, if_false] at h ⊢
          cases hu : skipUtf r0 with
          | none => rw [hu] at h; cases h
          | some r1 =>
            rw [hu] at h
            rw [skipUtf_app _ _ x hu]
            simp only at h ⊢
            cases hp : nbtSkip f (.payload t) r1 with
            | none => rw [hp] at h; cases h
            | some r2 =>
              rw [hp] at h
              rw [ih _ _ _ x k hp]
              simp only at h ⊢
              exact ih _ _ _ _ _ h

/-- a blob that the skipper accepts exactly (nothing left over) is self-delimiting in front of
    every continuation: the NBT hypothesis is decidable -/
theorem wfNbt_of_closed (blob : Bytes) (h : vNbt blob = .ok (blob, [])) : WfNbt blob := by
  intro rest
  unfold vNbt at h ⊢
  cases blob with
  | nil => simp at h
  | cons t r =>
    simp only [List.cons_append] at h ⊢
    by_cases ht : t = 0
    · simp [ht] at h
    · simp only [ht, if_false] at h ⊢
      cases hs : nbtSkip (2 * r.length + 7 + 1) (.payload t) r with
      | none => rw [hs] at h; cases h
      | some r0 =>
        rw [hs] at h
        simp only at h
        injection h with h
        injection h with h1 h2
        subst h2
        have := nbtSkip_app _ _ _ _ rest (2 * rest.length) hs
        rw [show 2 * (r ++ rest).length + 7 + 1 = 2 * r.length + 7 + 1 + 2 * rest.length by simp; omega]
        rw [this]
        simp only [List.nil_append, List.length_cons, List.length_append]
        rw [show r.length + rest.length + 1 - rest.length = r.length + 1 by omega]
        simp


theorem nbtClosed_spec (blob : Bytes) (h : nbtClosed blob = true) : vNbt blob = .ok (blob, []) := by
  unfold nbtClosed at h
  split at h
  · rename_i b hb
    have : b = blob := by simpa using h
    rw [hb, this]
  · cases h

theorem compNbtOk_of_closed (p : Int) (c : Comp) (h : compNbtClosed p c) : compNbtOk p c :=
  fun hp => wfNbt_of_closed _ (nbtClosed_spec _ (h hp))

theorem entryNbtOk_of_closed (p : Int) (acts : List Action) (e : Entry) (h : entryNbtClosed p acts e) :
    entryNbtOk p acts e :=
  fun hc c hs => compNbtOk_of_closed p c (optAll_some (h hc) hs)

/-- the uuid gate writes in the 1.19.1–1.20.1 era is the intended holder -/
theorem loginHolder_eq (s : ServerLogin) : loginHolder s = meantHolder s := by
  unfold loginHolder meantHolder keyHolderSet
  cases hk : s.key with
  | none => simp
  | some k => by_cases hh : (k.holder != nilUUID) = true <;> simp [hh]


end Gate.C07
