import GateModel.C07.Lemmas
/-
C07 — Packets the proxy builds decode as intended by an independent vanilla decoder.

For every packet type `X` of the list:   `X_decodes` :
   okX (the vanilla peer's own domain: length limits, integer widths, enum ranges)  →
   Vanilla.decX p (Gate.encX p pkt) = .ok (meantX p pkt)
for EVERY protocol number `p` (an `Int`; the eras are case-split inside the proofs) and every field
value.  `decX` consumes the whole payload (`complete`), `encX` is the model of gate's `Encode`
(`Model.lean`, tied to /repo by the regenerated call-sequence/version facts below and by the
differential harness), `decX` is the vanilla reference (`Spec.lean`), `meantX` the projection of the
Go struct onto the fields that exist in that era (`Intended.lean`).
Encoders that can fail (`Option`) are stated as `∃ bs, enc = some bs ∧ dec bs = ok …`.

Player info: `upsert_decodes` holds for every action list — any order, duplicates included — and
`upsert_order_irrelevant` says the bytes depend only on the *set* of actions.  The pre-fix encoder
(`encUpsertDefective`, per-entry data in API order) is refuted by `upsert_api_order_fails`.
Plugin channels: `plugin_message_decodes`; the pre-fix regular expression is refuted by
`plugin_channel_defective_fails`.
-/
set_option linter.unusedSimpArgs false
namespace Gate.C07.Props
open Gate Gate.C03 Gate.C07 Gate.C07.Vanilla

/-! ### tie: regenerated facts the model rests on -/

/-- the protocol numbers gate's era branches use are the vanilla numbers of the reference -/
theorem eras_match_reference :
    V.v1_7_6 = 5 ∧ V.v1_8 = 47 ∧ V.v1_12_2 = 340 ∧ V.v1_13 = 393 ∧ V.v1_16 = 735 ∧ V.v1_19 = 759 ∧
    V.v1_19_1 = 760 ∧ V.v1_19_3 = 761 ∧ V.v1_20_2 = 764 ∧ V.v1_20_3 = 765 ∧ V.v1_20_5 = 766 ∧
    V.v1_21 = 767 ∧ V.v26_2 = 776 := by decide

/-- the identifier-cleaning expression is the repaired one (`\-` = a literal hyphen) -/
theorem source_channel_regex : Gate.Gen.C07.invalidIdentifierRegex = "[^a-z0-9\\-_]*" := by decide

/-- `Upsert.Encode` asks `ContainsAction` again before each `action.Encode`: the per-entry loop runs
    over `UpsertActions` (canonical order), not over `u.ActionSet` -/
theorem source_upsert_loop : Gate.Gen.C07.upsertEncodeCalls =
    ["len", "mathutil.NewBitSet", "ContainsAction", "bitSet.SetBool", "wr.Write", "return", "len",
     "util.WriteVarInt", "return", "util.WriteUUID", "return", "ContainsAction", "action.Encode", "return",
     "return"] := by decide

theorem source_transform_cases : Gate.Gen.C07.transformChannelCases =
    ["RegisterChannelLegacy", "UnregisterChannelLegacy", "BrandChannelLegacy", "\"BungeeCord\"", "default"] := by decide

/-- field order of the simple encoders, as written in the source now -/
theorem source_shapes :
    Gate.Gen.C07.handshakeEncodeCalls =
      ["util.WriteVarInt", "return", "util.WriteString", "return", "int16", "util.WriteInt16", "return",
       "util.WriteVarInt", "return"] ∧
    Gate.Gen.C07.transferEncodeCalls = ["util.WriteString", "return", "util.WriteVarInt", "return"] ∧
    Gate.Gen.C07.statusPingEncodeCalls = ["util.WriteInt64", "return"] ∧
    Gate.Gen.C07.statusResponseEncodeCalls = ["util.WriteString", "return"] ∧
    Gate.Gen.C07.statusRequestEncodeCalls = ["return"] ∧
    Gate.Gen.C07.setCompressionEncodeCalls = ["util.WriteVarInt", "return"] ∧
    Gate.Gen.C07.loginPluginResponseEncodeCalls =
      ["util.WriteVarInt", "return", "util.WriteBool", "return", "util.WriteRawBytes", "return"] ∧
    Gate.Gen.C07.loginPluginMessageEncodeCalls =
      ["util.PanicWriter", "w.VarInt", "w.String", "util.WriteRawBytes", "return"] ∧
    Gate.Gen.C07.keepAliveEncodeCalls =
      ["c.Protocol.GreaterEqual", "util.WriteInt64", "return", "c.Protocol.GreaterEqual", "int",
       "util.WriteVarInt", "return", "int32", "util.WriteInt32", "return"] ∧
    Gate.Gen.C07.removeEncodeCalls = ["len", "util.WriteVarInt", "return", "util.WriteUUID", "return", "return"] ∧
    Gate.Gen.C07.writePlayerKeyCalls =
      ["playerKey.ExpiryTemporal", "playerKey.ExpiryTemporal().UnixMilli", "util.WriteInt64", "return",
       "playerKey.SignedPublicKeyBytes", "util.WriteBytes", "return", "playerKey.Signature", "util.WriteBytes",
       "return"] ∧
    Gate.Gen.C07.remoteChatSessionEncodeCalls = ["util.WriteUUID", "return", "crypto.WritePlayerKey", "return"] := by
  decide

theorem source_shapes_login :
    Gate.Gen.C07.encryptionRequestEncodeCalls =
      ["util.WriteString", "return", "c.Protocol.GreaterEqual", "util.WriteBytes", "return", "util.WriteBytes",
       "return", "c.Protocol.GreaterEqual", "util.WriteBool", "return", "return", "util.WriteBytes17", "return",
       "util.WriteBytes17", "return"] ∧
    Gate.Gen.C07.encryptionResponseEncodeCalls =
      ["c.Protocol.GreaterEqual", "util.WriteBytes", "return", "c.Protocol.GreaterEqual", "c.Protocol.Lower",
       "util.WriteBool", "return", "util.WriteInt64", "return", "util.WriteBytes", "return", "util.WriteBytes17",
       "return", "util.WriteBytes17", "return"] ∧
    Gate.Gen.C07.serverLoginSuccessEncodeCalls =
      ["fmt.Errorf", "return", "c.Protocol.GreaterEqual", "util.WriteUUID", "c.Protocol.GreaterEqual",
       "util.WriteUUID", "c.Protocol.GreaterEqual", "s.UUID.String", "util.WriteString", "s.UUID.Undashed",
       "util.WriteString", "return", "util.WriteString", "return", "c.Protocol.GreaterEqual",
       "util.WriteProperties", "return", "util.WriteBool", "return", "c.Protocol.GreaterEqual", "util.WriteUUID",
       "return", "return"] ∧
    Gate.Gen.C07.serverLoginEncodeCalls =
      ["errors.New", "return", "util.WriteString", "return", "c.Protocol.GreaterEqual", "c.Protocol.Lower",
       "util.WriteBool", "return", "crypto.WritePlayerKey", "return", "c.Protocol.GreaterEqual", "util.WriteUUID",
       "return", "return", "c.Protocol.GreaterEqual", "s.PlayerKey.SignatureHolder", "util.WriteBool", "return",
       "s.PlayerKey.SignatureHolder", "util.WriteUUID", "return", "return"] ∧
    Gate.Gen.C07.pluginMessageEncodeCalls =
      ["c.Protocol.GreaterEqual", "TransformLegacyToModernChannel", "util.WriteString", "util.WriteString",
       "return", "c.Protocol.GreaterEqual", "wr.Write", "util.WriteBytes17", "return"] ∧
    Gate.Gen.C07.disconnectEncodeCalls = ["errors.New", "return", "d.Reason.Write", "return"] := by
  decide

theorem source_shapes_actions :
    Gate.Gen.C07.addActionEncodeCalls = ["util.WriteString", "return", "util.WriteProperties", "return"] ∧
    Gate.Gen.C07.initChatActionEncodeCalls =
      ["util.WriteBool", "return", "info.RemoteChatSession.Encode", "return", "return"] ∧
    Gate.Gen.C07.updateGameModeActionEncodeCalls = ["util.WriteVarInt", "return"] ∧
    Gate.Gen.C07.updateListedActionEncodeCalls = ["util.WriteBool", "return"] ∧
    Gate.Gen.C07.updateLatencyActionEncodeCalls = ["util.WriteVarInt", "return"] ∧
    Gate.Gen.C07.updateDisplayNameActionEncodeCalls =
      ["util.WriteBool", "return", "info.DisplayName.Write", "return", "return"] ∧
    Gate.Gen.C07.updateListOrderActionEncodeCalls = ["util.WriteVarInt", "return"] ∧
    Gate.Gen.C07.updateHatActionEncodeCalls = ["util.WriteBool", "return"] := by decide

/-! ### handshake, status -/

theorem handshake_decodes (p : Int) (h : Handshake) (ok : okHandshake p h) :
    decHandshake p (encHandshake h) = .ok (meantHandshake h) := by
  obtain ⟨h1, h2, ⟨h3, h3'⟩, h4⟩ := ok
  have h4' : i32 h.next := by unfold i32; omega
  unfold decHandshake rdHandshake encHandshake meantHandshake
  simp only [List.append_assoc]
  rw [vVarInt_rt _ _ h1]; simp only [seq_ok]
  rw [vString_rt 255 _ _ (by omega) h2]; simp only [seq_ok]
  rw [vUShort_port _ _ h3 h3']; simp only [seq_ok]
  rw [← List.append_nil (writeVarInt h.next), vVarInt_rt _ _ h4']; simp only [seq_ok]
  rw [if_pos h4]; rfl

theorem status_request_decodes : decStatusRequest encStatusRequest = .ok () := rfl

theorem status_response_decodes (s : Bytes) (ok : strOk 32767 s) :
    decStatusResponse (encStatusResponse s) = .ok s := by
  unfold decStatusResponse encStatusResponse
  rw [← List.append_nil (writeBytes s), vString_rt 32767 _ _ (by omega) ok]; rfl

theorem status_ping_decodes (id : Int) (ok : i64 id) : decStatusPing (encStatusPing id) = .ok id := by
  unfold decStatusPing encStatusPing
  rw [← List.append_nil (writeInt 8 id), vLong_rt _ _ ok]; rfl

/-! ### login start (all key / uuid eras) -/

theorem login_start_decodes (p : Int) (s : ServerLogin) (ok : okLoginStart s) :
    ∃ bs, encServerLogin p s = some bs ∧ decLoginStart p bs = .ok (meantLoginStart p s) := by
  obtain ⟨hne, hname, hhold, hkey⟩ := ok
  have hne' : s.name.isEmpty = false := by
    cases hs : s.name with
    | nil => exact absurd hs hne
    | cons a t => rfl
  unfold encServerLogin
  rw [hne']
  refine ⟨_, rfl, ?_⟩
  unfold decLoginStart rdLoginStart meantLoginStart
  rw [v1_19_eq, v1_19_1_eq, v1_19_3_eq, v1_20_2_eq, loginHolder_eq]
  rw [vString_rt 16 _ _ (by omega) hname]; simp only [seq_ok]
  -- the optional key block of 1.19–1.19.2
  have keyblock : ∀ tail, vOptional vProfileKey (encOptKey s.key ++ tail) =
      .ok (s.key.map (fun k => (k.expiry, k.pub, k.sig)), tail) := by
    intro tail
    unfold encOptKey
    cases hk : s.key with
    | none => exact vOptional_none _ _
    | some k =>
      obtain ⟨k1, k2, k3, _⟩ := optAll_some hkey hk
      simp only [List.append_assoc]
      exact vOptional_some vProfileKey _ _ _ (vProfileKey_rt k.expiry k.pub k.sig tail k1 k2 k3 k.holder)
  -- the optional uuid of 1.19.1–1.20.1
  have holderOk : ∀ u, meantHolder s = some u → isUUID u := by
    intro u hu
    unfold meantHolder at hu
    cases hk : s.key with
    | none => rw [hk] at hu; simp only at hu; split at hu <;> simp_all
    | some k =>
      rw [hk] at hu; simp only at hu
      have := (optAll_some hkey hk).2.2.2
      split at hu
      · simp_all
      · split at hu <;> simp_all
  have uuidblock : vOptional vUUID (encOptUUID (meantHolder s)) = .ok (meantHolder s, []) := by
    unfold encOptUUID
    cases hm : meantHolder s with
    | none => have := vOptional_none vUUID []; simpa using this
    | some u =>
      have := vUUID_rt u [] (holderOk u hm)
      exact vOptional_some vUUID _ _ _ (by simpa using this)
  by_cases e1 : p < 759
  · have : ¬ p ≥ 759 := by omega
    have a2 : ¬ (p = 759 ∨ p = 760) := by omega
    have a3 : ¬ p ≥ 764 := by omega
    have a4 : ¬ p ≥ 760 := by omega
    simp [this, e1, a2, a3, a4]
  · have ge : p ≥ 759 := by omega
    simp only [ge, e1, if_true, if_false]
    by_cases e2 : p = 759
    · subst e2
      simp only [show (759 : Int) < 761 by omega, show ¬ ((759 : Int) ≥ 764) by omega, show ¬ ((759 : Int) ≥ 760) by omega,
        if_true, if_false, true_or]
      rw [keyblock []]; rfl
    · by_cases e3 : p = 760
      · subst e3
        simp only [show (760 : Int) < 761 by omega, show ¬ ((760 : Int) ≥ 764) by omega, show ((760 : Int) ≥ 760) by omega,
          show ¬ ((760 : Int) = 759) by omega, if_true, if_false, or_true]
        rw [keyblock]; simp only [seq_ok]
        rw [uuidblock]; rfl
      · have a1 : ¬ p < 761 := by omega
        have a2 : ¬ (p = 759 ∨ p = 760) := by omega
        simp only [a1, e2, e3, a2, if_false, List.nil_append]
        by_cases e4 : p < 764
        · have a3 : ¬ p ≥ 764 := by omega
          have a4 : p ≥ 760 := by omega
          simp only [e4, a3, a4, if_true, if_false]
          rw [uuidblock]; rfl
        · have a3 : p ≥ 764 := by omega
          simp only [e4, a3, if_true, if_false]
          rw [← List.append_nil (writeUUID s.holder), vUUID_rt _ _ hhold]; rfl

/-! ### encryption request / response (1.7 short-prefixed arrays, salt/signature era) -/

theorem encryption_request_decodes (p : Int) (e : EncryptionRequest) (ok : okEncryptionRequest p e) :
    ∃ bs, encEncryptionRequest p e = some bs ∧
      decEncryptionRequest p bs = .ok (meantEncryptionRequest p e) := by
  obtain ⟨h1, h2, h3⟩ := ok
  unfold encEncryptionRequest decEncryptionRequest rdEncryptionRequest meantEncryptionRequest
  rw [v1_8_eq, v1_20_5_eq]
  unfold arrLim at h2 h3
  by_cases e1 : p < 47
  · have a1 : ¬ p ≥ 47 := by omega
    have a2 : ¬ p ≥ 766 := by omega
    simp only [e1, if_true] at h2 h3
    have w1 : writeBytes17Ok false e.pub = true := by simp [writeBytes17Ok]; omega
    have w2 : writeBytes17Ok false e.token = true := by simp [writeBytes17Ok]; omega
    simp only [a1, a2, e1, w1, w2, if_true, if_false, Bool.not_true, Bool.false_eq_true]
    refine ⟨_, rfl, ?_⟩
    simp only [List.append_assoc]
    rw [vString_rt 20 _ _ (by omega) h1]; simp only [seq_ok]
    rw [vShortArray_rt _ _ h2]; simp only [seq_ok]
    rw [← List.append_nil (writeBytes17 e.token), vShortArray_rt _ _ h3]; rfl
  · have a1 : p ≥ 47 := by omega
    simp only [e1, if_false] at h2 h3
    simp only [a1, e1, if_true, if_false]
    refine ⟨_, rfl, ?_⟩
    simp only [List.append_assoc]
    rw [vString_rt 20 _ _ (by omega) h1]; simp only [seq_ok]
    rw [vByteArray_rt anyLen _ _ (by decide) h2]; simp only [seq_ok]
    rw [vByteArray_rt anyLen _ _ (by decide) h3]; simp only [seq_ok]
    by_cases e2 : p ≥ 766
    · simp only [e2, if_true]
      rw [← List.append_nil (writeBool _), vBool_rt]; rfl
    · simp only [e2, if_false]; rfl

theorem encryption_response_decodes (p : Int) (e : EncryptionResponse) (ok : okEncryptionResponse p e) :
    ∃ bs, encEncryptionResponse p e = some bs ∧
      decEncryptionResponse p bs = .ok (meantEncryptionResponse p e) := by
  obtain ⟨h1, h2, h3⟩ := ok
  unfold encEncryptionResponse decEncryptionResponse rdEncryptionResponse meantEncryptionResponse
  rw [v1_8_eq, v1_19_eq, v1_19_3_eq]
  unfold arrLim at h1 h2
  by_cases e1 : p < 47
  · have a1 : ¬ p ≥ 47 := by omega
    simp only [e1, if_true] at h1 h2
    have w1 : writeBytes17Ok false e.secret = true := by simp [writeBytes17Ok]; omega
    have w2 : writeBytes17Ok false e.token = true := by simp [writeBytes17Ok]; omega
    have a2 : ¬ (p = 759 ∨ p = 760) := by omega
    simp only [a1, a2, e1, w1, w2, if_true, if_false, Bool.not_true, Bool.false_eq_true]
    refine ⟨_, rfl, ?_⟩
    rw [vShortArray_rt _ _ h1]; simp only [seq_ok]
    rw [← List.append_nil (writeBytes17 e.token), vShortArray_rt _ _ h2]; rfl
  · have a1 : p ≥ 47 := by omega
    simp only [e1, if_false] at h1 h2
    simp only [a1, e1, if_true, if_false]
    refine ⟨_, rfl, ?_⟩
    simp only [List.append_assoc]
    rw [vByteArray_rt anyLen _ _ (by decide) h1]; simp only [seq_ok]
    by_cases e2 : p = 759 ∨ p = 760
    · have a2 : p ≥ 759 ∧ p < 761 := by omega
      simp only [e2, a2, if_true, and_self]
      cases hs : e.salt with
      | none =>
        simp only
        rw [vBool_rt]; simp only [seq_ok, if_true]
        rw [← List.append_nil (writeBytes e.token), vByteArray_rt anyLen _ _ (by decide) h2]; rfl
      | some sv =>
        simp only [List.append_assoc]
        rw [vBool_rt]; simp only [seq_ok, Bool.false_eq_true, if_false]
        rw [vLong_rt _ _ (optAll_some h3 hs)]; simp only [seq_ok]
        rw [← List.append_nil (writeBytes e.token), vByteArray_rt anyLen _ _ (by decide) h2]; rfl
    · have a2 : ¬ (p ≥ 759 ∧ p < 761) := by omega
      simp only [e2, a2, if_false, List.nil_append]
      rw [← List.append_nil (writeBytes e.token), vByteArray_rt anyLen _ _ (by decide) h2]; rfl

/-! ### login success (uuid-string eras, properties, strict-error byte, 26.2 session id) -/


theorem login_success_decodes (p : Int) (s : LoginSuccess) (ok : okLoginSuccess s) :
    ∃ bs, encLoginSuccess p s = some bs ∧ decLoginSuccess p bs = .ok (meantLoginSuccess p s) := by
  obtain ⟨hu, hsess, hne, hname, hprops⟩ := ok
  have hne' : s.name.isEmpty = false := by
    cases hs : s.name with
    | nil => exact absurd hs hne
    | cons a t => rfl
  unfold encLoginSuccess
  rw [hne']
  refine ⟨_, rfl, ?_⟩
  unfold decLoginSuccess rdLoginSuccess meantLoginSuccess
  simp only [List.append_assoc]
  rw [rdUuidEra_rt p _ _ hu]; simp only [seq_ok]
  rw [vString_rt 16 _ _ (by omega) hname]; simp only [seq_ok]
  rw [v1_19_eq, v1_20_5_eq, v1_21_eq, v26_2_eq]
  -- properties (1.19+)
  have step1 : ∀ tail, (if p ≥ 759 then seq (vProperties ((if p ≥ 759 then writeProperties s.props else []) ++ tail))
        fun ps r' => (.ok (some ps, r') : Rd (Option (List VProperty)))
      else .ok (none, (if p ≥ 759 then writeProperties s.props else []) ++ tail)) =
      .ok (if p ≥ 759 then some (s.props.map toVProp) else none, tail) := by
    intro tail
    by_cases e : p ≥ 759
    · simp only [e, if_true]; rw [vProperties_rt _ _ hprops]; rfl
    · simp only [e, if_false, List.nil_append]
  rw [step1]; simp only [seq_ok]
  have step2 : ∀ tail, (if p = 766 ∨ p = 767 then seq (vBool ((if p = 766 ∨ p = 767 then writeBool true else []) ++ tail))
        fun b r' => (.ok (some b, r') : Rd (Option Bool))
      else .ok (none, (if p = 766 ∨ p = 767 then writeBool true else []) ++ tail)) =
      .ok (if p = 766 ∨ p = 767 then some true else none, tail) := by
    intro tail
    by_cases e : p = 766 ∨ p = 767
    · simp only [e, if_true]; rw [vBool_rt]; rfl
    · simp only [e, if_false, List.nil_append]
  rw [step2]; simp only [seq_ok]
  by_cases e : p ≥ 776
  · simp only [e, if_true]
    rw [← List.append_nil (writeUUID s.session), vUUID_rt _ _ hsess]; rfl
  · simp only [e, if_false]; rfl

/-! ### set compression, login plugin request / response -/

theorem set_compression_decodes (t : Int) (ok : i32 t) : decSetCompression (encSetCompression t) = .ok t := by
  unfold decSetCompression encSetCompression
  rw [← List.append_nil (writeVarInt t), vVarInt_rt _ _ ok]; rfl

theorem login_plugin_message_decodes (m : LoginPluginMessage) (ok : okLoginPluginMessage m) :
    decLoginPluginRequest (encLoginPluginMessage m) = .ok (meantLoginPluginMessage m) := by
  obtain ⟨h1, h2, h3, h4⟩ := ok
  unfold decLoginPluginRequest encLoginPluginMessage meantLoginPluginMessage vIdentifier
  simp only [List.append_assoc]
  rw [vVarInt_rt _ _ h1]; simp only [seq_ok]
  rw [vString_rt 32767 _ _ (by omega) h2]; simp only [seq_ok, h3, if_true]
  rw [vRest_rt _ _ h4]; rfl

theorem login_plugin_response_decodes (r : LoginPluginResponse) (ok : okLoginPluginResponse r) :
    decLoginPluginResponse (encLoginPluginResponse r) = .ok (meantLoginPluginResponse r) := by
  obtain ⟨h1, h2, h3⟩ := ok
  unfold decLoginPluginResponse encLoginPluginResponse meantLoginPluginResponse
  simp only [List.append_assoc]
  rw [vVarInt_rt _ _ h1]; simp only [seq_ok]
  cases hs : r.success with
  | true =>
    rw [vOptional_some (vRest maxPayload) r.data r.data [] (vRest_rt _ _ h2)]; rfl
  | false =>
    rw [h3 hs, vOptional_none]; rfl

/-! ### disconnect (per state), keep-alive eras, transfer -/

theorem disconnect_decodes (p : Int) (login : Bool) (c : Comp) (ok : okDisconnect p login c)
    (oknc : login = false → compNbtClosed p c) :
    ∃ bs, encDisconnect p login (some c) = some bs ∧ decDisconnect p login bs = .ok (meantDisconnect p login c) := by
  have okn : login = false → compNbtOk p c := fun h => compNbtOk_of_closed p c (oknc h)
  refine ⟨_, rfl, ?_⟩
  unfold decDisconnect meantDisconnect okDisconnect at *
  cases login with
  | true =>
    simp only [if_true] at ok ⊢
    unfold writeComp
    rw [v1_20_2_eq, v1_20_3_eq]
    simp only [show ¬ ((764 : Int) ≥ 765) by omega, if_false]
    rw [← List.append_nil (writeBytes c.json), vString_rt 262144 _ _ (by omega) ok]; rfl
  | false =>
    simp only [Bool.false_eq_true, if_false] at ok ⊢
    rw [← List.append_nil (writeComp p c), vComponent_rt p c [] ok (okn rfl)]; rfl

/-- a missing reason is refused by the encoder, nothing is sent -/
theorem disconnect_nil_refused (p : Int) (login : Bool) : encDisconnect p login none = none := rfl

theorem keep_alive_decodes (p : Int) (id : Int) (ok : okKeepAlive p id) :
    decKeepAlive p (encKeepAlive p id) = .ok id := by
  unfold decKeepAlive encKeepAlive okKeepAlive at *
  rw [v1_12_2_eq, v1_8_eq]
  by_cases e1 : p ≥ 340
  · simp only [e1, if_true] at ok ⊢
    rw [← List.append_nil (writeInt 8 id), vLong_rt _ _ ok]; rfl
  · simp only [e1, if_false] at ok ⊢
    by_cases e2 : p ≥ 47
    · simp only [e2, if_true]
      rw [← List.append_nil (writeVarInt id), vVarInt_rt _ _ ok]; rfl
    · simp only [e2, if_false]
      rw [← List.append_nil (writeInt 4 id), vInt_rt _ _ ok]; rfl

theorem transfer_decodes (t : Transfer) (ok : okTransfer t) : decTransfer (encTransfer t) = .ok (meantTransfer t) := by
  obtain ⟨h1, h2⟩ := ok
  unfold decTransfer encTransfer meantTransfer
  rw [vString_rt 32767 _ _ (by omega) h1]; simp only [seq_ok]
  rw [← List.append_nil (writeVarInt t.port), vVarInt_rt _ _ h2]; rfl

/-! ### plugin message: 1.7 framing, raw body, 1.13 channel identifiers -/

theorem plugin_message_decodes (p : Int) (sb : Bool) (m : PluginMessage) (ok : okPluginMessage p sb m) :
    ∃ bs, encPluginMessage p m = some bs ∧ decPluginMessage p sb bs = .ok (meantPluginMessage p m) := by
  obtain ⟨hch, hdata⟩ := ok
  unfold encPluginMessage encPluginMessageWith decPluginMessage meantPluginMessage
  rw [v1_13_eq, v1_8_eq]
  by_cases e1 : p ≥ 393
  · have e2 : p ≥ 47 := by omega
    simp only [e1, e2, if_true] at hch hdata ⊢
    refine ⟨_, rfl, ?_⟩
    obtain ⟨ha, hl, hc⟩ := hch
    rw [vIdentifier_channel _ _ ha hl hc]; simp only [seq_ok]
    rw [vRest_rt _ _ hdata]; rfl
  · simp only [e1, if_false] at hch ⊢
    by_cases e2 : p ≥ 47
    · simp only [e2, if_true] at hdata ⊢
      refine ⟨_, rfl, ?_⟩
      rw [vString_rt 20 _ _ (by omega) hch]; simp only [seq_ok]
      rw [vRest_rt _ _ hdata]; rfl
    · simp only [e2, if_false] at hdata ⊢
      have w : writeBytes17Ok true m.data = true := by simp [writeBytes17Ok]; exact hdata
      simp only [w, if_true]
      refine ⟨_, rfl, ?_⟩
      rw [vString_rt 20 _ _ (by omega) hch]; simp only [seq_ok]
      rw [← List.append_nil (writeBytes17 m.data), vVarShortArray_rt _ _ hdata]; rfl

/-- history form: the same packet object encoded for any sequence of protocols (a broadcast to
    connections of mixed versions, in any order) — every single encoding is what `encPluginMessage`
    yields for the ORIGINAL packet, hence decodes to the intended value of the original channel -/
theorem plugin_message_history (m : PluginMessage) (ps : List Int) :
    encHistory encPluginStep m ps = ps.map (fun p => encPluginMessage p m) := by
  induction ps with
  | nil => rfl
  | cons p t ih => simp only [encHistory, encPluginStep, List.map_cons, ih]

theorem plugin_message_history_decodes (m : PluginMessage) (steps : List (Int × Bool))
    (ok : ∀ st ∈ steps, okPluginMessage st.1 st.2 m) :
    encHistory encPluginStep m (steps.map (·.1)) = steps.map (fun st => encPluginMessage st.1 m) ∧
    ∀ st ∈ steps, ∃ bs, encPluginMessage st.1 m = some bs ∧
      decPluginMessage st.1 st.2 bs = .ok (meantPluginMessage st.1 m) := by
  refine ⟨?_, fun st hst => plugin_message_decodes st.1 st.2 m (ok st hst)⟩
  rw [plugin_message_history, List.map_map]
  rfl

/-- an `Encode` that stores the transformed name back into the object breaks the second step:
    `FML|HS` encoded for 1.21 and then for 1.12.2 reaches the old client as `legacy:fmlhs` -/
theorem plugin_message_rewriting_fails :
    ∃ bs, (encHistory encPluginStepRewriting ⟨asc "FML|HS", []⟩ [767, 340]).getD 1 none = some bs ∧
      decPluginMessage 340 false bs = .ok ⟨asc "legacy:fmlhs", []⟩ ∧
      meantPluginMessage 340 ⟨asc "FML|HS", []⟩ = ⟨asc "FML|HS", []⟩ :=
  ⟨_, rfl, rfl, rfl⟩

/-- the mapped channel name is Velocity's mapping -/
theorem plugin_channel_mapping (name : Bytes) : transformChannel name = legacyToModern name :=
  transformChannel_eq name

/-- and always an identifier a vanilla peer accepts -/
theorem plugin_channel_valid (name : Bytes) (h : name.contains 58 = false) :
    validIdentifier (transformChannel name) = true := by
  rw [transformChannel_eq]; exact legacyToModern_valid name h

/-- pre-fix expression (`[^a-z0-9\\-_]*` as a raw string): `a]` became `legacy:a]`, which is not an
    identifier — a vanilla 1.13+ peer rejects the packet; and `my-chan` lost its hyphen -/
theorem plugin_channel_defective_fails :
    transformChannelDefective (asc "a]") = asc "legacy:a]" ∧
    validIdentifier (transformChannelDefective (asc "a]")) = false ∧
    (∃ bs, encPluginMessageDefective 767 ⟨asc "a]", []⟩ = some bs ∧
      decPluginMessage 767 false bs = .error .invalid) ∧
    transformChannelDefective (asc "my-chan") = asc "legacy:mychan" ∧
    legacyToModern (asc "my-chan") = asc "legacy:my-chan" := by
  refine ⟨by decide, by decide, ⟨_, rfl, rfl⟩, by decide, by decide⟩

/-! ### player info: every action list decodes; order and duplicates are irrelevant -/

/-- `canonical_action_order`: for every protocol, every action list (any order, duplicates allowed,
    all actions existing in that protocol) and every entry list, the vanilla decoder recovers the action
    set and, per entry, exactly the selected fields -/
theorem upsert_decodes (p : Int) (acts : List Action) (es : List Entry)
    (ok : okUpsert p acts es) (oknc : ∀ e ∈ es, entryNbtClosed p acts e) :
    decUpsert p (encUpsert p acts es) = .ok (meantUpsert p acts es) := by
  have okn : ∀ e ∈ es, entryNbtOk p acts e := fun e he => entryNbtOk_of_closed p acts e (oknc e he)
  unfold decUpsert
  have := rdUpsert_rt p acts es [] ok okn
  rw [List.append_nil] at this
  rw [this]; rfl

/-- the bytes depend only on which actions are present, not on their order or multiplicity -/
theorem upsert_order_irrelevant (p : Int) (acts acts' : List Action) (es : List Entry)
    (h : ∀ i, acts.contains i = acts'.contains i) : encUpsert p acts es = encUpsert p acts' es := by
  unfold encUpsert encEntry actionBits
  simp only [h]

/-- a permutation of the API's action list changes nothing -/
theorem upsert_perm_irrelevant (p : Int) (acts acts' : List Action) (es : List Entry)
    (h : acts.Perm acts') : encUpsert p acts es = encUpsert p acts' es :=
  upsert_order_irrelevant p acts acts' es (fun i => by
    have := h.mem_iff (a := i)
    by_cases hi : i ∈ acts
    · simp [hi, this.mp hi]
    · have hi' : i ∉ acts' := fun x => hi (this.mpr x)
      simp [hi, hi'])

def witnessEntry : Entry :=
  { id := List.replicate 16 0, name := [], props := [], listed := true, latency := 0, gameMode := 0,
    display := none, hat := false, listOrder := 0, chat := none }

/-- pre-fix `Upsert.Encode` (per-entry data in API order): with `ActionSet = [latency, listed]`,
    latency 0 and listed = true, a vanilla peer reads listed = false and latency = 1 -/
theorem upsert_api_order_fails :
    decUpsert 767 (encUpsertDefective 767 [4, 3] [witnessEntry]) =
      .ok ⟨[3, 4], [⟨List.replicate 16 0, none, none, none, some false, some 1, none, none, none⟩]⟩ ∧
    decUpsert 767 (encUpsertDefective 767 [4, 3] [witnessEntry]) ≠ .ok (meantUpsert 767 [4, 3] [witnessEntry]) := by
  have h : decUpsert 767 (encUpsertDefective 767 [4, 3] [witnessEntry]) =
      .ok ⟨[3, 4], [⟨List.replicate 16 0, none, none, none, some false, some 1, none, none, none⟩]⟩ := by rfl
  refine ⟨h, ?_⟩
  rw [h]
  intro hc
  exact absurd (Except.ok.inj hc) (by decide)

/-- the same input through the repaired encoder -/
example : decUpsert 767 (encUpsert 767 [4, 3] [witnessEntry]) = .ok (meantUpsert 767 [4, 3] [witnessEntry]) :=
  upsert_decodes 767 [4, 3] [witnessEntry] (by decide) (by intro e _ hc; exact absurd hc (by decide))

theorem remove_decodes (ids : List Bytes) (ok : okRemove ids) : decRemove (encRemove ids) = .ok ids := by
  unfold decRemove
  have := rdRemove_rt ids [] ok
  rw [List.append_nil] at this
  rw [this]; rfl

/-- the NBT side condition is decidable: whatever one nameless tag the reference reader accepts
    exactly is self-delimiting in front of every continuation -/
theorem nbt_closed_is_wf (blob : Bytes) (h : nbtClosed blob = true) : WfNbt blob :=
  wfNbt_of_closed blob (nbtClosed_spec blob h)

/-! ### non-vacuity: the domains are inhabited, the NBT hypothesis is satisfiable -/

example : okHandshake 767 ⟨767, asc "localhost", 25565, 2⟩ := by decide
example : okLoginStart ⟨asc "Notch", some ⟨1700000000000, [1, 2, 3], [4, 5], List.replicate 16 7⟩, nilUUID⟩ := by decide
example : okEncryptionRequest 4 ⟨[], [1, 2, 3], [4, 5, 6, 7], false⟩ := by decide
example : okEncryptionResponse 759 ⟨[1], [2], some 5⟩ := by decide
example : okLoginSuccess ⟨List.replicate 16 1, asc "Notch", [⟨asc "textures", asc "e30=", []⟩], List.replicate 16 2⟩ := by
  decide
example : okLoginPluginMessage ⟨1, asc "velocity:player_info", [1]⟩ := by decide
example : okLoginPluginResponse ⟨1, false, []⟩ := by decide
example : okPluginMessage 767 false ⟨asc "MC|Brand", asc "gate"⟩ := by decide
example : okPluginMessage 4 true ⟨asc "FML|HS", [1, 2, 3]⟩ := by decide
example : okDisconnect 767 false ⟨asc "{}", 8, [0, 1, 65]⟩ := by decide
/-- a plain-text component in NBT form (string tag) satisfies the NBT condition … -/
example : compNbtClosed 767 ⟨asc "\"A\"", 8, [0, 1, 65]⟩ := by decide
/-- … and so does the compound `{text:"A"}`; in general every string tag / text compound does -/
example : compNbtClosed 767 ⟨asc "{}", 10, [8, 0, 4, 116, 101, 120, 116, 0, 1, 65, 0]⟩ := by decide
example (s : Bytes) (h : s.length < 65536) : WfNbt (8 :: (beBytes 2 s.length ++ s)) := wfNbt_string s h
example (s : Bytes) (h : s.length < 65536) :
    WfNbt (10 :: 8 :: 0 :: 4 :: 116 :: 101 :: 120 :: 116 :: (beBytes 2 s.length ++ s ++ [0])) :=
  wfNbt_text_compound s h
example : okUpsert 767 [0, 4, 3, 5, 1, 2] [witnessEntry] := by decide
example : okRemove [List.replicate 16 9] := by decide

end Gate.C07.Props
