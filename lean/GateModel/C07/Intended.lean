import GateModel.C07.Model
import GateModel.C07.Spec
/-
C07 — "what the proxy meant to send": for each packet the projection of the Go struct onto the
vanilla-side value of the protocol era (`meantX`), and the domain `okX` on which a vanilla peer
accepts the packet at all (its own length limits / enum ranges / integer widths).  Both are
decidable, so the driver evaluates them on every harness case.
-/
namespace Gate.C07
open Gate Gate.C03 Gate.C07.Vanilla

/-! ## domains of the primitives -/

def i32 (v : Int) : Prop := -(2 ^ 31 : Nat) ≤ v ∧ v < (2 ^ 31 : Nat)
def i64 (v : Int) : Prop := -(2 ^ 63 : Nat) ≤ v ∧ v < (2 ^ 63 : Nat)
instance (v : Int) : Decidable (i32 v) := by unfold i32; infer_instance
instance (v : Int) : Decidable (i64 v) := by unfold i64; infer_instance

/-- accepted by `readUtf(max)` -/
def strOk (max : Nat) (s : Bytes) : Prop := s.length ≤ max * 3 ∧ utf16Len s ≤ max
instance (max : Nat) (s : Bytes) : Decidable (strOk max s) := by unfold strOk; infer_instance

/-- `P` holds of the value if there is one (written without `∀` so that the instance computes) -/
def optAll {α : Type} (o : Option α) (P : α → Prop) : Prop :=
  match o with
  | some a => P a
  | none => True
instance {α : Type} (o : Option α) (P : α → Prop) [DecidablePred P] : Decidable (optAll o P) :=
  match o with
  | some a => inferInstanceAs (Decidable (P a))
  | none => isTrue trivial
theorem optAll_some {α : Type} {o : Option α} {P : α → Prop} {a : α} (h : optAll o P) (e : o = some a) : P a := by
  subst e; exact h

def isUUID (u : Bytes) : Prop := u.length = 16
instance (u : Bytes) : Decidable (isUUID u) := by unfold isUUID; infer_instance

def toVProp (p : Property) : VProperty :=
  ⟨p.name, p.value, if p.signature.isEmpty then none else some p.signature⟩

def propOk (p : Property) : Prop := strOk 64 p.name ∧ strOk 32767 p.value ∧ strOk 1024 p.signature
instance (p : Property) : Decidable (propOk p) := by unfold propOk; infer_instance

def propsOk (ps : List Property) : Prop := ps.length ≤ 16 ∧ ∀ p ∈ ps, propOk p
instance (ps : List Property) : Decidable (propsOk ps) := by unfold propsOk; infer_instance

/-- one nameless NBT tag, self-delimiting in front of any continuation -/
def WfNbt (blob : Bytes) : Prop := ∀ rest, vNbt (blob ++ rest) = .ok (blob, rest)

/-- the serialisation of a component a vanilla peer of protocol `p` expects -/
def compBytes (p : Int) (c : Comp) : Bytes := if p ≥ 765 then c.nbtType :: c.nbtData else c.json

/-- decidable part of a component's well-formedness (the JSON era) -/
def compOk (p : Int) (c : Comp) : Prop := p ≥ 765 ∨ strOk 262144 c.json
instance (p : Int) (c : Comp) : Decidable (compOk p c) := by unfold compOk; infer_instance
/-- the NBT era: hypothesis about the external serialiser's output -/
def compNbtOk (p : Int) (c : Comp) : Prop := p ≥ 765 → WfNbt (c.nbtType :: c.nbtData)

/-- decidable form: the reference NBT reader accepts the blob exactly (nothing left over) -/
def nbtClosed (blob : Bytes) : Bool :=
  match vNbt blob with
  | .ok (b, []) => b == blob
  | _ => false
def compNbtClosed (p : Int) (c : Comp) : Prop := p ≥ 765 → nbtClosed (c.nbtType :: c.nbtData) = true
instance (p : Int) (c : Comp) : Decidable (compNbtClosed p c) := by unfold compNbtClosed; infer_instance

/-! ## handshake, status -/

def meantHandshake (h : Handshake) : VHandshake := ⟨h.pv, h.addr, h.port.toNat, h.next⟩
def okHandshake (p : Int) (h : Handshake) : Prop :=
  i32 h.pv ∧ strOk 255 h.addr ∧ (0 ≤ h.port ∧ h.port < 65536) ∧
  (h.next = 1 ∨ h.next = 2 ∨ (h.next = 3 ∧ p ≥ 766))
instance (p : Int) (h : Handshake) : Decidable (okHandshake p h) := by unfold okHandshake; infer_instance

/-! ## login start -/

/-- key holder if the key names one, else the explicit holder id, else none -/
def meantHolder (s : ServerLogin) : Option Bytes :=
  match s.key with
  | some k => if k.holder != nilUUID then some k.holder else if s.holder != nilUUID then some s.holder else none
  | none => if s.holder != nilUUID then some s.holder else none

def meantLoginStart (p : Int) (s : ServerLogin) : VLoginStart :=
  ⟨s.name,
   if p = 759 ∨ p = 760 then s.key.map (fun k => (k.expiry, k.pub, k.sig)) else none,
   if p ≥ 764 then some s.holder else if p ≥ 760 then meantHolder s else none⟩

def keyOk (k : PlayerKey) : Prop := i64 k.expiry ∧ k.pub.length ≤ 512 ∧ k.sig.length ≤ 4096 ∧ isUUID k.holder
instance (k : PlayerKey) : Decidable (keyOk k) := by unfold keyOk; infer_instance

def okLoginStart (s : ServerLogin) : Prop :=
  s.name ≠ [] ∧ strOk 16 s.name ∧ isUUID s.holder ∧ optAll s.key keyOk
instance (s : ServerLogin) : Decidable (okLoginStart s) := by unfold okLoginStart; infer_instance

/-! ## encryption -/

def meantEncryptionRequest (p : Int) (e : EncryptionRequest) : VEncryptionRequest :=
  ⟨e.serverId, e.pub, e.token, if p ≥ 766 then some (!e.disableAuth) else none⟩
/-- array limit of the era: signed short before 1.8, one frame after -/
def arrLim (p : Int) : Nat := if p < 47 then 32767 else anyLen
def okEncryptionRequest (p : Int) (e : EncryptionRequest) : Prop :=
  strOk 20 e.serverId ∧ e.pub.length ≤ arrLim p ∧ e.token.length ≤ arrLim p
instance (p : Int) (e : EncryptionRequest) : Decidable (okEncryptionRequest p e) := by
  unfold okEncryptionRequest; infer_instance

def meantEncryptionResponse (p : Int) (e : EncryptionResponse) : VEncryptionResponse :=
  ⟨e.secret,
   if p = 759 ∨ p = 760 then
     (match e.salt with | some s => .signed s e.token | none => .token e.token)
   else .token e.token⟩
def okEncryptionResponse (p : Int) (e : EncryptionResponse) : Prop :=
  e.secret.length ≤ arrLim p ∧ e.token.length ≤ arrLim p ∧ optAll e.salt i64
instance (p : Int) (e : EncryptionResponse) : Decidable (okEncryptionResponse p e) := by
  unfold okEncryptionResponse; infer_instance

/-! ## login success -/

def meantLoginSuccess (p : Int) (s : LoginSuccess) : VLoginSuccess :=
  ⟨s.uuid, s.name,
   if p ≥ 759 then some (s.props.map toVProp) else none,
   if p = 766 ∨ p = 767 then some true else none,
   if p ≥ 776 then some s.session else none⟩
def okLoginSuccess (s : LoginSuccess) : Prop :=
  isUUID s.uuid ∧ isUUID s.session ∧ s.name ≠ [] ∧ strOk 16 s.name ∧ propsOk s.props
instance (s : LoginSuccess) : Decidable (okLoginSuccess s) := by unfold okLoginSuccess; infer_instance

/-! ## login plugin message / response -/

def meantLoginPluginMessage (m : LoginPluginMessage) : VLoginPluginRequest := ⟨m.id, m.channel, m.data⟩
def okLoginPluginMessage (m : LoginPluginMessage) : Prop :=
  i32 m.id ∧ strOk 32767 m.channel ∧ validIdentifier m.channel = true ∧ m.data.length ≤ maxPayload
instance (m : LoginPluginMessage) : Decidable (okLoginPluginMessage m) := by
  unfold okLoginPluginMessage; infer_instance

def meantLoginPluginResponse (r : LoginPluginResponse) : VLoginPluginResponse :=
  ⟨r.id, if r.success then some r.data else none⟩
/-- an unsuccessful answer carries no data (a vanilla server rejects trailing bytes) -/
def okLoginPluginResponse (r : LoginPluginResponse) : Prop :=
  i32 r.id ∧ r.data.length ≤ maxPayload ∧ (r.success = false → r.data = [])
instance (r : LoginPluginResponse) : Decidable (okLoginPluginResponse r) := by
  unfold okLoginPluginResponse; infer_instance

/-! ## disconnect, keep-alive, transfer -/

def meantDisconnect (p : Int) (login : Bool) (c : Comp) : Bytes := if login then c.json else compBytes p c
def okDisconnect (p : Int) (login : Bool) (c : Comp) : Prop :=
  if login then strOk 262144 c.json else compOk p c
instance (p : Int) (login : Bool) (c : Comp) : Decidable (okDisconnect p login c) := by
  unfold okDisconnect; infer_instance

def okKeepAlive (p : Int) (id : Int) : Prop := if p ≥ 340 then i64 id else i32 id
instance (p : Int) (id : Int) : Decidable (okKeepAlive p id) := by unfold okKeepAlive; infer_instance

def meantTransfer (t : Transfer) : VTransfer := ⟨t.host, t.port⟩
def okTransfer (t : Transfer) : Prop := strOk 32767 t.host ∧ i32 t.port
instance (t : Transfer) : Decidable (okTransfer t) := by unfold okTransfer; infer_instance

/-! ## plugin message -/

def meantPluginMessage (p : Int) (m : PluginMessage) : VPluginMessage :=
  ⟨if p ≥ 393 then legacyToModern m.channel else m.channel, m.data⟩

def isAscii (s : Bytes) : Prop := ∀ b ∈ s, b.toNat < 128
instance (s : Bytes) : Decidable (isAscii s) := by unfold isAscii; infer_instance

/-- 1.13+: an ASCII name; a name that already has a colon is sent as is and must be an identifier.
    before: a String(20).  Data within the direction's limit (and Forge's limit for 1.7). -/
def okPluginMessage (p : Int) (serverbound : Bool) (m : PluginMessage) : Prop :=
  (if p ≥ 393 then isAscii m.channel ∧ m.channel.length ≤ 32000 ∧
        (m.channel.contains 58 = true → validIdentifier m.channel = true)
   else strOk 20 m.channel) ∧
  (if p ≥ 47 then m.data.length ≤ (if serverbound then 32767 else maxPayload)
   else m.data.length ≤ forgeMaxArrayLength)
instance (p : Int) (sb : Bool) (m : PluginMessage) : Decidable (okPluginMessage p sb m) := by
  unfold okPluginMessage; infer_instance

/-! ## player info -/

def toVSession (s : ChatSession) : VSession := ⟨s.id, s.expiry, s.pub, s.sig⟩
def sessionOk (s : ChatSession) : Prop := isUUID s.id ∧ i64 s.expiry ∧ s.pub.length ≤ 512 ∧ s.sig.length ≤ 4096
instance (s : ChatSession) : Decidable (sessionOk s) := by unfold sessionOk; infer_instance

/-- the fields of the entry that the action set selects -/
def meantEntry (p : Int) (acts : List Action) (e : Entry) : VEntry :=
  ⟨e.id,
   if acts.contains 0 then some (e.name, e.props.map toVProp) else none,
   if acts.contains 1 then some (e.chat.map toVSession) else none,
   if acts.contains 2 then some e.gameMode else none,
   if acts.contains 3 then some e.listed else none,
   if acts.contains 4 then some e.latency else none,
   if acts.contains 5 then some (e.display.map (compBytes p)) else none,
   if acts.contains 6 then some e.listOrder else none,
   if acts.contains 7 then some e.hat else none⟩

/-- the action set as a set (ascending ordinals, no duplicates) and the selected fields per entry -/
def meantUpsert (p : Int) (acts : List Action) (es : List Entry) : VUpsert :=
  ⟨(List.range 8).filter (fun i => acts.contains i), es.map (meantEntry p acts)⟩

/-- only the fields that are sent are constrained -/
def entryOk (p : Int) (acts : List Action) (e : Entry) : Prop :=
  isUUID e.id ∧
  (acts.contains 0 = true → strOk 16 e.name ∧ propsOk e.props) ∧
  (acts.contains 1 = true → optAll e.chat sessionOk) ∧
  (acts.contains 2 = true → i32 e.gameMode) ∧
  (acts.contains 4 = true → i32 e.latency) ∧
  (acts.contains 5 = true → optAll e.display (compOk p)) ∧
  (acts.contains 6 = true → i32 e.listOrder)
instance (p : Int) (acts : List Action) (e : Entry) : Decidable (entryOk p acts e) := by
  unfold entryOk; infer_instance

/-- decidable form of `entryNbtOk` -/
def entryNbtClosed (p : Int) (acts : List Action) (e : Entry) : Prop :=
  acts.contains 5 = true → optAll e.display (compNbtClosed p)
instance (p : Int) (acts : List Action) (e : Entry) : Decidable (entryNbtClosed p acts e) := by
  unfold entryNbtClosed; infer_instance

def entryNbtOk (p : Int) (acts : List Action) (e : Entry) : Prop :=
  acts.contains 5 = true → ∀ c, e.display = some c → compNbtOk p c

/-- every action exists in the viewer's protocol; any order, duplicates allowed -/
def okUpsert (p : Int) (acts : List Action) (es : List Entry) : Prop :=
  (∀ a ∈ acts, a < nActions p) ∧ es.length < 2 ^ 31 ∧ ∀ e ∈ es, entryOk p acts e
instance (p : Int) (acts : List Action) (es : List Entry) : Decidable (okUpsert p acts es) := by
  unfold okUpsert; infer_instance

def okRemove (ids : List Bytes) : Prop := ids.length < 2 ^ 31 ∧ ∀ u ∈ ids, isUUID u
instance (ids : List Bytes) : Decidable (okRemove ids) := by unfold okRemove; infer_instance

end Gate.C07
