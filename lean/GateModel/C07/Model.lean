import GateModel.C03.Model
import GateModel.Gen.C07
/-
C07 — model of the `Encode` methods of the packets the proxy builds itself
(pkg/edition/java/proto/packet/{handshake,login,status,keep_alive,disconnect,transfer}.go,
packet/plugin/{message,util}.go, packet/tablist/playerinfo/{upsert,remove}.go,
packet/chat/{session,component_holder}.go, proxy/crypto.WritePlayerKey, util.WriteBinaryTag).

Every `encX` mirrors the Go `Encode` of the same packet: same field order, same protocol-era
branches (the era thresholds are the regenerated `version.Minecraft_*` numbers), same narrowing
conversions, same error exits (`none`).  The primitive writers are the C03 model.
Values: Go `int`/`int64` are `Int`, strings and byte slices are `Bytes`, UUIDs are 16 `Bytes`.
External serialisers (encoding/json, nbtconv) are parameters: a chat component is carried as the
two serialisations the Go code would produce for it (`json`, `nbtType`/`nbtData`).
-/
namespace Gate.C07
open Gate Gate.C03

/-! ## protocol eras: regenerated from version.go on every run -/
namespace V
def v1_7_6  : Int := Gate.Gen.C07.versionsV.Minecraft_1_7_6
def v1_8    : Int := Gate.Gen.C07.versionsV.Minecraft_1_8
def v1_12_2 : Int := Gate.Gen.C07.versionsV.Minecraft_1_12_2
def v1_13   : Int := Gate.Gen.C07.versionsV.Minecraft_1_13
def v1_16   : Int := Gate.Gen.C07.versionsV.Minecraft_1_16
def v1_19   : Int := Gate.Gen.C07.versionsV.Minecraft_1_19
def v1_19_1 : Int := Gate.Gen.C07.versionsV.Minecraft_1_19_1
def v1_19_3 : Int := Gate.Gen.C07.versionsV.Minecraft_1_19_3
def v1_20_2 : Int := Gate.Gen.C07.versionsV.Minecraft_1_20_2
def v1_20_3 : Int := Gate.Gen.C07.versionsV.Minecraft_1_20_3
def v1_20_5 : Int := Gate.Gen.C07.versionsV.Minecraft_1_20_5
def v1_21   : Int := Gate.Gen.C07.versionsV.Minecraft_1_21
def v26_2   : Int := Gate.Gen.C07.versionsV.Minecraft_26_2
end V

/-- ASCII bytes of a string literal (all literals used here are ASCII) -/
def asc (s : String) : Bytes := s.toList.map (fun c => UInt8.ofNat c.toNat)

def nilUUID : Bytes := List.replicate 16 0

/-! ## handshake -/

structure Handshake where
  pv : Int
  addr : Bytes
  port : Int
  next : Int
  deriving Repr

/-- `Handshake.Encode`: VarInt, String, `int16(h.Port)` as 2 bytes, VarInt — every version. -/
def encHandshake (h : Handshake) : Bytes :=
  writeVarInt h.pv ++ writeBytes h.addr ++ writeInt 2 h.port ++ writeVarInt h.next

/-! ## status -/

def encStatusRequest : Bytes := []
def encStatusResponse (status : Bytes) : Bytes := writeBytes status
def encStatusPing (id : Int) : Bytes := writeInt 8 id

/-! ## login start -/

/-- `crypto.IdentifiedKey` as far as the encoders look at it -/
structure PlayerKey where
  expiry : Int          -- ExpiryTemporal().UnixMilli()
  pub : Bytes           -- SignedPublicKeyBytes()
  sig : Bytes           -- Signature()
  holder : Bytes        -- SignatureHolder(), 16 bytes, all zero = uuid.Nil
  deriving Repr

/-- `crypto.WritePlayerKey` -/
def writePlayerKey (k : PlayerKey) : Bytes :=
  writeInt 8 k.expiry ++ writeBytes k.pub ++ writeBytes k.sig

structure ServerLogin where
  name : Bytes
  key : Option PlayerKey
  holder : Bytes        -- HolderID
  deriving Repr

def keyHolderSet (k : Option PlayerKey) : Bool :=
  match k with
  | some k => k.holder != nilUUID
  | none => false

/-- the UUID `ServerLogin.Encode` writes in the 1.19.1–1.20.1 era (`none` = "false" flag) -/
def loginHolder (s : ServerLogin) : Option Bytes :=
  if keyHolderSet s.key then (match s.key with | some k => some k.holder | none => none)
  else if s.holder != nilUUID then some s.holder
  else none

/-- `WriteBool(key != nil)` + `WritePlayerKey` -/
def encOptKey (k : Option PlayerKey) : Bytes :=
  match k with
  | some k => writeBool true ++ writePlayerKey k
  | none => writeBool false

/-- `WriteBool(ok)` + `WriteUUID(id)` -/
def encOptUUID (u : Option Bytes) : Bytes :=
  match u with
  | some id => writeBool true ++ writeUUID id
  | none => writeBool false

def encServerLogin (p : Int) (s : ServerLogin) : Option Bytes :=
  if s.name.isEmpty then none else
  some (writeBytes s.name ++
    (if p ≥ V.v1_19 then
      (if p < V.v1_19_3 then encOptKey s.key else []) ++
      (if p ≥ V.v1_20_2 then writeUUID s.holder
       else if p ≥ V.v1_19_1 then encOptUUID (loginHolder s)
       else [])
     else []))

/-! ## encryption -/

structure EncryptionRequest where
  serverId : Bytes
  pub : Bytes
  token : Bytes
  disableAuth : Bool
  deriving Repr

def encEncryptionRequest (p : Int) (e : EncryptionRequest) : Option Bytes :=
  if p ≥ V.v1_8 then
    some (writeBytes e.serverId ++ writeBytes e.pub ++ writeBytes e.token ++
      (if p ≥ V.v1_20_5 then writeBool (!e.disableAuth) else []))
  else if !writeBytes17Ok false e.pub then none
  else if !writeBytes17Ok false e.token then none
  else some (writeBytes e.serverId ++ writeBytes17 e.pub ++ writeBytes17 e.token)

structure EncryptionResponse where
  secret : Bytes
  token : Bytes
  salt : Option Int
  deriving Repr

def encEncryptionResponse (p : Int) (e : EncryptionResponse) : Option Bytes :=
  if p ≥ V.v1_8 then
    some (writeBytes e.secret ++
      (if p ≥ V.v1_19 ∧ p < V.v1_19_3 then
        (match e.salt with
         | none => writeBool true          -- "yes, write true if no salt"
         | some s => writeBool false ++ writeInt 8 s)
       else []) ++
      writeBytes e.token)
  else if !writeBytes17Ok false e.secret then none
  else if !writeBytes17Ok false e.token then none
  else some (writeBytes17 e.secret ++ writeBytes17 e.token)

/-! ## login success -/

def hexDigit (n : Nat) : UInt8 := if n < 10 then UInt8.ofNat (48 + n) else UInt8.ofNat (87 + n)

/-- `hex.EncodeToString` -/
def hexBytes : Bytes → Bytes
  | [] => []
  | b :: r => hexDigit (b.toNat / 16) :: hexDigit (b.toNat % 16) :: hexBytes r

/-- `UUID.Undashed()` -/
def uuidUndashed (u : Bytes) : Bytes := hexBytes u
/-- `UUID.String()`: 8-4-4-4-12 -/
def uuidString (u : Bytes) : Bytes :=
  hexBytes (u.take 4) ++ [45] ++ hexBytes ((u.drop 4).take 2) ++ [45] ++ hexBytes ((u.drop 6).take 2) ++ [45] ++
    hexBytes ((u.drop 8).take 2) ++ [45] ++ hexBytes (u.drop 10)

structure LoginSuccess where
  uuid : Bytes
  name : Bytes
  props : List Property
  session : Bytes
  deriving Repr

def encLoginSuccess (p : Int) (s : LoginSuccess) : Option Bytes :=
  if s.name.isEmpty then none else
  some (
    (if p ≥ V.v1_19 then writeUUID s.uuid
     else if p ≥ V.v1_16 then writeUUID s.uuid
     else if p ≥ V.v1_7_6 then writeBytes (uuidString s.uuid)
     else writeBytes (uuidUndashed s.uuid)) ++
    writeBytes s.name ++
    (if p ≥ V.v1_19 then writeProperties s.props else []) ++
    (if p = V.v1_20_5 ∨ p = V.v1_21 then writeBool true else []) ++
    (if p ≥ V.v26_2 then writeUUID s.session else []))

/-! ## set compression, login plugin message / response -/

def encSetCompression (threshold : Int) : Bytes := writeVarInt threshold

structure LoginPluginMessage where
  id : Int
  channel : Bytes
  data : Bytes
  deriving Repr

def encLoginPluginMessage (m : LoginPluginMessage) : Bytes :=
  writeVarInt m.id ++ writeBytes m.channel ++ m.data

structure LoginPluginResponse where
  id : Int
  success : Bool
  data : Bytes
  deriving Repr

def encLoginPluginResponse (r : LoginPluginResponse) : Bytes :=
  writeVarInt r.id ++ writeBool r.success ++ r.data

/-! ## chat components (external serialisers are parameters) -/

/-- what `ComponentHolder.AsJson()` / `AsBinaryTag()` return for the component -/
structure Comp where
  json : Bytes
  nbtType : UInt8
  nbtData : Bytes
  deriving Repr

/-- `util.WriteBinaryTag` -/
def writeBinaryTag (p : Int) (c : Comp) : Bytes :=
  [c.nbtType] ++ (if p < V.v1_20_2 then [0, 0] else []) ++ c.nbtData

/-- `ComponentHolder.Write` -/
def writeComp (p : Int) (c : Comp) : Bytes :=
  if p ≥ V.v1_20_3 then writeBinaryTag p c else writeBytes c.json

/-- `Disconnect.Encode`; `login` = (`c.PacketID == 0 && c.Direction == ClientBound`) -/
def encDisconnect (p : Int) (login : Bool) (reason : Option Comp) : Option Bytes :=
  match reason with
  | none => none
  | some c => some (writeComp (if login then V.v1_20_2 else p) c)

/-! ## keep-alive, transfer -/

def encKeepAlive (p : Int) (id : Int) : Bytes :=
  if p ≥ V.v1_12_2 then writeInt 8 id
  else if p ≥ V.v1_8 then writeVarInt id
  else writeInt 4 id

structure Transfer where
  host : Bytes
  port : Int
  deriving Repr

def encTransfer (t : Transfer) : Bytes := writeBytes t.host ++ writeVarInt t.port

/-! ## plugin message -/

def isLower (b : UInt8) : Bool := 97 ≤ b && b ≤ 122
def isDigit (b : UInt8) : Bool := 48 ≤ b && b ≤ 57
/-- `strings.ToLower` on ASCII -/
def asciiLower (b : UInt8) : UInt8 := if 65 ≤ b && b ≤ 90 then b + 32 else b

/-- bytes the regular expression `[^a-z0-9\-_]*` leaves in place (repaired source) -/
def keepIdent (b : UInt8) : Bool := isLower b || isDigit b || b == 45 || b == 95
/-- the pre-fix expression was the raw string `[^a-z0-9\\-_]*`: a literal backslash followed by
    the range `\`..`_`, so it kept `\ ] ^ _` and deleted `-` -/
def keepIdentDefective (b : UInt8) : Bool := isLower b || isDigit b || (92 ≤ b && b ≤ 95)

def registerLegacy : Bytes := asc Gate.Gen.C07.registerChannelLegacy
def registerModern : Bytes := asc Gate.Gen.C07.registerChannel
def unregisterLegacy : Bytes := asc Gate.Gen.C07.unregisterChannelLegacy
def unregisterModern : Bytes := asc Gate.Gen.C07.unregisterChannel
def brandLegacy : Bytes := asc Gate.Gen.C07.brandChannelLegacy
def brandModern : Bytes := asc Gate.Gen.C07.brandChannel

/-- `plugin.TransformLegacyToModernChannel` on ASCII names, parameterised by the regex's keep-set -/
def transformChannelWith (keep : UInt8 → Bool) (name : Bytes) : Bytes :=
  if name.contains 58 then name
  else if name = registerLegacy then registerModern
  else if name = unregisterLegacy then unregisterModern
  else if name = brandLegacy then brandModern
  else if name = asc "BungeeCord" then asc "bungeecord:main"
  else asc "legacy:" ++ (name.map asciiLower).filter keep

def transformChannel : Bytes → Bytes := transformChannelWith keepIdent
def transformChannelDefective : Bytes → Bytes := transformChannelWith keepIdentDefective

structure PluginMessage where
  channel : Bytes
  data : Bytes
  deriving Repr

def encPluginMessageWith (tr : Bytes → Bytes) (p : Int) (m : PluginMessage) : Option Bytes :=
  let ch := if p ≥ V.v1_13 then writeBytes (tr m.channel) else writeBytes m.channel
  if p ≥ V.v1_8 then some (ch ++ m.data)
  else if writeBytes17Ok true m.data then some (ch ++ writeBytes17 m.data) else none

def encPluginMessage : Int → PluginMessage → Option Bytes := encPluginMessageWith transformChannel
def encPluginMessageDefective : Int → PluginMessage → Option Bytes := encPluginMessageWith transformChannelDefective

/-! ### one packet object encoded several times (broadcast to connections of mixed versions)

`Encode` has a pointer receiver; the state that matters is the `Channel` field of the object.
`encPluginStep` is the source as it is: the transform is applied to the written copy only, the
object is left unchanged.  `encPluginStepRewriting` is the variant that stores the transformed
name back into `p.Channel` on a ≥1.13 encode. -/

def encPluginStep (m : PluginMessage) (p : Int) : PluginMessage × Option Bytes :=
  (m, encPluginMessage p m)

def encPluginStepRewriting (m : PluginMessage) (p : Int) : PluginMessage × Option Bytes :=
  let m' : PluginMessage := if p ≥ V.v1_13 then ⟨transformChannel m.channel, m.data⟩ else m
  (m', encPluginMessage p m')

/-- outputs of encoding the same object for the protocols `ps`, in that order -/
def encHistory (step : PluginMessage → Int → PluginMessage × Option Bytes) :
    PluginMessage → List Int → List (Option Bytes)
  | _, [] => []
  | m, p :: ps => let r := step m p; r.2 :: encHistory step r.1 ps

/-! ## player info -/

/-- `chat.RemoteChatSession` -/
structure ChatSession where
  id : Bytes
  expiry : Int
  pub : Bytes
  sig : Bytes
  deriving Repr, DecidableEq

structure Entry where
  id : Bytes
  name : Bytes
  props : List Property
  listed : Bool
  latency : Int
  gameMode : Int
  display : Option Comp
  hat : Bool
  listOrder : Int
  chat : Option ChatSession
  deriving Repr

/-- index of an action in `playerinfo.UpsertActions`:
    0 add, 1 initChat, 2 gameMode, 3 listed, 4 latency, 5 displayName, 6 listOrder, 7 hat -/
abbrev Action := Nat

/-- `UpsertActions`, as indices -/
def upsertActions : List Action := [0, 1, 2, 3, 4, 5, 6, 7]

/-- `action.Encode(c, wr, entry)` for each of the eight actions -/
def encAction (p : Int) (e : Entry) : Action → Bytes
  | 0 => writeBytes e.name ++ writeProperties e.props
  | 1 => (match e.chat with
          | some s => writeBool true ++ writeUUID s.id ++ writePlayerKey ⟨s.expiry, s.pub, s.sig, []⟩
          | none => writeBool false)
  | 2 => writeVarInt e.gameMode
  | 3 => writeBool e.listed
  | 4 => writeVarInt e.latency
  | 5 => (match e.display with
          | some c => writeBool true ++ writeComp p c
          | none => writeBool false)
  | 6 => writeVarInt e.listOrder
  | 7 => writeBool e.hat
  | _ => []

/-- `mathutil.NewBitSet(8)` + `SetBool(i, ContainsAction(ActionSet, UpsertActions[i]))`: one byte -/
def actionBits (acts : List Action) : UInt8 :=
  UInt8.ofNat ((upsertActions.map (fun i => if acts.contains i then 2 ^ i else 0)).sum)

/-- repaired `Upsert.Encode`: per entry, the data of the actions contained in `ActionSet`,
    in the order of `UpsertActions` (the order of the bits) -/
def encEntry (p : Int) (acts : List Action) (e : Entry) : Bytes :=
  writeUUID e.id ++ ((upsertActions.filter (fun a => acts.contains a)).map (encAction p e)).flatten

def encUpsert (p : Int) (acts : List Action) (es : List Entry) : Bytes :=
  [actionBits acts] ++ writeVarInt es.length ++ (es.map (encEntry p acts)).flatten

/-- pre-fix `Upsert.Encode`: per entry, the data in the order of `u.ActionSet` (API order,
    duplicates written twice) -/
def encEntryDefective (p : Int) (acts : List Action) (e : Entry) : Bytes :=
  writeUUID e.id ++ (acts.map (encAction p e)).flatten

def encUpsertDefective (p : Int) (acts : List Action) (es : List Entry) : Bytes :=
  [actionBits acts] ++ writeVarInt es.length ++ (es.map (encEntryDefective p acts)).flatten

/-- `Remove.Encode` -/
def encRemove (ids : List Bytes) : Bytes := writeVarInt ids.length ++ (ids.map writeUUID).flatten

end Gate.C07
