import GateModel.C03.Model
/-
C07 — the reference: an independent decoder for the *vanilla* wire format of the packets the proxy
builds itself.  Written from the vanilla protocol documentation (wiki.vg "Protocol" and its
per-version history pages; Notchian `FriendlyByteBuf` / FML `ByteBufUtils` for the 1.7 arrays),
NOT from gate's `Encode`/`Decode`: every layout below names the protocol numbers at which the
vanilla format changed as literals, each decoder is the vanilla *receiving* side (length limits,
enum ranges, identifier validation, "packet larger than expected") and returns a vanilla-side value.
Only the byte-level primitives (VarInt, big-endian integers, `readFull`) are shared with C03.

The single exception is the 26.2 (protocol 776) login-success session id, which is newer than the
transcriber's documentation and is taken from the design notes.
-/
namespace Gate.C07.Vanilla
open Gate Gate.C03

/-- sequencing of reads -/
def seq {α β : Type} (r : Rd α) (f : α → Bytes → Rd β) : Rd β :=
  match r with
  | .ok (a, rest) => f a rest
  | .error e => .error e

/-- a packet decoder must consume the whole payload ("Packet was larger than I expected") -/
def complete {α : Type} (r : Rd α) : Except Err α :=
  match r with
  | .ok (a, []) => .ok a
  | .ok (_, _ :: _) => .error .other
  | .error e => .error e

/-! ## primitives of `FriendlyByteBuf` -/

def vVarInt : Bytes → Rd Int := readVarInt
def vBool (bs : Bytes) : Rd Bool := seq (readByte bs) fun b r => .ok (b != 0, r)
def vUShort : Bytes → Rd Nat := readUint 2
def vInt : Bytes → Rd Int := readInt 4
def vLong : Bytes → Rd Int := readInt 8
def vUUID : Bytes → Rd Bytes := readFull 16

/-- number of UTF-16 code units of a (valid) UTF-8 byte string: one per non-continuation byte,
    two for a 4-byte sequence -/
def utf16Len (s : Bytes) : Nat :=
  (s.filter (fun b => b.toNat / 64 != 2)).length + (s.filter (fun b => b.toNat ≥ 240)).length

/-- `readUtf(max)`: VarInt byte length, at most `3·max` bytes, at most `max` UTF-16 units -/
def vString (max : Nat) (bs : Bytes) : Rd Bytes :=
  seq (vVarInt bs) fun len r =>
    if len < 0 then .error .negative
    else if len > max * 3 then .error .tooLong
    else seq (readFull len.toNat r) fun s r' =>
      if utf16Len s > max then .error .tooLong else .ok (s, r')

/-- `readByteArray(max)` -/
def vByteArray (max : Nat) (bs : Bytes) : Rd Bytes :=
  seq (vVarInt bs) fun len r =>
    if len < 0 then .error .negative
    else if len > max then .error .tooLong
    else readFull len.toNat r

/-- frame cap: an unbounded `readByteArray()` can never exceed one frame -/
def anyLen : Nat := 2097151

/-- the rest of the packet, at most `max` bytes (`readBytes(readableBytes())` with a size check) -/
def vRest (max : Nat) (bs : Bytes) : Rd Bytes :=
  if bs.length > max then .error .tooLong else .ok (bs, [])

def vOptional {α : Type} (rd : Bytes → Rd α) (bs : Bytes) : Rd (Option α) :=
  seq (vBool bs) fun has r =>
    if has then seq (rd r) fun v r' => .ok (some v, r') else .ok (none, r)

/-- 1.7 `readBlob`: signed short length (negative rejected), then the bytes -/
def vShortArray (bs : Bytes) : Rd Bytes :=
  seq (vUShort bs) fun len r =>
    if len ≥ 32768 then .error .negative else readFull len r

/-- FML `ByteBufUtils.readVarShort`: unsigned short; if bit 15 is set (for an unsigned short:
    the value is ≥ 0x8000), it is cleared and one more byte holds bits 15..22 -/
def vVarShort (bs : Bytes) : Rd Nat :=
  seq (vUShort bs) fun low r =>
    if low ≥ 32768 then
      seq (readByte r) fun high r' => .ok (high.toNat * 32768 + (low - 32768), r')
    else .ok (low, r)

/-- 1.7 custom payload body as read by a Forge-aware peer -/
def vVarShortArray (bs : Bytes) : Rd Bytes :=
  seq (vVarShort bs) fun len r => readFull len r

/-! ## identifiers (`ResourceLocation`) -/

def isLower (b : UInt8) : Bool := 97 ≤ b && b ≤ 122
def isDigit (b : UInt8) : Bool := 48 ≤ b && b ≤ 57
/-- `[a-z0-9_.-]` -/
def nsChar (b : UInt8) : Bool := isLower b || isDigit b || b == 95 || b == 46 || b == 45
/-- `[a-z0-9/._-]` -/
def pathChar (b : UInt8) : Bool := nsChar b || b == 47

/-- bytes before / after the first `:` -/
def splitFirstColon : Bytes → Option (Bytes × Bytes)
  | [] => none
  | b :: r =>
    if b = 58 then some ([], r)
    else match splitFirstColon r with
      | none => none
      | some (a, c) => some (b :: a, c)

/-- `ResourceLocation.isValid`: an empty namespace means `minecraft` -/
def validIdentifier (s : Bytes) : Bool :=
  match splitFirstColon s with
  | none => s.all pathChar
  | some (ns, path) => ns.all nsChar && path.all pathChar

def vIdentifier (bs : Bytes) : Rd Bytes :=
  seq (vString 32767 bs) fun s r => if validIdentifier s then .ok (s, r) else .error .invalid

/-! ## game-profile properties -/

structure VProperty where
  name : Bytes
  value : Bytes
  sig : Option Bytes
  deriving DecidableEq, Repr

def vProperty (bs : Bytes) : Rd VProperty :=
  seq (vString 64 bs) fun n r =>
  seq (vString 32767 r) fun v r =>
  seq (vOptional (vString 1024) r) fun s r => .ok (⟨n, v, s⟩, r)

/-- at most 16 properties -/
def vProperties (bs : Bytes) : Rd (List VProperty) :=
  seq (vVarInt bs) fun n r =>
    if n < 0 then .error .negative
    else if n > 16 then .error .tooLong
    else readN vProperty n.toNat r

/-! ## NBT (network form, nameless root) — structure only: where does the tag end? -/

inductive NbtMode where
  | payload (t : UInt8)
  | list (t : UInt8) (n : Nat)
  | compound

def skipBytes (n : Nat) (bs : Bytes) : Option Bytes :=
  if n ≤ bs.length then some (bs.drop n) else none

/-- signed 32-bit big-endian length followed by `len · width` bytes -/
def skipArray (width : Nat) (bs : Bytes) : Option Bytes :=
  match readInt 4 bs with
  | .ok (len, r) => if len < 0 then none else skipBytes (len.toNat * width) r
  | .error _ => none

/-- unsigned 16-bit length followed by that many bytes (modified UTF-8 string) -/
def skipUtf (bs : Bytes) : Option Bytes :=
  match readUint 2 bs with
  | .ok (len, r) => skipBytes len r
  | .error _ => none

/-- remaining input after one payload / list tail / compound body -/
def nbtSkip : Nat → NbtMode → Bytes → Option Bytes
  | 0, _, _ => none
  | f + 1, .payload t, bs =>
    if t = 1 then skipBytes 1 bs
    else if t = 2 then skipBytes 2 bs
    else if t = 3 then skipBytes 4 bs
    else if t = 4 then skipBytes 8 bs
    else if t = 5 then skipBytes 4 bs
    else if t = 6 then skipBytes 8 bs
    else if t = 7 then skipArray 1 bs
    else if t = 8 then skipUtf bs
    else if t = 9 then
      (match bs with
       | [] => none
       | et :: r =>
         match readInt 4 r with
         | .ok (cnt, r') =>
           if cnt ≤ 0 then some r'
           else if et = 0 then none
           else nbtSkip f (.list et cnt.toNat) r'
         | .error _ => none)
    else if t = 10 then nbtSkip f .compound bs
    else if t = 11 then skipArray 4 bs
    else if t = 12 then skipArray 8 bs
    else none
  | _ + 1, .list _ 0, bs => some bs
  | f + 1, .list t (n + 1), bs =>
    (match nbtSkip f (.payload t) bs with
     | some r => nbtSkip f (.list t n) r
     | none => none)
  | _ + 1, .compound, [] => none
  | f + 1, .compound, t :: r =>
    if t = 0 then some r
    else match skipUtf r with
      | none => none
      | some r1 => match nbtSkip f (.payload t) r1 with
        | some r2 => nbtSkip f .compound r2
        | none => none

/-- one nameless tag (type byte + payload); `TAG_End` is not a component. Returns its bytes. -/
def vNbt (bs : Bytes) : Rd Bytes :=
  match bs with
  | [] => .error .eof
  | t :: r =>
    if t = 0 then .error .invalid
    else match nbtSkip (2 * r.length + 7 + 1) (.payload t) r with
      | some rest => .ok (bs.take (bs.length - rest.length), rest)
      | none => .error .invalid

/-- a text component: JSON text in a String(262144) before 1.20.3 (765), NBT from then on -/
def vComponent (p : Int) (bs : Bytes) : Rd Bytes :=
  if p ≥ 765 then vNbt bs else vString 262144 bs

/-! ## handshake, status -/

structure VHandshake where
  pv : Int
  addr : Bytes
  port : Nat
  next : Int
  deriving DecidableEq, Repr

/-- every version: VarInt, String(255), Unsigned Short, VarInt enum 1 status / 2 login / 3 transfer (1.20.5+) -/
def rdHandshake (p : Int) (bs : Bytes) : Rd VHandshake :=
  seq (vVarInt bs) fun pv r =>
  seq (vString 255 r) fun addr r =>
  seq (vUShort r) fun port r =>
  seq (vVarInt r) fun next r =>
    if next = 1 ∨ next = 2 ∨ (next = 3 ∧ p ≥ 766) then .ok (⟨pv, addr, port, next⟩, r) else .error .invalid

def decHandshake (p : Int) (bs : Bytes) : Except Err VHandshake := complete (rdHandshake p bs)

def decStatusRequest (bs : Bytes) : Except Err Unit := complete (.ok ((), bs))
def decStatusResponse (bs : Bytes) : Except Err Bytes := complete (vString 32767 bs)
def decStatusPing (bs : Bytes) : Except Err Int := complete (vLong bs)

/-! ## login start -/

structure VLoginStart where
  name : Bytes
  key : Option (Int × Bytes × Bytes)     -- 1.19–1.19.2: expiry, public key, signature
  uuid : Option Bytes                    -- 1.19.1+: optional until 1.20.1, mandatory from 1.20.2
  deriving DecidableEq, Repr

def vProfileKey (bs : Bytes) : Rd (Int × Bytes × Bytes) :=
  seq (vLong bs) fun ts r =>
  seq (vByteArray 512 r) fun pk r =>
  seq (vByteArray 4096 r) fun sg r => .ok ((ts, pk, sg), r)

/--  ≤758: name · 759: name, opt key · 760: name, opt key, opt uuid · 761–763: name, opt uuid ·
     ≥764: name, uuid -/
def rdLoginStart (p : Int) (bs : Bytes) : Rd VLoginStart :=
  seq (vString 16 bs) fun name r =>
    if p < 759 then .ok (⟨name, none, none⟩, r)
    else if p = 759 then seq (vOptional vProfileKey r) fun k r => .ok (⟨name, k, none⟩, r)
    else if p = 760 then
      seq (vOptional vProfileKey r) fun k r =>
      seq (vOptional vUUID r) fun u r => .ok (⟨name, k, u⟩, r)
    else if p < 764 then seq (vOptional vUUID r) fun u r => .ok (⟨name, none, u⟩, r)
    else seq (vUUID r) fun u r => .ok (⟨name, none, some u⟩, r)

def decLoginStart (p : Int) (bs : Bytes) : Except Err VLoginStart := complete (rdLoginStart p bs)

/-! ## encryption request / response -/

structure VEncryptionRequest where
  serverId : Bytes
  pub : Bytes
  token : Bytes
  shouldAuth : Option Bool               -- 1.20.5+
  deriving DecidableEq, Repr

/-- 1.7 (<47): String(20), short-prefixed arrays · 1.8+: VarInt-prefixed arrays · 766+: Boolean -/
def rdEncryptionRequest (p : Int) (bs : Bytes) : Rd VEncryptionRequest :=
  seq (vString 20 bs) fun sid r =>
    if p < 47 then
      seq (vShortArray r) fun pk r =>
      seq (vShortArray r) fun tk r => .ok (⟨sid, pk, tk, none⟩, r)
    else
      seq (vByteArray anyLen r) fun pk r =>
      seq (vByteArray anyLen r) fun tk r =>
        if p ≥ 766 then seq (vBool r) fun a r => .ok (⟨sid, pk, tk, some a⟩, r)
        else .ok (⟨sid, pk, tk, none⟩, r)

def decEncryptionRequest (p : Int) (bs : Bytes) : Except Err VEncryptionRequest :=
  complete (rdEncryptionRequest p bs)

/-- 1.19–1.19.2 carry either a verify token or a (salt, signature) pair -/
inductive VProof where
  | token (t : Bytes)
  | signed (salt : Int) (sig : Bytes)
  deriving DecidableEq, Repr

structure VEncryptionResponse where
  secret : Bytes
  proof : VProof
  deriving DecidableEq, Repr

def rdEncryptionResponse (p : Int) (bs : Bytes) : Rd VEncryptionResponse :=
  if p < 47 then
    seq (vShortArray bs) fun s r =>
    seq (vShortArray r) fun t r => .ok (⟨s, .token t⟩, r)
  else
    seq (vByteArray anyLen bs) fun s r =>
      if p = 759 ∨ p = 760 then
        seq (vBool r) fun hasToken r =>
          if hasToken then seq (vByteArray anyLen r) fun t r => .ok (⟨s, .token t⟩, r)
          else seq (vLong r) fun salt r =>
               seq (vByteArray anyLen r) fun sg r => .ok (⟨s, .signed salt sg⟩, r)
      else seq (vByteArray anyLen r) fun t r => .ok (⟨s, .token t⟩, r)

def decEncryptionResponse (p : Int) (bs : Bytes) : Except Err VEncryptionResponse :=
  complete (rdEncryptionResponse p bs)

/-! ## login success -/

def hexVal (c : UInt8) : Option Nat :=
  if 48 ≤ c ∧ c ≤ 57 then some (c.toNat - 48)
  else if 97 ≤ c ∧ c ≤ 102 then some (c.toNat - 87)
  else if 65 ≤ c ∧ c ≤ 70 then some (c.toNat - 55)
  else none

/-- pairs of hex digits to bytes -/
def unhex : Bytes → Option Bytes
  | [] => some []
  | a :: b :: r =>
    match hexVal a, hexVal b, unhex r with
    | some x, some y, some t => some (UInt8.ofNat (x * 16 + y) :: t)
    | _, _, _ => none
  | _ => none

/-- `UUID.fromString`: 8-4-4-4-12 hex digits separated by `-` -/
def parseDashedUUID (s : Bytes) : Option Bytes :=
  if s.length = 36 ∧ s.getD 8 0 = 45 ∧ s.getD 13 0 = 45 ∧ s.getD 18 0 = 45 ∧ s.getD 23 0 = 45 then
    unhex (s.take 8 ++ (s.drop 9).take 4 ++ (s.drop 14).take 4 ++ (s.drop 19).take 4 ++ s.drop 24)
  else none

/-- 1.7.2: 32 hex digits -/
def parseUndashedUUID (s : Bytes) : Option Bytes :=
  if s.length = 32 then unhex s else none

structure VLoginSuccess where
  uuid : Bytes
  name : Bytes
  props : Option (List VProperty)        -- 1.19+
  strict : Option Bool                   -- 1.20.5–1.21.1 only
  session : Option Bytes                 -- 26.2+
  deriving DecidableEq, Repr

def rdUuidEra (p : Int) (bs : Bytes) : Rd Bytes :=
  if p ≥ 735 then vUUID bs
  else if p ≥ 5 then
    seq (vString 36 bs) fun s r =>
      match parseDashedUUID s with | some u => .ok (u, r) | none => .error .invalid
  else
    seq (vString 32 bs) fun s r =>
      match parseUndashedUUID s with | some u => .ok (u, r) | none => .error .invalid

/-- 4: undashed UUID string · 5–734: dashed UUID string · 735+: 16 bytes · 759+: properties ·
    766/767: strict-error-handling Boolean · 776+: session id -/
def rdLoginSuccess (p : Int) (bs : Bytes) : Rd VLoginSuccess :=
  seq (rdUuidEra p bs) fun u r =>
  seq (vString 16 r) fun name r =>
  seq (if p ≥ 759 then seq (vProperties r) fun ps r' => .ok (some ps, r') else .ok (none, r)) fun props r =>
  seq (if p = 766 ∨ p = 767 then seq (vBool r) fun b r' => .ok (some b, r') else .ok (none, r)) fun strict r =>
  seq (if p ≥ 776 then seq (vUUID r) fun s r' => .ok (some s, r') else .ok (none, r)) fun session r =>
    .ok (⟨u, name, props, strict, session⟩, r)

def decLoginSuccess (p : Int) (bs : Bytes) : Except Err VLoginSuccess := complete (rdLoginSuccess p bs)

/-! ## set compression, login plugin request / response -/

def decSetCompression (bs : Bytes) : Except Err Int := complete (vVarInt bs)

structure VLoginPluginRequest where
  id : Int
  channel : Bytes
  data : Bytes
  deriving DecidableEq, Repr

def maxPayload : Nat := 1048576

/-- 1.13+: VarInt message id, Identifier, rest of packet (≤ 1 MiB) -/
def decLoginPluginRequest (bs : Bytes) : Except Err VLoginPluginRequest :=
  complete (
    seq (vVarInt bs) fun id r =>
    seq (vIdentifier r) fun ch r =>
    seq (vRest maxPayload r) fun d r => .ok (⟨id, ch, d⟩, r))

structure VLoginPluginResponse where
  id : Int
  data : Option Bytes
  deriving DecidableEq, Repr

/-- VarInt message id, Boolean "successful", the rest of the packet only if successful -/
def decLoginPluginResponse (bs : Bytes) : Except Err VLoginPluginResponse :=
  complete (
    seq (vVarInt bs) fun id r =>
    seq (vOptional (vRest maxPayload) r) fun d r => .ok (⟨id, d⟩, r))

/-! ## disconnect, keep-alive, transfer -/

/-- login state: always a JSON String(262144); configuration/play: a text component of the era -/
def decDisconnect (p : Int) (login : Bool) (bs : Bytes) : Except Err Bytes :=
  complete (if login then vString 262144 bs else vComponent p bs)

/-- ≤46 Int · 47–339 VarInt · 340+ Long -/
def decKeepAlive (p : Int) (bs : Bytes) : Except Err Int :=
  complete (if p ≥ 340 then vLong bs else if p ≥ 47 then vVarInt bs else vInt bs)

structure VTransfer where
  host : Bytes
  port : Int
  deriving DecidableEq, Repr

def decTransfer (bs : Bytes) : Except Err VTransfer :=
  complete (seq (vString 32767 bs) fun h r => seq (vVarInt r) fun port r => .ok (⟨h, port⟩, r))

/-! ## plugin message -/

structure VPluginMessage where
  channel : Bytes
  data : Bytes
  deriving DecidableEq, Repr

/-- ≤46: String(20), (var)short-prefixed data · 47–392: String(20), rest · 393+: Identifier, rest.
    The rest is limited to 32767 bytes serverbound and 1 MiB clientbound. -/
def decPluginMessage (p : Int) (serverbound : Bool) (bs : Bytes) : Except Err VPluginMessage :=
  let lim := if serverbound then 32767 else maxPayload
  complete (
    if p ≥ 393 then
      seq (vIdentifier bs) fun ch r => seq (vRest lim r) fun d r => .ok (⟨ch, d⟩, r)
    else if p ≥ 47 then
      seq (vString 20 bs) fun ch r => seq (vRest lim r) fun d r => .ok (⟨ch, d⟩, r)
    else
      seq (vString 20 bs) fun ch r => seq (vVarShortArray r) fun d r => .ok (⟨ch, d⟩, r))

/-- Velocity/BungeeCord's mapping of pre-1.13 channel names to identifiers (ASCII names):
    names with a colon are passed on; the three vanilla channels and `BungeeCord` are renamed;
    anything else becomes `legacy:` + the lowercased name without characters outside `[a-z0-9_-]`. -/
def legacyToModern (name : Bytes) : Bytes :=
  let lit (s : String) : Bytes := s.toList.map (fun c => UInt8.ofNat c.toNat)
  if name.contains 58 then name
  else if name = lit "REGISTER" then lit "minecraft:register"
  else if name = lit "UNREGISTER" then lit "minecraft:unregister"
  else if name = lit "MC|Brand" then lit "minecraft:brand"
  else if name = lit "BungeeCord" then lit "bungeecord:main"
  else lit "legacy:" ++
    (name.map (fun b => if 65 ≤ b && b ≤ 90 then b + 32 else b)).filter
      (fun b => isLower b || isDigit b || b == 45 || b == 95)

/-! ## player info update / remove (1.19.3+, protocol 761+) -/

structure VSession where
  id : Bytes
  expiry : Int
  pub : Bytes
  sig : Bytes
  deriving DecidableEq, Repr

structure VEntry where
  id : Bytes
  add : Option (Bytes × List VProperty)      -- ADD_PLAYER: name, properties
  chat : Option (Option VSession)            -- INITIALIZE_CHAT
  gameMode : Option Int                      -- UPDATE_GAME_MODE
  listed : Option Bool                       -- UPDATE_LISTED
  latency : Option Int                       -- UPDATE_LATENCY
  display : Option (Option Bytes)            -- UPDATE_DISPLAY_NAME
  listOrder : Option Int                     -- UPDATE_LIST_ORDER (1.21.2+)
  hat : Option Bool                          -- UPDATE_HAT (1.21.4+)
  deriving DecidableEq, Repr

structure VUpsert where
  actions : List Nat                         -- ordinals of the actions in the EnumSet, ascending
  entries : List VEntry
  deriving DecidableEq, Repr

/-- size of the `Action` enum: 6 until 1.21.1, 7 from 1.21.2 (768), 8 from 1.21.4 (769) -/
def nActions (p : Int) : Nat := if p ≥ 769 then 8 else if p ≥ 768 then 7 else 6

def testBit (b : UInt8) (i : Nat) : Bool := b.toNat / 2 ^ i % 2 == 1

/-- read the action's data only if the action is in the set -/
def vWhen {α : Type} (c : Bool) (rd : Bytes → Rd α) (bs : Bytes) : Rd (Option α) :=
  if c then seq (rd bs) fun v r => .ok (some v, r) else .ok (none, bs)

def vAddPlayer (bs : Bytes) : Rd (Bytes × List VProperty) :=
  seq (vString 16 bs) fun n r => seq (vProperties r) fun ps r => .ok ((n, ps), r)

def vSession (bs : Bytes) : Rd VSession :=
  seq (vUUID bs) fun id r =>
  seq (vProfileKey r) fun k r => .ok (⟨id, k.1, k.2.1, k.2.2⟩, r)

/-- one entry: UUID, then the data of every action of the set **in enum order** -/
def rdEntry (p : Int) (has : Nat → Bool) (bs : Bytes) : Rd VEntry :=
  seq (vUUID bs) fun id r =>
  seq (vWhen (has 0) vAddPlayer r) fun a0 r =>
  seq (vWhen (has 1) (vOptional vSession) r) fun a1 r =>
  seq (vWhen (has 2) vVarInt r) fun a2 r =>
  seq (vWhen (has 3) vBool r) fun a3 r =>
  seq (vWhen (has 4) vVarInt r) fun a4 r =>
  seq (vWhen (has 5) (vOptional (vComponent p)) r) fun a5 r =>
  seq (vWhen (has 6) vVarInt r) fun a6 r =>
  seq (vWhen (has 7) vBool r) fun a7 r =>
    .ok (⟨id, a0, a1, a2, a3, a4, a5, a6, a7⟩, r)

/-- `readEnumSet` (a fixed bit set of `nActions p` bits = one byte; bits beyond the enum are
    ignored), VarInt count, entries -/
def rdUpsert (p : Int) (bs : Bytes) : Rd VUpsert :=
  seq (readByte bs) fun b r =>
    let has : Nat → Bool := fun i => decide (i < nActions p) && testBit b i
    seq (vVarInt r) fun n r =>
      if n < 0 then .error .negative
      else seq (readN (rdEntry p has) n.toNat r) fun es r =>
        .ok (⟨(List.range 8).filter has, es⟩, r)

def decUpsert (p : Int) (bs : Bytes) : Except Err VUpsert := complete (rdUpsert p bs)

def decRemove (bs : Bytes) : Except Err (List Bytes) :=
  complete (
    seq (vVarInt bs) fun n r =>
      if n < 0 then .error .negative else readN vUUID n.toNat r)

end Gate.C07.Vanilla
