import GateModel.Base.Bytes
/-
C09 reference: the Minecraft/Java digest `new BigInteger(digest).toString(16)`.

`BigInteger(byte[])` reads the array as a big-endian two's-complement integer;
`toString(16)` prints an optional minus sign followed by the magnitude in lowercase hex without
leading zeros (`"0"` for zero).  `Nat.toDigits 16` is core Lean's positional printer (lowercase).
-/
namespace Gate.C09
open Gate

/-- value of a big-endian two's-complement byte string (Java `new BigInteger(byte[])`) -/
def signedOfBytesBE (d : Bytes) : Int :=
  match d with
  | [] => 0
  | b :: _ => if b.toNat ≥ 128 then (beNat d : Int) - (256 ^ d.length : Nat) else (beNat d : Int)

/-- Java `BigInteger.toString(16)` -/
def javaHexChars (i : Int) : List Char :=
  if i < 0 then '-' :: Nat.toDigits 16 i.natAbs else Nat.toDigits 16 i.natAbs

def javaHex (i : Int) : String := String.ofList (javaHexChars i)

end Gate.C09
