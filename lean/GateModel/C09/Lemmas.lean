import GateModel.C09.Model
import GateModel.C09.Spec
/-
C09 helper lemmas: little-endian value of the carry loop, hex digits vs `Nat.toDigits 16`.
-/
namespace Gate.C09
open Gate Gate.Hash

/-! ### byte-string values -/

/-- least-significant-byte-first value -/
def leNat : Bytes → Nat
  | [] => 0
  | b :: r => b.toNat + 256 * leNat r

theorem leNat_lt (l : Bytes) : leNat l < 256 ^ l.length := by
  induction l with
  | nil => simp [leNat]
  | cons b r ih =>
    have hb := b.toNat_lt
    simp only [leNat, List.length_cons, Nat.pow_succ]
    omega

theorem beNat_foldl (acc : Nat) (l : Bytes) :
    l.foldl (fun a b => a * 256 + b.toNat) acc = acc * 256 ^ l.length + beNat l := by
  induction l generalizing acc with
  | nil => simp [beNat]
  | cons b r ih =>
    simp only [List.foldl_cons, beNat, List.length_cons]
    rw [ih, ih (0 * 256 + b.toNat)]
    simp only [beNat, Nat.pow_succ, Nat.zero_mul, Nat.zero_add]
    rw [Nat.add_mul, Nat.mul_assoc, Nat.mul_comm 256, Nat.add_assoc]

theorem beNat_cons (b : UInt8) (r : Bytes) : beNat (b :: r) = b.toNat * 256 ^ r.length + beNat r := by
  have := beNat_foldl (0 * 256 + b.toNat) r
  simpa [beNat] using this

theorem beNat_append_single (l : Bytes) (b : UInt8) : beNat (l ++ [b]) = beNat l * 256 + b.toNat := by
  simp [beNat, List.foldl_append]

theorem beNat_reverse (l : Bytes) : beNat l.reverse = leNat l := by
  induction l with
  | nil => rfl
  | cons b r ih => rw [List.reverse_cons, beNat_append_single, ih, leNat]; omega

theorem beNat_lt (l : Bytes) : beNat l < 256 ^ l.length := by
  have := leNat_lt l.reverse
  rw [← beNat_reverse, List.reverse_reverse, List.length_reverse] at this
  exact this

/-! ### the carry loop -/

theorem tcRev_length (c : Bool) (l : Bytes) : (tcRev c l).length = l.length := by
  induction l generalizing c with
  | nil => simp [tcRev]
  | cons b r ih => simp only [tcRev]; split <;> simp [ih]

theorem not_toNat (b : UInt8) : (~~~b).toNat = 255 - b.toNat := by
  rw [UInt8.toNat_not]; rfl

theorem tcRev_false (l : Bytes) : leNat (tcRev false l) = 256 ^ l.length - 1 - leNat l := by
  induction l with
  | nil => simp [tcRev, leNat]
  | cons b r ih =>
    have hb := b.toNat_lt
    have hr := leNat_lt r
    simp only [tcRev, leNat, ih, not_toNat, List.length_cons, Nat.pow_succ, Bool.false_eq_true, if_false]
    omega

theorem tcRev_true (l : Bytes) :
    leNat (tcRev true l) = (256 ^ l.length - leNat l) % 256 ^ l.length := by
  induction l with
  | nil => simp [tcRev, leNat]
  | cons b r ih =>
    have hb := b.toNat_lt
    have hr := leNat_lt r
    have hpos : 0 < 256 ^ r.length := Nat.pow_pos (by decide)
    simp only [tcRev, if_true, leNat, List.length_cons, Nat.pow_succ]
    by_cases h0 : b.toNat = 0
    · -- complemented byte is 0xff: it wraps to 0 and the carry goes on
      have hff : ((~~~b) == 0xff) = true := by
        rw [beq_iff_eq]; apply UInt8.toNat_inj.mp; rw [not_toNat, h0]; rfl
      have hz : ((~~~b) + 1).toNat = 0 := by
        rw [UInt8.toNat_add, not_toNat, h0]; rfl
      rw [hff, ih, hz, h0]
      have : 256 ^ r.length * 256 - (0 + 256 * leNat r) = 256 * (256 ^ r.length - leNat r) := by
        rw [Nat.mul_sub, Nat.mul_comm]; omega
      rw [this, Nat.mul_comm (256 ^ r.length) 256, Nat.mul_mod_mul_left]
      omega
    · have hff : ((~~~b) == 0xff) = false := by
        rw [beq_eq_false_iff_ne]; intro h
        have := congrArg UInt8.toNat h
        rw [not_toNat] at this
        have h255 : (0xff : UInt8).toNat = 255 := rfl
        omega
      have hz : ((~~~b) + 1).toNat = 256 - b.toNat := by
        rw [UInt8.toNat_add, not_toNat]
        have : (1 : UInt8).toNat = 1 := rfl
        omega
      rw [hff, tcRev_false, hz]
      rw [Nat.mod_eq_of_lt (by omega)]
      omega

/-- `twosComplement` computes `2^(8n) − x (mod 2^(8n))` on the big-endian value -/
theorem twosComplement_value (d : Bytes) :
    beNat (twosComplement d) = (256 ^ d.length - beNat d) % 256 ^ d.length := by
  unfold twosComplement
  rw [beNat_reverse, tcRev_true, List.length_reverse]
  have : leNat d.reverse = beNat d := by rw [← beNat_reverse, List.reverse_reverse]
  rw [this]

theorem twosComplement_length (d : Bytes) : (twosComplement d).length = d.length := by
  simp [twosComplement, tcRev_length]

/-! ### hex digits -/

def nibbles : Bytes → List Nat
  | [] => []
  | b :: r => b.toNat / 16 :: b.toNat % 16 :: nibbles r

def ofNibs (acc : Nat) (ns : List Nat) : Nat := ns.foldl (fun a x => a * 16 + x) acc

theorem hexEncode_eq (d : Bytes) : hexEncode d = (nibbles d).map Nat.digitChar := by
  induction d with
  | nil => rfl
  | cons b r ih => simp [hexEncode, nibbles, ih]

theorem nibbles_lt (d : Bytes) : ∀ x ∈ nibbles d, x < 16 := by
  induction d with
  | nil => simp [nibbles]
  | cons b r ih =>
    have hb := b.toNat_lt
    intro x hx
    simp only [nibbles, List.mem_cons] at hx
    rcases hx with h | h | h
    · omega
    · omega
    · exact ih x h

theorem ofNibs_nibbles (acc : Nat) (d : Bytes) :
    ofNibs acc (nibbles d) = acc * 256 ^ d.length + beNat d := by
  induction d generalizing acc with
  | nil => simp [ofNibs, nibbles, beNat]
  | cons b r ih =>
    have hb := b.toNat_lt
    have : ofNibs acc (nibbles (b :: r)) = ofNibs ((acc * 16 + b.toNat / 16) * 16 + b.toNat % 16) (nibbles r) := by
      simp [ofNibs, nibbles]
    rw [this, ih, beNat_cons, List.length_cons, Nat.pow_succ]
    have e : (acc * 16 + b.toNat / 16) * 16 + b.toNat % 16 = acc * 256 + b.toNat := by omega
    rw [e, Nat.add_mul, Nat.mul_assoc, Nat.mul_comm 256, Nat.add_assoc]

theorem ofNibs_ge (acc : Nat) (ns : List Nat) : acc ≤ ofNibs acc ns := by
  induction ns generalizing acc with
  | nil => simp [ofNibs]
  | cons x r ih =>
    have := ih (acc * 16 + x)
    simp only [ofNibs, List.foldl_cons] at this ⊢
    omega

/-- printing a positive accumulator followed by more digits -/
theorem toDigits_ofNibs (acc : Nat) (ns : List Nat) (hacc : 0 < acc) (h : ∀ x ∈ ns, x < 16) :
    Nat.toDigits 16 (ofNibs acc ns) = Nat.toDigits 16 acc ++ ns.map Nat.digitChar := by
  induction ns generalizing acc with
  | nil => simp [ofNibs]
  | cons x r ih =>
    have hx : x < 16 := h x (List.mem_cons_self ..)
    have hr : ∀ y ∈ r, y < 16 := fun y hy => h y (List.mem_cons_of_mem _ hy)
    have step : ofNibs acc (x :: r) = ofNibs (16 * acc + x) r := by
      simp [ofNibs, Nat.mul_comm]
    rw [step, ih (16 * acc + x) (by omega) hr,
      ← Nat.toDigits_append_toDigits (by decide) hacc hx, Nat.toDigits_of_lt_base hx]
    simp

theorem digitChar_eq_zero : ∀ x, x < 16 → ((Nat.digitChar x == '0') = (x == 0)) := by decide

/-- `TrimLeft(hex, "0")` of a digit string is the positional printing of its value, or empty for 0 -/
theorem trim_digits (ns : List Nat) (h : ∀ x ∈ ns, x < 16) :
    trimLeft0 (ns.map Nat.digitChar) =
      if ofNibs 0 ns = 0 then [] else Nat.toDigits 16 (ofNibs 0 ns) := by
  induction ns with
  | nil => simp [trimLeft0, ofNibs]
  | cons x r ih =>
    have hx : x < 16 := h x (List.mem_cons_self ..)
    have hr : ∀ y ∈ r, y < 16 := fun y hy => h y (List.mem_cons_of_mem _ hy)
    have hd := digitChar_eq_zero x hx
    by_cases h0 : x = 0
    · subst h0
      have : ofNibs 0 (0 :: r) = ofNibs 0 r := by simp [ofNibs]
      rw [this, ← ih hr]
      simp [trimLeft0]
    · have hne : (Nat.digitChar x == '0') = false := by rw [hd]; simpa using h0
      have step : ofNibs 0 (x :: r) = ofNibs x r := by simp [ofNibs]
      have hpos : 0 < ofNibs x r := Nat.lt_of_lt_of_le (by omega) (ofNibs_ge x r)
      rw [step, if_neg (by omega), toDigits_ofNibs x r (by omega) hr, Nat.toDigits_of_lt_base hx]
      simp [trimLeft0, hne]

theorem trim_hex (d : Bytes) :
    trimLeft0 (hexEncode d) = if beNat d = 0 then [] else Nat.toDigits 16 (beNat d) := by
  rw [hexEncode_eq, trim_digits _ (nibbles_lt d), ofNibs_nibbles]
  simp

/-! ### sign test -/

theorem signBit_table : ∀ n, n < 256 → (((UInt8.ofNat n) &&& 0x80) == 0x80) = decide (n ≥ 128) := by
  decide +kernel

theorem signBit_cons (b : UInt8) (r : Bytes) : signBit (b :: r) = decide (b.toNat ≥ 128) := by
  have := signBit_table b.toNat b.toNat_lt
  simpa [signBit] using this

end Gate.C09
