import GateModel.Base.Bytes
import GateModel.C09.Sha1
/-
C09 model: `authenticator.GenerateServerID` and `twosComplement`
(pkg/edition/java/auth/authenticator.go).

  hash := sha1(secret ‖ public)                      -- two h.Write calls, one h.Sum
  if hash[0] & 0x80 == 0x80 { hash = twosComplement(hash); s.WriteRune('-') }
  s.WriteString(strings.TrimLeft(hex.EncodeToString(hash), "0"))

`twosComplement` walks the slice from the LAST index to the first, complementing each byte and
adding one while the carry is alive.  The model runs the same loop on the reversed list.
-/
namespace Gate.C09
open Gate Gate.Hash

/-- the Go loop body, least significant byte first; `carry` is Go's `carry` variable -/
def tcRev : Bool → Bytes → Bytes
  | _, [] => []
  | carry, b :: r =>
    let nb := ~~~b                       -- p[i] = ^p[i]
    if carry then (nb + 1) :: tcRev (nb == 0xff) r   -- carry = p[i] == 0xff; p[i]++
    else nb :: tcRev false r

/-- `twosComplement(p)` (big endian, in place in Go; the returned slice is what is used) -/
def twosComplement (p : Bytes) : Bytes := (tcRev true p.reverse).reverse

/-- `hex.EncodeToString`: two lowercase digits per byte -/
def hexEncode : Bytes → List Char
  | [] => []
  | b :: r => Nat.digitChar (b.toNat / 16) :: Nat.digitChar (b.toNat % 16) :: hexEncode r

/-- `strings.TrimLeft(s, "0")` -/
def trimLeft0 (s : List Char) : List Char := s.dropWhile (· == '0')

/-- Go's sign test `(hash[0] & 0x80) == 0x80`.  (Go would panic on an empty slice; `sha1.Sum`
    always returns 20 bytes, the model treats the empty digest as non-negative.) -/
def signBit : Bytes → Bool
  | [] => false
  | b :: _ => (b &&& 0x80) == 0x80

/-- everything after hashing, as characters -/
def gateHexChars (hash : Bytes) : List Char :=
  if signBit hash then '-' :: trimLeft0 (hexEncode (twosComplement hash))
  else trimLeft0 (hexEncode hash)

def gateHex (hash : Bytes) : String := String.ofList (gateHexChars hash)

/-- `GenerateServerID(secret)` of an authenticator whose DER public key is `pub` -/
def serverID (secret pub : Bytes) : String := gateHex (sha1 (secret ++ pub))

end Gate.C09
