import GateModel.C09.Lemmas
import GateModel.Gen.C09
/-
C09 — the server id sent to the session server equals Java's signed SHA-1 hex digest.

Property theorems only.  `gateHex` is the model of what `GenerateServerID` does after hashing,
`javaHex ∘ signedOfBytesBE` is `new BigInteger(digest).toString(16)`.

  * `twos_complement_correct` : the carry loop computes `2^(8n) − x` on the big-endian value, any length;
  * `serverid_eq`             : for EVERY non-empty digest (all 2^160 twenty-byte values included) whose
                                integer value is not 0, gate's string is Java's string — sign bit,
                                leading zero nibbles, carries across all bytes;
  * `serverid_eq_sha1`        : the same through the hash, for every secret and every public key;
  * `zero_digest_differs`     : the single excluded point: the all-zero digest prints `""` in gate and
                                `"0"` in Java.  Reaching it needs a SHA-1 preimage of 0, so it is noted,
                                not reported (DESIGN §11 row 22);
  * `source_shape`            : the regenerated call sequence of `GenerateServerID` is the one modelled.
-/
namespace Gate.C09.Props
open Gate Gate.Hash Gate.C09

/-- `twosComplement(p)` is `2^(8·len) − p` modulo `2^(8·len)` and keeps the length -/
theorem twos_complement_correct (d : Bytes) :
    beNat (twosComplement d) = (256 ^ d.length - beNat d) % 256 ^ d.length
    ∧ (twosComplement d).length = d.length :=
  ⟨twosComplement_value d, twosComplement_length d⟩

/-- full strength over digests: every non-empty byte string with non-zero signed value -/
theorem serverid_eq (d : Bytes) (hne : d ≠ []) (hnz : signedOfBytesBE d ≠ 0) :
    gateHex d = javaHex (signedOfBytesBE d) := by
  unfold gateHex javaHex
  congr 1
  match d, hne with
  | b :: r, _ =>
    have hlt := beNat_lt (b :: r)
    have hcons := beNat_cons b r
    have hpos : 0 < 256 ^ r.length := Nat.pow_pos (by decide)
    have hlen : 256 ^ (b :: r).length = 256 ^ r.length * 256 := by simp [Nat.pow_succ]
    unfold gateHexChars javaHexChars
    rw [signBit_cons]
    by_cases hs : b.toNat ≥ 128
    · -- negative digest
      have hsigned : signedOfBytesBE (b :: r) = (beNat (b :: r) : Int) - (256 ^ (b :: r).length : Nat) := by
        simp [signedOfBytesBE, hs]
      have hge : 128 * 256 ^ r.length ≤ beNat (b :: r) := by
        rw [hcons]
        have := Nat.mul_le_mul_right (256 ^ r.length) hs
        omega
      have hneg : signedOfBytesBE (b :: r) < 0 := by rw [hsigned]; omega
      have habs : (signedOfBytesBE (b :: r)).natAbs = 256 ^ (b :: r).length - beNat (b :: r) := by
        rw [hsigned]; omega
      rw [if_pos (by simpa using hs), if_pos hneg, habs, trim_hex, twosComplement_value,
        Nat.mod_eq_of_lt (by omega), if_neg (by omega)]
    · -- non-negative digest
      have hsigned : signedOfBytesBE (b :: r) = (beNat (b :: r) : Int) := by
        simp [signedOfBytesBE, hs]
      have hnn : ¬ signedOfBytesBE (b :: r) < 0 := by rw [hsigned]; omega
      have hnz' : beNat (b :: r) ≠ 0 := by
        intro h; apply hnz; rw [hsigned, h]; rfl
      have habs : (signedOfBytesBE (b :: r)).natAbs = beNat (b :: r) := by
        rw [hsigned]; omega
      rw [if_neg (by simpa using hs), if_neg hnn, habs, trim_hex, if_neg hnz']

/-- for every shared secret and every proxy public key (SHA-1 as implemented in `Sha1.lean`) -/
theorem serverid_eq_sha1 (secret pub : Bytes) (hnz : signedOfBytesBE (sha1 (secret ++ pub)) ≠ 0) :
    serverID secret pub = javaHex (signedOfBytesBE (sha1 (secret ++ pub))) := by
  apply serverid_eq _ _ hnz
  intro h
  have := sha1_length (secret ++ pub)
  rw [h] at this
  simp at this

/-- the only excluded digest: value 0.  Gate prints the empty string, Java prints "0". -/
theorem zero_digest_differs :
    gateHex (List.replicate 20 0) = "" ∧ javaHex (signedOfBytesBE (List.replicate 20 0)) = "0" := by
  constructor <;> decide +kernel

/-- a digest with value 0 is all zero bytes: nothing else is excluded by `serverid_eq` -/
theorem zero_value_only_zero_digest (d : Bytes) (h : signedOfBytesBE d = 0) : ∀ b ∈ d, b = 0 := by
  match d with
  | [] => simp
  | b :: r =>
    have hlt := beNat_lt (b :: r)
    have hpos : 0 < 256 ^ r.length := Nat.pow_pos (by decide)
    have hlen : 256 ^ (b :: r).length = 256 ^ r.length * 256 := by simp [Nat.pow_succ]
    have hz : beNat (b :: r) = 0 := by
      simp only [signedOfBytesBE] at h
      rw [hlen] at hlt
      by_cases hs : b.toNat ≥ 128
      · rw [if_pos hs, hlen] at h; omega
      · rw [if_neg hs] at h; omega
    -- value 0 forces every byte to be 0
    have all0 : ∀ (l : Bytes), beNat l = 0 → ∀ x ∈ l, x = 0 := by
      intro l
      induction l with
      | nil => simp
      | cons c t ih =>
        intro hl x hx
        rw [beNat_cons] at hl
        have hp : 0 < 256 ^ t.length := Nat.pow_pos (by decide)
        have hc : c.toNat = 0 := by
          rcases Nat.eq_zero_or_pos c.toNat with h0 | h0
          · exact h0
          · have := Nat.mul_pos h0 hp; omega
        rw [hc] at hl
        rcases List.mem_cons.mp hx with rfl | hx
        · exact UInt8.toNat_inj.mp hc
        · exact ih (by omega) x hx
    exact all0 _ hz

/-- regenerated from authenticator.go on every run: hash = SHA-1 over two writes, then
    twosComplement / '-' / hex / TrimLeft in this order -/
theorem source_shape :
    (Gate.Gen.C09.generateServerIDCalls.filter
        (fun c => !(c == "return" || c == "fmt.Errorf" || c == "{" || c == "}"))) =
      ["sha1.New", "h.Write", "h.Write", "h.Sum", "twosComplement", "s.WriteRune",
       "hex.EncodeToString", "strings.TrimLeft", "s.WriteString", "s.String"] := by
  decide

/-! ### non-vacuity: the published Minecraft test vectors (wiki.vg), one positive, one negative,
    one with a leading zero nibble; and the hypotheses of `serverid_eq` are satisfiable -/
example : serverID "Notch".toUTF8.toList [] = "4ed1f46bbe04bc756bcb17c0c7ce3e4632f06a48" := by decide +kernel
example : serverID "jeb_".toUTF8.toList [] = "-7c9d5b0044c130109a5d7b5fb5c317c02b4e28c1" := by decide +kernel
example : serverID "simon".toUTF8.toList [] = "88e16a1019277b15d58faf0541e11910eb756f6" := by decide +kernel
example : signedOfBytesBE (sha1 ("jeb_".toUTF8.toList ++ [])) ≠ 0 := by decide +kernel
example : gateHex [0xff, 0x00] = "-100" ∧ javaHex (signedOfBytesBE [0xff, 0x00]) = "-100" := by
  constructor <;> decide +kernel
example : gateHex [0x80, 0x00, 0x00] = "-800000" := by decide +kernel

end Gate.C09.Props
