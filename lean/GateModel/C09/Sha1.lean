import GateModel.Base.Bytes
/-
SHA-1 (FIPS 180-4) over byte lists, core Lean only, executable.  Shared by C09 (server id) and
C40 (Floodgate XUID → UUID).  It replaces Go's `crypto/sha1` in the models so that the
correspondence compares real digests; the theorems about formatting quantify over *all* digest
values and need only `sha1_length`.
-/
namespace Gate.Hash
open Gate

def rotl32 (x : UInt32) (n : UInt32) : UInt32 := (x <<< n) ||| (x >>> (32 - n))

/-- 4 big-endian bytes of a word -/
def be32 (w : UInt32) : Bytes :=
  [(w >>> 24).toUInt8, (w >>> 16).toUInt8, (w >>> 8).toUInt8, w.toUInt8]

/-- 4 little-endian bytes of a word -/
def le32 (w : UInt32) : Bytes :=
  [w.toUInt8, (w >>> 8).toUInt8, (w >>> 16).toUInt8, (w >>> 24).toUInt8]

def word32BE (a b c d : UInt8) : UInt32 :=
  (a.toUInt32 <<< 24) ||| (b.toUInt32 <<< 16) ||| (c.toUInt32 <<< 8) ||| d.toUInt32

def word32LE (a b c d : UInt8) : UInt32 := word32BE d c b a

/-- the 8-byte message bit length, most significant byte first -/
def lenBytesBE (bitLen : Nat) : Bytes := beBytes 8 bitLen

/-- Merkle–Damgård padding shared by MD5 and SHA-1: `0x80`, zeros up to 56 mod 64, then the 64-bit
    bit length (big-endian for SHA-1, little-endian for MD5). -/
def mdPad (bigEndianLen : Bool) (msg : Bytes) : Bytes :=
  let zeros := (55 + 64 - msg.length % 64) % 64
  let lb := lenBytesBE (8 * msg.length % 2 ^ 64)
  msg ++ [0x80] ++ List.replicate zeros 0 ++ (if bigEndianLen then lb else lb.reverse)

/-- split into 64-byte blocks (the padded message is a multiple of 64) -/
def blocks64 : Nat → Bytes → List Bytes
  | 0, _ => []
  | fuel + 1, bs => if bs.isEmpty then [] else bs.take 64 :: blocks64 fuel (bs.drop 64)

def wordsOf (mk : UInt8 → UInt8 → UInt8 → UInt8 → UInt32) : Bytes → List UInt32
  | a :: b :: c :: d :: r => mk a b c d :: wordsOf mk r
  | _ => []

structure Sha1State where
  (a b c d e : UInt32)

def sha1Init : Sha1State := ⟨0x67452301, 0xEFCDAB89, 0x98BADCFE, 0x10325476, 0xC3D2E1F0⟩

def sha1F (t : Nat) (b c d : UInt32) : UInt32 × UInt32 :=
  if t < 20 then ((b &&& c) ||| ((~~~b) &&& d), 0x5A827999)
  else if t < 40 then (b ^^^ c ^^^ d, 0x6ED9EBA1)
  else if t < 60 then ((b &&& c) ||| (b &&& d) ||| (c &&& d), 0x8F1BBCDC)
  else (b ^^^ c ^^^ d, 0xCA62C1D6)

/-- 80 rounds over a sliding 16-word window of the message schedule
    (`w[t] = rotl1 (w[t-3] ^ w[t-8] ^ w[t-14] ^ w[t-16])`). -/
def sha1Rounds : Nat → Nat → List UInt32 → Sha1State → Sha1State
  | 0, _, _, s => s
  | n + 1, t, win, s =>
    match win with
    | [] => s
    | w :: rest =>
      let nw := rotl32 (win.getD 13 0 ^^^ win.getD 8 0 ^^^ win.getD 2 0 ^^^ w) 1
      let (f, k) := sha1F t s.b s.c s.d
      let tmp := rotl32 s.a 5 + f + s.e + k + w
      sha1Rounds n (t + 1) (rest ++ [nw]) ⟨tmp, s.a, rotl32 s.b 30, s.c, s.d⟩

def sha1Block (s : Sha1State) (blk : Bytes) : Sha1State :=
  let r := sha1Rounds 80 0 (wordsOf word32BE blk) s
  ⟨s.a + r.a, s.b + r.b, s.c + r.c, s.d + r.d, s.e + r.e⟩

def sha1 (msg : Bytes) : Bytes :=
  let p := mdPad true msg
  let s := (blocks64 (p.length / 64 + 1) p).foldl sha1Block sha1Init
  be32 s.a ++ be32 s.b ++ be32 s.c ++ be32 s.d ++ be32 s.e

theorem sha1_length (msg : Bytes) : (sha1 msg).length = 20 := by
  simp [sha1, be32]

end Gate.Hash
