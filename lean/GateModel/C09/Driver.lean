import GateModel.Base.Line
import GateModel.C09.Model
import GateModel.C09.Spec
/-
C09 driver.  Case lines:
  `sid <secretHex> <pubHex>\tid=<string>`   Authenticator.GenerateServerID(secret) with DER public key pub
  `tc <hex>\t<hex>`                         twosComplement(p) (through the verif hook)
  `csid <secretHex> <pubHex>\tid=<string>`  a result returned to one of 16 goroutines calling GenerateServerID
                                            concurrently, each on its own inputs (sampled rounds, and every
                                            result that differed from the sequential one)
  `csum <workers> <rounds>\tmismatches=<n>` number of concurrent results that differed from the sequential ones
Model output: the same shape computed by the model (`serverID`, `twosComplement`).
Spec verdict on the implementation's output: `sid` must equal Java's
`new BigInteger(sha1(secret‖pub)).toString(16)`; `tc` must be `2^(8n) − x mod 2^(8n)` with the same length;
a concurrent result must be the Java digest of ITS OWN input (`serverID` is a function of secret and key only:
no call may observe another call's digest) — `viol:concurrent-digest-mismatch` otherwise.
-/
namespace Gate.C09
open Gate Gate.Hash

def step (c : Case) : String × String :=
  match c.op, c.args with
  | "sid", [s, p] =>
    match parseHex s, parseHex p with
    | some secret, some pub =>
      let want := "id=" ++ javaHex (signedOfBytesBE (sha1 (secret ++ pub)))
      ("id=" ++ serverID secret pub, if c.impl = want then "ok" else "viol:serverid-mismatch")
    | _, _ => ("bad-op", "-")
  | "csid", [s, p] =>
    match parseHex s, parseHex p with
    | some secret, some pub =>
      let want := "id=" ++ javaHex (signedOfBytesBE (sha1 (secret ++ pub)))
      ("id=" ++ serverID secret pub, if c.impl = want then "ok" else "viol:concurrent-digest-mismatch")
    | _, _ => ("bad-op", "-")
  | "csum", [_, _] =>
    ("mismatches=0", if c.impl = "mismatches=0" then "ok" else "viol:concurrent-digest-mismatch")
  | "tc", [h] =>
    match parseHex h with
    | some d =>
      let verdict := match parseHex c.impl with
        | some r => if r.length = d.length ∧ beNat r = (256 ^ d.length - beNat d) % 256 ^ d.length
                    then "ok" else "viol:twos-complement"
        | none => "viol:twos-complement"
      (toHex (twosComplement d), verdict)
    | none => ("bad-op", "-")
  | _, _ => ("bad-op", "-")

end Gate.C09

def main : IO Unit := Gate.runPureDriver Gate.C09.step
