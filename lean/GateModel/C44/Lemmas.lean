import GateModel.C44.Model
/-
C44 helper lemmas: step inversion, frame facts of `effect`, the close-body invariant (`Inv`), the
teardown-prefix invariant behind deadlock freedom, result bookkeeping.
-/
namespace Gate.C44

/-! ### generic list facts -/

theorem sum_map_set {α} (h : α → Nat) : ∀ (l : List α) (t : Nat) (x y : α), l[t]? = some x →
    ((l.set t y).map h).sum + h x = (l.map h).sum + h y
  | [], t, x, y, hx => by simp at hx
  | a :: l, 0, x, y, hx => by
      simp at hx; subst hx
      simp only [List.set_cons_zero, List.map_cons, List.sum_cons]; omega
  | a :: l, t + 1, x, y, hx => by
      simp at hx
      have := sum_map_set h l t x y hx
      simp only [List.set_cons_succ, List.map_cons, List.sum_cons]; omega

theorem sum_zero_mem {α} (h : α → Nat) : ∀ (l : List α), (l.map h).sum = 0 → ∀ a ∈ l, h a = 0
  | [], _, a, ha => by simp at ha
  | b :: l, hs, a, ha => by
      simp only [List.map_cons, List.sum_cons] at hs
      rcases List.mem_cons.1 ha with rfl | ha
      · omega
      · exact sum_zero_mem h l (by omega) a ha

theorem sum_pos_exists {α} (h : α → Nat) : ∀ (l : List α), 0 < (l.map h).sum → ∃ a ∈ l, 0 < h a
  | [], hs => by simp at hs
  | b :: l, hs => by
      simp only [List.map_cons, List.sum_cons] at hs
      by_cases hb : 0 < h b
      · exact ⟨b, List.mem_cons_self .., hb⟩
      · obtain ⟨a, ha, hp⟩ := sum_pos_exists h l (by omega)
        exact ⟨a, List.mem_cons_of_mem _ ha, hp⟩

theorem getElem?_set_ne' {α} (l : List α) {i j : Nat} (h : i ≠ j) (x : α) : (l.set i x)[j]? = l[j]? := by
  simp [List.getElem?_set, h]

theorem getElem?_set_self' {α} (l : List α) {i : Nat} {a : α} (h : l[i]? = some a) (x : α) :
    (l.set i x)[i]? = some x := by
  have hi : i < l.length := by
    rcases Nat.lt_or_ge i l.length with h' | h'
    · exact h'
    · rw [List.getElem?_eq_none h'] at h; cases h
  simp [List.getElem?_set, hi]

/-! ### step inversion, exec induction -/

theorem step_inv {r c t c'} (h : step r c t = some c') :
    ∃ act rest c1 pushed, c.crashed = false ∧ c.threads[t]? = some (act :: rest) ∧
      effect r c t act = some (c1, pushed) ∧ c' = { c1 with threads := c.threads.set t (pushed ++ rest) } := by
  unfold step at h
  split at h
  · simp at h
  · rename_i hc
    split at h
    · rename_i act rest hth
      split at h
      · rename_i c1 pushed he
        simp at h
        exact ⟨act, rest, c1, pushed, by simpa using hc, hth, he, h.symm⟩
      · simp at h
    · simp at h

theorem exec_induct (r : Bool) (P : Conn → Prop)
    (hstep : ∀ c t c', P c → step r c t = some c' → P c') :
    ∀ (sched : List Nat) (c c' : Conn), P c → exec r c sched = some c' → P c'
  | [], c, c', hp, h => by simp [exec] at h; subst h; exact hp
  | t :: ts, c, c', hp, h => by
      simp only [exec] at h
      cases hs : step r c t with
      | none => simp [hs] at h
      | some c1 =>
        simp [hs] at h
        exact exec_induct r P hstep ts c1 c' (hstep c t c1 hp hs) h

/-! ### frame facts of `effect` -/

def isBody : Act → Bool
  | .body _ _ => true
  | _ => false

/-- everything except a `body` step and the `Close` that wins the `Once` -/
def plain (c : Conn) : Act → Bool
  | .body _ _ => false
  | .api (.close _) _ => c.once != .fresh
  | _ => true

structure Frame (c c1 : Conn) : Prop where
  threads : c1.threads = c.threads
  handlers : c1.handlers = c.handlers
  canc : c.cancelled = true → c1.cancelled = true
  netc : c.netClosed = true → c1.netClosed = true

theorem effect_frame {r c t act c1 pushed} (h : effect r c t act = some (c1, pushed)) : Frame c c1 := by
  unfold effect at h
  split at h
  · -- api
    unfold effApi at h
    split at h
    · split at h <;> simp at h <;> obtain ⟨rfl, _⟩ := h <;> exact ⟨rfl, rfl, id, id⟩
    all_goals (try split at h)
    all_goals (simp at h; obtain ⟨rfl, _⟩ := h; first | exact ⟨rfl, rfl, id, id⟩ | exact ⟨rfl, rfl, fun _ => rfl, id⟩)
  · split at h <;> simp at h <;> obtain ⟨rfl, _⟩ := h <;> exact ⟨rfl, rfl, id, id⟩
  · simp at h; obtain ⟨rfl, _⟩ := h; exact ⟨rfl, rfl, id, id⟩
  · simp at h; obtain ⟨rfl, _⟩ := h; exact ⟨rfl, rfl, fun _ => rfl, id⟩
  · simp at h; obtain ⟨rfl, _⟩ := h; exact ⟨rfl, rfl, id, fun _ => rfl⟩
  · split at h <;> simp at h <;> obtain ⟨rfl, _⟩ := h <;> exact ⟨rfl, rfl, id, id⟩
  · simp at h; obtain ⟨rfl, _⟩ := h; exact ⟨rfl, rfl, id, id⟩
  · simp at h
  · split at h
    · simp at h; obtain ⟨rfl, _⟩ := h; exact ⟨rfl, rfl, id, id⟩
    · split at h
      · simp at h; obtain ⟨rfl, _⟩ := h; exact ⟨rfl, rfl, id, id⟩
      · simp at h; obtain ⟨rfl, _⟩ := h; exact ⟨rfl, rfl, id, id⟩
      · split at h <;> simp at h <;> obtain ⟨rfl, _⟩ := h <;> exact ⟨rfl, rfl, id, id⟩
  · split at h <;> simp at h <;> obtain ⟨rfl, _⟩ := h <;> exact ⟨rfl, rfl, id, id⟩

structure PlainFrame (c c1 : Conn) (pushed : List Act) : Prop where
  once : c1.once = c.once
  disc : c1.disc = c.disc
  skipped : c1.skipped = c.skipped
  nobody : ∀ a ∈ pushed, isBody a = false

theorem effect_plain {r c t act c1 pushed} (hp : plain c act = true)
    (h : effect r c t act = some (c1, pushed)) : PlainFrame c c1 pushed := by
  unfold effect at h
  split at h
  · -- api
    rename_i a rep
    unfold effApi at h
    split at h
    · rename_i k
      split at h
      · rename_i hf; simp [plain, hf] at hp
      · simp at h
      · simp at h; obtain ⟨rfl, rfl⟩ := h; exact ⟨rfl, rfl, rfl, by simp⟩
    all_goals (try split at h)
    all_goals (simp at h; obtain ⟨rfl, rfl⟩ := h; exact ⟨rfl, rfl, rfl, by simp [isBody]⟩)
  · split at h <;> simp at h <;> obtain ⟨rfl, rfl⟩ := h <;> exact ⟨rfl, rfl, rfl, by simp [isBody]⟩
  all_goals (try (simp [plain] at hp; done))
  · split at h
    · simp at h; obtain ⟨rfl, rfl⟩ := h; exact ⟨rfl, rfl, rfl, by simp [isBody]⟩
    · split at h
      · simp at h; obtain ⟨rfl, rfl⟩ := h; exact ⟨rfl, rfl, rfl, by simp [isBody]⟩
      · simp at h; obtain ⟨rfl, rfl⟩ := h; exact ⟨rfl, rfl, rfl, by simp [isBody]⟩
      · split at h
        · simp at h; obtain ⟨rfl, rfl⟩ := h
          refine ⟨rfl, rfl, rfl, ?_⟩
          intro a ha
          simp at ha
          rcases ha with ⟨x, _, rfl⟩ | ha | rfl
          · rfl
          · obtain ⟨_, rfl⟩ := ha; rfl
          · rfl
        · simp at h; obtain ⟨rfl, rfl⟩ := h; exact ⟨rfl, rfl, rfl, by simp [isBody]⟩
  · split at h <;> simp at h <;> obtain ⟨rfl, rfl⟩ := h <;> exact ⟨rfl, rfl, rfl, by simp⟩

/-! ### the close-body invariant -/

def bodyCnt (st : List Act) : Nat := (st.map (fun a => if isBody a then 1 else 0)).sum
def bodyTotalL (ths : List (List Act)) : Nat := (ths.map bodyCnt).sum

theorem bodyCnt_append (a b : List Act) : bodyCnt (a ++ b) = bodyCnt a + bodyCnt b := by simp [bodyCnt]
theorem bodyCnt_cons (a : Act) (b : List Act) : bodyCnt (a :: b) = (if isBody a then 1 else 0) + bodyCnt b := by
  simp [bodyCnt]
theorem bodyCnt_zero_of_nobody {l : List Act} (h : ∀ a ∈ l, isBody a = false) : bodyCnt l = 0 := by
  induction l with
  | nil => rfl
  | cons a l ih =>
    rw [bodyCnt_cons, ih (fun x hx => h x (List.mem_cons_of_mem _ hx)), h a (List.mem_cons_self ..)]; rfl
theorem nobody_of_bodyCnt_zero {l : List Act} (h : bodyCnt l = 0) : ∀ a ∈ l, isBody a = false := by
  intro a ha
  have := sum_zero_mem (fun a => if isBody a then 1 else 0) l h a ha
  cases hb : isBody a
  · rfl
  · simp [hb] at this

def itemOK (c : Conn) (t : Nat) : Act → Prop
  | .body pc _ => c.once = .running t ∧ pc ≤ 4 ∧ (2 ≤ pc → c.cancelled = true) ∧ (3 ≤ pc → c.netClosed = true)
      ∧ (pc ≤ 3 → c.disc = [] ∧ c.skipped = 0) ∧ (pc = 4 → c.disc.length + c.skipped = 1)
  | _ => True

def onceCnt : Once → Nat
  | .running _ => 1
  | _ => 0

structure Inv (c : Conn) : Prop where
  count : bodyTotalL c.threads = onceCnt c.once
  items : ∀ t st, c.threads[t]? = some st → ∀ a ∈ st, itemOK c t a
  fresh : c.once = .fresh → c.disc = [] ∧ c.skipped = 0
  done  : c.once = .done → c.cancelled = true ∧ c.netClosed = true ∧ c.disc.length + c.skipped = 1

theorem itemOK_nobody {c : Conn} {t : Nat} {a : Act} (h : isBody a = false) : itemOK c t a := by
  cases a <;> simp [isBody] at h <;> trivial

theorem itemOK_mono {c c' : Conn} {t a} (ho : c'.once = c.once) (hd : c'.disc = c.disc) (hs : c'.skipped = c.skipped)
    (hc : c.cancelled = true → c'.cancelled = true) (hn : c.netClosed = true → c'.netClosed = true)
    (h : itemOK c t a) : itemOK c' t a := by
  cases a with
  | body pc rep =>
    simp only [itemOK] at h ⊢
    rw [ho, hd, hs]
    exact ⟨h.1, h.2.1, fun x => hc (h.2.2.1 x), fun x => hn (h.2.2.2.1 x), h.2.2.2.2.1, h.2.2.2.2.2⟩
  | _ => trivial

/-- with `bodyTotal = 1` and a body at the head of goroutine `t`, nothing else is a body -/
theorem unique_body {c : Conn} {t : Nat} {act : Act} {rest : List Act} (hcnt : bodyTotalL c.threads = 1)
    (hth : c.threads[t]? = some (act :: rest)) (hb : isBody act = true) :
    (∀ a ∈ rest, isBody a = false) ∧
    (∀ t2 st2, t2 ≠ t → c.threads[t2]? = some st2 → ∀ a ∈ st2, isBody a = false) := by
  have h1 := sum_map_set bodyCnt c.threads t (act :: rest) [] hth
  rw [bodyCnt_cons, hb] at h1
  have hb0 : bodyCnt ([] : List Act) = 0 := rfl
  unfold bodyTotalL at hcnt
  rw [hcnt, hb0] at h1
  simp only [if_true] at h1
  have hrest : bodyCnt rest = 0 := by omega
  have hoth : ((c.threads.set t []).map bodyCnt).sum = 0 := by omega
  refine ⟨nobody_of_bodyCnt_zero hrest, ?_⟩
  intro t2 st2 hne h2 a ha
  have : (c.threads.set t [])[t2]? = some st2 := by rw [getElem?_set_ne' _ (Ne.symm hne)]; exact h2
  have hm : st2 ∈ c.threads.set t [] := List.mem_of_getElem? this
  exact nobody_of_bodyCnt_zero (sum_zero_mem bodyCnt _ hoth st2 hm) a ha

theorem exists_body {c : Conn} (h : 0 < bodyTotalL c.threads) :
    ∃ (t : Nat) (st : List Act) (a : Act), c.threads[t]? = some st ∧ a ∈ st ∧ isBody a = true := by
  obtain ⟨st, hst, hp⟩ := sum_pos_exists bodyCnt c.threads h
  obtain ⟨t, ht⟩ := List.getElem?_of_mem hst
  obtain ⟨a, ha, hpa⟩ := sum_pos_exists (fun a => if isBody a then 1 else 0) st hp
  refine ⟨t, st, a, ht, ha, ?_⟩
  cases hb : isBody a
  · simp [hb] at hpa
  · rfl

/-- membership in the stacks after a step -/
theorem mem_after {c : Conn} {t : Nat} {act : Act} {rest pushed : List Act}
    (hth : c.threads[t]? = some (act :: rest)) {t2 : Nat} {st2 : List Act}
    (h2 : (c.threads.set t (pushed ++ rest))[t2]? = some st2) :
    (t2 = t ∧ st2 = pushed ++ rest) ∨ (t2 ≠ t ∧ c.threads[t2]? = some st2) := by
  by_cases e : t2 = t
  · subst e
    rw [getElem?_set_self' _ hth] at h2
    exact Or.inl ⟨rfl, (Option.some.inj h2).symm⟩
  · rw [getElem?_set_ne' _ (Ne.symm e)] at h2
    exact Or.inr ⟨e, h2⟩

theorem bodyTotal_after {c : Conn} {t : Nat} {act : Act} {rest pushed : List Act}
    (hth : c.threads[t]? = some (act :: rest)) :
    bodyTotalL (c.threads.set t (pushed ++ rest)) + (if isBody act then 1 else 0)
      = bodyTotalL c.threads + bodyCnt pushed := by
  have := sum_map_set bodyCnt c.threads t (act :: rest) (pushed ++ rest) hth
  simp only [bodyCnt_cons, bodyCnt_append] at this
  simp only [bodyTotalL]
  omega

theorem step_inv_Inv {r c t c'} (h : step r c t = some c') (inv : Inv c) : Inv c' := by
  obtain ⟨act, rest, c1, pushed, _, hth, he, rfl⟩ := step_inv h
  have fr := effect_frame he
  have hcnt := bodyTotal_after (pushed := pushed) hth
  have hact : itemOK c t act := inv.items t _ hth act (List.mem_cons_self ..)
  have hrestOK : ∀ a ∈ rest, itemOK c t a := fun a ha => inv.items t _ hth a (List.mem_cons_of_mem _ ha)
  by_cases hp : plain c act = true
  · -- ordinary step: `once`, `disc`, `skipped` unchanged, nothing pushed is a body
    have pf := effect_plain hp he
    have hnb : isBody act = false := by
      cases act <;> simp [plain] at hp <;> rfl
    have mono : ∀ t2 a, itemOK c t2 a → itemOK { c1 with threads := c.threads.set t (pushed ++ rest) } t2 a :=
      fun t2 a ha => itemOK_mono pf.once pf.disc pf.skipped fr.canc fr.netc ha
    refine ⟨?_, ?_, ?_, ?_⟩
    · rw [hnb, bodyCnt_zero_of_nobody pf.nobody] at hcnt
      show bodyTotalL (c.threads.set t (pushed ++ rest)) = onceCnt c1.once
      rw [pf.once, ← inv.count]
      simpa using hcnt
    · intro t2 st2 h2 a ha
      rcases mem_after hth h2 with ⟨rfl, rfl⟩ | ⟨_, h2'⟩
      · rcases List.mem_append.1 ha with ha | ha
        · exact itemOK_nobody (pf.nobody a ha)
        · exact mono _ a (hrestOK a ha)
      · exact mono _ a (inv.items t2 st2 h2' a ha)
    · intro ho
      have := inv.fresh (by simpa [pf.once] using ho)
      simpa [pf.disc, pf.skipped] using this
    · intro ho
      have := inv.done (by simpa [pf.once] using ho)
      exact ⟨fr.canc this.1, fr.netc this.2.1, by simpa [pf.disc, pf.skipped] using this.2.2⟩
  · -- `body` step or the `Close` that wins the `Once`
    cases act with
    | api a rep =>
      cases a with
      | close k =>
        have hf : c.once = .fresh := by
          simp [plain] at hp; exact hp
        simp [effect, effApi, hf] at he
        obtain ⟨rfl, rfl⟩ := he
        -- before: no body anywhere (a body item would need `once = running`)
        have nob : ∀ (t2 : Nat) (st2 : List Act), c.threads[t2]? = some st2 → ∀ a ∈ st2, isBody a = false := by
          intro t2 st2 h2 a ha
          cases hb : isBody a
          · rfl
          · cases a with
            | body pc rp =>
              have := (inv.items t2 st2 h2 _ ha).1
              rw [hf] at this; cases this
            | _ => simp [isBody] at hb
        have ⟨hd0, hs0⟩ := inv.fresh hf
        refine ⟨?_, ?_, ?_, ?_⟩
        · have : bodyCnt [Act.body (if k = true then 0 else 1) rep] = 1 := by simp [bodyCnt, isBody]
          have hb : (if isBody (Act.api (Api.close k) rep) = true then 1 else 0) = 0 := rfl
          rw [this, hb] at hcnt
          have hz : bodyTotalL c.threads = 0 := by rw [inv.count, hf]; rfl
          show bodyTotalL (c.threads.set t ([Act.body (if k = true then 0 else 1) rep] ++ rest)) = 1
          omega
        · intro t2 st2 h2 a ha
          rcases mem_after hth h2 with ⟨rfl, rfl⟩ | ⟨_, h2'⟩
          · simp at ha
            rcases ha with rfl | ha
            · simp only [itemOK]
              refine ⟨trivial, by split <;> omega, ?_, ?_, fun _ => ⟨hd0, hs0⟩, ?_⟩
              · intro h2; split at h2 <;> omega
              · intro h2; split at h2 <;> omega
              · intro h2; split at h2 <;> omega
            · exact itemOK_nobody (nob t2 _ hth a (List.mem_cons_of_mem _ ha))
          · exact itemOK_nobody (nob t2 st2 h2' a ha)
        · intro ho; simp at ho
        · intro ho; simp at ho
      | _ => simp [plain] at hp
    | body pc rep =>
      simp only [itemOK] at hact
      obtain ⟨hrun, hpc, hcan, hnet, hlow, hfour⟩ := hact
      have hc1 : bodyTotalL c.threads = 1 := by rw [inv.count, hrun]; rfl
      obtain ⟨nbRest, nbOther⟩ := unique_body hc1 hth rfl
      -- all items other than the pushed ones are not bodies
      have others : ∀ (cc : Conn) (t2 : Nat) (st2 : List Act), (c.threads.set t (pushed ++ rest))[t2]? = some st2 → ∀ a ∈ st2,
          a ∉ pushed → itemOK cc t2 a := by
        intro cc t2 st2 h2 a ha hnp
        rcases mem_after hth h2 with ⟨rfl, rfl⟩ | ⟨hne, h2'⟩
        · rcases List.mem_append.1 ha with ha | ha
          · exact absurd ha hnp
          · exact itemOK_nobody (nbRest a ha)
        · exact itemOK_nobody (nbOther t2 st2 hne h2' a ha)
      have hlt : pc = 0 ∨ pc = 1 ∨ pc = 2 ∨ pc = 3 ∨ pc = 4 := by omega
      rcases hlt with rfl | rfl | rfl | rfl | rfl
      · simp [effect] at he; obtain ⟨rfl, rfl⟩ := he
        refine ⟨?_, ?_, ?_, ?_⟩
        · have hb : (if isBody (Act.body 0 rep) = true then 1 else 0) = 1 := rfl
          have : bodyCnt [Act.body 1 rep] = 1 := by simp [bodyCnt, isBody]
          rw [this, hb] at hcnt
          show bodyTotalL (c.threads.set t ([Act.body 1 rep] ++ rest)) = onceCnt c.once
          rw [hrun]; show _ = 1
          omega
        · intro t2 st2 h2 a ha
          by_cases hm : a ∈ [Act.body 1 rep]
          · simp at hm; subst hm
            rcases mem_after hth h2 with ⟨rfl, _⟩ | ⟨hne, h2'⟩
            · simp only [itemOK]
              exact ⟨hrun, by omega, by omega, by omega, fun _ => hlow (by omega), by omega⟩
            · exact absurd (nbOther t2 st2 hne h2' _ ha) (by simp [isBody])
          · exact others _ t2 st2 h2 a ha hm
        · intro ho; simp [hrun] at ho
        · intro ho; simp [hrun] at ho
      · simp [effect] at he; obtain ⟨rfl, rfl⟩ := he
        refine ⟨?_, ?_, ?_, ?_⟩
        · have hb : (if isBody (Act.body 1 rep) = true then 1 else 0) = 1 := rfl
          have : bodyCnt [Act.body 2 rep] = 1 := by simp [bodyCnt, isBody]
          rw [this, hb] at hcnt
          show bodyTotalL (c.threads.set t ([Act.body 2 rep] ++ rest)) = onceCnt c.once
          rw [hrun]; show _ = 1
          omega
        · intro t2 st2 h2 a ha
          by_cases hm : a ∈ [Act.body 2 rep]
          · simp at hm; subst hm
            rcases mem_after hth h2 with ⟨rfl, _⟩ | ⟨hne, h2'⟩
            · simp only [itemOK]
              exact ⟨hrun, by omega, by simp, by omega, fun _ => hlow (by omega), by omega⟩
            · exact absurd (nbOther t2 st2 hne h2' _ ha) (by simp [isBody])
          · exact others _ t2 st2 h2 a ha hm
        · intro ho; simp [hrun] at ho
        · intro ho; simp [hrun] at ho
      · simp [effect] at he; obtain ⟨rfl, rfl⟩ := he
        refine ⟨?_, ?_, ?_, ?_⟩
        · have hb : (if isBody (Act.body 2 rep) = true then 1 else 0) = 1 := rfl
          have : bodyCnt [Act.body 3 rep] = 1 := by simp [bodyCnt, isBody]
          rw [this, hb] at hcnt
          show bodyTotalL (c.threads.set t ([Act.body 3 rep] ++ rest)) = onceCnt c.once
          rw [hrun]; show _ = 1
          omega
        · intro t2 st2 h2 a ha
          by_cases hm : a ∈ [Act.body 3 rep]
          · simp at hm; subst hm
            rcases mem_after hth h2 with ⟨rfl, _⟩ | ⟨hne, h2'⟩
            · simp only [itemOK]
              exact ⟨hrun, by omega, fun _ => hcan (by omega), by simp, fun _ => hlow (by omega), by omega⟩
            · exact absurd (nbOther t2 st2 hne h2' _ ha) (by simp [isBody])
          · exact others _ t2 st2 h2 a ha hm
        · intro ho; simp [hrun] at ho
        · intro ho; simp [hrun] at ho
      · -- pc 3: Disconnected() (or no handler)
        have ⟨hd0, hs0⟩ := hlow (by omega)
        simp only [effect] at he
        split at he
        · rename_i hh hact
          simp at he; obtain ⟨rfl, rfl⟩ := he
          refine ⟨?_, ?_, ?_, ?_⟩
          · have : bodyCnt (List.map (fun x => Act.api x false) ((Option.map (fun x => x.onDisconnect) c.handlers[hh]?).getD [])
                ++ [Act.body 4 rep]) = 1 := by
              rw [bodyCnt_append, bodyCnt_zero_of_nobody (by intro a ha; simp at ha; obtain ⟨x, _, rfl⟩ := ha; rfl)]
              simp [bodyCnt, isBody]
            have hb : (if isBody (Act.body 3 rep) = true then 1 else 0) = 1 := rfl
            rw [this, hb] at hcnt
            show bodyTotalL (c.threads.set t (_ ++ rest)) = onceCnt c.once
            rw [hrun]; show _ = 1
            omega
          · intro t2 st2 h2 a ha
            by_cases hb : isBody a = true
            · -- the only body around is the pushed `body 4`
              rcases mem_after hth h2 with ⟨rfl, rfl⟩ | ⟨hne, h2'⟩
              · rcases List.mem_append.1 ha with ha | ha
                · simp at ha
                  rcases ha with ⟨x, _, rfl⟩ | rfl
                  · simp [isBody] at hb
                  · simp only [itemOK]
                    refine ⟨hrun, by omega, fun _ => hcan (by omega), fun _ => hnet (by omega), by omega, fun _ => ?_⟩
                    simp [hd0, hs0]
                · exact absurd (nbRest a ha) (by simp [hb])
              · exact absurd (nbOther t2 st2 hne h2' a ha) (by simp [hb])
            · exact itemOK_nobody (by simpa using hb)
          · intro ho; simp [hrun] at ho
          · intro ho; simp [hrun] at ho
        · simp at he; obtain ⟨rfl, rfl⟩ := he
          refine ⟨?_, ?_, ?_, ?_⟩
          · have hb : (if isBody (Act.body 3 rep) = true then 1 else 0) = 1 := rfl
            have : bodyCnt [Act.body 4 rep] = 1 := by simp [bodyCnt, isBody]
            rw [this, hb] at hcnt
            show bodyTotalL (c.threads.set t ([Act.body 4 rep] ++ rest)) = onceCnt c.once
            rw [hrun]; show _ = 1
            omega
          · intro t2 st2 h2 a ha
            by_cases hm : a ∈ [Act.body 4 rep]
            · simp at hm; subst hm
              rcases mem_after hth h2 with ⟨rfl, _⟩ | ⟨hne, h2'⟩
              · simp only [itemOK]
                refine ⟨hrun, by omega, fun _ => hcan (by omega), fun _ => hnet (by omega), by omega, fun _ => ?_⟩
                simp [hd0, hs0]
              · exact absurd (nbOther t2 st2 hne h2' _ ha) (by simp [isBody])
            · exact others _ t2 st2 h2 a ha hm
          · intro ho; simp [hrun] at ho
          · intro ho; simp [hrun] at ho
      · -- pc 4: the Once is marked done
        simp [effect] at he; obtain ⟨rfl, rfl⟩ := he
        refine ⟨?_, ?_, ?_, ?_⟩
        · have hb : (if isBody (Act.body 4 rep) = true then 1 else 0) = 1 := rfl
          have : bodyCnt ([] : List Act) = 0 := rfl
          rw [this, hb] at hcnt
          show bodyTotalL (c.threads.set t ([] ++ rest)) = 0
          omega
        · intro t2 st2 h2 a ha
          exact others _ t2 st2 (by simpa using h2) a ha (by simp)
        · intro ho; simp at ho
        · intro _
          exact ⟨hcan (by omega), hnet (by omega), hfour rfl⟩
    | _ => simp [plain] at hp

theorem exec_Inv {r sched c c'} (h : exec r c sched = some c') (inv : Inv c) : Inv c' :=
  exec_induct r Inv (fun _ _ _ hp hs => step_inv_Inv hs hp) sched c c' inv h

theorem inv_mkConn (handlers : List Handler) (active : Option Nat) (threads : List (List Act))
    (htop : ∀ th ∈ threads, ∀ a ∈ th, topLevel a = true) : Inv (mkConn handlers active threads) := by
  have nob : ∀ th ∈ threads, ∀ a ∈ th, isBody a = false := by
    intro th hth a ha
    have := htop th hth a ha
    cases a <;> simp [topLevel] at this <;> rfl
  refine ⟨?_, ?_, ?_, ?_⟩
  · simp only [bodyTotalL, mkConn, onceCnt]
    have : ∀ l : List (List Act), (∀ th ∈ l, ∀ a ∈ th, isBody a = false) → (l.map bodyCnt).sum = 0 := by
      intro l; induction l with
      | nil => simp
      | cons x l ih =>
        intro hl
        simp only [List.map_cons, List.sum_cons]
        rw [bodyCnt_zero_of_nobody (hl x (List.mem_cons_self ..)), ih (fun th hth => hl th (List.mem_cons_of_mem _ hth))]
    exact this threads nob
  · intro t st hst a ha
    exact itemOK_nobody (nob st (List.mem_of_getElem? hst) a ha)
  · intro _; exact ⟨rfl, rfl⟩
  · intro ho; simp [mkConn] at ho

/-! ### miscellaneous one-step facts (case analysis of `effect`) -/

/-- how `results` may change in one step -/
def ResStep (c c1 : Conn) (t : Nat) : Prop :=
  c1.results = c.results ∨ (∃ r, c1.results = c.results ++ [(t, false, r)]) ∨
    (∃ r, c1.results = c.results ++ [(t, true, r)] ∧ c1.once = .done)

structure Misc (r : Bool) (c c1 : Conn) (t : Nat) : Prop where
  doneStable : c.once = .done → c1.once = .done
  active : c.active.isSome = true → c1.active.isSome = true ∧ c1.skipped = c.skipped
  crash : r = true → c1.crashed = c.crashed
  res : ResStep c c1 t

theorem record_cases (c : Conn) (rep : Bool) (t : Nat) (b : Bool) (x : Res) :
    record c rep t b x = c.results ∨ record c rep t b x = c.results ++ [(t, b, x)] := by
  unfold record; cases rep <;> simp

theorem effect_misc {r c t act c1 pushed} (h : effect r c t act = some (c1, pushed)) : Misc r c c1 t := by
  have recF := fun x => record_cases c (by assumption) t false x
  unfold effect at h
  split at h
  · rename_i a rep
    unfold effApi at h
    split at h
    · split at h
      · rename_i hf; simp at h; obtain ⟨rfl, _⟩ := h
        exact ⟨by simp [hf], fun ha => ⟨ha, rfl⟩, fun _ => rfl, Or.inl rfl⟩
      · simp at h
      · rename_i hd; simp at h; obtain ⟨rfl, _⟩ := h
        refine ⟨fun _ => hd, fun ha => ⟨ha, rfl⟩, fun _ => rfl, ?_⟩
        rcases record_cases c rep t true .closed with e | e
        · exact Or.inl e
        · exact Or.inr (Or.inr ⟨_, e, hd⟩)
    · split at h <;> simp at h <;> obtain ⟨rfl, _⟩ := h
      · refine ⟨id, fun ha => ⟨ha, rfl⟩, fun _ => rfl, ?_⟩
        rcases record_cases c rep t false .closed with e | e
        · exact Or.inl e
        · exact Or.inr (Or.inl ⟨_, e⟩)
      · exact ⟨id, fun ha => ⟨ha, rfl⟩, fun _ => rfl, Or.inl rfl⟩
    · split at h <;> simp at h <;> obtain ⟨rfl, _⟩ := h
      · refine ⟨id, fun ha => ⟨ha, rfl⟩, fun _ => rfl, ?_⟩
        rcases record_cases c rep t false .closed with e | e
        · exact Or.inl e
        · exact Or.inr (Or.inl ⟨_, e⟩)
      · exact ⟨id, fun ha => ⟨ha, rfl⟩, fun _ => rfl, Or.inl rfl⟩
    · split at h <;> simp at h <;> obtain ⟨rfl, _⟩ := h
      · refine ⟨id, fun ha => ⟨ha, rfl⟩, fun _ => rfl, ?_⟩
        rcases record_cases c rep t false .closed with e | e
        · exact Or.inl e
        · exact Or.inr (Or.inl ⟨_, e⟩)
      · refine ⟨id, fun ha => ⟨ha, rfl⟩, fun _ => rfl, ?_⟩
        rcases record_cases c rep t false .ok with e | e
        · exact Or.inl e
        · exact Or.inr (Or.inl ⟨_, e⟩)
    · simp at h; obtain ⟨rfl, _⟩ := h
      exact ⟨id, fun ha => ⟨ha, rfl⟩, fun _ => rfl, Or.inl rfl⟩
    · simp at h; obtain ⟨rfl, _⟩ := h
      exact ⟨id, fun ha => ⟨ha, rfl⟩, fun _ => rfl, Or.inl rfl⟩
    · simp at h; obtain ⟨rfl, _⟩ := h
      exact ⟨id, fun _ => ⟨rfl, rfl⟩, fun _ => rfl, Or.inl rfl⟩
    · split at h <;> simp at h <;> obtain ⟨rfl, _⟩ := h <;>
        exact ⟨id, fun ha => ⟨ha, rfl⟩, fun _ => rfl, Or.inl rfl⟩
    · simp at h; obtain ⟨rfl, _⟩ := h
      exact ⟨id, fun ha => ⟨ha, rfl⟩, fun _ => rfl, Or.inl rfl⟩
  · rename_i rep
    split at h <;> simp at h <;> obtain ⟨rfl, _⟩ := h
    · refine ⟨id, fun ha => ⟨ha, rfl⟩, fun _ => rfl, ?_⟩
      rcases record_cases c rep t false .other with e | e
      · exact Or.inl e
      · exact Or.inr (Or.inl ⟨_, e⟩)
    · refine ⟨id, fun ha => ⟨ha, rfl⟩, fun _ => rfl, ?_⟩
      rcases record_cases c rep t false .ok with e | e
      · exact Or.inl e
      · exact Or.inr (Or.inl ⟨_, e⟩)
  · simp at h; obtain ⟨rfl, _⟩ := h; exact ⟨id, fun ha => ⟨ha, rfl⟩, fun _ => rfl, Or.inl rfl⟩
  · simp at h; obtain ⟨rfl, _⟩ := h; exact ⟨id, fun ha => ⟨ha, rfl⟩, fun _ => rfl, Or.inl rfl⟩
  · simp at h; obtain ⟨rfl, _⟩ := h; exact ⟨id, fun ha => ⟨ha, rfl⟩, fun _ => rfl, Or.inl rfl⟩
  · split at h
    · simp at h; obtain ⟨rfl, _⟩ := h; exact ⟨id, fun ha => ⟨ha, rfl⟩, fun _ => rfl, Or.inl rfl⟩
    · rename_i hn; simp at h; obtain ⟨rfl, _⟩ := h
      exact ⟨id, fun ha => by simp [hn] at ha, fun _ => rfl, Or.inl rfl⟩
  · rename_i rep
    simp at h; obtain ⟨rfl, _⟩ := h
    refine ⟨fun _ => rfl, fun ha => ⟨ha, rfl⟩, fun _ => rfl, ?_⟩
    rcases record_cases c rep t true .ok with e | e
    · exact Or.inl e
    · exact Or.inr (Or.inr ⟨_, e, rfl⟩)
  · simp at h
  · split at h
    · simp at h; obtain ⟨rfl, _⟩ := h; exact ⟨id, fun ha => ⟨ha, rfl⟩, fun _ => rfl, Or.inl rfl⟩
    · split at h
      · simp at h; obtain ⟨rfl, _⟩ := h; exact ⟨id, fun ha => ⟨ha, rfl⟩, fun _ => rfl, Or.inl rfl⟩
      · simp at h; obtain ⟨rfl, _⟩ := h; exact ⟨id, fun ha => ⟨ha, rfl⟩, fun _ => rfl, Or.inl rfl⟩
      · split at h <;> simp at h <;> obtain ⟨rfl, _⟩ := h <;>
          exact ⟨id, fun ha => ⟨ha, rfl⟩, fun _ => rfl, Or.inl rfl⟩
  · split at h
    · simp at h; obtain ⟨rfl, _⟩ := h; exact ⟨id, fun ha => ⟨ha, rfl⟩, fun _ => rfl, Or.inl rfl⟩
    · rename_i hr; simp at h; obtain ⟨rfl, _⟩ := h
      exact ⟨id, fun ha => ⟨ha, rfl⟩, fun hr' => by simp [hr'] at hr, Or.inl rfl⟩

/-- results of `Close()` calls exist only once the `Once` is done -/
def CloseRes (c : Conn) : Prop := ∀ e ∈ c.results, e.2.1 = true → c.once = .done

theorem step_closeRes {r c t c'} (h : step r c t = some c') (k : CloseRes c) : CloseRes c' := by
  obtain ⟨act, rest, c1, pushed, _, hth, he, rfl⟩ := step_inv h
  have m := effect_misc he
  intro e he' hb
  show c1.once = .done
  rcases m.res with e1 | ⟨x, e1⟩ | ⟨x, e1, hd⟩
  · exact m.doneStable (k e (by simpa [e1] using he') hb)
  · have : e ∈ c.results ++ [(t, false, x)] := by simpa [e1] using he'
    rcases List.mem_append.1 this with h1 | h1
    · exact m.doneStable (k e h1 hb)
    · simp at h1; subst h1; simp at hb
  · exact hd

/-! ### deadlock freedom: what sits in front of the pending `body` is harmless -/

def safeAct : Act → Bool
  | .api a _ => safeInTeardown a
  | _ => false

/-- the part of a stack in front of its first `body` item -/
def pre (st : List Act) : List Act := st.takeWhile (fun a => !isBody a)

theorem pre_cons_nobody {a : Act} {st : List Act} (h : isBody a = false) : pre (a :: st) = a :: pre st := by
  simp [pre, List.takeWhile, h]
theorem pre_cons_body {a : Act} {st : List Act} (h : isBody a = true) : pre (a :: st) = [] := by
  simp [pre, List.takeWhile, h]
theorem pre_append_body : ∀ (l : List Act) (b : Act) (r : List Act), (∀ x ∈ l, isBody x = false) → isBody b = true →
    pre (l ++ b :: r) = l
  | [], b, r, _, hb => pre_cons_body hb
  | a :: l, b, r, hl, hb => by
      rw [List.cons_append, pre_cons_nobody (hl a (List.mem_cons_self ..)),
        pre_append_body l b r (fun x hx => hl x (List.mem_cons_of_mem _ hx)) hb]

structure PrefOK (c : Conn) : Prop where
  safe : ∀ t st, c.once = .running t → c.threads[t]? = some st → ∀ a ∈ pre st, safeAct a = true
  canc : ∀ t st, c.once = .running t → c.threads[t]? = some st → pre st ≠ [] → c.cancelled = true

/-- once the context is cancelled, an operation that is safe in teardown pushes nothing -/
theorem safe_pushes_nothing {r c t act c1 pushed} (hs : safeAct act = true) (hc : c.cancelled = true)
    (h : effect r c t act = some (c1, pushed)) : pushed = [] := by
  cases act with
  | api a rep =>
    cases a <;> simp [safeAct, safeInTeardown] at hs <;> simp [effect, effApi, hc] at h <;> exact h.2
  | _ => simp [safeAct] at hs

theorem handlersSafe_get {hs : List Handler} (h : handlersSafe hs = true) (i : Nat) :
    ∀ a ∈ ((hs[i]?.map (·.onDisconnect)).getD []).map (Act.api · false), safeAct a = true := by
  intro a ha
  simp at ha
  obtain ⟨x, hx, rfl⟩ := ha
  cases hi : hs[i]? with
  | none => simp [hi] at hx
  | some hd =>
    simp [hi] at hx
    have hm : hd ∈ hs := List.mem_of_getElem? hi
    simp only [handlersSafe, List.all_eq_true] at h
    exact h hd hm x hx

theorem step_prefOK {r c t c'} (h : step r c t = some c') (hsafe : handlersSafe c.handlers = true)
    (inv : Inv c) (p : PrefOK c) : PrefOK c' := by
  obtain ⟨act, rest, c1, pushed, _, hth, he, rfl⟩ := step_inv h
  have fr := effect_frame he
  have hact : itemOK c t act := inv.items t _ hth act (List.mem_cons_self ..)
  by_cases hp : plain c act = true
  · have pf := effect_plain hp he
    have hnb : isBody act = false := by
      cases act <;> simp [plain] at hp <;> rfl
    -- common: where is the runner's stack after the step
    have key : ∀ (t2 : Nat) (st2 : List Act), c.once = .running t2 →
        (c.threads.set t (pushed ++ rest))[t2]? = some st2 →
        (∀ a ∈ pre st2, safeAct a = true) ∧ (pre st2 ≠ [] → c.cancelled = true) := by
      intro t2 st2 hrun h2
      rcases mem_after hth h2 with ⟨rfl, rfl⟩ | ⟨_, h2'⟩
      · have hpre : pre (act :: rest) = act :: pre rest := pre_cons_nobody hnb
        have hsa : safeAct act = true := p.safe t2 _ hrun hth act (by rw [hpre]; exact List.mem_cons_self ..)
        have hca : c.cancelled = true := p.canc t2 _ hrun hth (by rw [hpre]; simp)
        have : pushed = [] := safe_pushes_nothing hsa hca he
        subst this
        refine ⟨fun a ha => ?_, fun _ => hca⟩
        exact p.safe t2 _ hrun hth a (by rw [hpre]; exact List.mem_cons_of_mem _ (by simpa using ha))
      · exact ⟨p.safe t2 st2 hrun h2', p.canc t2 st2 hrun h2'⟩
    refine ⟨?_, ?_⟩
    · intro t2 st2 hrun h2
      exact (key t2 st2 (by simpa [pf.once] using hrun) h2).1
    · intro t2 st2 hrun h2 hne
      exact fr.canc ((key t2 st2 (by simpa [pf.once] using hrun) h2).2 hne)
  · cases act with
    | api a rep =>
      cases a with
      | close k =>
        have hf : c.once = .fresh := by simp [plain] at hp; exact hp
        simp [effect, effApi, hf] at he
        obtain ⟨rfl, rfl⟩ := he
        have hself : ∀ (t2 : Nat) (st2 : List Act), Once.running t = Once.running t2 →
            (c.threads.set t ([Act.body (if k = true then 0 else 1) rep] ++ rest))[t2]? = some st2 → pre st2 = [] := by
          intro t2 st2 hrun h2
          have : t = t2 := by cases hrun; rfl
          subst this
          rcases mem_after hth h2 with ⟨_, rfl⟩ | ⟨hne, _⟩
          · exact pre_cons_body rfl
          · exact absurd rfl hne
        refine ⟨?_, ?_⟩
        · intro t2 st2 hrun h2 a ha
          rw [hself t2 st2 hrun h2] at ha; simp at ha
        · intro t2 st2 hrun h2 hne
          exact absurd (hself t2 st2 hrun h2) hne
      | _ => simp [plain] at hp
    | body pc rep =>
      simp only [itemOK] at hact
      obtain ⟨hrun, hpc, hcan, hnet, hlow, hfour⟩ := hact
      have hlt : pc = 0 ∨ pc = 1 ∨ pc = 2 ∨ pc = 3 ∨ pc = 4 := by omega
      -- the runner stays `t` (or the Once completes)
      have single : ∀ (b : Act) (c2 : Conn), isBody b = true → c2.once = c.once →
          PrefOK { c2 with threads := c.threads.set t ([b] ++ rest) } := by
        intro b c2 hb ho
        have hself : ∀ (t2 : Nat) (st2 : List Act), c.once = Once.running t2 →
            (c.threads.set t ([b] ++ rest))[t2]? = some st2 → pre st2 = [] := by
          intro t2 st2 hr h2
          have : t = t2 := by rw [hrun] at hr; cases hr; rfl
          subst this
          rcases mem_after hth h2 with ⟨_, rfl⟩ | ⟨hne, _⟩
          · exact pre_cons_body hb
          · exact absurd rfl hne
        refine ⟨?_, ?_⟩
        · intro t2 st2 hr h2 a ha
          rw [hself t2 st2 (by simpa [ho] using hr) h2] at ha; simp at ha
        · intro t2 st2 hr h2 hne
          exact absurd (hself t2 st2 (by simpa [ho] using hr) h2) hne
      rcases hlt with rfl | rfl | rfl | rfl | rfl
      · simp [effect] at he; obtain ⟨rfl, rfl⟩ := he; exact single _ _ rfl rfl
      · simp [effect] at he; obtain ⟨rfl, rfl⟩ := he; exact single _ _ rfl rfl
      · simp [effect] at he; obtain ⟨rfl, rfl⟩ := he; exact single _ _ rfl rfl
      · simp only [effect] at he
        split at he
        · rename_i hh hactive
          simp at he; obtain ⟨rfl, rfl⟩ := he
          have hpre : ∀ (t2 : Nat) (st2 : List Act), c.once = Once.running t2 →
              (c.threads.set t ((((c.handlers[hh]?.map (·.onDisconnect)).getD []).map (Act.api · false) ++ [Act.body 4 rep]) ++ rest))[t2]? = some st2 →
              pre st2 = ((c.handlers[hh]?.map (·.onDisconnect)).getD []).map (Act.api · false) := by
            intro t2 st2 hr h2
            have : t = t2 := by rw [hrun] at hr; cases hr; rfl
            subst this
            rcases mem_after hth h2 with ⟨_, rfl⟩ | ⟨hne, _⟩
            · rw [List.append_assoc]
              exact pre_append_body _ _ _ (by intro x hx; simp at hx; obtain ⟨y, _, rfl⟩ := hx; rfl) rfl
            · exact absurd rfl hne
          refine ⟨?_, ?_⟩
          · intro t2 st2 hr h2 a ha
            rw [hpre t2 st2 hr h2] at ha
            exact handlersSafe_get hsafe hh a ha
          · intro t2 st2 hr h2 _
            exact hcan (by omega)
        · simp at he; obtain ⟨rfl, rfl⟩ := he; exact single _ _ rfl rfl
      · simp [effect] at he; obtain ⟨rfl, rfl⟩ := he
        exact ⟨fun t2 st2 hr => by simp at hr, fun t2 st2 hr => by simp at hr⟩
    | _ => simp [plain] at hp

theorem prefOK_mkConn (handlers : List Handler) (active : Option Nat) (threads : List (List Act)) :
    PrefOK (mkConn handlers active threads) :=
  ⟨fun t st hr => by simp [mkConn] at hr, fun t st hr => by simp [mkConn] at hr⟩

/-- an act that is neither a `Close` waiting on a running `Once` nor a malformed `body` is enabled -/
theorem effect_isSome (r : Bool) (c : Conn) (t : Nat) (act : Act)
    (hclose : ∀ k rep, act = .api (.close k) rep → ∀ t', c.once ≠ .running t')
    (hbody : ∀ pc rep, act = .body pc rep → pc ≤ 4) : (effect r c t act).isSome = true := by
  cases act with
  | api a rep =>
    cases a with
    | close k =>
      have := hclose k rep rfl
      simp only [effect, effApi]
      cases ho : c.once with
      | fresh => rfl
      | running t' => exact absurd ho (this t')
      | done => rfl
    | closeWith => simp only [effect, effApi]; split <;> rfl
    | writeFlush => simp only [effect, effApi]; split <;> rfl
    | buffer => simp only [effect, effApi]; split <;> rfl
    | flush => rfl
    | failNet cls => rfl
    | setHandler h => rfl
    | guardedClose => simp only [effect, effApi]; split <;> rfl
    | cancelParent => rfl
  | readLoop s =>
    simp only [effect]
    split
    · rfl
    · split
      · rfl
      · rfl
      · split <;> rfl
  | body pc rep =>
    have := hbody pc rep rfl
    have hlt : pc = 0 ∨ pc = 1 ∨ pc = 2 ∨ pc = 3 ∨ pc = 4 := by omega
    rcases hlt with rfl | rfl | rfl | rfl | rfl <;> simp only [effect]
    all_goals (first | rfl | (split <;> rfl))
  | netFlush rep => simp only [effect]; split <;> rfl
  | notePanic => simp only [effect]; split <;> rfl

theorem step_isSome_of_effect {r c t act rest} (hc : c.crashed = false) (hth : c.threads[t]? = some (act :: rest))
    (he : (effect r c t act).isSome = true) : (step r c t).isSome = true := by
  unfold step
  rw [hc, hth]
  obtain ⟨⟨c1, pushed⟩, h1⟩ := Option.isSome_iff_exists.1 he
  simp [h1]

theorem terminal_iff (c : Conn) : terminal c = true ↔ ∀ th ∈ c.threads, th = [] := by
  simp [terminal, List.all_eq_true, List.isEmpty_iff]

theorem exists_work_of_not_terminal {c : Conn} (h : terminal c = false) :
    ∃ (t : Nat) (act : Act) (rest : List Act), c.threads[t]? = some (act :: rest) := by
  have : ¬ (∀ th ∈ c.threads, th = []) := by
    intro hh; rw [(terminal_iff c).2 hh] at h; cases h
  have : ∃ th ∈ c.threads, th ≠ [] := by
    apply Classical.byContradiction
    intro hn; apply this
    intro th hth
    apply Classical.byContradiction
    intro hne; exact hn ⟨th, hth, hne⟩
  obtain ⟨th, hth, hne⟩ := this
  obtain ⟨t, ht⟩ := List.getElem?_of_mem hth
  cases th with
  | nil => exact absurd rfl hne
  | cons a r => exact ⟨t, a, r, ht⟩

theorem progress (r : Bool) (c : Conn) (inv : Inv c) (p : PrefOK c) (hc : c.crashed = false)
    (hnt : terminal c = false) : ∃ t, (step r c t).isSome = true := by
  cases ho : c.once with
  | running t' =>
    have hpos : 0 < bodyTotalL c.threads := by rw [inv.count, ho]; exact Nat.one_pos
    obtain ⟨t, st, a, hst, ha, hb⟩ := exists_body hpos
    have hrun : c.once = .running t := by
      cases a with
      | body pc rep => exact (inv.items t st hst _ ha).1
      | _ => simp [isBody] at hb
    cases st with
    | nil => simp at ha
    | cons act rest =>
      refine ⟨t, step_isSome_of_effect hc hst ?_⟩
      by_cases hba : isBody act = true
      · cases act with
        | body pc rep =>
          have := (inv.items t _ hst _ (List.mem_cons_self ..)).2.1
          exact effect_isSome r c t _ (fun _ _ e => by cases e) (fun pc' rep' e => by cases e; exact this)
        | _ => simp [isBody] at hba
      · have hnb : isBody act = false := by simpa using hba
        have hsa : safeAct act = true :=
          p.safe t _ hrun hst act (by rw [pre_cons_nobody hnb]; exact List.mem_cons_self ..)
        refine effect_isSome r c t act ?_ ?_
        · intro k rep e; subst e; simp [safeAct, safeInTeardown] at hsa
        · intro pc rep e; subst e; simp [isBody] at hnb
  | fresh =>
    obtain ⟨t, act, rest, hth⟩ := exists_work_of_not_terminal hnt
    refine ⟨t, step_isSome_of_effect hc hth (effect_isSome r c t act ?_ ?_)⟩
    · intro _ _ _ t' h'; rw [ho] at h'; cases h'
    · intro pc rep e; subst e
      have := (inv.items t _ hth _ (List.mem_cons_self ..)).1
      rw [ho] at this; cases this
  | done =>
    obtain ⟨t, act, rest, hth⟩ := exists_work_of_not_terminal hnt
    refine ⟨t, step_isSome_of_effect hc hth (effect_isSome r c t act ?_ ?_)⟩
    · intro _ _ _ t' h'; rw [ho] at h'; cases h'
    · intro pc rep e; subst e
      have := (inv.items t _ hth _ (List.mem_cons_self ..)).1
      rw [ho] at this; cases this

/-! ### a pending close trigger keeps the connection from staying open for ever -/

/-- acts that inevitably lead to a `closeOnce.Do`: `Close`/`CloseUnknown` and a read loop (whose exit runs
    `closeKnown`).  `CloseWith` and the guarded close are NOT among them: they give up when `Closed(c)` already
    reports true, which a cancelled parent context causes without any close having run. -/
def isTrigger : Act → Bool
  | .api (.close _) _ => true
  | .readLoop _ => true
  | _ => false

def hasTrigger (c : Conn) : Prop :=
  ∃ (t : Nat) (st : List Act) (a : Act), c.threads[t]? = some st ∧ a ∈ st ∧ isTrigger a = true

/-- while the `Once` is fresh the trigger is still pending -/
def TrigInv (c : Conn) : Prop := c.once = .fresh → hasTrigger c

theorem trigger_pushes_trigger {r c t act c1 pushed} (htr : isTrigger act = true) (hp : plain c act = true)
    (hf : c.once = .fresh) (h : effect r c t act = some (c1, pushed)) : ∃ a ∈ pushed, isTrigger a = true := by
  cases act with
  | api a rep =>
    cases a with
    | close k =>
      simp [plain, hf] at hp
    | _ => simp [isTrigger] at htr
  | readLoop s =>
    simp only [effect] at h
    split at h
    · simp at h; obtain ⟨_, rfl⟩ := h; exact ⟨Act.api (Api.close false) false, by simp, rfl⟩
    · split at h
      · simp at h; obtain ⟨_, rfl⟩ := h; exact ⟨Act.api (Api.close false) false, by simp, rfl⟩
      · simp at h; obtain ⟨_, rfl⟩ := h; exact ⟨Act.api (Api.close false) false, by simp, rfl⟩
      · rename_i p more
        split at h <;> simp at h <;> obtain ⟨_, rfl⟩ := h
        · exact ⟨Act.readLoop more, by simp, rfl⟩
        · exact ⟨Act.readLoop more, by simp, rfl⟩
  | _ => simp [isTrigger] at htr

theorem step_trigInv {r c t c'} (h : step r c t = some c') (inv : Inv c) (ti : TrigInv c) : TrigInv c' := by
  obtain ⟨act, rest, c1, pushed, _, hth, he, rfl⟩ := step_inv h
  intro hf'
  have hf1 : c1.once = .fresh := hf'
  by_cases hp : plain c act = true
  · have pf := effect_plain hp he
    have hf : c.once = .fresh := by rw [← pf.once]; exact hf1
    obtain ⟨t0, st0, a0, h0, ha0, htr⟩ := ti hf
    by_cases e : t0 = t
    · subst e
      rw [hth] at h0
      have hst : st0 = act :: rest := (Option.some.inj h0).symm
      subst hst
      rcases List.mem_cons.1 ha0 with rfl | hin
      · obtain ⟨a1, ha1, htr1⟩ := trigger_pushes_trigger htr hp hf he
        exact ⟨t0, pushed ++ rest, a1, getElem?_set_self' _ hth _, List.mem_append_left _ ha1, htr1⟩
      · exact ⟨t0, pushed ++ rest, a0, getElem?_set_self' _ hth _, List.mem_append_right _ hin, htr⟩
    · refine ⟨t0, st0, a0, ?_, ha0, htr⟩
      show (c.threads.set t (pushed ++ rest))[t0]? = some st0
      rw [getElem?_set_ne' _ (Ne.symm e)]; exact h0
  · -- a winning `Close` or a `body` step never leaves the `Once` fresh
    cases act with
    | api a rep =>
      cases a with
      | close k =>
        have hf : c.once = .fresh := by simp [plain] at hp; exact hp
        simp [effect, effApi, hf] at he
        obtain ⟨rfl, _⟩ := he
        simp at hf1
      | _ => simp [plain] at hp
    | body pc rep =>
      have hrun := (inv.items t _ hth _ (List.mem_cons_self ..)).1
      have hpc := (inv.items t _ hth _ (List.mem_cons_self ..)).2.1
      have hlt : pc = 0 ∨ pc = 1 ∨ pc = 2 ∨ pc = 3 ∨ pc = 4 := by omega
      rcases hlt with rfl | rfl | rfl | rfl | rfl
      · simp [effect] at he; obtain ⟨rfl, _⟩ := he; simp [hrun] at hf1
      · simp [effect] at he; obtain ⟨rfl, _⟩ := he; simp [hrun] at hf1
      · simp [effect] at he; obtain ⟨rfl, _⟩ := he; simp [hrun] at hf1
      · simp only [effect] at he
        split at he <;> simp at he <;> obtain ⟨rfl, _⟩ := he <;> simp [hrun] at hf1
      · simp [effect] at he; obtain ⟨rfl, _⟩ := he; simp at hf1
    | _ => simp [plain] at hp

theorem exec_inv_trig {r sched c c'} (h : exec r c sched = some c') (inv : Inv c) (ti : TrigInv c) :
    Inv c' ∧ TrigInv c' :=
  exec_induct r (fun x => Inv x ∧ TrigInv x)
    (fun _ _ _ hp hs => ⟨step_inv_Inv hs hp.1, step_trigInv hs hp.1 hp.2⟩) sched c c' ⟨inv, ti⟩ h

theorem exec_inv_pref {r sched c c'} (h : exec r c sched = some c') (hsafe : handlersSafe c.handlers = true)
    (inv : Inv c) (p : PrefOK c) : Inv c' ∧ PrefOK c' ∧ c'.handlers = c.handlers := by
  have := exec_induct r (fun x => Inv x ∧ PrefOK x ∧ x.handlers = c.handlers)
    (fun a t b hp hs => by
      obtain ⟨act, rest, c1, pushed, _, hth, he, hb⟩ := step_inv hs
      have fr := effect_frame he
      refine ⟨step_inv_Inv hs hp.1, step_prefOK hs (by rw [hp.2.2]; exact hsafe) hp.1 hp.2.1, ?_⟩
      subst hb
      show c1.handlers = c.handlers
      rw [fr.handlers]; exact hp.2.2) sched c c' ⟨inv, p, rfl⟩ h
  exact this

theorem exec_closeRes {r sched c c'} (h : exec r c sched = some c') (k : CloseRes c) : CloseRes c' :=
  exec_induct r CloseRes (fun _ _ _ hp hs => step_closeRes hs hp) sched c c' k h

theorem step_cancelled_mono {r c t c'} (h : step r c t = some c') (hc : c.cancelled = true) : c'.cancelled = true := by
  obtain ⟨act, rest, c1, pushed, _, hth, he, rfl⟩ := step_inv h
  exact (effect_frame he).canc hc

theorem step_active {r c t c'} (h : step r c t = some c') (ha : c.active.isSome = true ∧ c.skipped = 0) :
    c'.active.isSome = true ∧ c'.skipped = 0 := by
  obtain ⟨act, rest, c1, pushed, _, hth, he, rfl⟩ := step_inv h
  have m := (effect_misc he).active ha.1
  exact ⟨m.1, by show c1.skipped = 0; rw [m.2]; exact ha.2⟩

theorem step_nocrash {c t c'} (h : step true c t = some c') (hc : c.crashed = false) : c'.crashed = false := by
  obtain ⟨act, rest, c1, pushed, _, hth, he, rfl⟩ := step_inv h
  show c1.crashed = false
  rw [(effect_misc he).crash rfl]; exact hc

theorem terminal_bodyTotal {c : Conn} (h : terminal c = true) : bodyTotalL c.threads = 0 := by
  rw [terminal_iff] at h
  unfold bodyTotalL
  have : ∀ l : List (List Act), (∀ th ∈ l, th = []) → (l.map bodyCnt).sum = 0 := by
    intro l; induction l with
    | nil => simp
    | cons a l ih =>
      intro hl
      have ha := hl a (List.mem_cons_self ..)
      subst ha
      simp [bodyCnt]
      exact ih (fun th hth => hl th (List.mem_cons_of_mem _ hth))
  exact this _ h

/-! ### a write error always leads to a close -/

/-- the ghost flag `werr` is raised only by the step that also pushes the `Close()` of closeOnWriteErr -/
theorem effect_werr {r c t act c1 pushed} (h : effect r c t act = some (c1, pushed)) :
    c1.werr = c.werr ∨ ∃ a ∈ pushed, isTrigger a = true := by
  unfold effect at h
  split at h
  · unfold effApi at h
    split at h
    · split at h <;> simp at h <;> obtain ⟨rfl, _⟩ := h <;> exact Or.inl rfl
    all_goals (try split at h)
    all_goals (simp at h; obtain ⟨rfl, _⟩ := h; exact Or.inl rfl)
  · split at h <;> simp at h <;> obtain ⟨rfl, rfl⟩ := h
    · exact Or.inr ⟨_, List.mem_cons_self .., rfl⟩
    · exact Or.inl rfl
  · simp at h; obtain ⟨rfl, _⟩ := h; exact Or.inl rfl
  · simp at h; obtain ⟨rfl, _⟩ := h; exact Or.inl rfl
  · simp at h; obtain ⟨rfl, _⟩ := h; exact Or.inl rfl
  · split at h <;> simp at h <;> obtain ⟨rfl, _⟩ := h <;> exact Or.inl rfl
  · simp at h; obtain ⟨rfl, _⟩ := h; exact Or.inl rfl
  · simp at h
  · split at h
    · simp at h; obtain ⟨rfl, _⟩ := h; exact Or.inl rfl
    · split at h
      · simp at h; obtain ⟨rfl, _⟩ := h; exact Or.inl rfl
      · simp at h; obtain ⟨rfl, _⟩ := h; exact Or.inl rfl
      · split at h <;> simp at h <;> obtain ⟨rfl, _⟩ := h <;> exact Or.inl rfl
  · split at h <;> simp at h <;> obtain ⟨rfl, _⟩ := h <;> exact Or.inl rfl

/-- a pending trigger survives an ordinary step taken while the `Once` is fresh -/
theorem hasTrigger_step_plain {r c t act rest c1 pushed} (hth : c.threads[t]? = some (act :: rest))
    (he : effect r c t act = some (c1, pushed)) (hp : plain c act = true) (hf : c.once = .fresh)
    (ht : hasTrigger c) :
    hasTrigger { c1 with threads := c.threads.set t (pushed ++ rest) } := by
  obtain ⟨t0, st0, a0, h0, ha0, htr⟩ := ht
  by_cases e : t0 = t
  · subst e
    rw [hth] at h0
    have hst : st0 = act :: rest := (Option.some.inj h0).symm
    subst hst
    rcases List.mem_cons.1 ha0 with rfl | hin
    · obtain ⟨a1, ha1, htr1⟩ := trigger_pushes_trigger htr hp hf he
      exact ⟨t0, pushed ++ rest, a1, getElem?_set_self' _ hth _, List.mem_append_left _ ha1, htr1⟩
    · exact ⟨t0, pushed ++ rest, a0, getElem?_set_self' _ hth _, List.mem_append_right _ hin, htr⟩
  · refine ⟨t0, st0, a0, ?_, ha0, htr⟩
    show (c.threads.set t (pushed ++ rest))[t0]? = some st0
    rw [getElem?_set_ne' _ (Ne.symm e)]; exact h0

/-- while the `Once` is fresh, a write error that has happened has left its `Close()` pending -/
def WerrInv (c : Conn) : Prop := c.once = .fresh → (c.werr = true → hasTrigger c)

theorem step_werrInv {r c t c'} (h : step r c t = some c') (inv : Inv c) (wi : WerrInv c) : WerrInv c' := by
  obtain ⟨act, rest, c1, pushed, _, hth, he, rfl⟩ := step_inv h
  intro hf'
  have hf1 : c1.once = .fresh := hf'
  by_cases hp : plain c act = true
  · have pf := effect_plain hp he
    have hf : c.once = .fresh := by rw [← pf.once]; exact hf1
    have hw := wi hf
    intro hw1
    have hw1' : c1.werr = true := hw1
    rcases effect_werr he with e | ⟨a, ha, htr⟩
    · exact hasTrigger_step_plain hth he hp hf (hw (by rw [← e]; exact hw1'))
    · exact ⟨t, pushed ++ rest, a, getElem?_set_self' _ hth _, List.mem_append_left _ ha, htr⟩
  · cases act with
    | api a rep =>
      cases a with
      | close k =>
        have hf : c.once = .fresh := by simp [plain] at hp; exact hp
        simp [effect, effApi, hf] at he
        obtain ⟨rfl, _⟩ := he
        simp at hf1
      | _ => simp [plain] at hp
    | body pc rep =>
      have hrun := (inv.items t _ hth _ (List.mem_cons_self ..)).1
      have hpc := (inv.items t _ hth _ (List.mem_cons_self ..)).2.1
      have hlt : pc = 0 ∨ pc = 1 ∨ pc = 2 ∨ pc = 3 ∨ pc = 4 := by omega
      rcases hlt with rfl | rfl | rfl | rfl | rfl
      · simp [effect] at he; obtain ⟨rfl, _⟩ := he; simp [hrun] at hf1
      · simp [effect] at he; obtain ⟨rfl, _⟩ := he; simp [hrun] at hf1
      · simp [effect] at he; obtain ⟨rfl, _⟩ := he; simp [hrun] at hf1
      · simp only [effect] at he
        split at he <;> simp at he <;> obtain ⟨rfl, _⟩ := he <;> simp [hrun] at hf1
      · simp [effect] at he; obtain ⟨rfl, _⟩ := he; simp at hf1
    | _ => simp [plain] at hp

theorem exec_inv_werr {r sched c c'} (h : exec r c sched = some c') (inv : Inv c) (wi : WerrInv c) :
    Inv c' ∧ WerrInv c' :=
  exec_induct r (fun x => Inv x ∧ WerrInv x)
    (fun _ _ _ hp hs => ⟨step_inv_Inv hs hp.1, step_werrInv hs hp.1 hp.2⟩) sched c c' ⟨inv, wi⟩ h

end Gate.C44
