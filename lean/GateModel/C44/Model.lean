/-
C44 — model of the close protocol of `netmc.minecraftConn` (connection.go) as an interleaving machine.

Go:
    closeKnown(known): alreadyClosed := true
        closeOnce.Do(func(){ defer SetAutoReading(true); alreadyClosed = false
                             if known { knownDisconnect.Store(true) }      -- body pc 0
                             cancelCtx()                                   -- body pc 1
                             err = c.c.Close()                             -- body pc 2
                             if sh := ActiveSessionHandler(); sh != nil { sh.Disconnected() } })  -- pc 3
                                                                           -- pc 4: Once marks done, unlocks
        if alreadyClosed { err = ErrClosedConn }
    WritePacket/Write:  if Closed(c) { return ErrClosedConn }; buffer; Flush()
    BufferPacket/BufferPayload: if Closed(c) { return ErrClosedConn }; buffer
    Flush:              err := wr.Flush(); if err != nil { closeOnWriteErr(err) → c.Close() }; return err
    CloseWith:          if Closed(c) { return ErrClosedConn }; knownDisconnect.Store(true); WritePacket; return c.Close()
    startReadLoop:      defer closeKnown(false); for !Closed(c) { read; handler.HandlePacket } with a
                        `recover` around the inner loop that resumes the loop after a handler panic

`sync.Once` has its blocking semantics: while one goroutine runs the body every other `Do` waits
(`Once.running`); a `Do` from inside the body (same goroutine) waits for ever (deadlock).
A goroutine is a work stack of `Act`s, a system a list of goroutines, a schedule a list of ids.
Session handlers are tables of what `HandlePacket` / `Disconnected` do to the SAME connection.

Coarsenings (documented): WritePacket's two `Closed` checks and the buffering are one action;
`SetAutoReading`, `SetState`, Activated/Deactivated are not modelled; the underlying net.Conn is a
flag pair (`netClosed`, `failing`) and a "something is buffered" bit.
-/
namespace Gate.C44

inductive Res where
  | ok | closed | other   -- nil / ErrClosedConn / any other error
  deriving Repr, DecidableEq

inductive Once where
  | fresh | running (t : Nat) | done
  deriving Repr, DecidableEq

/-- the classes of write errors `closeOnWriteErr` distinguishes (it must close on every one of them; the
    class only decides whether the error is logged) -/
inductive ErrClass where
  | generic      -- any other error
  | closedPipe   -- io.ErrClosedPipe
  | epipe        -- *net.OpError wrapping EPIPE
  | connReset    -- *net.OpError wrapping ECONNRESET  (errs.IsConnClosedErr)
  | netClosed    -- *net.OpError wrapping net.ErrClosed (errs.IsConnClosedErr)
  | timeout      -- *net.OpError wrapping os.ErrDeadlineExceeded
  deriving Repr, DecidableEq

/-- public operations on the connection (by a goroutine or from inside a session handler) -/
inductive Api where
  | close (known : Bool)   -- Close() / CloseUnknown()
  | closeWith              -- CloseWith(c, packet)
  | writeFlush             -- WritePacket(p) / Write(payload)
  | buffer                 -- BufferPacket(p) / BufferPayload(payload)
  | flush                  -- Flush()
  | failNet (cls : ErrClass) -- fault injection: the underlying net.Conn starts failing writes with this error
  | setHandler (h : Nat)   -- SetActiveSessionHandler
  | guardedClose           -- `if !Closed(c) { CloseUnknown(c) }` (serverConnection.disconnect0)
  | cancelParent           -- the context handed to NewMinecraftConn is cancelled (listener / proxy shutdown):
                           -- the connection's context is its child, so `Closed(c)` turns true — WITHOUT any close
  deriving Repr, DecidableEq

/-- read-loop input: a packet (whose handler may panic after its body) or end of stream -/
inductive Ev where
  | pkt (panics : Bool) | eof
  deriving Repr, DecidableEq

inductive Act where
  | api (a : Api) (report : Bool)          -- `report`: the goroutine looks at the result
  | readLoop (script : List Ev)
  | body (pc : Nat) (report : Bool)        -- inside closeOnce.Do, see header
  | netFlush (report : Bool)               -- wr.Flush() and its error path
  | notePanic                              -- a panic unwinding out of HandlePacket
  deriving Repr, DecidableEq

structure Handler where
  onPacket : List Api
  onDisconnect : List Api
  deriving Repr, DecidableEq

structure Conn where
  once : Once := .fresh
  cancelled : Bool := false     -- ctx.Err() != nil, i.e. netmc.Closed(c)
  netClosed : Bool := false     -- c.c.Close() was called
  known : Bool := false
  failing : Option ErrClass := none   -- the write error the net.Conn currently returns
  werr : Bool := false          -- ghost: some write/flush hit an error (closeOnWriteErr was entered)
  buffered : Bool := false
  active : Option Nat := none   -- active session handler
  handlers : List Handler := []
  disc : List Nat := []         -- Disconnected() calls (handler ids), in order
  skipped : Nat := 0            -- close bodies that found no session handler
  handled : Nat := 0            -- HandlePacket calls
  panics : Nat := 0             -- panics recovered by the read loop
  crashed : Bool := false       -- a panic escaped (process ends)
  threads : List (List Act) := []
  results : List (Nat × Bool × Res) := []   -- (goroutine, is-a-Close-result, result) in return order
  deriving Repr

def record (c : Conn) (rep : Bool) (t : Nat) (isClose : Bool) (r : Res) : List (Nat × Bool × Res) :=
  if rep then c.results ++ [(t, isClose, r)] else c.results

def handlerOf (c : Conn) : Option Handler := c.active.bind (fun h => c.handlers[h]?)

/-- effect of an API call by goroutine `t`: new connection state (threads untouched) and the acts it
    pushes on `t`'s stack in place of the call; `none`: not enabled (waiting in `closeOnce.Do`) -/
def effApi (c : Conn) (t : Nat) (a : Api) (rep : Bool) : Option (Conn × List Act) :=
  match a with
  | .close k =>
    match c.once with
    | .fresh => some ({ c with once := .running t }, [.body (if k then 0 else 1) rep])
    | .running _ => none
    | .done => some ({ c with results := record c rep t true .closed }, [])
  | .closeWith =>
    if c.cancelled then some ({ c with results := record c rep t false .closed }, [])
    else some ({ c with known := true }, [.api .writeFlush false, .api (.close true) rep])
  | .writeFlush =>
    if c.cancelled then some ({ c with results := record c rep t false .closed }, [])
    else some ({ c with buffered := true }, [.netFlush rep])
  | .buffer =>
    if c.cancelled then some ({ c with results := record c rep t false .closed }, [])
    else some ({ c with buffered := true, results := record c rep t false .ok }, [])
  | .flush => some (c, [.netFlush rep])
  | .failNet cls => some ({ c with failing := some cls }, [])
  | .setHandler h => some ({ c with active := some h }, [])
  | .guardedClose =>
    if c.cancelled then some (c, []) else some (c, [.api (.close false) false])
  | .cancelParent => some ({ c with cancelled := true }, [])

/-- `recover = true` is the source (the `recover()` in startReadLoop's inner loop) -/
def effect (recover : Bool) (c : Conn) (t : Nat) (act : Act) : Option (Conn × List Act) :=
  match act with
  | .api a rep => effApi c t a rep
  | .netFlush rep =>
    if c.netClosed || (c.failing.isSome && c.buffered) then
      -- closeOnWriteErr(err): `c.Close()` for EVERY class of error, then return the error
      some ({ c with werr := true, results := record c rep t false .other }, [.api (.close true) false])
    else some ({ c with buffered := false, results := record c rep t false .ok }, [])
  | .body 0 rep => some ({ c with known := true }, [.body 1 rep])
  | .body 1 rep => some ({ c with cancelled := true }, [.body 2 rep])
  | .body 2 rep => some ({ c with netClosed := true }, [.body 3 rep])
  | .body 3 rep =>
    match c.active with
    | some h => some ({ c with disc := c.disc ++ [h] },
        ((c.handlers[h]?.map (·.onDisconnect)).getD []).map (Act.api · false) ++ [.body 4 rep])
    | none => some ({ c with skipped := c.skipped + 1 }, [.body 4 rep])
  | .body 4 rep => some ({ c with once := .done, results := record c rep t true .ok }, [])
  | .body _ _ => none
  | .readLoop script =>
    if c.cancelled then some (c, [.api (.close false) false])
    else match script with
      | [] => some (c, [.api (.close false) false])
      | .eof :: _ => some (c, [.api (.close false) false])
      | .pkt p :: more =>
        match handlerOf c with
        | some hd => some ({ c with handled := c.handled + 1 },
            hd.onPacket.map (Act.api · false) ++ ((if p then [Act.notePanic] else []) ++ [.readLoop more]))
        | none => some (c, [.notePanic, .readLoop more])
  | .notePanic =>
    if recover then some ({ c with panics := c.panics + 1 }, [])
    else some ({ c with crashed := true }, [])

/-- one scheduling step: goroutine `t` performs its next atomic action (`none`: not enabled) -/
def step (recover : Bool) (c : Conn) (t : Nat) : Option Conn :=
  if c.crashed then none else
  match c.threads[t]? with
  | some (act :: rest) =>
    match effect recover c t act with
    | some (c', pushed) => some { c' with threads := c.threads.set t (pushed ++ rest) }
    | none => none
  | _ => none

def exec (recover : Bool) (c : Conn) : List Nat → Option Conn
  | [] => some c
  | t :: ts => (step recover c t).bind (fun c' => exec recover c' ts)

def terminal (c : Conn) : Bool := c.threads.all (·.isEmpty)

/-- initial system: handlers table, active handler, goroutines given as lists of top-level acts -/
def mkConn (handlers : List Handler) (active : Option Nat) (threads : List (List Act)) : Conn :=
  { handlers := handlers, active := active, threads := threads }

/-- top-level acts: API calls and read loops (never internal `body`/`netFlush`/`notePanic`) -/
def topLevel : Act → Bool
  | .api _ _ => true
  | .readLoop _ => true
  | _ => false

/-! ### hypotheses on session handlers -/

/-- what `Disconnected()` may do to its own connection without deadlocking: anything that first checks
    `Closed(c)`.  Excluded: a bare `Close()` (re-enters closeOnce.Do) and `Flush()` (no `Closed` check;
    its error path calls `Close()`). -/
def safeInTeardown : Api → Bool
  | .close _ => false
  | .flush => false
  | _ => true

def handlersSafe (hs : List Handler) : Bool := hs.all (fun h => h.onDisconnect.all safeInTeardown)

/-! ### termination weight -/

def wApi : Api → Nat
  | .close _ => 2
  | .closeWith => 8
  | .writeFlush => 5
  | .buffer => 1
  | .flush => 4
  | .failNet _ => 1
  | .setHandler _ => 1
  | .guardedClose => 3
  | .cancelParent => 1

def wApis (l : List Api) : Nat := (l.map wApi).sum

/-- `H` bounds the weight of any handler body -/
def wEv (H : Nat) : Ev → Nat
  | .pkt _ => H + 3
  | .eof => 1
def wScript (H : Nat) (s : List Ev) : Nat := (s.map (wEv H)).sum

def wAct (H : Nat) : Act → Nat
  | .api a _ => wApi a
  | .readLoop s => wScript H s + 3
  | .body pc _ => if pc ≤ 3 then (5 - pc) + H else 1
  | .netFlush _ => 3
  | .notePanic => 1

def wStack (H : Nat) (th : List Act) : Nat := (th.map (wAct H)).sum
def handlerBound (hs : List Handler) : Nat :=
  (hs.map (fun h => wApis h.onPacket + wApis h.onDisconnect)).sum
/-- the close body (and with it one `Disconnected` body) runs at most once: potential while `fresh` -/
def weight (c : Conn) : Nat :=
  let H := handlerBound c.handlers
  (c.threads.map (wStack H)).sum + (if c.once = .fresh then H + 6 else 0)

/-! ### schedules used by the driver -/

/-- run goroutine `t` while `cont` holds of its stack (bounded by fuel) -/
def runWhile (recover : Bool) (cont : List Act → Bool) : Nat → Conn → Nat → Conn
  | 0, c, _ => c
  | fuel + 1, c, t =>
    match c.threads[t]? with
    | some st => if cont st then
        match step recover c t with
        | some c' => runWhile recover cont fuel c' t
        | none => c
      else c
    | none => c

def roundRobin (recover : Bool) : Nat → Conn → Conn
  | 0, c => c
  | fuel + 1, c =>
    let (c', moved) := (List.range c.threads.length).foldl
      (fun (acc : Conn × Bool) t => match step recover acc.1 t with
        | some c2 => (c2, true)
        | none => acc) (c, false)
    if moved then roundRobin recover fuel c' else c'

/-! ### facts over `calls` lists of tools/gofacts -/

def idxOf (calls : List String) (x : String) : Nat := calls.findIdx (· == x)
def has (calls : List String) (x : String) : Bool := calls.contains x
/-- `a` and `b` both occur, `a` first -/
def before (calls : List String) (a b : String) : Bool :=
  has calls a && has calls b && idxOf calls a < idxOf calls b

end Gate.C44
