import GateModel.C44.Lemmas
import GateModel.Gen.C44
/-
C44 — Connections tear down exactly once and survive handler panics.

All theorems quantify over EVERY schedule `sched` (any interleaving of the goroutines' atomic
actions) of a system built by `mkConn`: any handler table, any number of goroutines, each any list of
API calls (`Close`, `CloseUnknown`, `CloseWith`, `WritePacket`/`Write`, `BufferPacket`/`BufferPayload`,
`Flush`, a failing net.Conn, handler switches, the guarded close of `serverConnection.disconnect0`) or
a read loop over any script of packets / panicking packets / EOF.  `r` is whether the read loop
recovers panics (`true` = the source, a regenerated fact below).
-/
namespace Gate.C44.Props
open Gate.C44

variable (handlers : List Handler) (active : Option Nat) (threads : List (List Act))

/-! ### teardown runs exactly once -/

/-- at every moment of every schedule `Disconnected()` has been called at most once -/
theorem teardown_at_most_once (r : Bool) (htop : ∀ th ∈ threads, ∀ a ∈ th, topLevel a = true)
    (sched : List Nat) (c' : Conn) (h : exec r (mkConn handlers active threads) sched = some c') :
    c'.disc.length ≤ 1 := by
  have inv := exec_Inv h (inv_mkConn handlers active threads htop)
  cases ho : c'.once with
  | fresh => rw [(inv.fresh ho).1]; exact Nat.zero_le _
  | done => have := (inv.done ho).2.2; omega
  | running t =>
    have hpos : 0 < bodyTotalL c'.threads := by rw [inv.count, ho]; exact Nat.one_pos
    obtain ⟨t2, st, a, hst, ha, hb⟩ := exists_body hpos
    cases a with
    | body pc rep =>
      have ok := inv.items t2 st hst _ ha
      simp only [itemOK] at ok
      by_cases h3 : pc ≤ 3
      · rw [(ok.2.2.2.2.1 h3).1]; exact Nat.zero_le _
      · have := ok.2.2.2.2.2 (by omega); omega
    | _ => simp [isBody] at hb

/-- every goroutine returned and the connection was closed by anything: the teardown ran exactly once
    (counting the "no session handler installed" case in `skipped`), the Once is done, the context is
    cancelled and the net.Conn closed -/
theorem teardown_exactly_once (r : Bool) (htop : ∀ th ∈ threads, ∀ a ∈ th, topLevel a = true)
    (sched : List Nat) (c' : Conn) (h : exec r (mkConn handlers active threads) sched = some c')
    (hterm : terminal c' = true) (hclosed : c'.once ≠ .fresh) :
    c'.disc.length + c'.skipped = 1 ∧ c'.once = .done ∧ c'.cancelled = true ∧ c'.netClosed = true := by
  have inv := exec_Inv h (inv_mkConn handlers active threads htop)
  have h0 := terminal_bodyTotal hterm
  cases ho : c'.once with
  | fresh => exact absurd ho hclosed
  | running t => rw [inv.count, ho] at h0; cases h0
  | done => have := inv.done ho; exact ⟨this.2.2, rfl, this.1, this.2.1⟩

/-- any pending close trigger (a `Close`/`CloseUnknown` call or a read loop, which ends in `closeKnown`) forces the
    close: no terminal state leaves the Once fresh — also when the parent context was cancelled first
    (`Api.cancelParent` makes `Closed(c)` true without closing anything; `CloseWith`, the guarded close and all
    writes then give up with ErrClosedConn, so they are not triggers) -/
theorem close_trigger_closes (r : Bool) (htop : ∀ th ∈ threads, ∀ a ∈ th, topLevel a = true)
    (htrig : ∃ th ∈ threads, ∃ a ∈ th, isTrigger a = true)
    (sched : List Nat) (c' : Conn) (h : exec r (mkConn handlers active threads) sched = some c')
    (hterm : terminal c' = true) : c'.once ≠ .fresh := by
  have ti0 : TrigInv (mkConn handlers active threads) := by
    intro _
    obtain ⟨th, hth, a, ha, htr⟩ := htrig
    obtain ⟨t, ht⟩ := List.getElem?_of_mem hth
    exact ⟨t, th, a, ht, ha, htr⟩
  have ⟨_, ti⟩ := exec_inv_trig h (inv_mkConn handlers active threads htop) ti0
  intro hf
  obtain ⟨t, st, a, hst, ha, _⟩ := ti hf
  have := (terminal_iff c').1 hterm st (List.mem_of_getElem? hst)
  subst this; simp at ha

/-- the statement of the property: with a session handler installed and at least one close trigger,
    however many goroutines close / fail / hit EOF: `Disconnected()` was called exactly once -/
theorem disconnected_exactly_once (r : Bool) (htop : ∀ th ∈ threads, ∀ a ∈ th, topLevel a = true)
    (hact : active.isSome = true) (htrig : ∃ th ∈ threads, ∃ a ∈ th, isTrigger a = true)
    (sched : List Nat) (c' : Conn) (h : exec r (mkConn handlers active threads) sched = some c')
    (hterm : terminal c' = true) : c'.disc.length = 1 := by
  have hne := close_trigger_closes handlers active threads r htop htrig sched c' h hterm
  have h1 := (teardown_exactly_once handlers active threads r htop sched c' h hterm hne).1
  have := exec_induct r (fun x => x.active.isSome = true ∧ x.skipped = 0)
    (fun _ _ _ hp hs => step_active hs hp) sched _ c' ⟨hact, rfl⟩ h
  omega

/-! ### a cancelled parent context is not a close -/

/-- `cancelParent` only flips what `Closed(c)` reports: the Once stays as it was, nothing is torn down -/
theorem cancelParent_closes_nothing (c : Conn) (t : Nat) (rep : Bool) :
    effApi c t .cancelParent rep = some ({ c with cancelled := true }, []) := rfl

/-- `Close` after the parent context was cancelled still runs the whole teardown (and reports nil): the close
    path must not take `Closed(c)` for "already closed" -/
example : (match exec true (mkConn [⟨[], []⟩] (some 0) [[.api .cancelParent true, .api (.close true) true, .api .writeFlush true]])
      [0, 0, 0, 0, 0, 0, 0, 0] with
    | some c => terminal c && c.disc == [0] && c.netClosed && c.once == .done
        && c.results.map (·.2.2) == [.ok, .closed] | none => false) = true := by decide

/-- the read loop ending after a parent cancellation tears down as well -/
example : (match exec true (mkConn [⟨[], []⟩] (some 0) [[.api .cancelParent true], [.readLoop [.pkt false]]])
      [0, 1, 1, 1, 1, 1, 1] with
    | some c => terminal c && c.disc == [0] && c.netClosed && c.handled == 0 | none => false) = true := by decide

/-! ### later writes report the connection as closed -/

theorem closed_is_forever (r : Bool) (c c' : Conn) (sched : List Nat) (h : exec r c sched = some c')
    (hc : c.cancelled = true) : c'.cancelled = true :=
  exec_induct r (fun x => x.cancelled = true) (fun _ _ _ hp hs => step_cancelled_mono hs hp) sched c c' hc h

/-- once any `Close()` call has returned (with whatever result) the connection is closed -/
theorem close_returned_means_closed (r : Bool) (htop : ∀ th ∈ threads, ∀ a ∈ th, topLevel a = true)
    (sched : List Nat) (c' : Conn) (h : exec r (mkConn handlers active threads) sched = some c')
    (t : Nat) (res : Res) (hres : (t, true, res) ∈ c'.results) :
    c'.once = .done ∧ c'.cancelled = true ∧ c'.netClosed = true := by
  have inv := exec_Inv h (inv_mkConn handlers active threads htop)
  have k := exec_closeRes h (c := mkConn handlers active threads) (by intro e he; simp [mkConn] at he)
  have hd := k _ hres rfl
  exact ⟨hd, (inv.done hd).1, (inv.done hd).2.1⟩

/-- a write that starts on a closed connection returns ErrClosedConn and touches nothing -/
theorem write_on_closed_reports_closed (r : Bool) (c c' : Conn) (t : Nat) (a : Api) (rest : List Act)
    (ha : a = .writeFlush ∨ a = .buffer ∨ a = .closeWith)
    (hcl : c.cancelled = true) (hth : c.threads[t]? = some (.api a true :: rest))
    (hs : step r c t = some c') :
    c'.results = c.results ++ [(t, false, .closed)] ∧ c'.threads = c.threads.set t rest ∧
      c'.disc = c.disc ∧ c'.once = c.once ∧ c'.buffered = c.buffered := by
  obtain ⟨act, rest', c1, pushed, _, hth', he, rfl⟩ := step_inv hs
  rw [hth] at hth'
  obtain ⟨rfl, rfl⟩ := List.cons.inj (Option.some.inj hth')
  rcases ha with rfl | rfl | rfl <;> simp [effect, effApi, hcl, record] at he <;>
    obtain ⟨rfl, rfl⟩ := he <;> simp

/-- the two together: after a `Close()` has returned, every later write reports ErrClosedConn -/
theorem later_writes_report_closed (r : Bool) (htop : ∀ th ∈ threads, ∀ a ∈ th, topLevel a = true)
    (sched : List Nat) (c1 : Conn) (h : exec r (mkConn handlers active threads) sched = some c1)
    (t0 : Nat) (res : Res) (hres : (t0, true, res) ∈ c1.results)
    (later : List Nat) (c2 : Conn) (h2 : exec r c1 later = some c2)
    (t : Nat) (a : Api) (rest : List Act) (ha : a = .writeFlush ∨ a = .buffer ∨ a = .closeWith)
    (hth : c2.threads[t]? = some (.api a true :: rest)) (c3 : Conn) (hs : step r c2 t = some c3) :
    c3.results = c2.results ++ [(t, false, .closed)] := by
  have hc := (close_returned_means_closed handlers active threads r htop sched c1 h t0 res hres).2.1
  have hc2 := closed_is_forever r c1 c2 later h2 hc
  exact (write_on_closed_reports_closed r c2 c3 t a rest ha hc2 hth hs).1

/-! ### every write error closes the connection -/

/-- `closeOnWriteErr`: whatever the class of the error (generic, io.ErrClosedPipe, EPIPE, ECONNRESET,
    net.ErrClosed, timeout), a failing flush on an open connection records the error for the caller and
    calls `Close()` -/
theorem write_error_closes_every_class (r : Bool) (cls : ErrClass) (c : Conn) (t : Nat) (rep : Bool)
    (hf : c.failing = some cls) (hb : c.buffered = true) :
    effect r c t (.netFlush rep) =
      some ({ c with werr := true, results := record c rep t false .other }, [.api (.close true) false]) := by
  simp [effect, hf, hb]

/-- in every terminal state of every schedule in which any write/flush hit an error (of any class), the
    teardown ran exactly once, the context is cancelled and the net.Conn closed — also when no other close
    trigger exists (read loop parked, nobody calls `Close`) -/
theorem write_error_leads_to_teardown (r : Bool) (htop : ∀ th ∈ threads, ∀ a ∈ th, topLevel a = true)
    (sched : List Nat) (c' : Conn) (h : exec r (mkConn handlers active threads) sched = some c')
    (hterm : terminal c' = true) (hw : c'.werr = true) :
    c'.disc.length + c'.skipped = 1 ∧ c'.once = .done ∧ c'.cancelled = true ∧ c'.netClosed = true := by
  have wi0 : WerrInv (mkConn handlers active threads) := fun _ hw0 => by simp [mkConn] at hw0
  have ⟨_, wi⟩ := exec_inv_werr h (inv_mkConn handlers active threads htop) wi0
  have hne : c'.once ≠ .fresh := by
    intro hf
    obtain ⟨t, st, a, hst, ha, _⟩ := wi hf hw
    have := (terminal_iff c').1 hterm st (List.mem_of_getElem? hst)
    subst this; simp at ha
  exact teardown_exactly_once handlers active threads r htop sched c' h hterm hne

/-- with a session handler installed: `Disconnected()` exactly once after any write error -/
theorem write_error_disconnects_exactly_once (r : Bool) (htop : ∀ th ∈ threads, ∀ a ∈ th, topLevel a = true)
    (hact : active.isSome = true)
    (sched : List Nat) (c' : Conn) (h : exec r (mkConn handlers active threads) sched = some c')
    (hterm : terminal c' = true) (hw : c'.werr = true) : c'.disc.length = 1 := by
  have h1 := (write_error_leads_to_teardown handlers active threads r htop sched c' h hterm hw).1
  have := exec_induct r (fun x => x.active.isSome = true ∧ x.skipped = 0)
    (fun _ _ _ hp hs => step_active hs hp) sched _ c' ⟨hact, rfl⟩ h
  omega

/-- non-vacuity: read side parked (no read loop), the only goroutine writes on a connection whose peer
    reset it: the write fails, the teardown runs once, the next write reports ErrClosedConn -/
example : (match exec true (mkConn [⟨[], []⟩] (some 0) [[.api (.failNet .connReset) true, .api .writeFlush true, .api .writeFlush true]])
      [0, 0, 0, 0, 0, 0, 0, 0, 0, 0] with
    | some c => terminal c && c.werr && c.disc == [0] && c.cancelled
        && c.results.map (·.2.2) == [.other, .closed] | none => false) = true := by decide

/-! ### a handler panic is contained -/

theorem panic_contained (c c' : Conn) (sched : List Nat) (h : exec true c sched = some c')
    (hc : c.crashed = false) : c'.crashed = false :=
  exec_induct true (fun x => x.crashed = false) (fun _ _ _ hp hs => step_nocrash hs hp) sched c c' hc h

/-- after the panic the loop goes on with the rest of its input -/
theorem loop_continues_after_panic (c : Conn) (t : Nat) (more : List Ev) (rest : List Act)
    (hc : c.crashed = false) (hth : c.threads[t]? = some (.notePanic :: .readLoop more :: rest)) :
    ∃ c', step true c t = some c' ∧ c'.threads[t]? = some (.readLoop more :: rest) ∧
      c'.panics = c.panics + 1 ∧ c'.crashed = false ∧ c'.once = c.once ∧ c'.disc = c.disc := by
  refine ⟨{ c with panics := c.panics + 1, threads := c.threads.set t (.readLoop more :: rest) }, ?_, ?_, rfl, hc, rfl, rfl⟩
  · simp [step, hc, hth, effect]
  · exact getElem?_set_self' _ hth _

/-- what the `recover` buys: without it the same panic ends the process -/
def panicProg : List (List Act) := [[.readLoop [.pkt true, .pkt false, .eof]]]
theorem without_recover_process_dies :
    (match exec false (mkConn [⟨[], []⟩] (some 0) panicProg) [0, 0] with
     | some c => c.crashed && c.disc.isEmpty | none => false) = true := by decide
theorem with_recover_loop_finishes :
    (match exec true (mkConn [⟨[], []⟩] (some 0) panicProg) [0, 0, 0, 0, 0, 0, 0, 0, 0] with
     | some c => !c.crashed && terminal c && c.handled == 2 && c.panics == 1 && c.disc == [0] | none => false) = true := by
  decide

/-! ### no deadlock — as long as `Disconnected()` stays away from `Close()`/`Flush()` on its own connection -/

theorem no_deadlock (r : Bool) (htop : ∀ th ∈ threads, ∀ a ∈ th, topLevel a = true)
    (hsafe : handlersSafe handlers = true)
    (sched : List Nat) (c' : Conn) (h : exec r (mkConn handlers active threads) sched = some c')
    (hc : c'.crashed = false) (hnt : terminal c' = false) : ∃ t, (step r c' t).isSome = true := by
  have ⟨inv, p, _⟩ := exec_inv_pref h (c := mkConn handlers active threads) hsafe
    (inv_mkConn handlers active threads htop) (prefOK_mkConn handlers active threads)
  exact progress r c' inv p hc hnt

def stuckAfter (hs : List Handler) (prog : List (List Act)) (sched : List Nat) : Bool :=
  match exec true (mkConn hs (some 0) prog) sched with
  | some c => !terminal c && !c.crashed && (List.range c.threads.length).all (fun t => (step true c t).isNone)
  | none => false

/-- `Disconnected()` calling `Close()` on its own connection re-enters `closeOnce.Do`: stuck for ever -/
theorem reclose_in_disconnected_deadlocks :
    stuckAfter [⟨[], [.close true]⟩] [[.api (.close true) true]] [0, 0, 0, 0, 0] = true := by decide

/-- so does `Flush()`: it has no `Closed` check, the flush of the closed net.Conn fails and its error
    path (`closeOnWriteErr`) calls `Close()` -/
theorem flush_in_disconnected_deadlocks :
    stuckAfter [⟨[], [.flush]⟩] [[.api (.close true) true]] [0, 0, 0, 0, 0, 0, 0] = true := by decide

/-- the guard used by `serverConnection.disconnect0` (`if !Closed(c) { CloseUnknown(c) }`) and every
    checked write are fine inside `Disconnected()` -/
example : handlersSafe [⟨[.close true], [.guardedClose, .writeFlush, .buffer, .closeWith, .setHandler 0, .failNet .connReset]⟩] = true := by
  decide

/-! ### tie to the source: call sequences regenerated from connection.go / server.go -/

open Gate.Gen.C44 in
/-- the close body runs inside `closeOnce.Do`'s function: cancel the context, close the net.Conn, then
    read the active handler and call `Disconnected()` -/
theorem close_body_order :
    before closeKnownCalls "func:{" "c.cancelCtx" = true ∧ before closeKnownCalls "c.cancelCtx" "c.c.Close" = true ∧
    before closeKnownCalls "c.c.Close" "c.ActiveSessionHandler" = true ∧
    before closeKnownCalls "c.ActiveSessionHandler" "sh.Disconnected" = true ∧
    before closeKnownCalls "sh.Disconnected" "}" = true ∧ before closeKnownCalls "}" "c.closeOnce.Do" = true ∧
    (closeKnownCalls.filter (· == "sh.Disconnected")).length = 1 ∧
    closeCalls = ["c.closeKnown", "return"] ∧ has closeUnknownCalls "mc.closeKnown" = true ∧
    -- no `Closed(c)` fast path in front of the Once: the context may be cancelled by the parent alone
    has closeKnownCalls "Closed" = false ∧ closeKnownCalls.head? = some "func:{" := by decide

open Gate.Gen.C44 in
/-- every writer checks `Closed(c)` before anything else; `Closed` reads the context -/
theorem writers_check_closed_first :
    writePacketCalls.head? = some "Closed" ∧ writeCalls.head? = some "Closed" ∧
    bufferPacketCalls.head? = some "Closed" ∧ bufferPayloadCalls.head? = some "Closed" ∧
    closeWithCalls.head? = some "Closed" ∧ closedCalls = ["c.Context", "c.Context().Err", "return"] := by decide

open Gate.Gen.C44 in
/-- `Flush` has no `Closed` check; write errors close the connection through `closeOnWriteErr → Close` -/
theorem flush_error_path :
    flushCalls = ["c.wr.Flush", "c.closeOnWriteErr", "return"] ∧ has closeOnWriteErrCalls "c.Close" = true ∧
    has writeCalls "c.closeOnWriteErr" = true ∧ has bufferPacketCalls "c.closeOnWriteErr" = true ∧
    has bufferPayloadCalls "c.closeOnWriteErr" = true ∧ before writePacketCalls "c.BufferPacket" "c.Flush" = true := by
  decide

open Gate.Gen.C44 in
/-- `closeOnWriteErr` reaches `c.Close()` on every path with a non-nil error: the only `return` in front of it
    is the `err == nil` guard, and every classification of the error (`errors.Is` ErrClosedConn, `errors.As`
    *net.OpError, `errs.IsConnClosedErr`) comes after it — the class only decides about logging -/
theorem closeOnWriteErr_closes_before_classifying :
    closeOnWriteErrCalls.take 2 = ["return", "c.Close"] ∧
    before closeOnWriteErrCalls "c.Close" "errors.Is" = true ∧ before closeOnWriteErrCalls "c.Close" "errors.As" = true ∧
    before closeOnWriteErrCalls "c.Close" "errs.IsConnClosedErr" = true ∧
    (closeOnWriteErrCalls.filter (· == "c.Close")).length = 1 := by decide

open Gate.Gen.C44 in
/-- `CloseWith`: closed check, mark known, write the packet, and (deferred) `Close` -/
theorem closeWith_shape :
    closeWithCalls = ["Closed", "return", "defer:{", "c.Close", "}", "mc.knownDisconnect.Store", "c.WritePacket", "return"] := by
  decide

open Gate.Gen.C44 in
/-- the read loop: `closeKnown` is deferred; the inner loop function defers a `recover` and the outer
    loop calls it again -/
theorem readloop_recovers_and_closes :
    before readLoopCalls "defer:{" "c.closeKnown" = true ∧
    readLoopCalls.drop (readLoopCalls.length - 9) =
      ["func:{", "defer:{", "recover", "c.log.Error", "}", "cond", "return", "}", "loop"] ∧
    before readLoopCalls "Closed" "next" = true ∧ has readLoopCalls "sessionHandler.HandlePacket" = true := by decide

open Gate.Gen.C44 in
/-- the one place where gate's own `Disconnected()` closes a connection checks `Closed` first -/
theorem disconnect0_is_guarded : before disconnect0Calls "netmc.Closed" "netmc.CloseUnknown" = true := by decide

end Gate.C44.Props
