import GateModel.Base.Line
import GateModel.C44.Model
/-
C44 driver.  Case lines (see harness/c44/main.go):

  scn H <handler>… A <active|-> E <event>…      deterministic scenario: goroutine 0 = the `m:` calls,
                                                 goroutine 1 = the read loop over the `r:` events; the
                                                 schedule is the order of the events
  par H <handler>… A <active> T <apis> | … R <script>   goroutine stress: the model runs ONE schedule
                                                 (round robin); the summary is schedule independent
                                                 (theorems of Props)

Verdict = the property evaluated on the IMPLEMENTATION's output:
  viol:deadlock            the scenario did not finish although no `Disconnected()` body touches
                           `Close()`/`Flush()` of its own connection (otherwise `-`: outside the hypothesis)
  viol:teardown-count      `Disconnected()` not called exactly once on a closed connection with a handler
  viol:write-after-close   a write/CloseWith after a returned `Close()` did not report ErrClosedConn
  viol:write-error-not-closed  a write/flush failed (any error class) but, with the read side still parked, the
                           connection is not closed / the teardown has not run exactly once
  viol:write-after-close-accepted  (wac) after a close, a write entry point returned nil for the given
                           (state, protocol, packet kind): the packet was accepted by a closed connection
  viol:socket-left-open    every goroutine returned, a close trigger existed (the read loop ended), but net.Conn.Close was
                           never called (e.g. a parent-context cancellation mistaken for a completed close)
  viol:not-closed          a close trigger existed but the connection is not reported closed
  viol:panic-escaped       a handler panic left the read loop
-/
namespace Gate.C44
open Gate

def parseApi (s : String) : Option Api :=
  match s with
  | "ck" => some (.close true) | "cu" => some (.close false) | "cw" => some .closeWith
  | "wp" => some .writeFlush | "wr" => some .writeFlush | "bp" => some .buffer | "bl" => some .buffer
  | "fl" => some .flush | "gc" => some .guardedClose | "cp" => some .cancelParent
  | "fn" => some (.failNet .generic) | "fnp" => some (.failNet .closedPipe) | "fne" => some (.failNet .epipe)
  | "fnr" => some (.failNet .connReset) | "fnc" => some (.failNet .netClosed) | "fnt" => some (.failNet .timeout)
  | _ => if s.startsWith "sh" then (s.drop 2).toString.toNat?.map Api.setHandler else none

def parseApis (s : String) : Option (List Api) :=
  if s = "-" || s = "" then some [] else (s.splitOn ",").mapM parseApi

def parseHandler (s : String) : Option Handler :=
  match s.splitOn "/" with
  | [a, b] => do pure ⟨← parseApis a, ← parseApis b⟩
  | _ => none

/-- split `xs` at the first occurrence of `sep` -/
def splitAt (sep : String) (xs : List String) : List String × List String :=
  (xs.takeWhile (· != sep), (xs.dropWhile (· != sep)).drop 1)

def showRes : Res → String
  | .ok => "ok" | .closed => "closed" | .other => "other"

def stackLen (c : Conn) (t : Nat) : Nat := (c.threads[t]?.map List.length).getD 0

/-- run goroutine `t` until its stack is shorter than `target + 1`; `none` = it got stuck -/
def runUntilLen (fuel : Nat) (c : Conn) (t : Nat) (target : Nat) : Option Conn :=
  let c' := runWhile true (fun st => st.length > target) fuel c t
  if stackLen c' t ≤ target then some c' else none

def isReadLoopHead : List Act → Bool
  | .readLoop _ :: _ => true
  | _ => false

/-- the read loop consumes one event: one step, then on until it is back at `readLoop` or done -/
def runReader (fuel : Nat) (c : Conn) : Option Conn :=
  match c.threads[1]? with
  | some (_ :: _) =>
    match step true c 1 with
    | none => none
    | some c1 =>
      let c2a := runWhile true (fun st => !st.isEmpty && !isReadLoopHead st) fuel c1 1
      -- the real loop evaluates `!Closed(c)` right after the handler returned, before it blocks in Read again:
      -- if the connection reports closed at that point the loop leaves now (and runs closeKnown)
      let c2 := if c2a.cancelled then runWhile true (fun st => !st.isEmpty) fuel c2a 1 else c2a
      match c2.threads[1]? with
      | some st => if st.isEmpty || isReadLoopHead st then some c2 else none
      | none => some c2
  | _ => some c

def showDisc (d : List Nat) : String := if d.isEmpty then "-" else ",".intercalate (d.map toString)

structure ScnOut where
  res : List String
  c : Conn
  hung : Bool

def runEvents (fuel : Nat) : List String → ScnOut → ScnOut
  | [], o => o
  | ev :: evs, o =>
    if o.hung then o else
    if ev.startsWith "m:" then
      let n0 := o.c.results.length
      match runUntilLen fuel o.c 0 (stackLen o.c 0 - 1) with
      | none => { o with hung := true }
      | some c' =>
        let r := if c'.results.length > n0 then (c'.results.getLast?.map (fun e => showRes e.2.2)).getD "-" else "-"
        runEvents fuel evs { o with res := o.res ++ [r], c := c' }
    else
      match runReader fuel o.c with
      | none => { o with hung := true }
      | some c' => runEvents fuel evs { o with c := c' }

def handlersTouchy (hs : List Handler) : Bool := !handlersSafe hs

def fuelOf (c : Conn) : Nat := 4 * weight c + 64

def parseEv : String → Option Ev
  | "r:p" => some (.pkt false) | "r:x" => some (.pkt true) | "r:e" => some .eof | _ => none

def b2s (b : Bool) : String := if b then "1" else "0"

def scn (hs : List Handler) (active : Option Nat) (events : List String) (impl : String) : String × String :=
  let mains := events.filterMap fun e => if e.startsWith "m:" then parseApi (e.drop 2).toString else none
  let script := events.filterMap parseEv
  let c0 := mkConn hs active [mains.map (Act.api · true), [.readLoop script]]
  let fuel := fuelOf c0
  let o := runEvents fuel events ⟨[], c0, false⟩
  -- snapshot with the read side still parked, then the harness ends the scenario by closing the input
  let pre := s!"{o.c.disc.length}/{b2s o.c.cancelled}"
  let fin := if o.hung then none else (runUntilLen fuel o.c 1 0)
  match fin with
  | none =>
    -- the model deadlocks; it does so only when a Disconnected() body calls Close()/Flush()
    ("hang", if impl = "hang" then (if handlersTouchy hs then "-" else "viol:deadlock") else "-")
  | some c =>
    let out := s!"res={if o.res.isEmpty then "-" else ",".intercalate o.res} pre={pre} disc={showDisc c.disc} handled={c.handled} panics={c.panics} closed={b2s c.cancelled} net={b2s c.netClosed} escaped=0"
    let verdict :=
      if impl = "hang" then "viol:deadlock" else
      let get := fun (k : String) => ((impl.splitOn " ").findSome? fun kv => match kv.splitOn "=" with
        | [a, b] => if a = k then some b else none | _ => none).getD "?"
      let ires := (get "res").splitOn ","
      let idisc := if get "disc" = "-" then 0 else ((get "disc").splitOn ",").length
      -- position of the first `Close`/`CloseUnknown` call (a returned Close) among the main events
      let mainEvs := events.filter (·.startsWith "m:")
      let firstClose := Nat.min (mainEvs.findIdx (fun e => e = "m:ck" || e = "m:cu")) (ires.findIdx (· = "other"))
      -- a write/flush error (any class) on the main goroutine must have closed the connection and torn the
      -- session down BEFORE the read side does anything (snapshot `pre`)
      let wroteErr := (List.range mainEvs.length).any fun i =>
        ["m:wp", "m:wr", "m:fl"].contains (mainEvs.getD i "") && ires.getD i "" = "other"
      let preOK := get "pre" = (if active.isSome then "1/1" else "0/1") || !active.isSome && (get "pre").endsWith "/1"
      let lateBad := (List.range mainEvs.length).any fun i =>
        i > firstClose && ["m:wp", "m:wr", "m:bp", "m:bl", "m:cw"].contains (mainEvs.getD i "") && ires.getD i "" != "closed"
      if get "escaped" != "0" then "viol:panic-escaped"
      else if wroteErr && !preOK then "viol:write-error-not-closed"
      else if get "closed" != "1" then "viol:not-closed"
      else if get "net" != "1" then "viol:socket-left-open"
      else if active.isSome && idisc != 1 then "viol:teardown-count"
      else if idisc > 1 then "viol:teardown-count"
      else if lateBad then "viol:write-after-close"
      else "ok"
    (out, verdict)

def par (hs : List Handler) (active : Option Nat) (threads : List (List Api)) (script : List Ev) (impl : String) :
    String × String :=
  let c0 := mkConn hs active (threads.map (·.map (Act.api · true)) ++ [[.readLoop script]])
  let fuel := fuelOf c0
  let c1 := roundRobin true fuel c0
  if !terminal c1 then ("hang", if impl = "hang" && handlersTouchy hs then "-" else "viol:deadlock") else
  -- two later writes by a fresh goroutine
  let tid := c1.threads.length
  let c2 := { c1 with threads := c1.threads ++ [[.api .writeFlush true, .api .buffer true]] }
  let c3 := roundRobin true 64 c2
  let later := (c3.results.filter (·.1 = tid)).map (fun e => showRes e.2.2)
  let okc := (c3.results.filter (fun e => e.2.1 && e.2.2 = .ok)).length
  let out := s!"disc={c3.disc.length} closed={b2s c3.cancelled} later={",".intercalate later} okclose={b2s (okc ≤ 1)} escaped=0"
  let verdict :=
    if impl = "hang" then "viol:deadlock" else
    let get := fun (k : String) => ((impl.splitOn " ").findSome? fun kv => match kv.splitOn "=" with
      | [a, b] => if a = k then some b else none | _ => none).getD "?"
    if get "escaped" != "0" then "viol:panic-escaped"
    else if get "closed" != "1" then "viol:not-closed"
    else if get "disc" != "1" then "viol:teardown-count"
    else if get "later" != "closed,closed" then "viol:write-after-close"
    else if get "okclose" != "1" then "viol:teardown-count"
    else "ok"
  (out, verdict)

/-- `wac <means> <state> <proto> <kind> <entry>`: the model has no state / protocol / packet-kind dimension because
    every write entry point decides on `Closed(c)` before anything else (`write_on_closed_reports_closed`, fact
    `writers_check_closed_first`): the connection is closed by `means`, then the entry point is called. -/
def wacCase (means entry : String) (impl : String) : String × String :=
  let closeActs : List Act := match means with
    | "ck" => [.api (.close true) false] | "cu" => [.api (.close false) false] | "cw" => [.api .closeWith false]
    | "we" => [.api (.failNet .connReset) false, .api .writeFlush false]
    | _ => []
  let script : List Ev := if means = "eof" then [.eof] else []
  let c0 := mkConn [⟨[], []⟩] (some 0) [closeActs, [.readLoop script]]
  let fuel := fuelOf c0
  let c1 := runWhile true (fun st => !st.isEmpty) fuel c0 0
  let c2 := if means = "eof" then runWhile true (fun st => !st.isEmpty) fuel c1 1 else c1
  match parseApi entry with
  | none => ("bad-case", "-")
  | some a =>
    let n0 := c2.results.length
    let c3 := runWhile true (fun st => !st.isEmpty) fuel { c2 with threads := c2.threads.set 0 [.api a true] } 0
    let out := if !c2.cancelled then "not-closed"
      else if c3.results.length > n0 then (c3.results.getLast?.map (fun e => showRes e.2.2)).getD "-" else "-"
    let verdict :=
      if impl = "hang" then "viol:deadlock" else if impl = "panic" then "viol:panic"
      else if impl = "not-closed" then "viol:not-closed"
      else if entry = "fl" then (if impl = "ok" then "viol:write-after-close-accepted" else "ok")
      else if impl = "ok" then "viol:write-after-close-accepted"
      else if impl != "closed" then "viol:write-after-close"
      else "ok"
    (out, verdict)

def stepCase (c : Case) : String × String :=
  if c.op = "wac" then
    match c.args with
    | [means, _, _, _, entry] => wacCase means entry c.impl
    | _ => ("bad-case", "-")
  else
  match c.args with
  | "H" :: rest =>
    let (hsT, rest1) := splitAt "A" rest
    match hsT.mapM parseHandler, rest1 with
    | some hs, act :: rest2 =>
      let active := if act = "-" then none else act.toNat?
      if c.op = "scn" then
        match rest2 with
        | "E" :: events => scn hs active events c.impl
        | _ => ("bad-case", "-")
      else if c.op = "par" then
        match rest2 with
        | "T" :: rest3 =>
          let (thT, scr) := splitAt "R" rest3
          let segs := (thT.filter (· != "|")).mapM parseApis
          let script := ((scr.headD "").toList.filterMap fun ch =>
            if ch = 'p' then some (Ev.pkt false) else if ch = 'x' then some (Ev.pkt true) else if ch = 'e' then some Ev.eof else none)
          match segs with
          | some ths => par hs active ths script c.impl
          | none => ("bad-case", "-")
        | _ => ("bad-case", "-")
      else ("bad-op", "-")
    | _, _ => ("bad-case", "-")
  | _ => ("bad-case", "-")

end Gate.C44

def main : IO Unit := Gate.runPureDriver Gate.C44.stepCase
