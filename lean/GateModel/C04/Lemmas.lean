import GateModel.C04.Model
import GateModel.C04.NumBounds
import GateModel.C03.Lemmas
/-
C04 — the generic round-trip theorem of the schema interpreter, by induction over `Schema`.
Leaf cases are the primitive lemmas of `GateModel.C03.Lemmas`.
-/
namespace Gate.C04
open Gate Gate.C03

/-! ## value domains -/

def Prim.wf : Prim → Val → Prop
  | .varint, v => ∃ i, v = .int i ∧ wfInt32 i
  | .sint n, v => ∃ i, v = .int i ∧ 0 < n ∧ -(2 ^ (8 * n - 1) : Nat) ≤ i ∧ i < (2 ^ (8 * n - 1) : Nat)
  | .uint n, v => ∃ u : Nat, v = .int u ∧ u < 256 ^ n
  | .bool, v => ∃ b, v = .bool b
  | .constBool _, v => v = .unit
  | .uuid, v => ∃ b, v = .bytes b ∧ b.length = 16
  | .uuidInts, v => ∃ b, v = .bytes b ∧ b.length = 16
  | .str max, v => ∃ b, v = .bytes b ∧ b.length ≤ max * 4 ∧ b.length < 2 ^ 31
  | .strNE max, v => ∃ b, v = .bytes b ∧ b ≠ [] ∧ b.length ≤ max * 4 ∧ b.length < 2 ^ 31
  | .bytes max, v => ∃ b, v = .bytes b ∧ b.length ≤ max ∧ b.length < 2 ^ 31
  | .bytes17 ext, v => ∃ b, v = .bytes b ∧ writeBytes17Ok ext b = true
  | .fixed n, v => ∃ b, v = .bytes b ∧ b.length = n
  | .key, v => ∃ k : Key, v = .pair (.bytes k.ns) (.bytes k.val) ∧ wfKey k
  | .minKey, v => ∃ k : Key, v = .pair (.bytes k.ns) (.bytes k.val) ∧ k.ns.all nsCharOk = true ∧
      k.val.all valCharOk = true ∧ k.ns ≠ [] ∧ wfString (minimalKey k)
  | .blob len, v => ∃ b, v = .bytes b ∧ ∀ rest, len (b ++ rest) = some b.length

def Schema.wf : Schema → Val → Prop
  | .unit, v => v = .unit
  | .fail, _ => False
  | .prim p, v => p.wf v
  | .seq a b, v => ∃ x y, v = .pair x y ∧ wf a x ∧ wf b y
  | .opt _ s, v => v = .none ∨ ∃ x, v = .some x ∧ wf s x
  | .optD d s, v => v = d ∨ (v ≠ d ∧ wf s v)
  | .arr _ max s, v => ∃ xs : List Val, v = Val.ofList xs ∧ (∀ x ∈ xs, wf s x) ∧ xs.length < 2 ^ 31 ∧
      overMax max xs.length = false
  | .sw tag n body dflt, v => ∃ t x, v = .pair (.int t) x ∧ tag.wf (.int t) ∧
      (if h : 0 ≤ t ∧ t.toNat < n then wf (body ⟨t.toNat, h.2⟩) x else wf dflt x)

def PSchema.wf (ps : PSchema) (v : Val) : Prop :=
  match ps.tail with
  | .none => ps.body.wf v
  | .rest max => ∃ x r, v = .pair x (.bytes r) ∧ ps.body.wf x ∧ overMax max r.length = false

/-! ## leaves -/

theorem getInt_int (i : Int) : (Val.int i).getInt = i := rfl

theorem elems_ofList (xs : List Val) : (Val.ofList xs).elems = xs := by
  induction xs with
  | nil => rfl
  | cons x t ih => simp [Val.ofList, Val.elems, ih]

theorem bytes17Ok_le (ext : Bool) (b : Bytes) (h : writeBytes17Ok ext b = true) :
    b.length ≤ forgeMaxArrayLength := by
  have hf : 32767 ≤ forgeMaxArrayLength := by decide
  unfold writeBytes17Ok at h
  cases ext <;> simp at h <;> omega

theorem splitColon_none (s : Bytes) (h : s.all valCharOk = true) : splitColon s = none := by
  induction s with
  | nil => rfl
  | cons a t ih =>
    simp only [List.all_cons, Bool.and_eq_true] at h
    have ha : a ≠ 58 := by intro hc; subst hc; exact absurd h.1 (by decide)
    simp only [splitColon, ha, if_false, ih h.2]

theorem parseKey_minimal (k : Key) (hns : k.ns.all nsCharOk = true) (hval : k.val.all valCharOk = true)
    (hne : k.ns ≠ []) : parseKey (minimalKey k) = k := by
  unfold minimalKey
  by_cases hm : k.ns = minecraftNs
  · rw [if_pos hm]; unfold parseKey; rw [splitColon_none _ hval]
    cases k; simp_all
  · rw [if_neg hm]; unfold parseKey keyString
    rw [List.append_assoc, List.singleton_append, splitColon_ns k.ns k.val hns]
    have : k.ns.isEmpty = false := by
      cases hk : k.ns with
      | nil => exact absurd hk hne
      | cons a t => rfl
    simp [this]

theorem prim_RT (p : Prim) : RT p.enc p.dec p.wf := by
  intro v rest h
  cases p with
  | varint =>
    obtain ⟨i, rfl, hi⟩ := h
    simp only [Prim.enc, Prim.dec, Val.getInt, varint_RT i rest hi, Prim.mapRd]
  | sint n =>
    obtain ⟨i, rfl, hn, h1, h2⟩ := h
    simp only [Prim.enc, Prim.dec, Val.getInt, readInt_rt n hn i rest h1 h2, Prim.mapRd]
  | uint n =>
    obtain ⟨u, rfl, hu⟩ := h
    simp only [Prim.enc, Prim.dec, Val.getInt, Int.toNat_natCast, readUint_rt n u rest hu, Prim.mapRd]
  | bool =>
    obtain ⟨b, rfl⟩ := h
    simp only [Prim.enc, Prim.dec, Val.getBool, readBool_rt, Prim.mapRd]
  | constBool b =>
    subst h
    simp only [Prim.enc, Prim.dec, readBool_rt, Prim.mapRd]
  | uuid =>
    obtain ⟨b, rfl, hb⟩ := h
    simp only [Prim.enc, Prim.dec, Val.getBytes, readUUID_rt b rest hb, Prim.mapRd]
  | uuidInts =>
    obtain ⟨b, rfl, hb⟩ := h
    simp only [Prim.enc, Prim.dec, Val.getBytes, readUUIDIntArray_rt b rest hb, Prim.mapRd]
  | str max =>
    obtain ⟨b, rfl, h1, h2⟩ := h
    have := readLenPrefixed_rt (max * 4) b rest h1 h2
    simp only [Prim.enc, Prim.dec, Val.getBytes, readStringMax, this, Prim.mapRd]
  | strNE max =>
    obtain ⟨b, rfl, hne, h1, h2⟩ := h
    have := readLenPrefixed_rt (max * 4) b rest h1 h2
    have he : b.isEmpty = false := by cases b <;> simp_all
    simp only [Prim.enc, Prim.dec, Val.getBytes, readStringMax, this, he]
    simp
  | bytes max =>
    obtain ⟨b, rfl, h1, h2⟩ := h
    have := readLenPrefixed_rt max b rest h1 h2
    simp only [Prim.enc, Prim.dec, Val.getBytes, readBytesLen, this, Prim.mapRd]
  | bytes17 ext =>
    obtain ⟨b, rfl, hb⟩ := h
    simp only [Prim.enc, Prim.dec, Val.getBytes, readBytes17_rt b rest (bytes17Ok_le ext b hb), Prim.mapRd]
  | fixed n =>
    obtain ⟨b, rfl, hb⟩ := h
    subst hb
    simp only [Prim.enc, Prim.dec, Val.getBytes, readFull_append, Prim.mapRd]
  | key =>
    obtain ⟨k, rfl, hk⟩ := h
    simp only [Prim.enc, Prim.dec, Val.fst, Val.snd, Val.getBytes, key_RT k rest hk, Prim.mapRd]
  | minKey =>
    obtain ⟨k, rfl, h1, h2, h3, h4⟩ := h
    simp only [Prim.enc, Prim.dec, Val.fst, Val.snd, Val.getBytes, string_RT _ rest h4, Prim.mapRd,
      parseKey_minimal k h1 h2 h3]
  | blob len =>
    obtain ⟨b, rfl, hb⟩ := h
    simp only [Prim.enc, Prim.dec, Val.getBytes, hb rest]
    simp

/-! ## the interpreter -/

theorem encode_sw (tag : Prim) (n : Nat) (body : Fin n → Schema) (dflt : Schema) (v : Val) :
    (Schema.sw tag n body dflt).encode v = tag.enc v.fst ++ (Schema.pick n body dflt v.fst.getInt).encode v.snd := by
  simp only [Schema.encode, Schema.pick]; split <;> rfl

theorem encOk_sw (tag : Prim) (n : Nat) (body : Fin n → Schema) (dflt : Schema) (v : Val) :
    (Schema.sw tag n body dflt).encOk v = (tag.encOk v.fst && (Schema.pick n body dflt v.fst.getInt).encOk v.snd) := by
  simp only [Schema.encOk, Schema.pick]; split <;> rfl

theorem decode_sw (tag : Prim) (n : Nat) (body : Fin n → Schema) (dflt : Schema) (bs : Bytes) :
    (Schema.sw tag n body dflt).decode bs =
      match tag.dec bs with
      | .error e => .error e
      | .ok (t, r) => match (Schema.pick n body dflt t.getInt).decode r with
        | .error e => .error e
        | .ok (x, r') => .ok (.pair t x, r') := by
  simp only [Schema.decode, Schema.pick]
  cases tag.dec bs with
  | error e => rfl
  | ok p =>
    obtain ⟨t, r⟩ := p
    simp only
    by_cases hc : 0 ≤ t.getInt ∧ t.getInt.toNat < n
    · simp only [dif_pos hc]; rfl
    · simp only [dif_neg hc]; rfl

theorem wf_sw (tag : Prim) (n : Nat) (body : Fin n → Schema) (dflt : Schema) (v : Val) :
    (Schema.sw tag n body dflt).wf v ↔
      ∃ t x, v = .pair (.int t) x ∧ tag.wf (.int t) ∧ (Schema.pick n body dflt t).wf x := by
  simp only [Schema.wf, Schema.pick]
  constructor
  · rintro ⟨t, x, h1, h2, h3⟩
    refine ⟨t, x, h1, h2, ?_⟩
    by_cases hc : 0 ≤ t ∧ t.toNat < n
    · simp only [dif_pos hc] at h3 ⊢; exact h3
    · simp only [dif_neg hc] at h3 ⊢; exact h3
  · rintro ⟨t, x, h1, h2, h3⟩
    refine ⟨t, x, h1, h2, ?_⟩
    by_cases hc : 0 ≤ t ∧ t.toNat < n
    · simp only [dif_pos hc] at h3 ⊢; exact h3
    · simp only [dif_neg hc] at h3 ⊢; exact h3

theorem pick_ind {P : Schema → Prop} (n : Nat) (body : Fin n → Schema) (dflt : Schema)
    (hb : ∀ i, P (body i)) (hd : P dflt) (t : Int) : P (Schema.pick n body dflt t) := by
  unfold Schema.pick; split
  · exact hb _
  · exact hd

theorem schema_RT (s : Schema) : RT s.encode s.decode s.wf := by
  induction s with
  | unit => intro v rest h; cases h; simp [Schema.encode, Schema.decode]
  | fail => intro v rest h; exact absurd h (by simp [Schema.wf])
  | prim p => exact prim_RT p
  | seq a b iha ihb =>
    intro v rest h
    obtain ⟨x, y, rfl, hx, hy⟩ := h
    simp only [Schema.encode, Schema.decode, Val.fst, Val.snd, List.append_assoc]
    rw [iha x _ hx]; simp only
    rw [ihb y _ hy]
  | opt present s ih =>
    intro v rest h
    rcases h with rfl | ⟨x, rfl, hx⟩
    · simp only [Schema.encode, Schema.decode, readBool_rt]
      cases present <;> simp
    · simp only [Schema.encode, Schema.decode, List.append_assoc, readBool_rt, if_true]
      rw [ih x _ hx]
  | optD d s ih =>
    intro v rest h
    rcases h with rfl | ⟨hne, hv⟩
    · simp only [Schema.encode, Schema.decode, if_true, readBool_rt]
      simp
    · simp only [Schema.encode, Schema.decode, if_neg hne, List.append_assoc, readBool_rt, if_true]
      exact ih v _ hv
  | arr neg max s ih =>
    intro v rest h
    obtain ⟨xs, rfl, hw, h31, hmax⟩ := h
    simp only [Schema.encode, Schema.decode, elems_ofList, writeList, List.append_assoc]
    rw [readVarInt_writeVarInt _ _ (by omega) (by omega)]
    simp only [show ¬ ((xs.length : Int) < 0) by omega, if_false, hmax, Int.toNat_natCast, Bool.false_eq_true]
    rw [readN_rt s.encode s.decode s.wf ih xs rest hw]
  | sw tag n body dflt ihb ihd =>
    intro v rest h
    obtain ⟨t, x, rfl, ht, hx⟩ := (wf_sw tag n body dflt v).1 h
    have ih := pick_ind (P := fun s => RT s.encode s.decode s.wf) n body dflt ihb ihd t
    rw [encode_sw, decode_sw]
    simp only [Val.fst, Val.snd, getInt_int, List.append_assoc]
    rw [prim_RT tag _ _ ht]; simp only [getInt_int]
    rw [ih x rest hx]

theorem schema_encOk (s : Schema) (v : Val) (h : s.wf v) : s.encOk v = true := by
  induction s generalizing v with
  | unit => rfl
  | fail => exact absurd h (by simp [Schema.wf])
  | prim p =>
    cases p <;> try rfl
    · obtain ⟨b, rfl, hb⟩ := h; simpa [Schema.encOk, Prim.encOk, Val.getBytes] using hb
    · obtain ⟨k, rfl, hk⟩ := h; simpa [Schema.encOk, Prim.encOk, Val.fst, Val.snd, Val.getBytes] using hk.1
  | seq a b iha ihb =>
    obtain ⟨x, y, rfl, hx, hy⟩ := h
    simp [Schema.encOk, Val.fst, Val.snd, iha x hx, ihb y hy]
  | opt present s ih =>
    rcases h with rfl | ⟨x, rfl, hx⟩
    · simp [Schema.encOk]
    · simp [Schema.encOk, ih x hx]
  | optD d s ih =>
    rcases h with rfl | ⟨hne, hv⟩
    · simp [Schema.encOk]
    · simp [Schema.encOk, hne, ih v hv]
  | arr neg max s ih =>
    obtain ⟨xs, rfl, hw, _, _⟩ := h
    simp only [Schema.encOk, elems_ofList, List.all_eq_true]
    exact fun x hx => ih x (hw x hx)
  | sw tag n body dflt ihb ihd =>
    obtain ⟨t, x, rfl, ht, hx⟩ := (wf_sw tag n body dflt v).1 h
    have h1 : tag.encOk (.int t) = true := by
      cases tag <;> try rfl
      · obtain ⟨b, hb, _⟩ := ht; cases hb
    have ih := pick_ind (P := fun s => ∀ v, s.wf v → s.encOk v = true) n body dflt ihb ihd t
    rw [encOk_sw]
    simp only [Val.fst, Val.snd, getInt_int, h1, Bool.true_and]
    exact ih x hx

theorem packet_RT (ps : PSchema) (v : Val) (h : ps.wf v) : ps.decode (ps.encode v) = .ok (v, []) := by
  unfold PSchema.wf at h
  unfold PSchema.decode PSchema.encode
  cases ht : ps.tail with
  | none =>
    rw [ht] at h; simp only
    have := schema_RT ps.body v [] h
    simpa using this
  | rest max =>
    rw [ht] at h; simp only
    obtain ⟨x, r, rfl, hx, hm⟩ := h
    simp only [Val.fst, Val.snd, Val.getBytes]
    rw [schema_RT ps.body x r hx]
    simp [hm]

/-! ## brigadier number bounds -/

theorem numBounds_RT (k : NumKind) (mn mx : Val) (rest : Bytes) (h1 : k.leaf.wf mn) (h2 : k.leaf.wf mx) :
    nbDecode k (nbEncode k mn mx ++ rest) = .ok ((mn, mx), rest) := by
  unfold nbDecode nbEncode nbFlag
  by_cases hmn : mn = k.lo <;> by_cases hmx : mx = k.hi
  · subst hmn; subst hmx
    simp [readByte]
  · subst hmn
    have := prim_RT k.leaf mx rest h2
    simp [readByte, hmx, this]
  · subst hmx
    have := prim_RT k.leaf mn rest h1
    simp [readByte, hmn, this]
  · have e1 := prim_RT k.leaf mn (k.leaf.enc mx ++ rest) h1
    have e2 := prim_RT k.leaf mx rest h2
    simp [readByte, hmn, hmx, e1, e2]

end Gate.C04
