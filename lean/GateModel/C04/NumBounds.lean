import GateModel.C04.Model
/-
C04 — the brigadier number-argument property codec (packet/brigadier/codecs.go: Float32/Float64/Int32/Int64
ArgumentPropertyCodec), the one argument property of AvailableCommands with protocol-level sentinels:

  flags byte = (min ≠ lo ? 0x01 : 0) | (max ≠ hi ? 0x02 : 0);  min is written iff min ≠ lo;  max iff max ≠ hi;
  the decoder starts from (lo, hi) and overwrites what the flags announce.

Floats are their IEEE bit patterns: `x != sentinel` on floats and on bit patterns coincide for these sentinels
(±MaxFloat have a unique bit pattern; NaN is unequal to everything under both readings).
The sentinels are brigodier's constants; note `brigodier.MinInt64 = math.MinInt32` (sic).
-/
namespace Gate.C04
open Gate Gate.C03

structure NumKind where
  leaf : Prim
  lo : Val
  hi : Val

def numKind : String → Option NumKind
  | "f32" => some ⟨.uint 4, .int 0xFF7FFFFF, .int 0x7F7FFFFF⟩                       -- ∓math.MaxFloat32
  | "f64" => some ⟨.uint 8, .int 0xFFEFFFFFFFFFFFFF, .int 0x7FEFFFFFFFFFFFFF⟩       -- ∓math.MaxFloat64
  | "i32" => some ⟨.sint 4, .int (-2147483648), .int 2147483647⟩
  | "i64" => some ⟨.sint 8, .int (-2147483648), .int 9223372036854775807⟩           -- brigodier.MinInt64 = math.MinInt32
  | _ => none

def nbFlag (k : NumKind) (mn mx : Val) : Nat := (if mn ≠ k.lo then 1 else 0) + (if mx ≠ k.hi then 2 else 0)

def nbEncode (k : NumKind) (mn mx : Val) : Bytes :=
  [UInt8.ofNat (nbFlag k mn mx)] ++ (if mn ≠ k.lo then k.leaf.enc mn else []) ++ (if mx ≠ k.hi then k.leaf.enc mx else [])

def nbDecode (k : NumKind) (bs : Bytes) : Rd (Val × Val) :=
  match readByte bs with
  | .error e => .error e
  | .ok (f, r) =>
    match (if f.toNat % 2 = 1 then k.leaf.dec r else .ok (k.lo, r)) with
    | .error e => .error e
    | .ok (mn, r1) =>
      match (if (f.toNat / 2) % 2 = 1 then k.leaf.dec r1 else .ok (k.hi, r1)) with
      | .error e => .error e
      | .ok (mx, r2) => .ok ((mn, mx), r2)

/-- the seeded variant: a bound is written only when it lies strictly INSIDE (lo, hi) — `min > lo`, `max < hi` -/
def nbEncodeOrdered (k : NumKind) (mn mx : Val) : Bytes :=
  let hasMin := decide (mn.getInt > k.lo.getInt)
  let hasMax := decide (mx.getInt < k.hi.getInt)
  [UInt8.ofNat ((if hasMin then 1 else 0) + (if hasMax then 2 else 0))] ++
    (if hasMin then k.leaf.enc mn else []) ++ (if hasMax then k.leaf.enc mx else [])

end Gate.C04
