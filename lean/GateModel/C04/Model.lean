import GateModel.C03.Model
/-
C04/C05 — a schema interpreter for packet bodies.

A `Schema` describes the wire layout of one packet type in one context (protocol, direction, state, id)
as DATA; `encode`/`decode` interpret it.  The leaves are the primitive codecs of
`GateModel.C03.Model` (the model of `util.Read*/Write*`), the combinators mirror the control
structures found in the Go `Encode/Decode` bodies:

  seq      two fields after one another
  opt      `WriteBool(x != nil); if x != nil { … }`            (pointer-style optional)
  optD     `WriteBool(x != zero); if x != zero { … }`          (sentinel-style optional)
  arr      `WriteVarInt(len(xs)); for … { … }` with the decoder's negative/maximum checks
  sw       `WriteVarInt(action); switch action { … }`           (tagged union, finitely many cases + default)
  fail     `default: return errInvalidAction`

Values are untyped S-expressions (`Val`); `Schema.wf` says which values a schema can carry.
Opaque blobs (NBT, player keys) are `Prim.blob len`: the value is the blob's wire bytes and `len`
says how many bytes the Go blob decoder consumes.
-/
namespace Gate.C04
open Gate Gate.C03

inductive Val where
  | unit
  | int (i : Int)
  | bool (b : Bool)
  | bytes (b : Bytes)
  | pair (a b : Val)
  | none
  | some (v : Val)
  | nil
  | cons (h t : Val)
  deriving DecidableEq, Repr, Inhabited

namespace Val
def getInt : Val → Int | .int i => i | _ => 0
def getBool : Val → Bool | .bool b => b | _ => false
def getBytes : Val → Bytes | .bytes b => b | _ => []
def fst : Val → Val | .pair a _ => a | _ => .unit
def snd : Val → Val | .pair _ b => b | _ => .unit
/-- elements of a `cons` chain -/
def elems : Val → List Val
  | .cons h t => h :: elems t
  | _ => []
def ofList : List Val → Val
  | [] => .nil
  | x :: xs => .cons x (ofList xs)
end Val

/-- primitive field codecs (leaves) -/
inductive Prim where
  | varint
  | sint (n : Nat)          -- big-endian two's complement, n bytes (Int8/16/32/64)
  | uint (n : Nat)          -- big-endian unsigned, n bytes (Byte, Uint16, Float32/64 bit patterns)
  | bool
  | constBool (b : Bool)    -- a bool the encoder always writes as `b` and the decoder reads and ignores
  | uuid
  | uuidInts
  | str (max : Nat)         -- WriteString / ReadStringMax max
  | strNE (max : Nat)       -- ReadStringMax max, then `if len(s) == 0 { return errEmpty… }`
  | bytes (max : Nat)       -- WriteBytes / ReadBytesLen max
  | bytes17 (ext : Bool)    -- WriteBytes17 _ ext / ReadBytes17
  | fixed (n : Nat)         -- n raw bytes (io.ReadFull into make([]byte, n))
  | key                     -- WriteKey / ReadKey
  | minKey                  -- WriteMinimalKey / ReadMinimalKey (namespace omitted when it is `minecraft`)
  | blob (len : Bytes → Option Nat)   -- self-delimiting opaque blob; value = its wire bytes

/-- `key.Minimal` -/
def minimalKey (k : Key) : Bytes := if k.ns = minecraftNs then k.val else keyString k

/-- `ReadMinimalKey` before the fix: the whole string became the value of a `minecraft` key -/
def readMinimalKeyDefective (bs : Bytes) : Rd Key :=
  match readString bs with
  | .ok (s, r) => .ok (⟨minecraftNs, s⟩, r)
  | .error e => .error e

/-- `make([]byte, length)` of a length-prefixed reader: performed after the `length < 0` / `length > cap` checks -/
def lenAlloc (cap : Nat) (bs : Bytes) : Nat :=
  match readVarInt bs with
  | .ok (len, _) => if len < 0 then 0 else if len > (cap : Int) then 0 else len.toNat
  | .error _ => 0

namespace Prim

def enc : Prim → Val → Bytes
  | .varint, v => writeVarInt v.getInt
  | .sint n, v => writeInt n v.getInt
  | .uint n, v => writeUint n v.getInt.toNat
  | .bool, v => writeBool v.getBool
  | .constBool b, _ => writeBool b
  | .uuid, v => writeUUID v.getBytes
  | .uuidInts, v => writeUUIDIntArray v.getBytes
  | .str _, v => writeBytes v.getBytes
  | .strNE _, v => writeBytes v.getBytes
  | .bytes _, v => writeBytes v.getBytes
  | .bytes17 _, v => writeBytes17 v.getBytes
  | .fixed _, v => v.getBytes
  | .key, v => writeKey ⟨v.fst.getBytes, v.snd.getBytes⟩
  | .minKey, v => writeBytes (minimalKey ⟨v.fst.getBytes, v.snd.getBytes⟩)
  | .blob _, v => v.getBytes

/-- does the Go writer accept the value (it returns an error otherwise) -/
def encOk : Prim → Val → Bool
  | .bytes17 ext, v => writeBytes17Ok ext v.getBytes
  | .key, v => keyValid ⟨v.fst.getBytes, v.snd.getBytes⟩
  | _, _ => true

def mapRd {α β} (f : α → β) : Rd α → Rd β
  | .ok (a, r) => .ok (f a, r)
  | .error e => .error e

def dec : Prim → Bytes → Rd Val
  | .varint, bs => mapRd .int (readVarInt bs)
  | .sint n, bs => mapRd .int (readInt n bs)
  | .uint n, bs => mapRd (fun u => .int (u : Nat)) (readUint n bs)
  | .bool, bs => mapRd .bool (readBool bs)
  | .constBool _, bs => mapRd (fun _ => .unit) (readBool bs)
  | .uuid, bs => mapRd .bytes (readUUID bs)
  | .uuidInts, bs => mapRd .bytes (readUUIDIntArray bs)
  | .str max, bs => mapRd .bytes (readStringMax max bs)
  | .strNE max, bs =>
    match readStringMax max bs with
    | .ok (b, r) => if b.isEmpty then .error .invalid else .ok (.bytes b, r)
    | .error e => .error e
  | .bytes max, bs => mapRd .bytes (readBytesLen max bs)
  | .bytes17 _, bs => mapRd .bytes (readBytes17 bs)
  | .fixed n, bs => mapRd .bytes (readFull n bs)
  | .key, bs => mapRd (fun k => .pair (.bytes k.ns) (.bytes k.val)) (readKey bs)
  | .minKey, bs => mapRd (fun s => let k := parseKey s; .pair (.bytes k.ns) (.bytes k.val)) (readString bs)
  | .blob len, bs =>
    match len bs with
    | Option.none => .error .invalid
    | Option.some n => if n ≤ bs.length then .ok (.bytes (bs.take n), bs.drop n) else .error .eof

/-- bytes the Go reader allocates for this leaf with a size taken from the wire (`make([]byte, n)` after
    the length checks, before `io.ReadFull`), and whether the read then succeeded.  Fixed-width
    scalars allocate nothing that depends on the input. -/
def alloc : Prim → Bytes → Nat
  | .str max, bs | .strNE max, bs => lenAlloc (max * 4) bs
  | .bytes max, bs => lenAlloc max bs
  | .bytes17 _, bs =>
    match readExtShort bs with
    | .ok (len, _) => if len > forgeMaxArrayLength then 0 else len
    | .error _ => 0
  | .key, bs | .minKey, bs => lenAlloc (defaultMaxStringSize * 4) bs
  | .fixed n, _ => n
  | .uuid, _ => 16
  | .blob len, bs => match len bs with | Option.some n => min n bs.length | Option.none => bs.length
  | _, _ => 0

/-- static upper bound of `alloc` that is NOT backed by input bytes -/
def cap : Prim → Nat
  | .str max | .strNE max => max * 4
  | .bytes max => max
  | .bytes17 _ => forgeMaxArrayLength
  | .key | .minKey => defaultMaxStringSize * 4
  | .fixed n => n
  | .uuid => 16
  | _ => 0

end Prim

/-- what the decoder does with a negative element count -/
inductive NegMode where
  | err      -- explicit check, or `make([]T, n)` panics (converted to an error by RecoverFunc)
  | empty    -- `for i := 0; i < n; i++` simply does not iterate
  deriving DecidableEq, Repr

inductive Schema where
  | unit
  | fail
  | prim (p : Prim)
  | seq (a b : Schema)
  | opt (present : Bool) (s : Schema)
  | optD (d : Val) (s : Schema)
  | arr (neg : NegMode) (max : Option Nat) (s : Schema)
  | sw (tag : Prim) (n : Nat) (body : Fin n → Schema) (dflt : Schema)   -- tag t selects `body t` for 0 ≤ t < n, else `dflt`

/-- the case a tag selects -/
def Schema.pick (n : Nat) (body : Fin n → Schema) (dflt : Schema) (t : Int) : Schema :=
  if h : 0 ≤ t ∧ t.toNat < n then body ⟨t.toNat, h.2⟩ else dflt

def overMax : Option Nat → Int → Bool
  | Option.none, _ => false
  | Option.some m, n => n > (m : Nat)

namespace Schema

def encode : Schema → Val → Bytes
  | .unit, _ => []
  | .fail, _ => []
  | .prim p, v => p.enc v
  | .seq a b, v => encode a v.fst ++ encode b v.snd
  | .opt present s, v =>
    match v with
    | .some x => writeBool present ++ encode s x
    | _ => writeBool (!present)
  | .optD d s, v => if v = d then writeBool false else writeBool true ++ encode s v
  | .arr _ _ s, v => writeList (encode s) v.elems
  | .sw tag n body dflt, v =>
    tag.enc v.fst ++
      (if h : 0 ≤ v.fst.getInt ∧ v.fst.getInt.toNat < n then encode (body ⟨v.fst.getInt.toNat, h.2⟩) v.snd
       else encode dflt v.snd)

/-- would the Go encoder return an error -/
def encOk : Schema → Val → Bool
  | .unit, _ => true
  | .fail, _ => false
  | .prim p, v => p.encOk v
  | .seq a b, v => encOk a v.fst && encOk b v.snd
  | .opt _ s, v => match v with | .some x => encOk s x | _ => true
  | .optD d s, v => if v = d then true else encOk s v
  | .arr _ _ s, v => v.elems.all (encOk s)
  | .sw tag n body dflt, v =>
    tag.encOk v.fst &&
      (if h : 0 ≤ v.fst.getInt ∧ v.fst.getInt.toNat < n then encOk (body ⟨v.fst.getInt.toNat, h.2⟩) v.snd
       else encOk dflt v.snd)

def decode : Schema → Bytes → Rd Val
  | .unit, bs => .ok (.unit, bs)
  | .fail, _ => .error .invalid
  | .prim p, bs => p.dec bs
  | .seq a b, bs =>
    match decode a bs with
    | .error e => .error e
    | .ok (x, r) => match decode b r with
      | .error e => .error e
      | .ok (y, r') => .ok (.pair x y, r')
  | .opt present s, bs =>
    match readBool bs with
    | .error e => .error e
    | .ok (b, r) =>
      if b = present then
        match decode s r with
        | .error e => .error e
        | .ok (x, r') => .ok (.some x, r')
      else .ok (.none, r)
  | .optD d s, bs =>
    match readBool bs with
    | .error e => .error e
    | .ok (b, r) => if b then decode s r else .ok (d, r)
  | .arr neg max s, bs =>
    match readVarInt bs with
    | .error e => .error e
    | .ok (n, r) =>
      if n < 0 then (match neg with | .err => .error .negative | .empty => .ok (.nil, r))
      else if overMax max n then .error .tooLong
      else match readN (decode s) n.toNat r with
        | .error e => .error e
        | .ok (xs, r') => .ok (Val.ofList xs, r')
  | .sw tag n body dflt, bs =>
    match tag.dec bs with
    | .error e => .error e
    | .ok (t, r) =>
      match (if h : 0 ≤ t.getInt ∧ t.getInt.toNat < n then decode (body ⟨t.getInt.toNat, h.2⟩) r else decode dflt r) with
      | .error e => .error e
      | .ok (x, r') => .ok (.pair t x, r')

end Schema

/-- the packet's tail: nothing, or "all remaining bytes" (`io.ReadAll`, optionally through a LimitReader with a
    too-large check) -/
inductive Tail where
  | none
  | rest (max : Option Nat)

structure PSchema where
  body : Schema
  tail : Tail := .none
  /-- the model's decode outcome is meant to equal Go's on ARBITRARY bytes (no abstraction such as x509 /
      uuid.Parse / JSON parsing sits between the wire and the decoded struct) -/
  exact : Bool := true
  /-- on arbitrary accepted bytes the decoded VALUES are also meant to equal what the harness extracts from Go's
      struct (false where Go normalises: channel-name rewriting, Go maps) -/
  vals : Bool := true

namespace PSchema

def encode (ps : PSchema) (v : Val) : Bytes :=
  match ps.tail with
  | .none => ps.body.encode v
  | .rest _ => ps.body.encode v.fst ++ v.snd.getBytes

def encOk (ps : PSchema) (v : Val) : Bool :=
  match ps.tail with
  | .none => ps.body.encOk v
  | .rest _ => ps.body.encOk v.fst

def decode (ps : PSchema) (bs : Bytes) : Rd Val :=
  match ps.tail with
  | .none => ps.body.decode bs
  | .rest max =>
    match ps.body.decode bs with
    | .error e => .error e
    | .ok (x, r) => if overMax max r.length then .error .tooLong else .ok (.pair x (.bytes r), [])

end PSchema

/-! ## the NBT skipper (go-mc `Decoder.rawRead`, as used by `util.ReadBinaryTag` into a `nbt.RawMessage`) -/

def beInt (n : Nat) (bs : Bytes) : Option (Int × Bytes) :=
  match readInt n bs with
  | .ok (v, r) => some (v, r)
  | .error _ => none

/-- `readString`: int16 length, negative rejected -/
def nbtSkipString (bs : Bytes) : Option Bytes :=
  match beInt 2 bs with
  | none => none
  | some (len, r) => if len < 0 then none else if len.toNat ≤ r.length then some (r.drop len.toNat) else none

mutual
/-- skip one payload of type `t`; fuel bounds the number of `rawRead` calls -/
def nbtSkip : Nat → Nat → Bytes → Option Bytes
  | 0, _, _ => none
  | fuel + 1, t, bs =>
    match t with
    | 1 => if 1 ≤ bs.length then some (bs.drop 1) else none
    | 2 => if 2 ≤ bs.length then some (bs.drop 2) else none
    | 3 => if 4 ≤ bs.length then some (bs.drop 4) else none
    | 5 => if 4 ≤ bs.length then some (bs.drop 4) else none
    | 4 => if 8 ≤ bs.length then some (bs.drop 8) else none
    | 6 => if 8 ≤ bs.length then some (bs.drop 8) else none
    | 8 => nbtSkipString bs
    | 7 => match beInt 4 bs with
      | none => none
      | some (len, r) => if len ≤ 0 then some r else if len.toNat ≤ r.length then some (r.drop len.toNat) else none
    | 11 => match beInt 4 bs with
      | none => none
      | some (len, r) => if len ≤ 0 then some r else if 4 * len.toNat ≤ r.length then some (r.drop (4 * len.toNat)) else none
    | 12 => match beInt 4 bs with
      | none => none
      | some (len, r) => if len ≤ 0 then some r else if 8 * len.toNat ≤ r.length then some (r.drop (8 * len.toNat)) else none
    | 9 => match bs with
      | [] => none
      | lt :: r0 => match beInt 4 r0 with
        | none => none
        | some (len, r) => if len ≤ 0 then some r else nbtSkipList fuel lt.toNat len.toNat r
    | 10 => nbtSkipCompound fuel bs
    | _ => none
/-- `for i < n { rawRead(lt) }` -/
def nbtSkipList : Nat → Nat → Nat → Bytes → Option Bytes
  | 0, _, _, _ => none
  | _ + 1, _, 0, bs => some bs
  | fuel + 1, lt, n + 1, bs =>
    match nbtSkip fuel lt bs with
    | none => none
    | some r => nbtSkipList fuel lt n r
/-- `for { tt, name := readTag(); if tt == End break; rawRead(tt) }` -/
def nbtSkipCompound : Nat → Bytes → Option Bytes
  | 0, _ => none
  | _ + 1, [] => none
  | fuel + 1, tt :: r =>
    if tt = 0 then some r
    else if tt = 0x1f ∨ tt = 0x78 then none
    else match nbtSkipString r with
      | none => none
      | some r1 => match nbtSkip fuel tt.toNat r1 with
        | none => none
        | some r2 => nbtSkipCompound fuel r2
end

/-- number of bytes `util.ReadBinaryTag` consumes: type byte, (for protocols < 1.20.2 two name-length bytes
    that are skipped unread), then the payload; `TagEnd` as the root is rejected (`ErrEND`). -/
def nbtLen (named : Bool) (bs : Bytes) : Option Nat :=
  match bs with
  | [] => none
  | t :: r =>
    let hdr := if named then 2 else 0
    if r.length < hdr then none
    else if t = 0 then none
    else match nbtSkip (2 * bs.length + 4) t.toNat (r.drop hdr) with
      | none => none
      | some rest => some (bs.length - rest.length)

/-- `util.ReadCompoundTag`: `ReadBinaryTag`, then the root type must be TAG_Compound -/
def nbtCompoundLen (named : Bool) (bs : Bytes) : Option Nat :=
  match bs with
  | t :: _ => if t = 10 then nbtLen named bs else none
  | [] => none

/-- `crypto.ReadPlayerKey`: int64 expiry, ReadBytes key, ReadBytesLen 4096 signature (the key must also
    parse as a PKIX RSA public key — not modelled, hence schemas using it are not `exact`) -/
def playerKeyLen (bs : Bytes) : Option Nat :=
  match readInt 8 bs with
  | .error _ => none
  | .ok (_, r1) => match readBytes r1 with
    | .error _ => none
    | .ok (_, r2) => match readBytesLen 4096 r2 with
      | .error _ => none
      | .ok (_, r3) => some (bs.length - r3.length)

end Gate.C04
