import GateModel.Base.Line
import GateModel.C04.Packets
/-
C04/C05 — executable glue shared by both drivers: the textual form of `Val`, the decidable version of
`Schema.wf`, and the evaluation of one case line.  Core Lean only.

Val text (no spaces):  u | i<int> | T | F | x<hex> | N | S<val> | [v,v,…] | (v,v,…)   — `(a,b,c)` is `pair a (pair b c)`.
-/
namespace Gate.C04
open Gate Gate.C03

/-! ### printing -/

def hexOf (bs : Bytes) : String :=
  String.ofList (bs.foldr (fun b acc => hexChar (b.toNat / 16) :: hexChar (b.toNat % 16) :: acc) [])

partial def Val.show : Val → String
  | .unit => "u"
  | .int i => "i" ++ toString i
  | .bool b => if b then "T" else "F"
  | .bytes b => "x" ++ hexOf b
  | .none => "N"
  | .some v => "S" ++ v.show
  | .nil => "[]"
  | .cons h t => "[" ++ ",".intercalate ((Val.cons h t).elems.map Val.show) ++ "]"
  | .pair a b => "(" ++ ",".intercalate (flat (.pair a b)) ++ ")"
where
  flat : Val → List String
    | .pair a b => a.show :: flat b
    | v => [v.show]

/-! ### parsing -/

def takeWhileC (p : Char → Bool) : List Char → List Char × List Char
  | [] => ([], [])
  | c :: r => if p c then let (a, b) := takeWhileC p r; (c :: a, b) else ([], c :: r)

def isHexC (c : Char) : Bool := (hexDigitVal c).isSome

def mkPairs : List Val → Val
  | [] => .unit
  | [a] => a
  | a :: r => .pair a (mkPairs r)

mutual
partial def parseV : List Char → Option (Val × List Char)
  | 'u' :: r => some (.unit, r)
  | 'T' :: r => some (.bool true, r)
  | 'F' :: r => some (.bool false, r)
  | 'N' :: r => some (.none, r)
  | 'S' :: r => do let (v, r') ← parseV r; pure (.some v, r')
  | 'i' :: r =>
    let (ds, r') := takeWhileC (fun c => c.isDigit || c = '-') r
    do let i ← (String.ofList ds).toInt?; pure (.int i, r')
  | 'x' :: r =>
    let (hs, r') := takeWhileC isHexC r
    do let b ← parseHexChars hs; pure (.bytes b, r')
  | '[' :: ']' :: r => some (.nil, r)
  | '[' :: r => do let (xs, r') ← parseSeq ']' r; pure (Val.ofList xs, r')
  | '(' :: r => do let (xs, r') ← parseSeq ')' r; pure (mkPairs xs, r')
  | _ => none
partial def parseSeq (close : Char) (cs : List Char) : Option (List Val × List Char) := do
  let (v, r) ← parseV cs
  match r with
  | ',' :: r' => do let (vs, r'') ← parseSeq close r'; pure (v :: vs, r'')
  | c :: r' => if c = close then pure ([v], r') else none
  | [] => none
end

def parseVal (s : String) : Option Val :=
  match parseV s.toList with
  | some (v, []) => some v
  | _ => none

/-! ### decidable well-formedness (mirrors `Schema.wf`; for blobs: self-delimiting on the blob itself) -/

def inRange (lo hi : Int) (i : Int) : Bool := decide (lo ≤ i ∧ i < hi)

def Prim.wfB : Prim → Val → Bool
  | .varint, .int i => inRange (-(2 ^ 31)) (2 ^ 31) i
  | .sint n, .int i => decide (0 < n) && inRange (-(2 ^ (8 * n - 1) : Nat)) ((2 ^ (8 * n - 1) : Nat)) i
  | .uint n, .int i => inRange 0 ((256 ^ n : Nat)) i
  | .bool, .bool _ => true
  | .constBool _, .unit => true
  | .uuid, .bytes b => b.length = 16
  | .uuidInts, .bytes b => b.length = 16
  | .str max, .bytes b => decide (b.length ≤ max * 4 ∧ b.length < 2 ^ 31)
  | .strNE max, .bytes b => !b.isEmpty && decide (b.length ≤ max * 4 ∧ b.length < 2 ^ 31)
  | .bytes max, .bytes b => decide (b.length ≤ max ∧ b.length < 2 ^ 31)
  | .bytes17 ext, .bytes b => writeBytes17Ok ext b
  | .fixed n, .bytes b => b.length = n
  | .key, .pair (.bytes ns) (.bytes val) =>
    keyValid ⟨ns, val⟩ && !ns.isEmpty && decide ((keyString ⟨ns, val⟩).length ≤ defaultMaxStringSize * 4)
  | .minKey, .pair (.bytes ns) (.bytes val) =>
    ns.all nsCharOk && val.all valCharOk && !ns.isEmpty &&
      decide ((minimalKey ⟨ns, val⟩).length ≤ defaultMaxStringSize * 4)
  | .blob len, .bytes b => len b == some b.length
  | _, _ => false

def Schema.wfB : Schema → Val → Bool
  | .unit, v => v == .unit
  | .fail, _ => false
  | .prim p, v => p.wfB v
  | .seq a b, .pair x y => wfB a x && wfB b y
  | .opt _ _, .none => true
  | .opt _ s, .some x => wfB s x
  | .optD d s, v => v == d || wfB s v
  | .arr _ max s, v =>
    let xs := v.elems
    Val.ofList xs == v && xs.all (wfB s) && decide (xs.length < 2 ^ 31) && !overMax max xs.length
  | .sw tag n body dflt, .pair (.int t) x =>
    tag.wfB (.int t) && (if h : 0 ≤ t ∧ t.toNat < n then wfB (body ⟨t.toNat, h.2⟩) x else wfB dflt x)
  | _, _ => false

def PSchema.wfB (ps : PSchema) (v : Val) : Bool :=
  match ps.tail, v with
  | .none, v => ps.body.wfB v
  | .rest max, .pair x (.bytes r) => ps.body.wfB x && !overMax max r.length
  | _, _ => false

/-! ### case evaluation -/

def parseCtx : List String → Option (String × Ctx × List String)
  | name :: p :: d :: st :: id :: rest => do
    pure (name, { proto := ← p.toInt?, dir := ← d.toNat?, state := ← st.toNat?, id := ← id.toInt? }, rest)
  | _ => none

def showDec (withVal : Bool) : Rd Val → String
  | .ok (v, rest) => "ok left=" ++ toString rest.length ++ (if withVal then " " ++ v.show else "")
  | .error _ => "err"

/-- `enc`: the bytes the model's encoder produces for the value the harness extracted from the Go packet -/
def stepEnc (ps : PSchema) (v : Val) : String :=
  if ps.encOk v then "ok " ++ toHex (ps.encode v) else "err"

/-- `rt`: encode, decode, re-encode in the model -/
def stepRt (ps : PSchema) (v : Val) : String :=
  let e := ps.encode v
  match ps.decode e with
  | .ok (v', rest) =>
    "ok " ++ v'.show ++ " left=" ++ toString rest.length ++ " re=" ++ (if ps.encode v' = e then "1" else "0")
  | .error _ => "err-dec"

def wantRt (v : Val) : String := "ok " ++ v.show ++ " left=0 re=1"

end Gate.C04
