import GateModel.C04.Exec
import GateModel.C04.NumBounds
/-
C04 driver.  Case lines (`<ctx>` = `<type> <protocol> <direction> <registry> <packet-id>`):
  class <type>            model: full | opaque | unmodelled   (classification table, compared with the harness')
  enc <ctx> <val>         model: `ok <hex>` — the bytes the schema encoder produces for the value the harness
                          extracted from the Go packet (impl: the bytes the real Encode produced)
  rt  <ctx> <val>         model: encode→decode→re-encode in the model; impl: the same through the real
                          Encode/Decode with the value extracted from the DECODED Go packet.
                          verdict: for a well-formed value the implementation must give the value back, leave
                          no bytes and re-encode identically
  rtx <ctx> <val>         like `rt` for very large values: the model side is given by theorem `packet_roundtrip`
  nb <kind> <min> <max>   the brigadier number-bounds property codec (f32/f64 as bit patterns, i32, i64): model bytes and
                          decoded bounds; verdict: the implementation's decoded bounds equal the ORIGINAL bounds
  gort <ctx>              no model (all registered types, also those without a schema): the Go-side
                          encode→decode→re-encode→decode check; verdict on the implementation's summary
-/
namespace Gate.C04
open Gate

def step (c : Case) : String × String :=
  match c.op with
  | "class" => (match c.args with | [t] => classOf t | _ => "bad-op", "-")
  | "gort" =>
    match parseCtx c.args with
    | some (name, _, _) =>
      -- `orig=1`: (types whose Go values are compared directly) the decoded value equals the ORIGINAL value
      (c.impl, if c.impl = "ok left=0 re=1 eq=1" ∨ c.impl = "ok left=0 re=1 eq=1 orig=1" then "ok"
               else "viol:go-roundtrip-" ++ name)
    | none => ("bad-op", "-")
  | "nbconst" =>
    match c.args with
    | [kind, lo, hi] =>
      match numKind kind with
      | some k => (if k.lo.show = "i" ++ lo ∧ k.hi.show = "i" ++ hi then "ok" else "sentinels-differ", "-")
      | none => ("bad-op", "-")
    | _ => ("bad-op", "-")
  | "nb" =>
    match c.args with
    | [kind, mn, mx] =>
      match numKind kind, mn.toInt?, mx.toInt? with
      | some k, some a, some b =>
        let e := nbEncode k (.int a) (.int b)
        let want := "dec=" ++ toString a ++ "," ++ toString b
        let model := match nbDecode k e with
          | .ok ((x, y), _) => "ok " ++ toHex e ++ " dec=" ++ toString x.getInt ++ "," ++ toString y.getInt
          | .error _ => "ok " ++ toHex e ++ " err-dec"
        (model, if (c.impl.splitOn " ").getLast? = some want then "ok" else "viol:number-bounds-" ++ kind)
      | _, _, _ => ("bad-op", "-")
    | _ => ("bad-op", "-")
  | op =>
    match parseCtx c.args with
    | some (name, ctx, [vs]) =>
      match schemaOf name ctx, parseVal vs with
      | some ps, some v =>
        if op = "enc" then (stepEnc ps v, "-")
        else if op = "rt" then
          (stepRt ps v, if ps.wfB v then (if c.impl = wantRt v then "ok" else "viol:roundtrip-" ++ name) else "-")
        else if op = "rtx" then
          -- large values: the model's answer is taken from theorem `packet_roundtrip` (a well-formed value comes back,
          -- nothing is left, re-encoding is identical) instead of running the list-based model decoder
          if ps.wfB v then (wantRt v, if c.impl = wantRt v then "ok" else "viol:roundtrip-" ++ name) else (c.impl, "-")
        else ("bad-op", "-")
      | none, _ => ("no-schema", "-")
      | _, none => ("bad-val", "-")
    | _ => ("bad-op", "-")

end Gate.C04

def main : IO Unit := Gate.runPureDriver Gate.C04.step
