import GateModel.C04.Model
import GateModel.Gen.C04
/-
C04/C05 — per-packet schemas as DATA, transcribed by hand from the Go `Encode/Decode` bodies under
pkg/edition/java/proto/packet/.  A schema is a function of the packet context (protocol, direction,
registry/state, packet id) because the Go bodies branch on `c.Protocol`, `c.Direction`, `c.PacketID` and (for
DialogShow) on the state the registry sets.  Version numbers are the regenerated ones (`Gate.Gen.C04.versionsV`).

Type names are `reflect.Type.String()` of the registered packet types, the same strings the regenerated
registry table (`Gate.Gen.C04.registryTypes`) uses.
-/
namespace Gate.C04
open Gate Gate.C03
open Gate.Gen.C04.versionsV

structure Ctx where
  proto : Int
  dir : Nat      -- proto.Direction: 0 = ClientBound, 1 = ServerBound
  state : Nat    -- registry index as in `Gate.Gen.C04.registryStates`: 0 Handshake, 1 Status, 2 Config, 3 Login, 4 Play
  id : Int

def clientBound : Nat := 0
def serverBound : Nat := 1

/-- right-nested sequence; `[]` is the empty body, `[a]` is `a` itself -/
def seqs : List Schema → Schema
  | [] => .unit
  | [a] => a
  | a :: r => .seq a (seqs r)

/-- fields that exist only under a condition on the context -/
def onlyIf (c : Bool) (fs : List Schema) : List Schema := if c then fs else []

def fields (groups : List (List Schema)) : Schema := seqs groups.flatten

def dms : Nat := defaultMaxStringSize
def maxPre : Nat := Gate.Gen.C04.maxPreAllocSize.toNat

abbrev P (p : Prim) : Schema := .prim p
def varint := P .varint
def i16 := P (.sint 2)
def i32 := P (.sint 4)
def i64 := P (.sint 8)
def u8 := P (.uint 1)
def f32 := P (.uint 4)
def bool := P .bool
def uuid := P .uuid
def str (max : Nat) := P (.str max)
def string := P (.str dms)
def bytesMax (max : Nat) := P (.bytes max)
def key := P .key
def nbt (named : Bool) := P (.blob (nbtLen named))
def nbtC (named : Bool) := P (.blob (nbtCompoundLen named))
def playerKey := P (.blob playerKeyLen)
def zeroUUID : Val := .bytes (List.replicate 16 0)

/-- `chat.ComponentHolder.read/Write`: a JSON string below 1.20.3, a nameless binary tag from 1.20.3 -/
def component (proto : Int) : Schema :=
  if proto ≥ Minecraft_1_20_3 then nbt (decide (proto < Minecraft_1_20_2)) else string

/-- util.WriteProperties / ReadProperties -/
def props : Schema :=
  .arr .err none (seqs [string, string, .optD (.bytes []) string])

/-- chat.LastSeenMessages -/
def lastSeen (proto : Int) : Schema :=
  fields [[varint, P (.fixed 3)], onlyIf (proto ≥ Minecraft_1_21_5) [u8]]

/-- tagged union with the cases listed for tags 0, 1, 2, … and a default for every other tag -/
def swL (tag : Prim) (cases : List Schema) (dflt : Schema) : Schema :=
  .sw tag cases.length (fun i => cases.get i) dflt

/-- `DeathPosition.encode` / `decodeDeathPosition` -/
def deathPos : Schema := .opt true (seqs [string, i64])

/-- the dimension identifier; `DimensionInfo.Validate` rejects an empty one below 1.20.5 -/
def dimensionId (proto : Int) : Schema := if proto < Minecraft_1_20_5 then P (.strNE dms) else string

/-- the sound-source ordinal: `UI` (10) is rejected below 1.21.5 -/
def soundSource (proto : Int) : Schema :=
  swL .varint (List.replicate 10 .unit ++ [if proto < Minecraft_1_21_5 then .fail else .unit]) .unit

def mk (body : Schema) : PSchema := { body := body }

def schemaOf (name : String) (c : Ctx) : Option PSchema :=
  let p := c.proto
  match name with
  /- ---------- handshake / status / login ---------- -/
  | "packet.Handshake" => some <| mk <| seqs [varint, string, i16, varint]
  | "packet.StatusRequest" => some <| mk .unit
  | "packet.StatusPing" => some <| mk i64
  | "packet.StatusResponse" => some <| mk string
  | "packet.ServerLogin" => some
      { body := fields [[P (.strNE 16)],
          onlyIf (p ≥ Minecraft_1_19 ∧ p < Minecraft_1_19_3) [.opt true playerKey],
          onlyIf (p ≥ Minecraft_1_20_2) [uuid],
          onlyIf (p ≥ Minecraft_1_19_1 ∧ p < Minecraft_1_20_2) [.optD zeroUUID uuid]],
        exact := !(decide (p ≥ Minecraft_1_19 ∧ p < Minecraft_1_19_3)) }
  | "packet.EncryptionRequest" => some <| mk <|
      if p ≥ Minecraft_1_8 then
        fields [[str 20, bytesMax 256, bytesMax 16], onlyIf (p ≥ Minecraft_1_20_5) [bool]]
      else seqs [str 20, P (.bytes17 false), P (.bytes17 false)]
  | "packet.EncryptionResponse" => some <| mk <|
      if p ≥ Minecraft_1_8 then
        fields [[bytesMax 128],
          onlyIf (p ≥ Minecraft_1_19 ∧ p < Minecraft_1_19_3) [.opt false i64],
          [bytesMax (if p < Minecraft_1_19 then 128 else 256)]]
      else seqs [P (.bytes17 false), P (.bytes17 false)]
  | "packet.ServerLoginSuccess" => some
      { body := fields [
          [if p ≥ Minecraft_1_19 then uuid else if p ≥ Minecraft_1_16 then P .uuidInts
           else if p ≥ Minecraft_1_7_6 then str 36 else str 32],
          [str 16],
          onlyIf (p ≥ Minecraft_1_19) [props],
          onlyIf (p = Minecraft_1_20_5 ∨ p = Minecraft_1_21) [P (.constBool true)],
          onlyIf (p ≥ Minecraft_26_2) [uuid]],
        exact := decide (p ≥ Minecraft_1_16) }     -- below 1.16 the id is text that must also pass uuid.Parse
  | "packet.SetCompression" => some <| mk varint
  | "packet.LoginPluginMessage" => some { body := seqs [varint, string], tail := .rest none }
  | "packet.LoginPluginResponse" => some { body := seqs [varint, bool], tail := .rest none }
  | "packet.LoginAcknowledged" => some <| mk .unit
  /- ---------- shared simple packets ---------- -/
  | "packet.KeepAlive" => some <| mk <|
      if p ≥ Minecraft_1_12_2 then i64 else if p ≥ Minecraft_1_8 then varint else i32
  | "packet.PingIdentify" => some <| mk i32
  | "packet.Disconnect" =>
      -- `c.PacketID == 0x00 && c.Direction == ClientBound` (the login-state disconnect) always uses the 1.20.2 codec
      some <| mk <| component (if c.id = 0 ∧ c.dir = clientBound then Minecraft_1_20_2 else p)
  | "plugin.Message" => some <|
      if p ≥ Minecraft_1_8 then
        { body := string, tail := .rest (if c.dir = serverBound then some 32767 else none),
          vals := decide (p < Minecraft_1_13) }   -- from 1.13 Decode rewrites legacy channel names
      else mk <| seqs [string, P (.bytes17 true)]
  | "packet.ClientSettings" => some <| mk <| fields [
      [str 16, u8, varint, bool],
      onlyIf (p ≤ Minecraft_1_7_6) [u8],
      [u8],
      onlyIf (p ≥ Minecraft_1_9) [varint],
      onlyIf (p ≥ Minecraft_1_17) [bool],
      onlyIf (p ≥ Minecraft_1_18) [bool],
      onlyIf (p ≥ Minecraft_1_21_2) [varint]]
  | "packet.ResourcePackRequest" => some <| mk <| fields [
      onlyIf (p ≥ Minecraft_1_20_3) [uuid],
      [string, string],
      onlyIf (p ≥ Minecraft_1_17) [bool, .opt true (component p)]]
  | "packet.ResourcePackResponse" => some <| mk <| fields [
      onlyIf (p ≥ Minecraft_1_20_3) [uuid],
      onlyIf (p ≤ Minecraft_1_9_4) [string],
      [varint]]
  | "packet.RemoveResourcePack" => some <| mk <| .optD zeroUUID uuid
  | "packet.Transfer" => some <| mk <| seqs [string, varint]
  | "packet.CustomClickActionPacket" => some { body := .unit, tail := .rest none }
  | "packet.CustomReportDetails" => some   -- a Go map: duplicate keys collapse, order is not kept
      { body := .arr .empty none (seqs [string, string]), vals := false }
  | "packet.ServerLinks" => some          -- bool `known id`: 0 = custom name (Go keeps only true/false of the byte)
      { body := .arr .err (some 128) <| swL (.uint 1) [seqs [component p, string]] (seqs [varint, string]),
        vals := false }
  | "packet.DialogClear" => some <| mk .unit
  | "packet.DialogShow" => some <| mk <|
      if c.state = 2 then nbt (decide (p < Minecraft_1_20_2))
      else swL .varint [nbt (decide (p < Minecraft_1_20_2))] .unit          -- id 0 = inline dialog
  | "packet.BundleDelimiter" => some <| mk .unit
  /- ---------- config ---------- -/
  | "config.FinishedUpdate" => some <| mk .unit
  | "config.StartUpdate" => some <| mk .unit
  | "config.CodeOfConductAcceptPacket" => some <| mk .unit
  | "config.CodeOfConductPacket" => some { body := .unit, tail := .rest none }
  | "config.RegistrySync" => some { body := .unit, tail := .rest none }
  | "config.KnownPacks" => some <| mk <|
      .arr .err (if c.dir = serverBound then some 64 else none) (seqs [string, string, string])
  | "config.ActiveFeatures" => some <| mk <| .arr .err none key
  | "config.TagsUpdate" => some           -- nested Go maps
      { body := .arr .empty none (seqs [string, .arr .empty none (seqs [string, .arr .err none varint])]),
        vals := false }
  | "cookie.CookieRequest" => some <| mk key
  | "cookie.CookieStore" => some <| mk <| seqs [key, bytesMax 5120]
  | "cookie.CookieResponse" => some <| mk <| seqs [key, .optD (.bytes []) (bytesMax 5120)]
  /- ---------- play ---------- -/
  | "packet.TabCompleteRequest" => some <| mk <|
      if p ≥ Minecraft_1_13 then seqs [varint, str 2048]
      else fields [[str 2048], onlyIf (p ≥ Minecraft_1_9) [bool], onlyIf (p ≥ Minecraft_1_8) [.opt true i64]]
  | "packet.TabCompleteResponse" => some <| mk <|
      if p ≥ Minecraft_1_13 then
        seqs [varint, varint, varint, .arr .empty none (seqs [string, .opt true (component p)])]
      else .arr .empty none string
  | "packet.JoinGame" => some <| (fun b => { body := b, vals := decide (p ≥ Minecraft_1_20_2) }) <|
      -- (vals: below 1.20.2 the two name-length bytes of a root tag are skipped unread, so Go forgets them)
      let named := decide (p < Minecraft_1_20_2)
      if p ≥ Minecraft_1_20_2 then fields [
        [i32, bool, .arr .err none string, varint, varint, varint, bool, bool, bool],
        [if p ≥ Minecraft_1_20_5 then varint else dimensionId p],
        [string, i64, u8, u8, bool, bool, deathPos, varint],
        onlyIf (p ≥ Minecraft_1_21_2) [varint],
        onlyIf (p ≥ Minecraft_26_2) [bool],
        onlyIf (p ≥ Minecraft_1_20_5) [bool]]
      else if p ≥ Minecraft_1_16 then fields [
        [i32],
        (if p ≥ Minecraft_1_16_2 then [bool, u8] else [u8]),      -- before 1.16.2 the hardcore flag is bit 3 of the game mode
        [u8, .arr .err none string, nbtC named],
        (if p ≥ Minecraft_1_16_2 ∧ p < Minecraft_1_19 then [nbtC named, dimensionId p] else [dimensionId p, string]),
        [i64, if p ≥ Minecraft_1_16_2 then varint else u8, varint],
        onlyIf (p ≥ Minecraft_1_18) [varint],
        [bool, bool, bool, bool],
        onlyIf (p ≥ Minecraft_1_19) [deathPos],
        onlyIf (p ≥ Minecraft_1_20) [varint]]
      else fields [
        [i32, u8, if p ≥ Minecraft_1_9_1 then i32 else u8],
        onlyIf (p ≤ Minecraft_1_13_2) [u8],
        onlyIf (p ≥ Minecraft_1_15) [i64],
        [u8, str 16],
        onlyIf (p ≥ Minecraft_1_14) [varint],
        onlyIf (p ≥ Minecraft_1_8) [bool],
        onlyIf (p ≥ Minecraft_1_15) [bool]]
  | "packet.Respawn" => some <| (fun b => { body := b, vals := decide (p ≥ Minecraft_1_20_2) }) <|
      let named := decide (p < Minecraft_1_20_2)
      fields [
        (if p ≥ Minecraft_1_16 then
           (if p ≥ Minecraft_1_16_2 ∧ p < Minecraft_1_19 then [nbtC named, dimensionId p]
            else [if p ≥ Minecraft_1_20_5 then varint else dimensionId p, string])
         else [i32]),
        onlyIf (p ≤ Minecraft_1_13_2) [u8],
        onlyIf (p ≥ Minecraft_1_15) [i64],
        [u8],
        (if p ≥ Minecraft_1_16 then [u8, bool, bool] else [string]),
        onlyIf (p ≥ Minecraft_1_16 ∧ p < Minecraft_1_19_3) [bool],
        onlyIf (p ≥ Minecraft_1_19_3 ∧ p < Minecraft_1_20_2) [u8],
        onlyIf (p ≥ Minecraft_1_19) [deathPos],
        onlyIf (p ≥ Minecraft_1_20) [varint],
        onlyIf (p ≥ Minecraft_1_21_2) [varint],
        onlyIf (p ≥ Minecraft_1_20_2) [u8]]
  | "packet.HeaderAndFooter" => some <| mk <| seqs [component p, component p]
  | "packet.PlayerChatCompletion" => some <| mk <| seqs [varint, .arr .err none string]
  | "packet.ServerData" => some <| mk <| fields [
      [if p < Minecraft_1_19_4 then .opt true (component p) else component p],
      [.optD (.bytes []) (if p ≥ Minecraft_1_19_4 then bytesMax dms else string)],
      onlyIf (p < Minecraft_1_19_3) [P (.constBool false)],
      onlyIf (p ≥ Minecraft_1_19_1 ∧ p < Minecraft_1_20_5) [bool]]
  | "packet.SoundEntityPacket" => some <| mk <| seqs [
      swL .varint [seqs [P .minKey, .opt true f32]] .unit,                    -- sound id 0 = named sound
      soundSource p, varint, f32, f32, i64]
  | "packet.StopSoundPacket" => some   -- Go keeps only bits 0 and 1 of the flags byte (as two pointers)
      { body := .sw (.uint 1) 256 (fun flags => seqs [
          if flags.val % 2 = 1 then soundSource p else .unit,
          if (flags.val / 2) % 2 = 1 then key else .unit]) .unit,
        vals := false }
  | "bossbar.BossBar" => some <| mk <| seqs [uuid,
      swL .varint [
        seqs [component p, f32, varint, varint, u8],   -- add
        .unit,                                          -- remove
        f32,                                            -- update percent
        component p,                                    -- update name
        seqs [varint, varint],                          -- update style
        u8] .fail]                                      -- update properties
  | "title.Text" => some <| mk <| component p
  | "title.Subtitle" => some <| mk <| component p
  | "title.Actionbar" => some <| mk <| component p
  | "title.Times" => some <| mk <| seqs [i32, i32, i32]
  | "title.Clear" => some <| mk bool
  | "title.Legacy" => some <| mk <|
      -- wire action: title, subtitle, (1.11+: action bar,) times, hide, reset
      let times := seqs [i32, i32, i32]
      if p < Minecraft_1_11 then swL .varint [component p, component p, times, .unit, .unit] .fail
      else swL .varint [component p, component p, component p, times, .unit, .unit] .fail
  | "chat.LegacyChat" => some <| mk <| fields [
      [str (if c.dir = clientBound then 262144 else if p ≥ Minecraft_1_11 then 256 else 100)],
      onlyIf (c.dir = clientBound ∧ p ≥ Minecraft_1_8) [u8],
      onlyIf (c.dir = clientBound ∧ p ≥ Minecraft_1_16) [uuid]]
  | "chat.SystemChat" => some            -- below 1.19.1 Go narrows the VarInt type to a byte-sized MessageType
      { body := seqs [component p, if p ≥ Minecraft_1_19_1 then bool else varint],
        vals := decide (p ≥ Minecraft_1_19_1) }
  | "chat.ChatAcknowledgement" => some <| mk varint
  | "chat.SessionPlayerChat" => some <| mk <|
      seqs [str 256, i64, i64, .opt true (P (.fixed 256)), lastSeen p]
  | "chat.SessionPlayerCommand" => some <| mk <|
      seqs [str (if p ≥ Minecraft_1_20_5 then dms else 256), i64, i64,
            .arr .err (some 8) (seqs [str 16, P (.fixed 256)]), lastSeen p]
  | "chat.UnsignedPlayerCommand" => some <| mk string
  | "playerinfo.Remove" => some <| mk <| .arr .err none uuid
  | "playerinfo.Upsert" => some
      { body := .sw (.uint 1) 256 (fun bits =>
          let bit (i : Nat) : Bool := (bits.val / 2 ^ i) % 2 = 1
          .arr .empty none <| fields [
            [uuid],
            onlyIf (bit 0) [str 16, props],
            onlyIf (bit 1) [.opt true (seqs [uuid, playerKey])],
            onlyIf (bit 2) [varint],
            onlyIf (bit 3) [bool],
            onlyIf (bit 4) [varint],
            onlyIf (bit 5) [.opt true (component p)],
            onlyIf (bit 6) [varint],
            onlyIf (bit 7) [bool]]) .unit,
        exact := false }       -- a present chat-session key must also parse as an RSA public key
  | _ => none

/-- classification of every packet type that gate registers (checked against the regenerated registry in Props) -/
def fullTypes : List String := [
  "packet.Handshake", "packet.StatusRequest", "packet.StatusPing", "packet.StatusResponse",
  "packet.EncryptionRequest", "packet.EncryptionResponse", "packet.ServerLoginSuccess", "packet.SetCompression",
  "packet.LoginPluginMessage", "packet.LoginPluginResponse", "packet.LoginAcknowledged",
  "packet.KeepAlive", "packet.PingIdentify", "plugin.Message", "packet.ClientSettings",
  "packet.ResourcePackResponse", "packet.RemoveResourcePack", "packet.Transfer", "packet.CustomClickActionPacket",
  "packet.CustomReportDetails", "packet.DialogClear", "packet.BundleDelimiter",
  "config.FinishedUpdate", "config.StartUpdate", "config.CodeOfConductAcceptPacket", "config.CodeOfConductPacket",
  "config.RegistrySync", "config.KnownPacks", "config.ActiveFeatures", "config.TagsUpdate",
  "cookie.CookieRequest", "cookie.CookieStore", "cookie.CookieResponse",
  "packet.TabCompleteRequest", "packet.PlayerChatCompletion", "packet.SoundEntityPacket", "packet.StopSoundPacket",
  "title.Times", "title.Clear", "chat.LegacyChat", "chat.ChatAcknowledgement", "chat.SessionPlayerChat",
  "chat.SessionPlayerCommand", "chat.UnsignedPlayerCommand", "playerinfo.Remove"]

/-- types whose schema contains an opaque blob in at least one version (chat component, NBT, player key) -/
def opaqueTypes : List String := [
  "packet.ServerLogin", "packet.Disconnect", "packet.ResourcePackRequest", "packet.ServerLinks", "packet.DialogShow",
  "packet.TabCompleteResponse", "packet.HeaderAndFooter", "packet.ServerData", "bossbar.BossBar",
  "title.Text", "title.Subtitle", "title.Actionbar", "title.Legacy", "chat.SystemChat", "playerinfo.Upsert",
  "packet.JoinGame", "packet.Respawn"]

/-- registered types without a schema: exercised only by the Go-side encode→decode→re-encode check and the
    hostile-payload runs -/
def unmodelledTypes : List String := [
  "packet.AvailableCommands", "legacytablist.PlayerListItem",
  "chat.KeyedPlayerChat", "chat.KeyedPlayerCommand"]

def classOf (name : String) : String :=
  if name ∈ fullTypes then "full" else if name ∈ opaqueTypes then "opaque"
  else if name ∈ unmodelledTypes then "unmodelled" else "unknown"

end Gate.C04
