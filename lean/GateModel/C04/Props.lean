import GateModel.C04.Lemmas
import GateModel.C04.Packets
/-
C04 — Every packet type round-trips losslessly in every supported protocol version.

`Schema`/`PSchema` (Model.lean) is an interpreter for wire layouts; `schemaOf` (Packets.lean) gives, as data, the
layout of each registered packet type in each context (protocol, direction, registry, packet id), transcribed from
the Go `Encode/Decode` bodies.  The theorems below are about ALL schemas, hence about every packet schema in every
context — there is no bound on protocol numbers, string lengths, array sizes or nesting:

  * `schema_roundtrip`          decoding an encoding gives the value back and leaves exactly the bytes that followed it
  * `packet_roundtrip`          … for whole packets: all bytes are consumed
  * `packet_reencode_identical` … and the decoded packet re-encodes to identical bytes
  * `registered_packet_roundtrip` the instance for every modelled registered type, every context
  * `encode_accepted`           the encoder does not reject a value of the schema's domain

`wf` is the explicit domain "all field values the protocol permits" (integer ranges of the wire types, the readers'
own length limits, 16-byte ids, valid resource keys).  A value carries exactly the fields that exist in that version:
the schema of a context contains no others, so "same values for every field that exists in that version" is the
equality of values in `schema_roundtrip`.

Opaque leaves (chat components from 1.20.3, NBT, player keys) are `Prim.blob len`: their value is the blob's wire
bytes, and the DOMAIN of such a leaf is, by definition, the blobs on which the blob reader `len` is self-delimiting.
Nothing is assumed about `len`: the theorems hold for every `len`; what is NOT proved is that the Go blob codecs
(go-mc NBT, JSON<->NBT conversion, x509) round-trip — that is only exercised by the Go-side re-encode check.
-/
namespace Gate.C04.Props
open Gate Gate.C03 Gate.C04

/-! ### the generic round-trip theorems (one induction over `Schema`, leaves from C03) -/

theorem schema_roundtrip (s : Schema) (v : Val) (rest : Bytes) (h : s.wf v) :
    s.decode (s.encode v ++ rest) = .ok (v, rest) := schema_RT s v rest h

theorem packet_roundtrip (ps : PSchema) (v : Val) (h : ps.wf v) :
    ps.decode (ps.encode v) = .ok (v, []) := packet_RT ps v h

theorem packet_reencode_identical (ps : PSchema) (v : Val) (h : ps.wf v) :
    ∃ v', ps.decode (ps.encode v) = .ok (v', []) ∧ ps.encode v' = ps.encode v :=
  ⟨v, packet_RT ps v h, rfl⟩

theorem encode_accepted (s : Schema) (v : Val) (h : s.wf v) : s.encOk v = true := schema_encOk s v h

/-- every packet type that has a schema, in EVERY context (all protocol numbers, both directions, every registry
    and id): lossless, consumes everything, re-encodes identically -/
theorem registered_packet_roundtrip (name : String) (c : Ctx) (ps : PSchema) (v : Val)
    (hs : schemaOf name c = some ps) (h : ps.wf v) :
    ps.decode (ps.encode v) = .ok (v, []) ∧
    ∃ v', ps.decode (ps.encode v) = .ok (v', []) ∧ ps.encode v' = ps.encode v := by
  have := hs
  exact ⟨packet_RT ps v h, v, packet_RT ps v h, rfl⟩

/-! ### which registered types are covered (tie to the regenerated registry table of state/register.go) -/

/-- every type gate registers is classified; a newly registered type breaks this obligation -/
theorem registry_classified :
    ∀ t ∈ Gate.Gen.C04.registryTypes, t ∈ fullTypes ∨ t ∈ opaqueTypes ∨ t ∈ unmodelledTypes := by decide

/-- the classification only talks about registered types and the classes are disjoint -/
theorem classes_registered_and_disjoint :
    (∀ t ∈ fullTypes ++ opaqueTypes ++ unmodelledTypes, t ∈ Gate.Gen.C04.registryTypes) ∧
    (∀ t ∈ fullTypes, t ∉ opaqueTypes ∧ t ∉ unmodelledTypes) ∧ (∀ t ∈ opaqueTypes, t ∉ unmodelledTypes) := by decide

/-- exact coverage: 66 registered types = 45 with a full schema + 17 with opaque fields + 4 without a schema -/
theorem coverage_counts :
    Gate.Gen.C04.registryTypes.length = 66 ∧ fullTypes.length = 45 ∧ opaqueTypes.length = 17 ∧
    unmodelledTypes.length = 4 := by decide

/-- a probe context per registry/direction; `schemaOf` only branches on the name for `isSome` -/
def probe : Ctx := { proto := 767, dir := 0, state := 4, id := 1 }

theorem modelled_types_have_schemas :
    (∀ t ∈ fullTypes ++ opaqueTypes, (schemaOf t probe).isSome = true) ∧
    (∀ t ∈ unmodelledTypes, (schemaOf t probe).isSome = false) := by decide

/-! ### source shape of the decoders reachable before authentication (regenerated call sequences)

The schemas were transcribed from these bodies; a change of the sequence of reads breaks an obligation here
(in addition to the differential run, which compares bytes and values). -/

open Gate.Gen.C04 in
theorem src_prelogin_decoders :
    handshakeDecode = ["util.ReadVarInt", "return", "util.ReadString", "return", "util.ReadInt16", "return", "int",
      "util.ReadVarInt", "return"] ∧
    statusPingDecode = ["util.ReadInt64", "return"] ∧
    serverLoginDecode = ["util.ReadStringMax", "len", "return", "c.Protocol.GreaterEqual", "c.Protocol.GreaterEqual",
      "util.ReadBool", "return", "crypto.ReadPlayerKey", "return", "c.Protocol.GreaterEqual", "util.ReadUUID", "return",
      "return", "c.Protocol.GreaterEqual", "util.ReadBool", "return", "util.ReadUUID", "return", "return"] ∧
    encryptionResponseDecode = ["c.Protocol.GreaterEqual", "util.ReadBytesLen", "return", "c.Protocol.GreaterEqual",
      "c.Protocol.Lower", "util.ReadBool", "return", "util.ReadInt64", "return", "c.Protocol.Lower", "util.ReadBytesLen",
      "return", "util.ReadBytes17", "return", "util.ReadBytes17", "return"] ∧
    loginPluginResponseDecode = ["util.ReadVarInt", "return", "util.ReadBool", "return", "util.ReadRawBytes",
      "errors.Is", "return", "return"] := by decide

open Gate.Gen.C04 in
theorem src_play_decoders :
    keepAliveDecode = ["c.Protocol.GreaterEqual", "util.ReadInt64", "c.Protocol.GreaterEqual", "util.ReadVarInt",
      "int64", "util.ReadInt32", "int64", "return"] ∧
    clientSettingsDecode = ["util.PanicReader", "r.StringMax", "r.Byte", "r.VarInt", "r.Bool", "c.Protocol.LowerEqual",
      "r.Byte", "r.Byte", "c.Protocol.GreaterEqual", "r.VarInt", "c.Protocol.GreaterEqual", "r.Bool",
      "c.Protocol.GreaterEqual", "r.Bool", "c.Protocol.GreaterEqual", "r.VarInt", "return"] ∧
    pluginMessageDecode = ["util.ReadString", "return", "c.Protocol.GreaterEqual", "TransformLegacyToModernChannel",
      "c.Protocol.GreaterEqual", "io.LimitReader", "io.ReadAll", "len", "len", "fmt.Errorf", "return", "io.ReadAll",
      "util.ReadBytes17", "return"] := by decide

open Gate.Gen.C04 in
/-- `ReadMinimalKey` parses `ns:value` (the repaired reader the `minKey` leaf mirrors) -/
theorem src_minimal_key_is_parsed : "parseIdentifierKey" ∈ readMinimalKeyCalls := by decide

/-! ### the defects repaired by the C04 fixes stay documented as kernel-checked witnesses -/

/-- pre-fix `ReadMinimalKey`: the sound `ab:c` came back as `minecraft:"ab:c"` -/
theorem minimal_key_roundtrip_fails_for_unparsed_variant :
    readMinimalKeyDefective (writeBytes (minimalKey ⟨[97, 98], [99]⟩)) = .ok (⟨minecraftNs, [97, 98, 58, 99]⟩, []) := by
  rfl

/-- pre-fix loop of `TabCompleteResponse.Decode` (1.13+): the `tooltip` variable lives outside the loop and is only
    assigned when an offer has a tooltip -/
def readOffersCarry (tip : Bytes → Rd Val) : Nat → Val → Bytes → Rd (List Val)
  | 0, _, bs => .ok ([], bs)
  | n + 1, carry, bs =>
    match readString bs with
    | .error e => .error e
    | .ok (text, r1) => match readBool r1 with
      | .error e => .error e
      | .ok (has, r2) =>
        if has then
          match tip r2 with
          | .error e => .error e
          | .ok (t, r3) => match readOffersCarry tip n (.some t) r3 with
            | .error e => .error e
            | .ok (xs, r4) => .ok (.pair (.bytes text) (.some t) :: xs, r4)
        else
          match readOffersCarry tip n carry r2 with
          | .error e => .error e
          | .ok (xs, r4) => .ok (.pair (.bytes text) carry :: xs, r4)

/-- offers `[("a", tooltip "t"), ("b", no tooltip)]`: the pre-fix loop gives the second offer the first one's tooltip -/
theorem tabcomplete_roundtrip_fails_for_carry_variant :
    let offer := seqs [string, .opt true string]
    let v1 := Val.pair (.bytes [97]) (.some (.bytes [116]))
    let v2 := Val.pair (.bytes [98]) .none
    readOffersCarry string.decode 2 .none (offer.encode v1 ++ offer.encode v2) =
      .ok ([v1, .pair (.bytes [98]) (.some (.bytes [116]))], []) := by
  rfl

/-- pre-fix map-valued fields were written in Go map iteration order: two orders of the same two entries are two
    different encodings of the same packet -/
theorem map_encoding_order_matters :
    let entry := seqs [string, string]
    let e1 := Val.pair (.bytes [97]) (.bytes [49])
    let e2 := Val.pair (.bytes [98]) (.bytes [50])
    writeList entry.encode [e1, e2] ≠ writeList entry.encode [e2, e1] := by
  decide

/-! ### AvailableCommands: the brigadier number-argument bounds (the argument property with sentinels)

AvailableCommands has no schema (its graph is not a field list), but its one value-dependent property codec is
modelled and proved on its own (`NumBounds.lean`), for float/double (bit patterns)/integer/long alike. -/

/-- every pair of bounds — the "unbounded" sentinels, bounds beyond them (long minima below −2³¹ = brigodier's
    `MinInt64`, ±Inf, NaN, −0.0, subnormals as bit patterns) and ordinary ones — comes back exactly -/
theorem number_bounds_roundtrip (k : NumKind) (mn mx : Val) (rest : Bytes) (h1 : k.leaf.wf mn) (h2 : k.leaf.wf mx) :
    nbDecode k (nbEncode k mn mx ++ rest) = .ok ((mn, mx), rest) := numBounds_RT k mn mx rest h1 h2

/-- the flag byte is exactly (min ≠ lo, max ≠ hi) -/
theorem number_bounds_flag (k : NumKind) (mn mx : Val) :
    (nbEncode k mn mx).head? =
      some (UInt8.ofNat ((if mn ≠ k.lo then 1 else 0) + (if mx ≠ k.hi then 2 else 0))) := rfl

/-- the sentinels themselves are values of the leaf's domain, for all four kinds (so the theorem is not vacuous
    for the defaults) -/
theorem number_bounds_sentinels_wf :
    ∀ name ∈ ["f32", "f64", "i32", "i64"], ∃ k, numKind name = some k ∧ k.leaf.wf k.lo ∧ k.leaf.wf k.hi := by
  intro name hn
  simp only [List.mem_cons, List.mem_nil_iff, or_false] at hn
  rcases hn with rfl | rfl | rfl | rfl
  · exact ⟨_, rfl, ⟨0xFF7FFFFF, rfl, by decide⟩, ⟨0x7F7FFFFF, rfl, by decide⟩⟩
  · exact ⟨_, rfl, ⟨0xFFEFFFFFFFFFFFFF, rfl, by decide⟩, ⟨0x7FEFFFFFFFFFFFFF, rfl, by decide⟩⟩
  · exact ⟨_, rfl, ⟨_, rfl, by decide, by decide, by decide⟩, ⟨_, rfl, by decide, by decide, by decide⟩⟩
  · exact ⟨_, rfl, ⟨_, rfl, by decide, by decide, by decide⟩, ⟨_, rfl, by decide, by decide, by decide⟩⟩

/-- writing a bound only when it lies strictly inside (lo, hi) loses every bound outside: a long minimum of −5·10⁹
    is omitted (flag = max only) although it is not the sentinel -/
theorem number_bounds_fails_for_ordered_variant :
    ∃ k, numKind "i64" = some k ∧
      (nbEncodeOrdered k (.int (-5000000000)) (.int 5000000000)).head? = some 2 ∧
      (nbEncode k (.int (-5000000000)) (.int 5000000000)).head? = some 3 :=
  ⟨_, rfl, by decide, by decide⟩

/-! ### non-vacuity: ordinary values are in the domain -/

/-- a handshake: protocol 767, host "a.b", port 25565, next state 2 -/
example : ∃ ps, schemaOf "packet.Handshake" ⟨767, 1, 0, 0⟩ = some ps ∧
    ps.wf (.pair (.int 767) (.pair (.bytes [97, 46, 98]) (.pair (.int 25565) (.int 2)))) := by
  refine ⟨_, rfl, ?_⟩
  have hd : 4 ≤ defaultMaxStringSize := by decide
  refine ⟨_, _, rfl, ⟨767, rfl, by unfold wfInt32; omega⟩, _, _, rfl, ⟨_, rfl, ?_, ?_⟩, _, _, rfl, ?_, ?_⟩
  · show ([97, 46, 98] : Bytes).length ≤ defaultMaxStringSize * 4
    simp only [List.length_cons, List.length_nil]; omega
  · simp
  · exact ⟨_, rfl, by decide, by decide, by decide⟩
  · exact ⟨2, rfl, by unfold wfInt32; omega⟩

example : (mk (seqs [varint, bool])).decode ((mk (seqs [varint, bool])).encode (.pair (.int 300) (.bool true))) =
    .ok (.pair (.int 300) (.bool true), []) :=
  packet_roundtrip _ _ ⟨_, _, rfl, ⟨300, rfl, by unfold wfInt32; omega⟩, ⟨true, rfl⟩⟩

end Gate.C04.Props
