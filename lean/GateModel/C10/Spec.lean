import GateModel.Base.Bytes
import GateModel.C10.Md5
/-
C10 reference.

* vanilla `UUID.nameUUIDFromBytes(("OfflinePlayer:" + name).getBytes(UTF_8))` (java.util.UUID):
      md5Bytes[6] &= 0x0f; md5Bytes[6] |= 0x30;   /* version 3 */
      md5Bytes[8] &= 0x3f; md5Bytes[8] |= 0x80;   /* IETF variant */
* the admitted usernames: 2 to 16 characters, each one of A-Z a-z 0-9 `_`.  All of these are ASCII, so for
  a byte string "n characters from the set" means "n bytes, all in the set" (a non-ASCII character
  contributes a byte ≥ 0x80, which is not in the set).
-/
namespace Gate.C10
open Gate Gate.Hash

def javaNameUUIDFromBytes (name : Bytes) : Bytes :=
  let h := md5 name
  let h := h.modify 6 (· &&& 0x0f)
  let h := h.modify 6 (· ||| 0x30)
  let h := h.modify 8 (· &&& 0x3f)
  h.modify 8 (· ||| 0x80)

def vanillaOfflineUUID (username : Bytes) : Bytes :=
  javaNameUUIDFromBytes ("OfflinePlayer:".toUTF8.toList ++ username)

def allowedByte (b : UInt8) : Bool :=
  (65 ≤ b.toNat && b.toNat ≤ 90) || (97 ≤ b.toNat && b.toNat ≤ 122) || (48 ≤ b.toNat && b.toNat ≤ 57) || b.toNat == 95

def validUsername (s : Bytes) : Prop := 2 ≤ s.length ∧ s.length ≤ 16 ∧ ∀ b ∈ s, allowedByte b = true

/-- what a vanilla backend in offline mode (no forwarding) uses as the player's id: derived from the name
    in the login packet it receives -/
def backendDerivedUUID (loginName : Bytes) : Bytes := vanillaOfflineUUID loginName

instance (s : Bytes) : Decidable (validUsername s) := by unfold validUsername; infer_instance

end Gate.C10
