import GateModel.C10.Model
import GateModel.C10.Spec
/-
C10 helper lemmas: byte-level facts by exhaustive table, the `^C{m,n}$` automaton, the pattern in the
source, ASCII transfer between bytes and runes.
-/
namespace Gate.C10
open Gate Gate.Hash Gate.Utf8

/-- a property of all 256 byte values can be checked as a table -/
theorem forall_uint8 (P : UInt8 → Prop) (h : ∀ n, n < 256 → P (UInt8.ofNat n)) : ∀ b, P b := by
  intro b
  have := h b.toNat b.toNat_lt
  rwa [UInt8.ofNat_toNat] at this

theorem stamp6_eq : (fun (b : UInt8) => (b &&& 0x0f) ||| (((3 : UInt8) &&& (0xf : UInt8)) <<< (4 : UInt8)))
    = ((· ||| (0x30 : UInt8)) ∘ (· &&& (0x0f : UInt8))) := by
  funext b; rfl

theorem stamp8_eq : (fun (b : UInt8) => (b &&& 0x3f) ||| 0x80)
    = ((· ||| (0x80 : UInt8)) ∘ (· &&& (0x3f : UInt8))) := by
  funext b; rfl

theorem version_bits : ∀ b : UInt8, ((b &&& 0x0f) ||| 0x30) >>> 4 = 3 ∧ ((b &&& 0x0f) ||| 0x30) &&& 0x0f = b &&& 0x0f := by
  apply forall_uint8; decide +kernel

theorem variant_bits : ∀ b : UInt8, ((b &&& 0x3f) ||| 0x80) >>> 6 = 2 ∧ ((b &&& 0x3f) ||| 0x80) &&& 0x3f = b &&& 0x3f := by
  apply forall_uint8; decide +kernel

theorem stampV3_eq (h : Bytes) :
    stampV3 h = (h.modify 6 (fun b => (b &&& 0x0f) ||| 0x30)).modify 8 (fun b => (b &&& 0x3f) ||| 0x80) := by
  unfold stampV3 setByte
  rw [stamp6_eq]
  rfl

/-! ### the repetition automaton -/

theorem matchRep_iff (rs : List (Nat × Nat)) (m n : Nat) (l : List Nat) :
    matchRep rs m n l = true ↔ m ≤ l.length ∧ l.length ≤ n ∧ ∀ r ∈ l, inClass rs r = true := by
  induction l generalizing m n with
  | nil => simp [matchRep]
  | cons r t ih =>
    cases n with
    | zero => simp [matchRep]
    | succ n =>
      simp only [matchRep, Bool.and_eq_true, ih, List.length_cons, List.mem_cons, forall_eq_or_imp]
      constructor
      · rintro ⟨hr, h1, h2, h3⟩; exact ⟨by omega, by omega, hr, h3⟩
      · rintro ⟨h1, h2, hr, h3⟩; exact ⟨hr, by omega, by omega, h3⟩

/-- the pattern found in the source, parsed -/
def sourcePat : NamePat := ⟨[(65, 90), (97, 122), (48, 57), (95, 95)], 2, 16⟩

theorem parse_source : parsePat Gate.Gen.C10.playerNameRegex = some sourcePat := by decide +kernel

theorem inClass_source_lt (r : Nat) (h : inClass sourcePat.ranges r = true) : r < 128 := by
  simp [inClass, sourcePat] at h
  omega

theorem inClass_source_byte (b : UInt8) : inClass sourcePat.ranges b.toNat = allowedByte b := by
  rw [Bool.eq_iff_iff]
  simp [inClass, sourcePat, allowedByte]
  omega

theorem allowed_ascii (b : UInt8) (h : allowedByte b = true) : b.toNat < 128 := by
  rw [← inClass_source_byte] at h
  exact inClass_source_lt _ h

theorem nameOK_eq (s : Bytes) : nameOK s = matchRep sourcePat.ranges 2 16 (decodeRunes s) := by
  unfold nameOK
  rw [parse_source]
  rfl

theorem nameOK_iff (s : Bytes) : nameOK s = true ↔ validUsername s := by
  rw [nameOK_eq, matchRep_iff]
  unfold validUsername
  constructor
  · rintro ⟨h1, h2, h3⟩
    have hascii := ascii_of_decodeRunes s (fun r hr => inClass_source_lt r (h3 r hr))
    have hdec := decodeRunes_ascii s hascii
    rw [hdec] at h1 h2 h3
    simp only [List.length_map] at h1 h2
    refine ⟨h1, h2, fun b hb => ?_⟩
    rw [← inClass_source_byte]
    exact h3 b.toNat (List.mem_map.mpr ⟨b, hb, rfl⟩)
  · rintro ⟨h1, h2, h3⟩
    have hdec := decodeRunes_ascii s (fun b hb => allowed_ascii b (h3 b hb))
    rw [hdec]
    simp only [List.length_map]
    refine ⟨h1, h2, fun r hr => ?_⟩
    obtain ⟨b, hb, rfl⟩ := List.mem_map.mp hr
    rw [inClass_source_byte]
    exact h3 b hb

theorem maxUsernameLen_eq : maxUsernameLen = 16 := by decide

end Gate.C10
