import GateModel.C10.Lemmas
/-
C10 — offline identities match vanilla and only valid usernames are admitted.

Property theorems only.
  * `offline_uuid_eq_vanilla` : for EVERY username (any byte string) gate's `OfflinePlayerUUID` equals vanilla's
                                `UUID.nameUUIDFromBytes("OfflinePlayer:" + name)` (MD5 as implemented in Md5.lean);
  * `uuid_is_v3`              : bit level, for every 16-byte hash: version nibble 3, variant `10`, the other
                                122 bits are the hash's bits;
  * `name_filter`             : for EVERY byte string, the regex found in the source (regenerated) under Go
                                `regexp` semantics accepts it iff it is 2..16 bytes all from A-Z a-z 0-9 `_`
                                (so trailing "\n", 17 chars, 1 char, non-ASCII, invalid UTF-8 are all covered);
  * `admitted_only_valid`, `valid_admitted`, `invalid_never_admitted` : the offline login path admits exactly the
                                valid usernames;
  * `keyed_admitted_only_valid`, `keyed_valid_admitted`, `keyed_invalid_name_first` : the same with a signed
                                profile key (valid / expired / bad signature / absent) in the login packet: no key
                                state admits an invalid name, the name is judged before the key;
  * `offline_identity`        : an offline-mode player (no plugin replaced the profile) is announced to the client
                                under the name it sent and vanilla's offline UUID of that name, in every
                                forwarding mode;
  * `none_forwarding_backend_uuid` : … and the id a vanilla backend derives from the login name it receives
                                (forwarding disabled) is that same UUID;
  * `override_identity` / `override_can_diverge` : what happens when a GameProfileRequest subscriber replaces the
                                profile (outside the property: a plugin-chosen identity) — client is told the
                                plugin's id, a non-forwarding backend derives the offline id of the plugin's name;
  * `source_shape_*`          : regenerated call sequences: the regex gate is the first thing
                                `handleServerLogin` does, LoginSuccess is built from `player.ID()` /
                                `player.Username()`, the backend login from `player.Username()`,
                                `OfflinePlayerUUID` is `md5.Sum`.
-/
namespace Gate.C10.Props
open Gate Gate.Hash Gate.Utf8 Gate.C10

/-- gate's offline UUID is vanilla's name-based UUID, for every username -/
theorem offline_uuid_eq_vanilla (username : Bytes) :
    offlinePlayerUUID username = vanillaOfflineUUID username := by
  unfold offlinePlayerUUID vanillaOfflineUUID javaNameUUIDFromBytes offlinePrefix
  rw [stampV3_eq]
  simp only [List.modify_modify_eq]
  rfl

/-- bit-level shape of the stamped hash (any 16-byte `h`, in particular every MD5 value) -/
theorem uuid_is_v3 (h : Bytes) (hlen : h.length = 16) :
    (stampV3 h).length = 16 ∧
    (∀ i, i ≠ 6 → i ≠ 8 → (stampV3 h)[i]? = h[i]?) ∧
    (∃ b u : UInt8, h[6]? = some b ∧ (stampV3 h)[6]? = some u ∧ u >>> 4 = 3 ∧ u &&& 0x0f = b &&& 0x0f) ∧
    (∃ b u : UInt8, h[8]? = some b ∧ (stampV3 h)[8]? = some u ∧ u >>> 6 = 2 ∧ u &&& 0x3f = b &&& 0x3f) := by
  rw [stampV3_eq]
  refine ⟨by simp [hlen], ?_, ?_, ?_⟩
  · intro i h6 h8
    simp only [List.getElem?_modify]
    cases h[i]? with
    | none => rfl
    | some a => simp [Ne.symm h6, Ne.symm h8]
  · have h6 : 6 < h.length := by omega
    refine ⟨h[6], (h[6] &&& 0x0f) ||| 0x30, by simp, ?_, (version_bits h[6]).1, (version_bits h[6]).2⟩
    simp [List.getElem?_eq_getElem h6]
  · have h8 : 8 < h.length := by omega
    refine ⟨h[8], (h[8] &&& 0x3f) ||| 0x80, by simp, ?_, (variant_bits h[8]).1, (variant_bits h[8]).2⟩
    simp [List.getElem?_eq_getElem h8]

/-- the same for the UUID of every username -/
theorem offline_uuid_is_v3 (username : Bytes) :
    (offlinePlayerUUID username).length = 16 ∧
    (∃ u : UInt8, (offlinePlayerUUID username)[6]? = some u ∧ u >>> 4 = 3) ∧
    (∃ u : UInt8, (offlinePlayerUUID username)[8]? = some u ∧ u >>> 6 = 2) := by
  have := uuid_is_v3 (md5 (offlinePrefix ++ username)) (md5_length _)
  obtain ⟨h1, _, ⟨_, u6, _, h6, h6v, _⟩, ⟨_, u8, _, h8, h8v, _⟩⟩ := this
  exact ⟨h1, ⟨u6, h6, h6v⟩, ⟨u8, h8, h8v⟩⟩

/-- the username check of the login handler, for all byte strings -/
theorem name_filter (s : Bytes) : nameOK s = true ↔ validUsername s := nameOK_iff s

/-- only valid usernames are admitted … -/
theorem admitted_only_valid (fwdNone : Bool) (ov : Option Profile) (u id nm be : Bytes)
    (h : offlineLogin fwdNone ov u = .success id nm be) : validUsername u := by
  unfold offlineLogin at h
  split at h
  · cases h
  · split at h
    · cases h
    · rename_i hok
      exact (nameOK_iff u).mp (by simpa using hok)

/-- … and every valid username is admitted -/
theorem valid_admitted (fwdNone : Bool) (ov : Option Profile) (u : Bytes) (h : validUsername u) :
    ∃ id nm be, offlineLogin fwdNone ov u = .success id nm be := by
  have hok := (nameOK_iff u).mpr h
  obtain ⟨h1, h2, _⟩ := h
  unfold offlineLogin
  rw [if_neg (by rw [maxUsernameLen_eq]; omega), if_neg (by simp [hok])]
  exact ⟨_, _, _, rfl⟩

theorem invalid_never_admitted (fwdNone : Bool) (ov : Option Profile) (u : Bytes) (h : ¬ validUsername u) :
    offlineLogin fwdNone ov u = .closed ∨ offlineLogin fwdNone ov u = .invalidName := by
  have hok : nameOK u = false := by
    cases hn : nameOK u with
    | false => rfl
    | true => exact absurd ((nameOK_iff u).mp hn) h
  unfold offlineLogin
  split
  · exact .inl rfl
  · rw [if_pos (by simp [hok])]; exact .inr rfl

/-! the same with a signed profile key attached to the login start packet (protocols 1.19–1.19.2):
    no key state lets an invalid username through, and a valid/absent key does not block a valid one -/
theorem keyed_admitted_only_valid (key : KeyState) (fwdNone : Bool) (ov : Option Profile) (u id nm be : Bytes)
    (h : offlineLoginKeyed key fwdNone ov u = .success id nm be) : validUsername u := by
  unfold offlineLoginKeyed at h
  cases hl : offlineLogin fwdNone ov u with
  | success a b c => exact admitted_only_valid fwdNone ov u a b c hl
  | closed => rw [hl] at h; cases h
  | invalidName => rw [hl] at h; cases h
  | badKey => rw [hl] at h; cases h

theorem keyed_valid_admitted (key : KeyState) (hk : key = .absent ∨ key = .valid) (fwdNone : Bool)
    (ov : Option Profile) (u : Bytes) (h : validUsername u) :
    offlineLoginKeyed key fwdNone ov u = offlineLogin fwdNone ov u
    ∧ ∃ id nm be, offlineLoginKeyed key fwdNone ov u = .success id nm be := by
  obtain ⟨id, nm, be, hl⟩ := valid_admitted fwdNone ov u h
  have : offlineLoginKeyed key fwdNone ov u = .success id nm be := by
    unfold offlineLoginKeyed
    rw [hl]
    rcases hk with rfl | rfl <;> rfl
  exact ⟨by rw [this, hl], id, nm, be, this⟩

/-- the username is judged before the key: an invalid name is refused as such, whatever the key -/
theorem keyed_invalid_name_first (key : KeyState) (fwdNone : Bool) (ov : Option Profile) (u : Bytes)
    (h : ¬ validUsername u) :
    offlineLoginKeyed key fwdNone ov u = .closed ∨ offlineLoginKeyed key fwdNone ov u = .invalidName := by
  unfold offlineLoginKeyed
  rcases invalid_never_admitted fwdNone ov u h with hl | hl <;> rw [hl]
  · exact .inl rfl
  · exact .inr rfl

/-- an offline-mode player keeps its name and gets vanilla's offline UUID, in every forwarding mode -/
theorem offline_identity (fwdNone : Bool) (u id nm be : Bytes)
    (h : offlineLogin fwdNone none u = .success id nm be) :
    nm = u ∧ be = u ∧ id = vanillaOfflineUUID u := by
  unfold offlineLogin at h
  split at h
  · cases h
  · split at h
    · cases h
    · simp only [Option.getD_none, newOffline, Outcome.success.injEq] at h
      exact ⟨h.2.1.symm, h.2.2.symm, by rw [← h.1, offline_uuid_eq_vanilla]⟩

/-- forwarding disabled: the backend derives the id from the login name it receives; for an offline-mode
    player that is the same UUID the proxy uses and announces to the client -/
theorem none_forwarding_backend_uuid (u id nm be : Bytes)
    (h : offlineLogin true none u = .success id nm be) : backendDerivedUUID be = id := by
  obtain ⟨_, hbe, hid⟩ := offline_identity true u id nm be h
  rw [hbe, hid]; rfl

/-- with a profile override the client is told the override's id and name; the backend is sent that name -/
theorem override_identity (fwdNone : Bool) (p : Profile) (u id nm be : Bytes)
    (h : offlineLogin fwdNone (some p) u = .success id nm be) : id = p.id ∧ nm = p.name ∧ be = p.name := by
  unfold offlineLogin at h
  split at h
  · cases h
  · split at h
    · cases h
    · simp only [Option.getD_some, Outcome.success.injEq] at h
      exact ⟨h.1.symm, h.2.1.symm, h.2.2.symm⟩

/-- consequently, with forwarding `none`, a plugin-chosen id is NOT what the backend derives
    (the `playerID` recomputed in `startLoginCompletion` is not the one written to LoginSuccess).
    Outside C10's statement (the identity is no longer the offline-mode one); recorded as behaviour. -/
theorem override_can_diverge :
    ∃ p u id nm be, offlineLogin true (some p) u = .success id nm be ∧ backendDerivedUUID be ≠ id :=
  ⟨⟨List.replicate 16 1, "Other".toUTF8.toList⟩, "Notch".toUTF8.toList, List.replicate 16 1,
    "Other".toUTF8.toList, "Other".toUTF8.toList, by decide +kernel, by decide +kernel⟩

/-! ### regenerated source shape -/

theorem source_shape_regex_gate_first :
    Gate.Gen.C10.handleServerLoginCalls.take 5 =
      ["l.assertState", "return", "playerNameRegex.MatchString", "l.inbound.disconnect", "return"]
    ∧ "profile.NewOffline" ∈ Gate.Gen.C10.handleServerLoginCalls := by decide

/-- LoginSuccess is built from `player.ID()` / `player.Username()`; the backend login from `player.Username()` -/
theorem source_shape_login_success :
    ["player.ID", "player.Username", "player.GameProfile"] <:+: Gate.Gen.C10.completeLoginCalls
    ∧ "s.player.Username" ∈ Gate.Gen.C10.startHandshakeCalls := by
  decide

theorem source_shape_offline_uuid :
    Gate.Gen.C10.offlinePlayerUUIDCalls = ["[]byte", "md5.Sum", "uint8", "return"]
    ∧ Gate.Gen.C10.newOfflineCalls = ["uuid.OfflinePlayerUUID", "return"] := by decide

theorem source_regex_is : parsePat Gate.Gen.C10.playerNameRegex = some sourcePat := parse_source

/-! ### non-vacuity -/
example : toHex (offlinePlayerUUID "Notch".toUTF8.toList) = "b50ad385829d3141a2167e7d7539ba7f" := by decide +kernel
example : nameOK "Notch".toUTF8.toList = true := by decide +kernel
example : nameOK "ab\n".toUTF8.toList = false := by decide +kernel
example : nameOK "aé".toUTF8.toList = false := by decide +kernel
example : nameOK "abcdefghijklmnopq".toUTF8.toList = false := by decide +kernel
example : validUsername "jeb_".toUTF8.toList := by decide +kernel
example : ∃ id nm be, offlineLogin true none "Notch".toUTF8.toList = .success id nm be :=
  valid_admitted _ _ _ (by decide +kernel)

end Gate.C10.Props
