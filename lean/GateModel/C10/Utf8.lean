import GateModel.Base.Bytes
/-
Go's UTF-8 decoding of a `string` (what `for _, r := range s`, `utf8.DecodeRuneInString` and the
`regexp` engines see): every maximal well-formed sequence is one rune, every byte that does not
start one is the rune U+FFFD of width 1.  Transcribed from `unicode/utf8.DecodeRuneInString`
(first-byte table `first[]` and `acceptRanges`).  Core Lean only; shared by C10 and C40.
-/
namespace Gate.Utf8
open Gate

def runeError : Nat := 0xFFFD

/-- continuation byte in `[lo, hi]` -/
def inRange (lo hi : Nat) (b : UInt8) : Bool := lo ≤ b.toNat && b.toNat ≤ hi

/-- two-byte sequence with lead byte value `x` (C2..DF) -/
def dec2 (x : Nat) : Bytes → Nat × Nat
  | b1 :: _ => if inRange 0x80 0xBF b1 then ((x - 0xC0) * 64 + (b1.toNat - 0x80), 2) else (runeError, 1)
  | _ => (runeError, 1)

/-- three-byte sequence, second byte restricted to `[lo, hi]` -/
def dec3 (x lo hi : Nat) : Bytes → Nat × Nat
  | b1 :: b2 :: _ =>
    if inRange lo hi b1 && inRange 0x80 0xBF b2
    then ((x - 0xE0) * 4096 + (b1.toNat - 0x80) * 64 + (b2.toNat - 0x80), 3) else (runeError, 1)
  | _ => (runeError, 1)

/-- four-byte sequence, second byte restricted to `[lo, hi]` -/
def dec4 (x lo hi : Nat) : Bytes → Nat × Nat
  | b1 :: b2 :: b3 :: _ =>
    if inRange lo hi b1 && inRange 0x80 0xBF b2 && inRange 0x80 0xBF b3
    then ((x - 0xF0) * 262144 + (b1.toNat - 0x80) * 4096 + (b2.toNat - 0x80) * 64 + (b3.toNat - 0x80), 4)
    else (runeError, 1)
  | _ => (runeError, 1)

/-- `utf8.DecodeRuneInString` on a non-empty input: (rune, width). -/
def decodeRune1 : Bytes → Nat × Nat
  | [] => (runeError, 0)
  | b0 :: t =>
    let x := b0.toNat
    if x < 0x80 then (x, 1)                      -- ASCII
    else if x < 0xC2 then (runeError, 1)         -- continuation byte or overlong lead (xx)
    else if x < 0xE0 then dec2 x t               -- s1: accept 80..BF
    else if x < 0xF0 then                        -- s2/s3/s4; E0: no overlongs, ED: no surrogates
      dec3 x (if x = 0xE0 then 0xA0 else 0x80) (if x = 0xED then 0x9F else 0xBF) t
    else if x < 0xF5 then                        -- s5/s6/s7; F0: no overlongs, F4: ≤ U+10FFFF
      dec4 x (if x = 0xF0 then 0x90 else 0x80) (if x = 0xF4 then 0x8F else 0xBF) t
    else (runeError, 1)                          -- F5..FF

def decodeRunesF : Nat → Bytes → List Nat
  | 0, _ => []
  | _ + 1, [] => []
  | f + 1, b :: t =>
    let (r, sz) := decodeRune1 (b :: t)
    r :: decodeRunesF f ((b :: t).drop sz)

/-- the rune sequence Go iterates over -/
def decodeRunes (bs : Bytes) : List Nat := decodeRunesF bs.length bs

/-! ### the only facts C10/C40 need: ASCII bytes are themselves, everything else is ≥ 0x80 -/

theorem decodeRune1_ascii (b : UInt8) (t : Bytes) (h : b.toNat < 128) :
    decodeRune1 (b :: t) = (b.toNat, 1) := by
  simp [decodeRune1, h]

theorem dec2_ge (x : Nat) (t : Bytes) (hx : 0xC2 ≤ x) : 128 ≤ (dec2 x t).1 ∧ 1 ≤ (dec2 x t).2 := by
  unfold dec2
  split
  · split
    · exact ⟨by show 128 ≤ (x - 0xC0) * 64 + _; omega, by show 1 ≤ 2; decide⟩
    · exact ⟨by decide, by decide⟩
  · exact ⟨by decide, by decide⟩

theorem dec3_ge (x lo hi : Nat) (t : Bytes) (hx : 0xE0 ≤ x) (hlo : x = 0xE0 → 0xA0 ≤ lo) :
    128 ≤ (dec3 x lo hi t).1 ∧ 1 ≤ (dec3 x lo hi t).2 := by
  unfold dec3
  split
  · rename_i b1 b2 _
    split
    · rename_i hin
      simp only [Bool.and_eq_true, inRange, decide_eq_true_eq] at hin
      refine ⟨?_, by show 1 ≤ 3; decide⟩
      show 128 ≤ (x - 0xE0) * 4096 + (b1.toNat - 0x80) * 64 + _
      by_cases hE : x = 0xE0
      · have := hlo hE; omega
      · omega
    · exact ⟨by decide, by decide⟩
  · exact ⟨by decide, by decide⟩

theorem dec4_ge (x lo hi : Nat) (t : Bytes) (hx : 0xF0 ≤ x) (hlo : x = 0xF0 → 0x90 ≤ lo) :
    128 ≤ (dec4 x lo hi t).1 ∧ 1 ≤ (dec4 x lo hi t).2 := by
  unfold dec4
  split
  · rename_i b1 b2 b3 _
    split
    · rename_i hin
      simp only [Bool.and_eq_true, inRange, decide_eq_true_eq] at hin
      refine ⟨?_, by show 1 ≤ 4; decide⟩
      show 128 ≤ (x - 0xF0) * 262144 + (b1.toNat - 0x80) * 4096 + _ + _
      by_cases hF : x = 0xF0
      · have := hlo hF; omega
      · omega
    · exact ⟨by decide, by decide⟩
  · exact ⟨by decide, by decide⟩

theorem decodeRune1_nonascii (b : UInt8) (t : Bytes) (h : ¬ b.toNat < 128) :
    128 ≤ (decodeRune1 (b :: t)).1 ∧ 1 ≤ (decodeRune1 (b :: t)).2 := by
  simp only [decodeRune1]
  rw [if_neg h]
  split
  · exact ⟨by decide, by decide⟩
  split
  · exact dec2_ge _ _ (by omega)
  split
  · exact dec3_ge _ _ _ _ (by omega) (fun hE => by rw [if_pos hE]; decide)
  split
  · exact dec4_ge _ _ _ _ (by omega) (fun hF => by rw [if_pos hF]; decide)
  · exact ⟨by decide, by decide⟩

/-- an all-ASCII byte string decodes to itself -/
theorem decodeRunesF_ascii (f : Nat) (bs : Bytes) (hf : bs.length ≤ f) (h : ∀ b ∈ bs, b.toNat < 128) :
    decodeRunesF f bs = bs.map (·.toNat) := by
  induction f generalizing bs with
  | zero => cases bs with
    | nil => rfl
    | cons b t => simp at hf
  | succ f ih =>
    cases bs with
    | nil => rfl
    | cons b t =>
      have hb := h b (List.mem_cons_self ..)
      simp only [decodeRunesF, decodeRune1_ascii b t hb, List.drop_succ_cons, List.drop_zero, List.map_cons]
      rw [ih t (by simpa using hf) (fun x hx => h x (List.mem_cons_of_mem _ hx))]

/-- if every decoded rune is ASCII then every byte was ASCII -/
theorem ascii_of_decodeRunesF (f : Nat) (bs : Bytes) (hf : bs.length ≤ f)
    (h : ∀ r ∈ decodeRunesF f bs, r < 128) : ∀ b ∈ bs, b.toNat < 128 := by
  induction f generalizing bs with
  | zero => cases bs with
    | nil => simp
    | cons b t => simp at hf
  | succ f ih =>
    cases bs with
    | nil => simp
    | cons b t =>
      have hb : b.toNat < 128 := by
        apply Classical.byContradiction
        intro hn
        have h1 := (decodeRune1_nonascii b t hn).1
        have h2 := h (decodeRune1 (b :: t)).1 (by simp [decodeRunesF])
        omega
      simp only [decodeRunesF, decodeRune1_ascii b t hb, List.drop_succ_cons, List.drop_zero] at h
      intro x hx
      rcases List.mem_cons.mp hx with rfl | hx
      · exact hb
      · exact ih t (by simpa using hf) (fun r hr => h r (List.mem_cons_of_mem _ hr)) x hx

theorem decodeRunes_ascii (bs : Bytes) (h : ∀ b ∈ bs, b.toNat < 128) :
    decodeRunes bs = bs.map (·.toNat) := decodeRunesF_ascii _ bs (Nat.le_refl _) h

theorem ascii_of_decodeRunes (bs : Bytes) (h : ∀ r ∈ decodeRunes bs, r < 128) :
    ∀ b ∈ bs, b.toNat < 128 := ascii_of_decodeRunesF _ bs (Nat.le_refl _) h

end Gate.Utf8
