import GateModel.Base.Line
import GateModel.C10.Model
import GateModel.C10.Spec
/-
C10 driver.  Case lines:
  `uuid <nameHex>\t<uuidHex> <uuidHex>`        uuid.OfflinePlayerUUID(name) and profile.NewOffline(name).ID
  `name <nameHex>\t0|1`                        playerNameRegex.MatchString(name) (verif hook)
  `runes <hex>\t<r,r,…|_>`                     Go `for range` rune decoding (validates Utf8.lean; no verdict)
  `login <proto> <none|legacy> <-|idHex:nameHex> <be:0|1> <nokey|valid|expired|badsig> <nameHex>\t<outcome>`
        outcome: `closed` | `invalid-name` | `bad-key` | `ok <uuidHex> <nameHex> be=<nameHex|->`
        (key = the signed profile key attached to the login start packet, protocols 759/760 only; `valid` is
        signed by the harness-owned trust anchor installed through the verif hook)
        (`be` = Username of the ServerLogin the fake backend received; `-` when the case has no backend leg)
Spec verdicts are evaluated on the implementation's output:
  uuid  : both ids equal vanilla's nameUUIDFromBytes("OfflinePlayer:"+name)
  name  : accepted iff 2..16 bytes from A-Z a-z 0-9 _
  login : admitted iff the username is valid; for an offline-mode player (no override) the announced name is
          the one sent, the id is vanilla's offline UUID, and the backend-derived id (from `be`) is the same.
-/
namespace Gate.C10
open Gate Gate.Hash Gate.Utf8

def showRunes (rs : List Nat) : String :=
  if rs.isEmpty then "_" else ",".intercalate (rs.map toString)

def parseOverride (s : String) : Option (Option Profile) :=
  if s = "-" then some none else
  match s.splitOn ":" with
  | [a, b] => do pure (some ⟨← parseHex a, ← parseHex b⟩)
  | _ => none

def showOutcome (withBackend : Bool) : Outcome → String
  | .closed => "closed"
  | .invalidName => "invalid-name"
  | .badKey => "bad-key"
  | .success id nm be => "ok " ++ toHex id ++ " " ++ toHex nm ++ " be=" ++ (if withBackend then toHex be else "-")

/-- spec on the implementation's login outcome -/
def parseKey : String → Option KeyState
  | "nokey" => some .absent | "valid" => some .valid | "expired" => some .expired | "badsig" => some .badSignature
  | _ => none

def loginVerdict (key : KeyState) (ov : Option Profile) (u : Bytes) (impl : String) : String :=
  let valid := decide (validUsername u)
  match impl.splitOn " " with
  | ["ok", idh, nmh, beh] =>
    if !valid then "viol:invalid-name-admitted" else
    match ov, parseHex idh, parseHex nmh with
    | none, some id, some nm =>
      if nm ≠ u then "viol:name-changed"
      else if id ≠ vanillaOfflineUUID u then "viol:offline-uuid"
      else if beh = "be=-" then "ok"
      else match parseHex (beh.drop 3).toString with
        | some be => if backendDerivedUUID be = id then "ok" else "viol:backend-uuid"
        | none => "viol:backend-uuid"
    | some _, some _, some _ => "ok"      -- plugin-chosen identity: admission judged, identity is correspondence only
    | _, _, _ => "viol:malformed-outcome"
  | _ => if valid && (key == .absent || key == .valid) then "viol:valid-name-rejected" else "ok"

def step (c : Case) : String × String :=
  match c.op, c.args with
  | "uuid", [h] =>
    match parseHex h with
    | some name =>
      let m := toHex (offlinePlayerUUID name)
      let want := toHex (vanillaOfflineUUID name)
      (m ++ " " ++ toHex (newOffline name).id, if c.impl = want ++ " " ++ want then "ok" else "viol:offline-uuid")
    | none => ("bad-op", "-")
  | "name", [h] =>
    match parseHex h with
    | some name =>
      let want := if decide (validUsername name) then "1" else "0"
      (if nameOK name then "1" else "0",
       if c.impl = want then "ok" else if c.impl = "1" then "viol:invalid-name-accepted" else "viol:valid-name-rejected")
    | none => ("bad-op", "-")
  | "runes", [h] =>
    match parseHex h with
    | some bs => (showRunes (decodeRunes bs), "-")
    | none => ("bad-op", "-")
  | "login", [_proto, mode, ovs, be, ks, h] =>
    match parseOverride ovs, parseKey ks, parseHex h with
    | some ov, some key, some u =>
      (showOutcome (be = "1") (offlineLoginKeyed key (mode = "none") ov u), loginVerdict key ov u c.impl)
    | _, _, _ => ("bad-op", "-")
  | _, _ => ("bad-op", "-")

end Gate.C10

def main : IO Unit := Gate.runPureDriver Gate.C10.step
