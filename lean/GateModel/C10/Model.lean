import GateModel.Base.Bytes
import GateModel.C10.Md5
import GateModel.C10.Utf8
import GateModel.Gen.C10
/-
C10 model.

* `uuid.OfflinePlayerUUID(username)` (pkg/util/uuid/uuid.go):
      uuid := md5.Sum([]byte("OfflinePlayer:" + username))
      uuid[6] = (uuid[6] & 0x0f) | uint8((3 & 0xf) << 4)
      uuid[8] = (uuid[8] & 0x3f) | 0x80
  Go strings are byte strings; the username arrives as the raw bytes of the login packet.

* `playerNameRegex.MatchString(login.Username)` (session_client_initial_login.go): the pattern text
  is REGENERATED from the source (`Gate.Gen.C10.playerNameRegex`), parsed here for the only shape that
  occurs (`^[class]{m,n}$`) and run under Go `regexp` semantics: the subject is decoded rune by rune with
  `utf8.DecodeRuneInString` (invalid bytes are U+FFFD), `^`/`$` without flags match only at the very
  beginning / very end of the text (no "before a final \n" as in Java/PCRE).

* the offline login path: `ServerLogin.Decode` (`ReadStringMax(rd, 16)` → at most 64 bytes, empty name is
  a decode error), the regex gate in `handleServerLogin`, `profile.NewOffline`, the
  `GameProfileRequestEvent` hook (a plugin may replace the profile), `startLoginCompletion` /
  `completeLoginProtocolPhaseAndInitialize` (LoginSuccess carries `player.ID()` and `player.Username()`;
  the `playerID` that `startLoginCompletion` recomputes for forwarding mode `none` is used only for the
  chat-key holder check, NOT for LoginSuccess — observed on the real code, mirrored here) and
  `serverConnection.startHandshake` (the backend receives `ServerLogin{Username: player.Username()}`).
-/
namespace Gate.C10
open Gate Gate.Hash Gate.Utf8

/-! ### offline UUID -/

def offlinePrefix : Bytes := "OfflinePlayer:".toUTF8.toList

def setByte (i : Nat) (f : UInt8 → UInt8) (bs : Bytes) : Bytes := bs.modify i f

/-- the two masking assignments applied to a 16-byte array -/
def stampV3 (h : Bytes) : Bytes :=
  setByte 8 (fun (b : UInt8) => (b &&& 0x3f) ||| 0x80) (setByte 6 (fun (b : UInt8) => (b &&& 0x0f) ||| (((3 : UInt8) &&& (0xf : UInt8)) <<< (4 : UInt8))) h)

def offlinePlayerUUID (username : Bytes) : Bytes := stampV3 (md5 (offlinePrefix ++ username))

/-! ### the username pattern -/

structure NamePat where
  ranges : List (Nat × Nat)
  min : Nat
  max : Nat
  deriving DecidableEq, Repr

/-- class items up to `]`: `a-b` or a single literal; no escapes / negation / nested classes -/
def parseClass : Nat → List Char → Option (List (Nat × Nat) × List Char)
  | 0, _ => none
  | _ + 1, ']' :: r => some ([], r)
  | f + 1, a :: '-' :: b :: r =>
    if a = '\\' ∨ a = '[' ∨ a = '^' ∨ b = ']' ∨ b = '\\' ∨ b = '[' ∨ b.toNat < a.toNat then none
    else (parseClass f r).map fun (rs, rest) => ((a.toNat, b.toNat) :: rs, rest)
  | f + 1, a :: r =>
    if a = '\\' ∨ a = '[' ∨ a = '^' ∨ a = '-' then none
    else (parseClass f r).map fun (rs, rest) => ((a.toNat, a.toNat) :: rs, rest)
  | _ + 1, [] => none

def parseNat (cs : List Char) : Option Nat :=
  if cs.isEmpty ∨ !cs.all Char.isDigit then none
  else some (cs.foldl (fun a c => a * 10 + (c.toNat - 48)) 0)

/-- `^[…]{m,n}$` — anything else is not understood (the check then fails loudly) -/
def parsePat (s : String) : Option NamePat :=
  match s.toList with
  | '^' :: '[' :: r =>
    match parseClass (r.length + 1) r with
    | some (ranges, '{' :: r2) =>
      let ms := r2.takeWhile (· != ',')
      let r3 := (r2.dropWhile (· != ',')).drop 1
      let ns := r3.takeWhile (· != '}')
      match (r3.dropWhile (· != '}')), parseNat ms, parseNat ns with
      | ['}', '$'], some m, some n => some ⟨ranges, m, n⟩
      | _, _, _ => none
    | _ => none
  | _ => none

def inClass (ranges : List (Nat × Nat)) (r : Nat) : Bool := ranges.any fun (lo, hi) => lo ≤ r && r ≤ hi

/-- the automaton of `^C{min,max}$` over the rune sequence: consume runes of the class, at most `max`,
    accept exactly at end of text when at least `min` were consumed -/
def matchRep (ranges : List (Nat × Nat)) : Nat → Nat → List Nat → Bool
  | min, _, [] => min == 0
  | min, max, r :: rs =>
    match max with
    | 0 => false
    | max' + 1 => inClass ranges r && matchRep ranges (min - 1) max' rs

def matchPat (p : NamePat) (subject : Bytes) : Bool := matchRep p.ranges p.min p.max (decodeRunes subject)

/-- `playerNameRegex.MatchString(username)` for the pattern currently in the source -/
def nameOK (username : Bytes) : Bool :=
  match parsePat Gate.Gen.C10.playerNameRegex with
  | some p => matchPat p username
  | none => false

/-! ### offline login path -/

/-- `maxUsernameLen` of packet/login.go -/
def maxUsernameLen : Nat := Gate.Gen.C10.maxUsernameLen.toNat

structure Profile where
  id : Bytes
  name : Bytes
  deriving DecidableEq

inductive Outcome where
  | closed                      -- packet decode error: connection closed, no disconnect packet
  | invalidName                 -- disconnect "Your username has an invalid format."
  | badKey                      -- disconnect invalid_public_key / invalid_public_key_signature (1.19–1.19.2 chat key)
  | success (uuid name backendName : Bytes)
      -- ServerLoginSuccess{uuid, name}; `backendName` = Username of the ServerLogin sent to the backend
  deriving DecidableEq

/-- `profile.NewOffline` -/
def newOffline (username : Bytes) : Profile := ⟨offlinePlayerUUID username, username⟩

/-- `startLoginCompletion`: the id compared with the chat key holder (not sent anywhere) -/
def keyHolderCheckID (forwardingNone : Bool) (p : Profile) : Bytes :=
  if forwardingNone then offlinePlayerUUID p.name else p.id

/-- offline-mode login of `username`; `override` is what a `GameProfileRequestEvent` subscriber
    substitutes for the profile (none = no subscriber).  The forwarding mode does not influence what the
    client or the backend are told (it selects the handshake address format only, C19). -/
def offlineLogin (_forwardingNone : Bool) (override : Option Profile) (username : Bytes) : Outcome :=
  if username.length = 0 ∨ username.length > maxUsernameLen * 4 then .closed
  else if !nameOK username then .invalidName
  else
    let p := override.getD (newOffline username)
    .success p.id p.name p.name

/-- the signed profile key a 1.19–1.19.2 client may attach to its login start packet -/
inductive KeyState where
  | absent | valid | expired | badSignature
  deriving DecidableEq

/-- `handleServerLogin` with the key dimension: decode, THEN the username check, THEN the key checks
    (`Expired()`, `SetHolder`/`SignatureValid()`), then the rest of the offline path.  A valid or absent key
    changes nothing (with `ForceKeyAuthentication` off); a bad key is refused — but only after the name was. -/
def offlineLoginKeyed (key : KeyState) (forwardingNone : Bool) (override : Option Profile) (username : Bytes) : Outcome :=
  match offlineLogin forwardingNone override username with
  | .success id nm be =>
    match key with
    | .expired | .badSignature => .badKey
    | _ => .success id nm be
  | other => other

end Gate.C10
