import GateModel.C09.Sha1
/-
MD5 (RFC 1321) over byte lists, core Lean only, executable.  Used by C10 (offline-player UUID).
Shares the Merkle–Damgård padding and block splitting with `C09/Sha1.lean`.
-/
namespace Gate.Hash
open Gate

/-- RFC 1321 sine table `floor(2^32 * |sin(i+1)|)` -/
def md5K : List UInt32 :=
  [0xd76aa478, 0xe8c7b756, 0x242070db, 0xc1bdceee, 0xf57c0faf, 0x4787c62a, 0xa8304613, 0xfd469501,
   0x698098d8, 0x8b44f7af, 0xffff5bb1, 0x895cd7be, 0x6b901122, 0xfd987193, 0xa679438e, 0x49b40821,
   0xf61e2562, 0xc040b340, 0x265e5a51, 0xe9b6c7aa, 0xd62f105d, 0x02441453, 0xd8a1e681, 0xe7d3fbc8,
   0x21e1cde6, 0xc33707d6, 0xf4d50d87, 0x455a14ed, 0xa9e3e905, 0xfcefa3f8, 0x676f02d9, 0x8d2a4c8a,
   0xfffa3942, 0x8771f681, 0x6d9d6122, 0xfde5380c, 0xa4beea44, 0x4bdecfa9, 0xf6bb4b60, 0xbebfbc70,
   0x289b7ec6, 0xeaa127fa, 0xd4ef3085, 0x04881d05, 0xd9d4d039, 0xe6db99e5, 0x1fa27cf8, 0xc4ac5665,
   0xf4292244, 0x432aff97, 0xab9423a7, 0xfc93a039, 0x655b59c3, 0x8f0ccc92, 0xffeff47d, 0x85845dd1,
   0x6fa87e4f, 0xfe2ce6e0, 0xa3014314, 0x4e0811a1, 0xf7537e82, 0xbd3af235, 0x2ad7d2bb, 0xeb86d391]

/-- per-round left-rotation amounts -/
def md5S : List UInt32 :=
  [7, 12, 17, 22, 7, 12, 17, 22, 7, 12, 17, 22, 7, 12, 17, 22,
   5, 9, 14, 20, 5, 9, 14, 20, 5, 9, 14, 20, 5, 9, 14, 20,
   4, 11, 16, 23, 4, 11, 16, 23, 4, 11, 16, 23, 4, 11, 16, 23,
   6, 10, 15, 21, 6, 10, 15, 21, 6, 10, 15, 21, 6, 10, 15, 21]

structure Md5State where
  (a b c d : UInt32)

def md5Init : Md5State := ⟨0x67452301, 0xefcdab89, 0x98badcfe, 0x10325476⟩

/-- round function and message-word index for step `i` -/
def md5FG (i : Nat) (b c d : UInt32) : UInt32 × Nat :=
  if i < 16 then ((b &&& c) ||| ((~~~b) &&& d), i)
  else if i < 32 then ((d &&& b) ||| ((~~~d) &&& c), (5 * i + 1) % 16)
  else if i < 48 then (b ^^^ c ^^^ d, (3 * i + 5) % 16)
  else (c ^^^ (b ||| (~~~d)), (7 * i) % 16)

def md5Steps (m : List UInt32) : Nat → Nat → Md5State → Md5State
  | 0, _, s => s
  | n + 1, i, s =>
    let (f, g) := md5FG i s.b s.c s.d
    let f' := f + s.a + md5K.getD i 0 + m.getD g 0
    md5Steps m n (i + 1) ⟨s.d, s.b + rotl32 f' (md5S.getD i 0), s.b, s.c⟩

def md5Block (s : Md5State) (blk : Bytes) : Md5State :=
  let r := md5Steps (wordsOf word32LE blk) 64 0 s
  ⟨s.a + r.a, s.b + r.b, s.c + r.c, s.d + r.d⟩

def md5 (msg : Bytes) : Bytes :=
  let p := mdPad false msg
  let s := (blocks64 (p.length / 64 + 1) p).foldl md5Block md5Init
  le32 s.a ++ le32 s.b ++ le32 s.c ++ le32 s.d

theorem md5_length (msg : Bytes) : (md5 msg).length = 16 := by
  simp [md5, le32]

end Gate.Hash
