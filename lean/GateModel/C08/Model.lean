import GateModel.Base.Bytes
import GateModel.Gen.C08
/-
C08 model: the client login state machine of gate —
`initialLoginSessionHandler` (session_client_initial_login.go) up to the hand-over to `authSessionHandler`
(session_client_auth.go) and that handler's admission sequence.  One connection, one read-loop goroutine:
packets are handled strictly one after the other, so the machine is sequential:
`step : Cfg → Env → St → In → St × List Out`.

Parameters (never axioms): RSA/PKCS#1 decryption is abstracted into the inputs (an encryption response carries
what its two fields DECRYPT to, `none` = not decryptable); the random verify token is carried by the login-start
input (`nonce`: what crypto/rand yields if a request is generated); the session server is the function
`Env.sess : name → sharedSecret → JoinResult` (hasJoined for the server id derived from that secret — the
derivation itself is C09); the PreLogin subscribers' verdict for a username, the number of login plugin messages they
send during the PreLogin event (answered late or never: the completion of the login start is DEFERRED until the
client has answered them all — the loginInboundConn machinery of C13) and the online-mode flag are `Cfg`.
Player keys (1.19–1.19.2 only, `Cfg.keyEra`): the login start carries no key, or a key that is valid / expired /
wrongly signed (Mojang's signature over the key is a parameter: `KeyClass`); in that era an encryption response may
carry a salt + signature instead of the encrypted token (`salt`), whose verification against the client's key is the
parameter `sigOk`.  Which of the two verify-token checks applies is decided by the KEY, never by the response.
-/
namespace Gate.C08
open Gate

inductive PreLogin where
  | allowed | denied | forceOnline | forceOffline
  deriving DecidableEq, Repr

/-- the profile key of a 1.19–1.19.2 login start -/
inductive KeyClass where
  | none | valid | expired | invalid
  deriving DecidableEq, Repr

structure Cfg where
  onlineMode  : Bool
  preLogin    : Bytes → PreLogin      -- verdict of the PreLogin subscribers for this username
  preMsgs     : Bytes → Nat           -- login plugin messages they send (SendLoginPluginMessage) during the event
  compression : Bool := true          -- cfg.Compression.Threshold >= 0: a SetCompression precedes LoginSuccess
  keyEra      : Bool := false         -- protocol 1.19 – 1.19.2: login starts may carry a key, responses a salt
  forceKeyAuth : Bool := true         -- cfg.ForceKeyAuthentication

inductive JoinResult where
  | online        -- 200 with a usable profile
  | offline       -- 204 / 401 / 200 with empty body: Response.OnlineMode() = false
  | error         -- transport error / unexpected status: AuthenticateJoin returns an error
  | badProfile    -- 200 whose body is not a profile with a name: GameProfile() fails
  deriving DecidableEq, Repr

structure Env where
  sess : Bytes → Bytes → JoinResult     -- username, decrypted shared secret

inductive In where
  | login (name : Bytes) (nonce : Bytes) (key : KeyClass) -- ServerLogin{Username, PlayerKey}
  | encResp (tok : Option Bytes) (secret : Option Bytes) (salt : Bool) (sigOk : Bool)
      -- EncryptionResponse: RSA decryptions of VerifyToken / SharedSecret; `salt`: the salted form (Salt != nil);
      -- `sigOk`: playerKey.VerifyDataSignature(VerifyToken, l.verify, salt) would hold
  | pluginResp (id : Int)                               -- LoginPluginResponse{id}
  | ack                                                 -- LoginAcknowledged
  | other                                               -- any other known packet, or an unknown packet id
  deriving DecidableEq, Repr

inductive Reason where
  | badName | denied | internal | unable | onlineOnly | invalidPlayerData | keyExpired | keyInvalid | keyMissing
  deriving DecidableEq, Repr

inductive Out where
  | preLoginEvent (name : Bytes)
  | pluginMsg (id : Int)                    -- LoginPluginMessage{id} written to the client (after the event: loginEventFired)
  | consumed (id : Int)                     -- the message's consumer invoked with the client's answer
  | encReq (tok : Bytes)                    -- EncryptionRequest{VerifyToken}
  | encOn (secret : Bytes)                  -- conn.EnableEncryption(secret) succeeded
  | hasJoined (name : Bytes) (secret : Bytes)  -- AuthenticateJoin(serverId(secret, publicKey), name)
  | gameProfileEvent (online : Bool)        -- authSessionHandler.Activated
  | setCompression
  | loginEvent
  | registered (name : Bytes)               -- registrar.registerConnection
  | success (name : Bytes) (online : Bool)  -- ServerLoginSuccess written
  | disconnect (r : Reason)                 -- Disconnect packet + close
  | close                                   -- conn.Close() without a packet
  deriving DecidableEq, Repr

/-- loginState of initialLoginSessionHandler, then the auth handler's, then "connection closed" -/
inductive Phase where
  | expect          -- loginPacketExpected
  | waiting         -- loginPacketReceived, completion deferred: login plugin messages outstanding
  | encSent         -- encryptionRequestSent
  | successSent     -- authSessionHandler active, LoginSuccess written (1.20.2+: waiting for LoginAcknowledged)
  | config          -- login phase left
  | closed
  deriving DecidableEq, Repr

structure St where
  phase  : Phase := .expect
  name   : Bytes := []     -- l.login.Username
  verify : Bytes := []     -- l.verify (the token the completion will issue)
  outstanding : List Int := []   -- loginInboundConn.outstandingResponses (ids)
  hasKey : Bool := false         -- l.inbound.IdentifiedKey() != nil
  deriving DecidableEq, Repr

/-- playerNameRegex `^[A-Za-z0-9_]{2,16}$` on a Go string (bytes ≥ 0x80 are never in the class) -/
def nameChar (b : UInt8) : Bool :=
  (65 ≤ b && b ≤ 90) || (97 ≤ b && b ≤ 122) || (48 ≤ b && b ≤ 57) || b == 95
def validName (n : Bytes) : Bool := 2 ≤ n.length && n.length ≤ 16 && n.all nameChar

/-- ServerLogin.Decode: empty name → errEmptyUsername, more than maxUsernameLen*4 bytes → bad string length;
    a decode error ends the read loop (connection closed, no packet) -/
def decodable (n : Bytes) : Bool := 0 < n.length && n.length ≤ Gate.Gen.C08.maxUsernameLen.toNat * 4

/-- aes.NewCipher accepts exactly these key sizes -/
def keyLenOk (n : Nat) : Bool := n == 16 || n == 24 || n == 32

/-- `e.Result() != ForceOffline && (e.Result() == ForceOnline || cfg.OnlineMode)` for the PreLogin event of `name` -/
def needsAuth (cfg : Cfg) (name : Bytes) : Bool :=
  cfg.preLogin name != .forceOffline && (cfg.preLogin name == .forceOnline || cfg.onlineMode)

/-- authSessionHandler.Activated → startLoginCompletion → completeLoginProtocolPhaseAndInitialize
    (fresh proxy: no duplicate, LoginEvent allowed) -/
def admitSeq (cfg : Cfg) (name : Bytes) (online : Bool) : List Out :=
  [.gameProfileEvent online] ++ (if cfg.compression then [.setCompression] else []) ++
  [.loginEvent, .registered name, .success name online]

def closeWith (outs : List Out) : St × List Out := ({ phase := .closed }, outs)

/-- ids of the messages sent during the (single) PreLogin event: the sequence counter starts at 1 -/
def msgIds (k : Nat) : List Int := (List.range k).map fun (i : Nat) => Int.ofNat i + 1

/-- the completion callback handed to loginEventFired (runs once: C13): encryption request, or offline hand-over -/
def complete (cfg : Cfg) (s : St) : St × List Out :=
  if needsAuth cfg s.name then ({ s with phase := .encSent, outstanding := [] }, [.encReq s.verify])
  else ({ s with phase := .successSent, outstanding := [] }, admitSeq cfg s.name false)

/-- the key as decoded: only 1.19 – 1.19.2 login starts carry one -/
def effKey (cfg : Cfg) (key : KeyClass) : KeyClass := if cfg.keyEra then key else .none

/-- the key checks of handleServerLogin: expired / wrongly signed key, or no key although keys are forced -/
def keyReject (cfg : Cfg) (key : KeyClass) : Option Reason :=
  match effKey cfg key with
  | .expired => some .keyExpired
  | .invalid => some .keyInvalid
  | .none => if cfg.keyEra && cfg.forceKeyAuth then some .keyMissing else none
  | .valid => none

/-- handleServerLogin in state loginPacketExpected -/
def loginStep (cfg : Cfg) (name nonce : Bytes) (key : KeyClass) : St × List Out :=
  if !decodable name then closeWith [.close]
  else if !validName name then closeWith [.disconnect .badName]
  else match keyReject cfg key with
  | some r => closeWith [.disconnect r]
  | none =>
  if cfg.preLogin name == .denied then closeWith [.preLoginEvent name, .disconnect .denied]
  else
    let s' : St := { phase := .waiting, name := name, verify := nonce, outstanding := msgIds (cfg.preMsgs name),
                     hasKey := effKey cfg key == .valid }
    if cfg.preMsgs name == 0 then ((complete cfg s').1, .preLoginEvent name :: (complete cfg s').2)
    else (s', .preLoginEvent name :: (msgIds (cfg.preMsgs name)).map .pluginMsg)

/-- handleLoginPluginResponse while the completion is deferred -/
def pluginStep (cfg : Cfg) (s : St) (id : Int) : St × List Out :=
  if s.outstanding.contains id then
    let rest := s.outstanding.filter (· != id)
    if rest.isEmpty then ((complete cfg { s with outstanding := [] }).1, .consumed id :: (complete cfg { s with outstanding := [] }).2)
    else ({ s with outstanding := rest }, [.consumed id])
  else (s, [])

/-- the verify-token check: WHICH check applies is decided by the connection's key, not by the form of the
    response — with a key: the response must be salted and the signature over (token, salt) must verify;
    without a key: the token field must decrypt to exactly the issued token (a salt, if any, is irrelevant) -/
def tokenOk (s : St) (tok : Option Bytes) (salt sigOk : Bool) : Bool :=
  if s.hasKey then salt && sigOk else tok == some s.verify

/-- handleEncryptionResponse in state encryptionRequestSent -/
def encStep (cfg : Cfg) (env : Env) (s : St) (tok secret : Option Bytes) (salt sigOk : Bool) : St × List Out :=
  if s.verify.isEmpty then closeWith [.close]
  else if !tokenOk s tok salt sigOk then closeWith [.close]     -- no salt with a key / bad signature / Verify error or mismatch
  else match secret with
    | none => closeWith [.close]                                 -- DecryptSharedSecret error
    | some sec =>
      if !keyLenOk sec.length then closeWith [.disconnect .internal]
      else match env.sess s.name sec with
        | .error => closeWith [.encOn sec, .hasJoined s.name sec, .disconnect .unable]
        | .offline => closeWith [.encOn sec, .hasJoined s.name sec, .disconnect .onlineOnly]
        | .badProfile => closeWith [.encOn sec, .hasJoined s.name sec, .disconnect .unable]
        | .online =>
          ({ s with phase := .successSent }, [.encOn sec, .hasJoined s.name sec] ++ admitSeq cfg s.name true)

def step (cfg : Cfg) (env : Env) (s : St) : In → St × List Out
  | .login name nonce key =>
    match s.phase with
    | .closed | .config => (s, [])
    | .expect => loginStep cfg name nonce key
    | _ => closeWith [.close]                    -- assertState (also while the completion is deferred) / auth handler default
  | .encResp tok secret salt sigOk =>
    match s.phase with
    | .closed | .config => (s, [])
    | .encSent => encStep cfg env s tok secret (cfg.keyEra && salt) sigOk
    | _ => closeWith [.close]
  | .pluginResp id =>
    match s.phase with
    | .waiting => pluginStep cfg s id
    | _ => (s, [])                               -- nothing outstanding: unknown id, ignored by both handlers
  | .ack =>
    match s.phase with
    | .closed | .config => (s, [])
    | .successSent => ({ s with phase := .config }, [])
    | _ => closeWith [.close]
  | .other =>
    match s.phase with
    | .closed | .config => (s, [])
    | _ => closeWith [.close]

/-- run a packet sequence, collecting the outputs in order -/
def run (cfg : Cfg) (env : Env) : St → List In → St × List Out
  | s, [] => (s, [])
  | s, i :: is =>
    let r := step cfg env s i
    let r' := run cfg env r.1 is
    (r'.1, r.2 ++ r'.2)

end Gate.C08
