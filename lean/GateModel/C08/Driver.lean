import GateModel.Base.Line
import GateModel.C08.Model
/-
C08 driver.  Case line (see harness/c08/main.go):
  login <proto> online=<0|1> pre=<a|d|n|f> sess=<code> <input> …\t<observation>
The model replays the scenario and prints the transcript the fake client must have seen; the verdict is the
executable spec evaluated on the IMPLEMENTATION's observation:
  viol:admitted-without-auth     LoginSuccess / registration although the client did not go through
                                 [login start, EncryptionRequest, encryption response with the exact token and a
                                 decryptable secret, session server confirmed (name, server id)] exactly
  viol:out-of-order-not-closed   a packet that is out of order / repeated / foreign was not answered by closing,
                                 or an admission followed it
  viol:double-success            more than one LoginSuccess
  viol:hang
-/
namespace Gate.C08
open Gate

def nonce0 : Bytes := [1, 2, 3, 4]
def secret16 : Bytes := [118, 101, 114, 105, 102, 45, 99, 48, 56, 45, 115, 101, 99, 114, 101, 116]

structure Sim where
  st       : St := {}
  clientTok : Option Bytes := none
  pending  : List String := []      -- packets written by the proxy, not yet read by the client
  tr       : List String := []
  ev       : List String := []
  joins    : List String := []
  admitted : Bool := false
  sawEOF   : Bool := false
  hung     : Bool := false
  k        : Nat := 0

def reasonClass : Reason → String
  | .badName => "badname" | .denied => "denied" | .internal => "internal" | .unable => "unable"
  | .onlineOnly => "onlineonly" | .invalidPlayerData => "mc.invalid_player_data"

def absorb (s : Sim) : Out → Sim
  | .preLoginEvent _ => { s with ev := s.ev ++ ["pre"] }
  | .encReq t => { s with pending := s.pending ++ ["EncReq"], clientTok := some t }
  | .encOn _ => s
  | .hasJoined n _ => { s with joins := s.joins ++ [toHex n ++ ":1"] }
  | .gameProfileEvent o => { s with ev := s.ev ++ [if o then "gp:1" else "gp:0"] }
  | .setCompression => { s with pending := s.pending ++ ["SetComp"] }
  | .loginEvent => { s with ev := s.ev ++ ["login"] }
  | .registered _ => { s with admitted := true }
  | .success n o => { s with pending := s.pending ++ ["Success:" ++ (if o then "on" else "off") ++ ":" ++ toHex n ++ ":reg1"] }
  | .disconnect r => { s with pending := s.pending ++ ["Disc:" ++ reasonClass r] }
  | .close => s

/-- the client's wait: read until EncryptionRequest / LoginSuccess / EOF -/
def waitRead (s : Sim) : Sim :=
  let rec go : List String → List String → Option (List String × List String)
    | [], _ => none
    | p :: ps, acc =>
      if p.startsWith "Success" || p.startsWith "EncReq" then some (acc ++ ["<" ++ p], ps) else go ps (acc ++ ["<" ++ p])
  match go s.pending [] with
  | some (read, rest) => { s with tr := s.tr ++ read, pending := rest }
  | none =>
    let s := { s with tr := s.tr ++ s.pending.map ("<" ++ ·), pending := [] }
    if s.st.phase == .closed then { s with tr := s.tr ++ ["<EOF"], sawEOF := true }
    else { s with tr := s.tr ++ ["<hang"], sawEOF := true, hung := true }

def parseInput (s : Sim) (tok : String) : Option In :=
  match tok.splitOn ":" with
  | ["L", h] => (parseHex (if h = "" then "-" else h)).map (In.login · nonce0)
  | ["E", t, c] =>
    let base := s.clientTok.getD [9, 9, 9, 9]
    let tk : Option Bytes := match t with
      | "v" => some base
      | "w" => some (match base with | b :: r => (b ^^^ 0x55) :: r | [] => [0x55])
      | _ => none
    let sc : Option Bytes := match c with
      | "k" => some secret16
      | "s" => some (secret16.take 5)
      | _ => none
    some (.encResp tk sc)
  | ["P", i] => i.toInt?.map .pluginResp
  | ["U"] => some .other
  | ["A"] => some .ack
  | _ => none

def simulate (cfg : Cfg) (env : Env) (inputs : List String) : Option Sim :=
  inputs.foldlM (fun (s : Sim) tok => do
    let i ← parseInput s tok
    let s := { s with tr := s.tr ++ [">" ++ toString s.k], k := s.k + 1 }
    let r := step cfg env s.st i
    let s := r.2.foldl absorb { s with st := r.1 }
    pure (if tok.startsWith "L" || tok.startsWith "E" then waitRead s else s)) {}

def showL (xs : List String) : String := if xs.isEmpty then "-" else ",".intercalate xs

def finish (s : Sim) : String :=
  if s.hung then "hang" else
  let tr := if s.sawEOF then s.tr else s.tr ++ s.pending.map ("<" ++ ·)
  let ev := if s.admitted then s.ev ++ ["disc:ok"] else s.ev
  " ".intercalate tr ++ " end=" ++ (if s.st.phase == .closed then "closed" else "open") ++
    " ev=" ++ showL ev ++ " join=" ++ showL s.joins

/-! ### spec on the implementation's observation -/

def fieldOf (obs name : String) : String :=
  match (obs.splitOn " ").find? (·.startsWith (name ++ "=")) with
  | some f => (f.drop (name.length + 1)).toString
  | none => ""

def verdict (cfg : Cfg) (sessCode : String) (inputs : List String) (impl : String) : String :=
  if (impl.splitOn "hang").length > 1 then "viol:hang" else
  let toks := (impl.splitOn " ").filter (fun t => t.startsWith ">" || t.startsWith "<")
  let succ := toks.filter (·.startsWith "<Success")
  let ev := (fieldOf impl "ev").splitOn ","
  let joins := fieldOf impl "join"
  let closed := fieldOf impl "end" == "closed"
  if succ.length > 1 then "viol:double-success" else
  -- the non-plugin inputs with their indices
  let idx := (List.range inputs.length).zip inputs
  let np := idx.filter (fun (_, t) => !t.startsWith "P")
  let want : List String := if needsAuth cfg then ["L", "E"] else ["L"]
  -- first input that is out of order / repeated / foreign
  let kinds := np.map (fun (i, t) => (i, (t.take 1).toString))
  let dev : Option Nat :=
    let rec go : List (Nat × String) → List String → Option Nat
      | [], _ => none
      | (i, _) :: _, [] => some i
      | (i, k) :: r, w :: ws => if k == w then go r ws else some i
    go kinds want
  -- position of a transcript token
  let posOf (t : String) : Nat := toks.findIdx (· == t)
  let succPos : Nat := toks.findIdx (·.startsWith "<Success")
  let admitted := !succ.isEmpty || ev.contains "disc:ok"
  let orderBad : Bool := match dev with
    | some j => !closed || (succPos < toks.length && posOf (">" ++ toString j) < succPos)
    | none => false
  if orderBad then "viol:out-of-order-not-closed" else
  if admitted && needsAuth cfg then
    -- what was sent before the LoginSuccess was read
    let before := np.filter (fun (i, _) => posOf (">" ++ toString i) < succPos)
    match before with
    | [(i0, l), (i1, e)] =>
      let name := (l.drop 2).toString
      let okShape := l.startsWith "L:" && e == "E:v:k" &&
        (match parseHex (if name = "" then "-" else name) with | some n => validName n | none => false)
      let encReqBetween := posOf (">" ++ toString i0) < posOf "<EncReq" && posOf "<EncReq" < posOf (">" ++ toString i1)
      let joinOk := joins == name ++ ":1" && sessCode == "j"
      let succOk := succ == ["<Success:on:" ++ name ++ ":reg1"]
      if okShape && encReqBetween && joinOk && succOk then "ok" else "viol:admitted-without-auth"
    | _ => "viol:admitted-without-auth"
  else "ok"

def step' (c : Case) : String × String :=
  match c.op, c.args with
  | "login", _proto :: on :: pre :: sess :: inputs =>
    let cfg : Cfg := { onlineMode := on == "online=1",
                       preLogin := match pre with
                         | "pre=d" => .denied | "pre=n" => .forceOnline | "pre=f" => .forceOffline | _ => .allowed }
    let code := (sess.drop 5).toString
    -- the account the client joined the session server with: its first login name (code j) / another name (code o)
    let first : Bytes := match inputs.find? (·.startsWith "L:") with
      | some t => (parseHex (let h := (t.drop 2).toString; if h = "" then "-" else h)).getD []
      | none => []
    let env : Env := ⟨fun n s =>
      match code with
      | "j" => if n == first && s == secret16 then .online else .offline
      | "o" | "n" | "u" | "m" => .offline
      | "e" => .error
      | _ => .badProfile⟩
    match simulate cfg env inputs with
    | some s => (finish s, verdict cfg code inputs c.impl)
    | none => ("bad-op", "-")
  | _, _ => ("bad-op", "-")

end Gate.C08

def main : IO Unit := Gate.runPureDriver Gate.C08.step'
