import GateModel.Base.Line
import GateModel.C08.Model
/-
C08 driver.  Case line (see harness/c08/main.go):
  login <proto> online=<0|1> pre=<a|d|n|f> sess=<code> msgs=<k> fk=<0|1> <input> …\t<observation>
  shape state-before-prelogin\t<1|0>
The model replays the scenario and prints the transcript the fake client must have seen; the verdict is the
executable spec evaluated on the IMPLEMENTATION's observation:
  viol:admitted-without-auth     LoginSuccess / registration although the client did not go through
                                 [login start, EncryptionRequest, encryption response with the exact token and a
                                 decryptable secret, session server confirmed (name, server id)] exactly
  viol:out-of-order-not-closed   a packet that is out of order / repeated / foreign was not answered by closing,
                                 or an admission followed it
  viol:double-success            more than one LoginSuccess
  viol:state-assignment-after-prelogin   (shape) handleServerLogin no longer leaves loginPacketExpected before PreLogin fires
  viol:hang
-/
namespace Gate.C08
open Gate

def nonce0 : Bytes := [1, 2, 3, 4]
def secret16 : Bytes := [118, 101, 114, 105, 102, 45, 99, 48, 56, 45, 115, 101, 99, 114, 101, 116]

structure Sim where
  st       : St := {}
  clientTok : Option Bytes := none
  pending  : List String := []      -- packets written by the proxy, not yet read by the client
  tr       : List String := []
  ev       : List String := []
  joins    : List String := []
  admitted : Bool := false
  sawEOF   : Bool := false
  hung     : Bool := false
  unanswered : List Int := []     -- plugin messages the client has received and not answered
  legacy   : Bool := false         -- pre-1.20.2 client (here: 1.19 – 1.19.2)
  legacyDone : Bool := false       -- … that got its LoginSuccess: the proxy leaves the login phase by itself
  k        : Nat := 0

def reasonClass : Reason → String
  | .badName => "badname" | .denied => "denied" | .internal => "internal" | .unable => "unable"
  | .onlineOnly => "onlineonly" | .invalidPlayerData => "mc.invalid_player_data"
  | .keyExpired => "mc.invalid_public_key_signature" | .keyInvalid => "mc.invalid_public_key"
  | .keyMissing => "mc.missing_public_key"

def absorb (s : Sim) : Out → Sim
  | .preLoginEvent _ => { s with ev := s.ev ++ ["pre"] }
  | .pluginMsg id => { s with pending := s.pending ++ ["PluginMsg:" ++ toString id] }
  | .consumed _ => { s with ev := s.ev ++ ["cons"] }
  | .encReq t => { s with pending := s.pending ++ ["EncReq"], clientTok := some t }
  | .encOn _ => s
  | .hasJoined n _ => { s with joins := s.joins ++ [toHex n ++ ":1"] }
  | .gameProfileEvent o => { s with ev := s.ev ++ [if o then "gp:1" else "gp:0"] }
  | .setCompression => { s with pending := s.pending ++ ["SetComp"] }
  | .loginEvent => { s with ev := s.ev ++ ["login"] }
  | .registered _ => { s with admitted := true }
  | .success n o => { s with pending := s.pending ++ ["Success:" ++ (if o then "on" else "off") ++ ":" ++ toHex n ++
                        (if s.legacy then ":reg_" else ":reg1")], legacyDone := s.legacy }
  | .disconnect r => { s with pending := s.pending ++ ["Disc:" ++ reasonClass r] }
  | .close => s

/-- the client's wait: read until EncryptionRequest / LoginSuccess / EOF, or (after a login start) until
    `kStop` plugin messages have arrived -/
def waitRead (s : Sim) (kStop : Nat) : Sim :=
  let rec go : List String → Sim → Nat → Sim × Bool
    | [], s, _ => (s, false)
    | p :: ps, s, got =>
      let s := { s with tr := s.tr ++ ["<" ++ p], pending := ps }
      if p.startsWith "Success" || p.startsWith "EncReq" then (s, true)
      else if p.startsWith "PluginMsg:" then
        let id := ((p.drop 10).toString.toInt?).getD 0
        let s := { s with unanswered := s.unanswered ++ [id] }
        if kStop > 0 && got + 1 == kStop then (s, true) else go ps s (got + 1)
      else go ps s got
  match go s.pending s 0 with
  | (s, true) => s
  | (s, false) =>
    if s.st.phase == .closed then { s with tr := s.tr ++ ["<EOF"], sawEOF := true }
    else { s with tr := s.tr ++ ["<hang"], sawEOF := true, hung := true }

def parseInput (s : Sim) (tok : String) : Option In :=
  match tok.splitOn ":" with
  | ["L", h] => (parseHex (if h = "" then "-" else h)).map (In.login · nonce0 .none)
  | ["L", h, "x"] => (parseHex (if h = "" then "-" else h)).map (In.login · nonce0 .expired)
  | ["L", h, "i"] => (parseHex (if h = "" then "-" else h)).map (In.login · nonce0 .invalid)
  | "E" :: t :: c :: rest =>
    let base := s.clientTok.getD [9, 9, 9, 9]
    let tk : Option Bytes := match t with
      | "v" => some base
      | "w" => some (match base with | b :: r => (b ^^^ 0x55) :: r | [] => [0x55])
      | "p" => some (base.take 2)      -- a proper prefix of the issued token
      | "z" => some []                 -- the empty token
      | "l" => some (base ++ [0])      -- one byte more
      | _ => none
    let sc : Option Bytes := match c with
      | "k" => some secret16
      | "s" => some (secret16.take 5)
      | _ => none
    some (.encResp tk sc (rest == ["s"]) false)   -- the harness cannot sign: sigOk = false
  | ["P", i] => i.toInt?.map .pluginResp
  | ["U"] => some .other
  | ["A"] => some .ack
  | _ => none

def simulate (cfg : Cfg) (env : Env) (msgs : Nat) (inputs : List String) : Option Sim :=
  inputs.foldlM (fun (s : Sim) tok => do
    if s.legacyDone then pure s else
    let i ← parseInput s tok
    let s := { s with tr := s.tr ++ [">" ++ toString s.k], k := s.k + 1 }
    let r := step cfg env s.st i
    let s := r.2.foldl absorb { s with st := r.1 }
    if tok.startsWith "L" then pure (waitRead s msgs)
    else if tok.startsWith "E" then pure (waitRead s 0)
    else match i with
      | .pluginResp id =>
        if s.unanswered.contains id then
          let s := { s with unanswered := s.unanswered.filter (· != id) }
          pure (if s.unanswered.isEmpty then waitRead s 0 else s)
        else pure s
      | _ => pure s) { legacy := cfg.keyEra }

def showL (xs : List String) : String := if xs.isEmpty then "-" else ",".intercalate xs

def finish (s : Sim) : String :=
  if s.hung then "hang" else
  let tr := if s.sawEOF then s.tr else s.tr ++ s.pending.map ("<" ++ ·)
  -- pre-1.20.2: after LoginSuccess the proxy enters play (PostLogin event), finds no server and disconnects
  let tr := if s.legacyDone then s.tr else tr
  let ev := if s.legacyDone then s.ev ++ ["post"] else s.ev
  let ev := if s.admitted then ev ++ ["disc:ok"] else ev
  " ".intercalate tr ++ " end=" ++ (if s.st.phase == .closed || s.legacyDone then "closed" else "open") ++
    " ev=" ++ showL ev ++ " join=" ++ showL s.joins

/-! ### spec on the implementation's observation -/

def fieldOf (obs name : String) : String :=
  match (obs.splitOn " ").find? (·.startsWith (name ++ "=")) with
  | some f => (f.drop (name.length + 1)).toString
  | none => ""

def svcName (n : Bytes) : Bool := n.take 3 == [115, 118, 99]

def mkCfg (online : Bool) (pre : String) (msgs : Nat) (keyEra forceKey : Bool) : Cfg :=
  { onlineMode := online
    keyEra := keyEra
    forceKeyAuth := forceKey
    preLogin := fun n => if svcName n then .forceOffline else
      match pre with | "pre=d" => .denied | "pre=n" => .forceOnline | "pre=f" => .forceOffline | _ => .allowed
    preMsgs := fun _ => msgs }

def nameOf (tok : String) : Bytes :=
  let h := ((tok.splitOn ":").getD 1 "")
  (parseHex (if h = "" then "-" else h)).getD []

def verdict (cfg : Cfg) (sessCode : String) (inputs : List String) (impl : String) : String :=
  if (impl.splitOn "hang").length > 1 then "viol:hang" else
  let toks := (impl.splitOn " ").filter (fun t => t.startsWith ">" || t.startsWith "<")
  let succ := toks.filter (·.startsWith "<Success")
  let ev := (fieldOf impl "ev").splitOn ","
  let joins := fieldOf impl "join"
  let closed := fieldOf impl "end" == "closed"
  if succ.length > 1 then "viol:double-success" else
  let posOf (t : String) : Nat := toks.findIdx (· == t)
  let succPos : Nat := toks.findIdx (·.startsWith "<Success")
  let encReqPos : Nat := posOf "<EncReq"
  -- the non-plugin inputs with their indices
  let idx := (List.range inputs.length).zip inputs
  let np := idx.filter (fun (_, t) => !t.startsWith "P")
  -- the packet order a connection may follow: one login start, then (if that name must authenticate) one
  -- encryption response, sent after the EncryptionRequest was received; everything else is out of order
  let firstNeeds : Bool := match np with
    | (_, t) :: _ => t.startsWith "L:" && needsAuth cfg (nameOf t)
    | [] => false
  let want : List String := if firstNeeds then ["L", "E"] else ["L"]
  let kinds := np.map (fun (i, t) => (i, (t.take 1).toString))
  let dev : Option Nat :=
    let rec go : List (Nat × String) → List String → Option Nat
      | [], _ => none
      | (i, _) :: _, [] => some i
      | (i, k) :: r, w :: ws =>
        if k == w && (k != "E" || encReqPos < posOf (">" ++ toString i)) then go r ws else some i
    go kinds want
  let admitted := !succ.isEmpty || ev.contains "disc:ok"
  let orderBad : Bool := match dev with
    | some j => !closed || (succPos < toks.length && posOf (">" ++ toString j) < succPos)
    | none => false
  if orderBad then "viol:out-of-order-not-closed" else
  -- the admitted username, as the client was told
  let admName : Option Bytes := match succ with
    | [t] => match t.splitOn ":" with
      | [_, _, h, _] => parseHex (if h = "" then "-" else h)
      | _ => none
    | _ => none
  let before := np.filter (fun (i, _) => posOf (">" ++ toString i) < succPos)
  if admitted && (match admName with | some n => needsAuth cfg n | none => firstNeeds) then
    match before with
    | [(i0, l), (i1, e)] =>
      let name := toHex (nameOf l)
      -- keyless connection (the harness cannot produce a valid key): the token field must carry exactly the issued
      -- token — in the plain or (1.19 – 1.19.2) the salted form
      let okShape := l.startsWith "L:" && (!cfg.keyEra || (l.splitOn ":").length == 2) && (e == "E:v:k" || e == "E:v:k:s") &&
        validName (nameOf l) && needsAuth cfg (nameOf l) && keyReject cfg .none == none
      let encReqBetween := posOf (">" ++ toString i0) < encReqPos && encReqPos < posOf (">" ++ toString i1)
      let joinOk := joins == name ++ ":1" && sessCode == "j"
      let succOk := succ == ["<Success:on:" ++ name ++ ":reg1"] || succ == ["<Success:on:" ++ name ++ ":reg_"]
      if okShape && encReqBetween && joinOk && succOk then "ok" else "viol:admitted-without-auth"
    | _ => "viol:admitted-without-auth"
  else if admitted then
    -- offline admission: exactly one login start, and it carries the admitted name
    match before, admName with
    | [(_, l)], some n =>
      if l.startsWith "L:" && nameOf l == n && keyReject cfg (if (l.splitOn ":").length == 2 then .none else .invalid) == none
      then "ok" else "viol:admitted-without-auth"
    | _, _ => "viol:admitted-without-auth"
  else "ok"

def step' (c : Case) : String × String :=
  match c.op, c.args with
  | "shape", _ => ("1", if c.impl == "1" then "ok" else "viol:state-assignment-after-prelogin")
  | "login", pv :: on :: pre :: sess :: msgs :: fk :: inputs =>
    let k := ((msgs.drop 5).toString.toNat?).getD 0
    let cfg := mkCfg (on == "online=1") pre k (pv == "759" || pv == "760") (fk == "fk=1")
    let code := (sess.drop 5).toString
    -- the account the client joined the session server with: its first login name (code j) / another name (code o)
    let first : Bytes := match inputs.find? (·.startsWith "L:") with
      | some t => nameOf t
      | none => []
    let env : Env := ⟨fun n s =>
      match code with
      | "j" => if n == first && s == secret16 then .online else .offline
      | "o" | "n" | "u" | "m" => .offline
      | "e" => .error
      | _ => .badProfile⟩
    match simulate cfg env k inputs with
    | some s => (finish s, verdict cfg code inputs c.impl)
    | none => ("bad-op", "-")
  | _, _ => ("bad-op", "-")

end Gate.C08

def main : IO Unit := Gate.runPureDriver Gate.C08.step'
