import GateModel.C08.Lemmas
import GateModel.Gen.C08
/-
C08 — Online-mode players are admitted only after verified encryption and session auth.

`run cfg env {} ins` is the output trace of the login machine for the packet sequence `ins` on a fresh
connection, for ANY configuration `cfg` (online flag; per username: the PreLogin verdict and the number of login
plugin messages the PreLogin subscribers send, which DEFER the completion of the login start until the client
has answered them all), ANY session server `env.sess` and ANY inputs (an encryption response carries what its
fields decrypt to — RSA is a parameter).

  * `admit_requires_auth`: a trace that contains a LoginSuccess or a registration of a username for which
    authentication is required (online mode or forced online for THAT name, not forced offline for THAT name)
    begins with the complete chain  PreLogin(name), its plugin messages, consumer calls, EncryptionRequest(nonce),
    EnableEncryption(sec), hasJoined(name, sec), profile event, [SetCompression], Login event, registered(name),
    LoginSuccess(name, online)  and the inputs contain the login start (name, nonce) and the encryption response
    that decrypts to exactly (nonce, sec), the session server says online for (name, sec), `sec` has an AES key
    length, `name` matches the pattern; nothing after the chain is such an admission;
  * `success_requires_session_auth`: the admitted name is the name of that chain;
  * the verify-token proof (`TokenProof`): without a valid profile key (all protocols but 1.19–1.19.2, and keyless
    logins there) the token field decrypts to EXACTLY the issued token — a salted response does not replace it
    (`keyless_admission_requires_exact_token`, `salt_does_not_replace_token`); with a key the response must be salted
    and correctly signed (`key_requires_salted_signature`); bad / missing keys are refused (`bad_key_refused`);
  * `at_most_one_success` (any configuration);
  * out-of-order / repeated / foreign packets close without any other output — ALSO while the completion is
    deferred (`deferred_*`); a closed connection stays silent and closed; plugin responses with ids that are
    not outstanding are ignored;
  * regenerated source facts (`shape_*`).
-/
namespace Gate.C08.Props
open Gate Gate.C08

/-! ### admission requires the whole chain -/

theorem admit_requires_auth (cfg : Cfg) (env : Env) (ins : List In)
    (hadm : ((run cfg env {} ins).2.any (isAuthAdm cfg)) = true) :
    ∃ (name : Bytes) (key : KeyClass) (cs : List Int) (nonce sec : Bytes) (tok : Option Bytes) (salt sg : Bool)
      (tail : List Out),
      (run cfg env {} ins).2 =
        .preLoginEvent name :: (msgIds (cfg.preMsgs name)).map .pluginMsg ++ cs.map .consumed ++
          [.encReq nonce, .encOn sec, .hasJoined name sec] ++ admitSeq cfg name true ++ tail ∧
      tail.any (isAuthAdm cfg) = false ∧
      In.login name nonce key ∈ ins ∧ In.encResp tok (some sec) salt sg ∈ ins ∧ TokenProof cfg key nonce tok salt sg ∧
      env.sess name sec = .online ∧ keyLenOk sec.length = true ∧ validName name = true ∧
      needsAuth cfg name = true := by
  have h0 : Inv cfg env [] {} [] :=
    ⟨fun _ => rfl, by intro h; simp at h, by intro h; simp at h, Or.inl rfl⟩
  have h := (inv_run cfg env ins [] {} [] h0).good
  simp only [List.nil_append] at h
  rcases h with h | ⟨name, key, cs, nonce, sec, tok, salt, sg, tail, ho, ht, h1, h2, hp, h3, h4, h5, h6⟩
  · rw [h] at hadm; cases hadm
  · exact ⟨name, key, cs, nonce, sec, tok, salt, sg, tail, by simpa [chain, preamble, List.append_assoc] using ho,
      ht, h1, h2, hp, h3, h4, h5, h6⟩

/-- LoginSuccess for a name that requires authentication ⇒ the client sent a login start with THAT name, returned
    the token issued for it, and the session server confirmed the join for that name and the decrypted secret -/
theorem success_requires_session_auth (cfg : Cfg) (env : Env) (ins : List In)
    (n : Bytes) (o : Bool) (h : Out.success n o ∈ (run cfg env {} ins).2) (hn : needsAuth cfg n = true) :
    ∃ nonce sec key tok salt sg, In.login n nonce key ∈ ins ∧ In.encResp tok (some sec) salt sg ∈ ins ∧
      TokenProof cfg key nonce tok salt sg ∧ env.sess n sec = .online ∧ o = true := by
  have hadm : ((run cfg env {} ins).2.any (isAuthAdm cfg)) = true := by
    rw [List.any_eq_true]; exact ⟨_, h, by simp [isAuthAdm, hn]⟩
  obtain ⟨name, key, cs, nonce, sec, tok, salt, sg, tail, ho, ht, h1, h2, hp, h3, _, _, _⟩ := admit_requires_auth cfg env ins hadm
  rw [ho] at h
  have hnt : Out.success n o ∉ tail := by
    intro hm
    have := List.any_eq_false.1 ht _ hm
    simp [isAuthAdm, hn] at this
  have : Out.success n o ∈ admitSeq cfg name true := by
    simp only [List.mem_append, List.mem_cons, List.mem_map] at h
    rcases h with ((((h | h) | h) | h) | h) | h
    · cases h
    · obtain ⟨_, _, h⟩ := h; cases h
    · obtain ⟨_, _, h⟩ := h; cases h
    · simp at h
    · exact h
    · exact absurd h hnt
  have hno : n = name ∧ o = true := by
    cases hc : cfg.compression <;> simp [admitSeq, hc] at this <;> exact this
  obtain ⟨rfl, rfl⟩ := hno
  exact ⟨nonce, sec, key, tok, salt, sg, h1, h2, hp, h3, rfl⟩

/-- a connection without a (valid) profile key — every protocol outside 1.19–1.19.2, and keyless logins inside —
    proves the token only by returning exactly the issued token: no salted form, no signature claim replaces it -/
theorem keyless_admission_requires_exact_token (cfg : Cfg) (key : KeyClass) (nonce : Bytes) (tok : Option Bytes)
    (salt sg : Bool) (hk : cfg.keyEra = false ∨ key ≠ .valid) (h : TokenProof cfg key nonce tok salt sg) :
    tok = some nonce := by
  unfold TokenProof at h
  have : effKey cfg key ≠ .valid := by
    unfold effKey
    rcases hk with hk | hk
    · simp [hk]
    · split <;> simp [hk]
  simpa [this] using h

/-- step level, the class of the second red-team change: WHICH verify-token check applies is decided by the key
    the connection has, not by the form of the response — without a key, a response whose token field does not
    decrypt to the issued token closes the connection, salted or not, whatever signature it claims -/
theorem salt_does_not_replace_token (cfg : Cfg) (env : Env) (s : St) (tok secret : Option Bytes) (salt sg : Bool)
    (hp : s.phase = .encSent) (hk : s.hasKey = false) (ht : tok ≠ some s.verify) :
    step cfg env s (.encResp tok secret salt sg) = ({ phase := .closed }, [.close]) := by
  rw [step_enc_encSent hp]
  cases he : s.verify.isEmpty with
  | true => exact encStep_noverify he
  | false => exact encStep_badtoken he (by simp [tokenOk, hk, ht])

/-- with a key the response must be salted and correctly signed; an (even correctly) encrypted token does not do -/
theorem key_requires_salted_signature (cfg : Cfg) (env : Env) (s : St) (tok secret : Option Bytes) (salt sg : Bool)
    (hp : s.phase = .encSent) (hk : s.hasKey = true) (h : (cfg.keyEra && salt) = false ∨ sg = false) :
    step cfg env s (.encResp tok secret salt sg) = ({ phase := .closed }, [.close]) := by
  rw [step_enc_encSent hp]
  cases he : s.verify.isEmpty with
  | true => exact encStep_noverify he
  | false => exact encStep_badtoken he (by rcases h with h | h <;> simp [tokenOk, hk, h])

/-- an expired or wrongly signed key, or a missing key where keys are forced, is refused before the PreLogin event -/
theorem bad_key_refused (cfg : Cfg) (env : Env) (name nonce : Bytes) (key : KeyClass) (r : Reason)
    (hd : decodable name = true) (hv : validName name = true) (hk : keyReject cfg key = some r) :
    step cfg env {} (.login name nonce key) = ({ phase := .closed }, [.disconnect r]) :=
  (step_login_expect rfl).trans (loginStep_keyreject hd hv hk)

/-- at most one LoginSuccess, for every configuration -/
theorem at_most_one_success (cfg : Cfg) (env : Env) (ins : List In) :
    successCount (run cfg env {} ins).2 ≤ 1 := by
  have gen : ∀ (ins : List In) (s : St),
      successCount (run cfg env s ins).2 + (if 3 ≤ rank s.phase then 1 else 0) ≤ 1 := by
    intro ins
    induction ins with
    | nil => intro s; simp [run, successCount]; split <;> omega
    | cons i is ih =>
      intro s
      have h1 := step_success cfg env s i
      have h2 := ih (step cfg env s i).1
      simp only [run]
      have happ : successCount ((step cfg env s i).2 ++ (run cfg env (step cfg env s i).1 is).2)
          = successCount (step cfg env s i).2 + successCount (run cfg env (step cfg env s i).1 is).2 := by
        simp [successCount, List.filter_append]
      rw [happ]
      have := h1.2
      split at this <;> split at this <;> split at h2 <;> split <;> omega
  have := gen ins {}
  simpa [rank] using this

/-! ### out-of-order, repeated and foreign packets -/

/-- a login start in any state but loginPacketExpected closes the connection, nothing else happens —
    in particular while the completion of the first login start is deferred -/
theorem second_login_closes (cfg : Cfg) (env : Env) (s : St) (name nonce : Bytes) (key : KeyClass)
    (h : s.phase = .waiting ∨ s.phase = .encSent ∨ s.phase = .successSent) :
    step cfg env s (.login name nonce key) = ({ phase := .closed }, [.close]) := step_login_wrong h

/-- an encryption response in any state but encryptionRequestSent (none requested yet — also while the request
    is deferred —, or a second one) closes -/
theorem unexpected_encryption_response_closes (cfg : Cfg) (env : Env) (s : St) (tok secret : Option Bytes)
    (salt sg : Bool) (h : s.phase = .expect ∨ s.phase = .waiting ∨ s.phase = .successSent) :
    step cfg env s (.encResp tok secret salt sg) = ({ phase := .closed }, [.close]) := step_enc_wrong h

/-- while the completion is deferred EVERY packet other than a plugin response closes the connection -/
theorem deferred_completion_closes_on_any_login_packet (cfg : Cfg) (env : Env) (s : St) (i : In)
    (hp : s.phase = .waiting) (hi : ∀ id, i ≠ .pluginResp id) :
    step cfg env s i = ({ phase := .closed }, [.close]) := by
  cases i with
  | login n v k => exact step_login_wrong (Or.inl hp)
  | encResp t c sl sg => exact step_enc_wrong (Or.inr (Or.inl hp))
  | pluginResp id => exact absurd rfl (hi id)
  | ack => exact step_ack_wrong (Or.inr (Or.inl hp))
  | other => exact step_other_open (Or.inr (Or.inl hp))

/-- the red-team scenario, for every configuration: a second login start while a PreLogin plugin message of the
    first is unanswered closes the connection; whatever follows (the late answer included), nothing more is
    emitted — no second PreLogin event, no admission under either name -/
theorem deferred_second_login_never_admits (cfg : Cfg) (env : Env) (n1 v1 n2 v2 : Bytes) (k1 k2 : KeyClass) (rest : List In)
    (hd : decodable n1 = true) (hv : validName n1 = true) (hkr : keyReject cfg k1 = none)
    (hden : cfg.preLogin n1 ≠ .denied) (hk : cfg.preMsgs n1 ≠ 0) :
    (run cfg env {} (.login n1 v1 k1 :: .login n2 v2 k2 :: rest)).2 =
      .preLoginEvent n1 :: (msgIds (cfg.preMsgs n1)).map .pluginMsg ++ [.close] ∧
    (run cfg env {} (.login n1 v1 k1 :: .login n2 v2 k2 :: rest)).1.phase = .closed := by
  have h1 : step cfg env {} (.login n1 v1 k1) = _ := (step_login_expect rfl).trans (loginStep_wait hd hv hkr hden hk)
  have h2 : step cfg env (⟨.waiting, n1, v1, msgIds (cfg.preMsgs n1), effKey cfg k1 == .valid⟩ : St)
      (.login n2 v2 k2) = closeWith [.close] := step_login_wrong (Or.inl rfl)
  simp only [run, h1, h2, closeWith_fst, closeWith_snd, run_closed cfg env rest { phase := .closed } rfl]
  simp

/-- a failed verify-token check, or an undecryptable secret, closes without enabling encryption or asking
    the session server -/
theorem bad_token_or_secret_closes (cfg : Cfg) (env : Env) (s : St) (tok secret : Option Bytes) (salt sg : Bool)
    (hp : s.phase = .encSent) (h : tokenOk s tok (cfg.keyEra && salt) sg = false ∨ secret = none) :
    step cfg env s (.encResp tok secret salt sg) = ({ phase := .closed }, [.close]) := by
  rw [step_enc_encSent hp]
  cases he : s.verify.isEmpty with
  | true => exact encStep_noverify he
  | false =>
    rcases h with h | h
    · exact encStep_badtoken he h
    · subst h
      cases ht : tokenOk s tok (cfg.keyEra && salt) sg with
      | true => exact encStep_nosecret he ht
      | false => exact encStep_badtoken he ht

theorem early_ack_closes (cfg : Cfg) (env : Env) (s : St)
    (h : s.phase = .expect ∨ s.phase = .waiting ∨ s.phase = .encSent) :
    step cfg env s .ack = ({ phase := .closed }, [.close]) := step_ack_wrong h

theorem foreign_packet_closes (cfg : Cfg) (env : Env) (s : St)
    (h : s.phase = .expect ∨ s.phase = .waiting ∨ s.phase = .encSent ∨ s.phase = .successSent) :
    step cfg env s .other = ({ phase := .closed }, [.close]) := step_other_open h

/-- the state machine never goes back -/
theorem phase_monotone (cfg : Cfg) (env : Env) (s : St) (i : In) :
    rank s.phase ≤ rank (step cfg env s i).1.phase := (step_success cfg env s i).1

/-- a closed connection produces nothing and stays closed, whatever is sent: never admitted afterwards -/
theorem closed_is_final (cfg : Cfg) (env : Env) (ins₁ ins₂ : List In)
    (h : (run cfg env {} ins₁).1.phase = .closed) :
    (run cfg env {} (ins₁ ++ ins₂)).2 = (run cfg env {} ins₁).2 ∧
    (run cfg env {} (ins₁ ++ ins₂)).1.phase = .closed := by
  rw [run_append, run_closed cfg env ins₂ _ h]
  simp [h]

/-- plugin responses are ignored unless they answer an outstanding PreLogin message -/
theorem plugin_response_ignored (cfg : Cfg) (env : Env) (s : St) (id : Int)
    (h : s.phase ≠ .waiting ∨ s.outstanding.contains id = false) :
    step cfg env s (.pluginResp id) = (s, []) := by
  by_cases hp : s.phase = .waiting
  · rcases h with h | h
    · exact absurd hp h
    · rw [step_plugin_waiting hp]; exact pluginStep_unknown h
  · exact step_plugin_other hp

/-! ### contrast: without required authentication the login start alone admits -/

theorem offline_admission (cfg : Cfg) (env : Env) (name nonce : Bytes) (key : KeyClass) (hn : needsAuth cfg name = false)
    (hd : cfg.preLogin name ≠ .denied) (hk : cfg.preMsgs name = 0) (hkr : keyReject cfg key = none)
    (hv : validName name = true) (hdec : decodable name = true) :
    (run cfg env {} [.login name nonce key]).2 = .preLoginEvent name :: admitSeq cfg name false := by
  have h : step cfg env {} (.login name nonce key) = _ := (step_login_expect rfl).trans (loginStep_now hdec hv hkr hd hk)
  have hc := complete_offline (cfg := cfg) (s := (⟨.waiting, name, nonce, [], effKey cfg key == .valid⟩ : St)) hn
  simp [run, h, hc]

/-! ### non-vacuity -/

def demoEnv : Env := ⟨fun n s => if n = [65, 98] ∧ s.length = 16 then .online else .offline⟩
def demoSecret : Bytes := List.replicate 16 7
def demoCfg : Cfg := ⟨true, fun _ => .allowed, fun _ => 0, true, false, true⟩
/-- PreLogin subscribers force offline mode for the name "sv" only and probe every login with one plugin message -/
def demoCfg2 : Cfg := ⟨true, fun n => if n = [115, 118] then .forceOffline else .allowed, fun _ => 1, true, false, true⟩
/-- a 1.19.x connection, keys not forced -/
def demoCfg3 : Cfg := ⟨true, fun _ => .allowed, fun _ => 0, true, true, false⟩

example : needsAuth demoCfg [65, 98] = true ∧
    ((run demoCfg demoEnv {} [.login [65, 98] [1, 2, 3, 4] .none, .pluginResp 3,
        .encResp (some [1, 2, 3, 4]) (some demoSecret) false false]).2.any (isAuthAdm demoCfg)) = true := by decide
example : ((run demoCfg demoEnv {} [.login [65, 98] [1, 2, 3, 4] .none,
        .encResp (some [1, 2, 3, 5]) (some demoSecret) false false]).2) = [.preLoginEvent [65, 98], .encReq [1, 2, 3, 4], .close] := by decide
example : (run demoCfg demoEnv {} [.login [65, 98] [1, 2, 3, 4] .none, .login [65, 98] [1, 2, 3, 4] .none]).1.phase = .closed := by decide
/-- deferred completion: the encryption request is issued only after the plugin message was answered -/
example : (run demoCfg2 demoEnv {} [.login [65, 98] [1, 2, 3, 4] .none, .pluginResp 1]).2 =
    [.preLoginEvent [65, 98], .pluginMsg 1, .consumed 1, .encReq [1, 2, 3, 4]] := by decide
/-- the first red-team sequence: forced-offline service account, then a second name, then the late answer -/
example : (run demoCfg2 demoEnv {} [.login [115, 118] [1, 2, 3, 4] .none, .login [65, 98] [5, 6, 7, 8] .none, .pluginResp 1]).2 =
    [.preLoginEvent [115, 118], .pluginMsg 1, .close] := by decide
/-- the second red-team input: 1.19.x, no profile key, a SALTED response with garbage in the token field -/
example : (run demoCfg3 demoEnv {} [.login [65, 98] [1, 2, 3, 4] .none, .encResp none (some demoSecret) true true]).2 =
    [.preLoginEvent [65, 98], .encReq [1, 2, 3, 4], .close] := by decide
/-- a valid key: the salted, correctly signed response is what admits (the encrypted token alone does not) -/
example : ((run demoCfg3 demoEnv {} [.login [65, 98] [1, 2, 3, 4] .valid, .encResp none (some demoSecret) true true]).2.any
      (isAuthAdm demoCfg3)) = true ∧
    (run demoCfg3 demoEnv {} [.login [65, 98] [1, 2, 3, 4] .valid, .encResp (some [1, 2, 3, 4]) (some demoSecret) false true]).2 =
      [.preLoginEvent [65, 98], .encReq [1, 2, 3, 4], .close] := by decide

/-! ### source shape (regenerated from /repo on every run) -/

open Gate.Gen.C08

theorem shape_name_pattern : playerNameRegex = "^[A-Za-z0-9_]{2,16}$" ∧ maxUsernameLen = 16 := by decide

/-- the pattern, byte-wise: what `validName` implements -/
theorem validName_spec (n : Bytes) : validName n = true ↔
    (2 ≤ n.length ∧ n.length ≤ 16 ∧ ∀ b ∈ n, (((65 ≤ b ∧ b ≤ 90) ∨ (97 ≤ b ∧ b ≤ 122)) ∨ (48 ≤ b ∧ b ≤ 57)) ∨ b = 95) := by
  simp [validName, nameChar, and_assoc]

theorem shape_dispatch :
    initialCases = ["*packet.ServerLogin", "*packet.LoginPluginResponse", "*packet.EncryptionResponse", "default"] ∧
    authCases = ["*packet.LoginAcknowledged", "*packet.LoginPluginResponse", "*cookie.CookieResponse", "default"] ∧
    initialDispatchCalls = ["p.KnownPacket", "l.conn.Close", "return", "l.handleServerLogin",
      "l.inbound.handleLoginPluginResponse", "l.handleEncryptionResponse", "l.conn.Close"] ∧
    assertStateCalls = ["return", "l.log.Info", "l.conn.Close", "return"] := by decide

/-- position of the first occurrence -/
def pos (l : List String) (x : String) : Nat := l.findIdx (· == x)

/-- handleEncryptionResponse: state assertion, token verification, secret decryption, EnableEncryption, server
    id, hasJoined, online check, profile — in this order, each once, and the hand-over to the auth session
    handler (the only one in the function) comes last -/
theorem shape_encryption_response_order :
    pos encRespCalls "l.assertState" = 0 ∧
    pos encRespCalls "l.assertState" < pos encRespCalls "l.auth().Verify" ∧
    pos encRespCalls "l.auth().Verify" < pos encRespCalls "authn.DecryptSharedSecret" ∧
    pos encRespCalls "authn.DecryptSharedSecret" < pos encRespCalls "l.conn.EnableEncryption" ∧
    pos encRespCalls "l.conn.EnableEncryption" < pos encRespCalls "authn.GenerateServerID" ∧
    pos encRespCalls "authn.GenerateServerID" < pos encRespCalls "authn.AuthenticateJoin" ∧
    pos encRespCalls "authn.AuthenticateJoin" < pos encRespCalls "authResp.OnlineMode" ∧
    pos encRespCalls "authResp.OnlineMode" < pos encRespCalls "authResp.GameProfile" ∧
    pos encRespCalls "authResp.GameProfile" < pos encRespCalls "l.newAuthSessionHandler" ∧
    pos encRespCalls "l.newAuthSessionHandler" + 2 = encRespCalls.length ∧
    (encRespCalls.filter (· == "l.newAuthSessionHandler")).length = 1 ∧
    (encRespCalls.filter (· == "l.conn.EnableEncryption")).length = 1 ∧
    (encRespCalls.filter (· == "authn.AuthenticateJoin")).length = 1 := by decide

/-- handleServerLogin: state assertion first, then the name pattern, then the PreLogin event; the encryption
    request / offline hand-over happen only inside the completion callback given to loginEventFired -/
theorem shape_server_login_order :
    pos serverLoginCalls "l.assertState" = 0 ∧
    pos serverLoginCalls "playerNameRegex.MatchString" < pos serverLoginCalls "l.eventMgr.Fire" ∧
    pos serverLoginCalls "l.eventMgr.Fire" < pos serverLoginCalls "func:{" ∧
    pos serverLoginCalls "func:{" < pos serverLoginCalls "l.generateEncryptionRequest" ∧
    pos serverLoginCalls "l.generateEncryptionRequest" < pos serverLoginCalls "}" ∧
    pos serverLoginCalls "}" + 1 = pos serverLoginCalls "l.inbound.loginEventFired" := by decide

/-- registration precedes the LoginSuccess write; the token comparison is a full byte comparison -/
theorem shape_register_before_success :
    pos completeCalls "a.registrar.registerConnection" < pos completeCalls "player.WritePacket" ∧
    verifyCalls = ["rsa.DecryptPKCS1v15", "fmt.Errorf", "return", "bytes.Equal", "return"] := by decide

end Gate.C08.Props
