import GateModel.C08.Model
/- C08 helper lemmas: equations of the step function branch by branch, the reachability invariant of the
   login machine (including the phase in which the completion of the login start is deferred). -/
set_option linter.unusedSimpArgs false
namespace Gate.C08

theorem closeWith_fst (o : List Out) : (closeWith o).1 = { phase := .closed } := rfl
theorem closeWith_snd (o : List Out) : (closeWith o).2 = o := rfl

/-! ### equations -/

section eqs
variable {cfg : Cfg} {env : Env} {s : St} {name nonce : Bytes} {key : KeyClass}

theorem loginStep_undecodable (hd : decodable name = false) : loginStep cfg name nonce key = closeWith [.close] := by
  simp [loginStep, hd]
theorem loginStep_badname (hd : decodable name = true) (hv : validName name = false) :
    loginStep cfg name nonce key = closeWith [.disconnect .badName] := by
  simp [loginStep, hd, hv]
theorem loginStep_keyreject {r : Reason} (hd : decodable name = true) (hv : validName name = true)
    (hk : keyReject cfg key = some r) : loginStep cfg name nonce key = closeWith [.disconnect r] := by
  simp [loginStep, hd, hv, hk]
theorem loginStep_denied (hd : decodable name = true) (hv : validName name = true) (hkr : keyReject cfg key = none)
    (hden : cfg.preLogin name = .denied) :
    loginStep cfg name nonce key = closeWith [.preLoginEvent name, .disconnect .denied] := by
  simp [loginStep, hd, hv, hkr, hden]
theorem loginStep_wait (hd : decodable name = true) (hv : validName name = true) (hkr : keyReject cfg key = none)
    (hden : cfg.preLogin name ≠ .denied) (hk : cfg.preMsgs name ≠ 0) :
    loginStep cfg name nonce key =
      ({ phase := .waiting, name := name, verify := nonce, outstanding := msgIds (cfg.preMsgs name),
         hasKey := effKey cfg key == .valid },
       .preLoginEvent name :: (msgIds (cfg.preMsgs name)).map .pluginMsg) := by
  simp [loginStep, hd, hv, hkr, hden, hk]
theorem loginStep_now (hd : decodable name = true) (hv : validName name = true) (hkr : keyReject cfg key = none)
    (hden : cfg.preLogin name ≠ .denied) (hk : cfg.preMsgs name = 0) :
    loginStep cfg name nonce key =
      ((complete cfg { phase := .waiting, name := name, verify := nonce, outstanding := [], hasKey := effKey cfg key == .valid }).1,
       .preLoginEvent name :: (complete cfg { phase := .waiting, name := name, verify := nonce, outstanding := [], hasKey := effKey cfg key == .valid }).2) := by
  simp [loginStep, hd, hv, hkr, hden, hk, msgIds]

theorem complete_auth (h : needsAuth cfg s.name = true) :
    complete cfg s = ({ s with phase := .encSent, outstanding := [] }, [.encReq s.verify]) := by
  simp [complete, h]
theorem complete_offline (h : needsAuth cfg s.name = false) :
    complete cfg s = ({ s with phase := .successSent, outstanding := [] }, admitSeq cfg s.name false) := by
  simp [complete, h]

theorem pluginStep_unknown {id : Int} (h : s.outstanding.contains id = false) : pluginStep cfg s id = (s, []) := by
  simp only [pluginStep, h, Bool.false_eq_true, ↓reduceIte]
theorem pluginStep_more {id : Int} (h : s.outstanding.contains id = true)
    (hr : (s.outstanding.filter (· != id)).isEmpty = false) :
    pluginStep cfg s id = ({ s with outstanding := s.outstanding.filter (· != id) }, [.consumed id]) := by
  simp only [pluginStep, h, hr]; rfl
theorem pluginStep_last {id : Int} (h : s.outstanding.contains id = true)
    (hr : (s.outstanding.filter (· != id)).isEmpty = true) :
    pluginStep cfg s id = ((complete cfg { s with outstanding := [] }).1,
      .consumed id :: (complete cfg { s with outstanding := [] }).2) := by
  simp only [pluginStep, h, hr]; rfl

theorem encStep_noverify {tok secret} {salt sg : Bool} (he : s.verify.isEmpty = true) :
    encStep cfg env s tok secret salt sg = closeWith [.close] := by
  simp [encStep, he]
theorem encStep_badtoken {tok secret} {salt sg : Bool} (he : s.verify.isEmpty = false) (ht : tokenOk s tok salt sg = false) :
    encStep cfg env s tok secret salt sg = closeWith [.close] := by
  simp [encStep, he, ht]
theorem encStep_nosecret {tok} {salt sg : Bool} (he : s.verify.isEmpty = false) (ht : tokenOk s tok salt sg = true) :
    encStep cfg env s tok none salt sg = closeWith [.close] := by
  simp [encStep, he, ht]
theorem encStep_badlen {tok} {salt sg : Bool} {sec : Bytes} (he : s.verify.isEmpty = false) (ht : tokenOk s tok salt sg = true)
    (hk : keyLenOk sec.length = false) :
    encStep cfg env s tok (some sec) salt sg = closeWith [.disconnect .internal] := by
  simp [encStep, he, ht, hk]
theorem encStep_error {tok} {salt sg : Bool} {sec : Bytes} (he : s.verify.isEmpty = false) (ht : tokenOk s tok salt sg = true)
    (hk : keyLenOk sec.length = true) (hs : env.sess s.name sec = .error) :
    encStep cfg env s tok (some sec) salt sg = closeWith [.encOn sec, .hasJoined s.name sec, .disconnect .unable] := by
  simp [encStep, he, ht, hk, hs]
theorem encStep_offline {tok} {salt sg : Bool} {sec : Bytes} (he : s.verify.isEmpty = false) (ht : tokenOk s tok salt sg = true)
    (hk : keyLenOk sec.length = true) (hs : env.sess s.name sec = .offline) :
    encStep cfg env s tok (some sec) salt sg = closeWith [.encOn sec, .hasJoined s.name sec, .disconnect .onlineOnly] := by
  simp [encStep, he, ht, hk, hs]
theorem encStep_badprofile {tok} {salt sg : Bool} {sec : Bytes} (he : s.verify.isEmpty = false) (ht : tokenOk s tok salt sg = true)
    (hk : keyLenOk sec.length = true) (hs : env.sess s.name sec = .badProfile) :
    encStep cfg env s tok (some sec) salt sg = closeWith [.encOn sec, .hasJoined s.name sec, .disconnect .unable] := by
  simp [encStep, he, ht, hk, hs]
theorem encStep_online {tok} {salt sg : Bool} {sec : Bytes} (he : s.verify.isEmpty = false) (ht : tokenOk s tok salt sg = true)
    (hk : keyLenOk sec.length = true) (hs : env.sess s.name sec = .online) :
    encStep cfg env s tok (some sec) salt sg =
      ({ s with phase := .successSent }, [.encOn sec, .hasJoined s.name sec] ++ admitSeq cfg s.name true) := by
  simp [encStep, he, ht, hk, hs]

theorem step_login_expect (hp : s.phase = .expect) : step cfg env s (.login name nonce key) = loginStep cfg name nonce key := by
  simp [step, hp]
theorem step_login_wrong (h : s.phase = .waiting ∨ s.phase = .encSent ∨ s.phase = .successSent) :
    step cfg env s (.login name nonce key) = closeWith [.close] := by
  rcases h with h | h | h <;> simp [step, h]
theorem step_enc_encSent {tok secret} {salt sg : Bool} (hp : s.phase = .encSent) :
    step cfg env s (.encResp tok secret salt sg) = encStep cfg env s tok secret (cfg.keyEra && salt) sg := by
  simp [step, hp]
theorem step_enc_wrong {tok secret} {salt sg : Bool} (h : s.phase = .expect ∨ s.phase = .waiting ∨ s.phase = .successSent) :
    step cfg env s (.encResp tok secret salt sg) = closeWith [.close] := by
  rcases h with h | h | h <;> simp [step, h]
theorem step_plugin_waiting {id : Int} (hp : s.phase = .waiting) : step cfg env s (.pluginResp id) = pluginStep cfg s id := by
  simp [step, hp]
theorem step_plugin_other {id : Int} (hp : s.phase ≠ .waiting) : step cfg env s (.pluginResp id) = (s, []) := by
  cases h : s.phase <;> simp [step, h] <;> exact absurd h hp
theorem step_ack_wrong (h : s.phase = .expect ∨ s.phase = .waiting ∨ s.phase = .encSent) :
    step cfg env s .ack = closeWith [.close] := by
  rcases h with h | h | h <;> simp [step, h]
theorem step_other_open (h : s.phase = .expect ∨ s.phase = .waiting ∨ s.phase = .encSent ∨ s.phase = .successSent) :
    step cfg env s .other = closeWith [.close] := by
  rcases h with h | h | h | h <;> simp [step, h]
theorem step_done (i : In) (h : s.phase = .closed ∨ s.phase = .config) : step cfg env s i = (s, []) := by
  rcases h with h | h <;> cases i <;> simp [step, h]
end eqs

/-! ### the invariant -/

/-- an admission (LoginSuccess / registration) of a username for which authentication is required -/
def isAuthAdm (cfg : Cfg) : Out → Bool
  | .success n _ => needsAuth cfg n
  | .registered n => needsAuth cfg n
  | _ => false

/-- what has been emitted while the completion is deferred: the PreLogin event, its plugin messages, the
    consumers invoked so far -/
def preamble (cfg : Cfg) (name : Bytes) (cs : List Int) : List Out :=
  .preLoginEvent name :: (msgIds (cfg.preMsgs name)).map .pluginMsg ++ cs.map .consumed

/-- the only way to an admission of a username that requires authentication -/
def chain (cfg : Cfg) (name : Bytes) (cs : List Int) (nonce sec : Bytes) : List Out :=
  preamble cfg name cs ++ [.encReq nonce, .encOn sec, .hasJoined name sec] ++ admitSeq cfg name true

theorem any_map_pluginMsg (cfg : Cfg) (l : List Int) : (l.map Out.pluginMsg).any (isAuthAdm cfg) = false := by
  induction l with
  | nil => rfl
  | cons x xs ih => simp [isAuthAdm, ih]
theorem any_map_consumed (cfg : Cfg) (l : List Int) : (l.map Out.consumed).any (isAuthAdm cfg) = false := by
  induction l with
  | nil => rfl
  | cons x xs ih => simp [isAuthAdm, ih]
theorem preamble_noadm (cfg : Cfg) (name : Bytes) (cs : List Int) : (preamble cfg name cs).any (isAuthAdm cfg) = false := by
  simp [preamble, List.any_append, any_map_pluginMsg, any_map_consumed, isAuthAdm]
theorem preamble_snoc (cfg : Cfg) (name : Bytes) (cs : List Int) (id : Int) :
    preamble cfg name (cs ++ [id]) = preamble cfg name cs ++ [.consumed id] := by
  simp [preamble, List.append_assoc]
theorem admitSeq_adm (cfg : Cfg) (n : Bytes) (o : Bool) : (admitSeq cfg n o).any (isAuthAdm cfg) = needsAuth cfg n := by
  cases hc : cfg.compression <;> simp [admitSeq, hc, isAuthAdm]

/-- what the client proved about the verify token: with a (valid) profile key a salted response whose signature
    over (token, salt) verifies; without a key a token field that decrypts to exactly the issued token -/
def TokenProof (cfg : Cfg) (key : KeyClass) (nonce : Bytes) (tok : Option Bytes) (salt sg : Bool) : Prop :=
  if effKey cfg key = .valid then (cfg.keyEra = true ∧ salt = true ∧ sg = true) else tok = some nonce

def Good (cfg : Cfg) (env : Env) (done : List In) (outs : List Out) : Prop :=
  outs.any (isAuthAdm cfg) = false ∨
  ∃ name key cs nonce sec tok salt sg tail, outs = chain cfg name cs nonce sec ++ tail ∧ tail.any (isAuthAdm cfg) = false ∧
    In.login name nonce key ∈ done ∧ In.encResp tok (some sec) salt sg ∈ done ∧ TokenProof cfg key nonce tok salt sg ∧
    env.sess name sec = .online ∧ keyLenOk sec.length = true ∧ validName name = true ∧ needsAuth cfg name = true

structure Inv (cfg : Cfg) (env : Env) (done : List In) (s : St) (outs : List Out) : Prop where
  expect : s.phase = .expect → outs = []
  waiting : s.phase = .waiting →
    ∃ cs key, outs = preamble cfg s.name cs ∧ In.login s.name s.verify key ∈ done ∧ validName s.name = true ∧
      s.hasKey = (effKey cfg key == .valid)
  encSent : s.phase = .encSent →
    ∃ cs key, outs = preamble cfg s.name cs ++ [.encReq s.verify] ∧ In.login s.name s.verify key ∈ done ∧
      validName s.name = true ∧ needsAuth cfg s.name = true ∧ s.hasKey = (effKey cfg key == .valid)
  good : Good cfg env done outs

theorem good_mono {cfg env done outs} (i : In) (extra : List Out) (h : Good cfg env done outs)
    (he : extra.any (isAuthAdm cfg) = false) : Good cfg env (done ++ [i]) (outs ++ extra) := by
  rcases h with h | ⟨name, key, cs, nonce, sec, tok, salt, sg, tail, ho, ht, h1, h2, hp, h3, h4, h5, h6⟩
  · left; simp [List.any_append, h, he]
  · right
    refine ⟨name, key, cs, nonce, sec, tok, salt, sg, tail ++ extra, by simp [ho], by simp [List.any_append, ht, he], ?_, ?_, hp, h3, h4, h5, h6⟩
    · simp [h1]
    · simp [h2]

/-- running the completion callback from the deferred phase establishes the invariant -/
theorem complete_inv (cfg : Cfg) (env : Env) (done : List In) (st : St) (cs : List Int) (key : KeyClass)
    (hlog : In.login st.name st.verify key ∈ done) (hv : validName st.name = true)
    (hkey : st.hasKey = (effKey cfg key == .valid)) :
    Inv cfg env done (complete cfg st).1 (preamble cfg st.name cs ++ (complete cfg st).2) := by
  cases hn : needsAuth cfg st.name with
  | true =>
    rw [complete_auth hn]
    refine ⟨by intro h; simp at h, by intro h; simp at h, fun _ => ⟨cs, key, rfl, hlog, hv, hn, hkey⟩, Or.inl ?_⟩
    simp [List.any_append, preamble_noadm, isAuthAdm]
  | false =>
    rw [complete_offline hn]
    refine ⟨by intro h; simp at h, by intro h; simp at h, by intro h; simp at h, Or.inl ?_⟩
    simp only [List.any_append, preamble_noadm, admitSeq_adm, hn, Bool.or_self]

/-- one step preserves the invariant -/
theorem inv_step (cfg : Cfg) (env : Env) {done : List In} {s : St} {outs : List Out}
    (hI : Inv cfg env done s outs) (i : In) :
    Inv cfg env (done ++ [i]) (step cfg env s i).1 (outs ++ (step cfg env s i).2) := by
  have hclose : ∀ extra : List Out, extra.any (isAuthAdm cfg) = false →
      Inv cfg env (done ++ [i]) (closeWith extra).1 (outs ++ (closeWith extra).2) := by
    intro extra he
    refine ⟨by intro h; simp [closeWith] at h, by intro h; simp [closeWith] at h, by intro h; simp [closeWith] at h, ?_⟩
    exact good_mono i extra hI.good he
  have hsame : Inv cfg env (done ++ [i]) s (outs ++ []) := by
    refine ⟨by intro h; simpa using hI.expect h, ?_, ?_, by simpa using good_mono i [] hI.good rfl⟩
    · intro h; obtain ⟨cs, key, h1, h2, h3, h4⟩ := hI.waiting h
      exact ⟨cs, key, by simp [h1], by simp [h2], h3, h4⟩
    · intro h; obtain ⟨cs, key, h1, h2, h3, h4, h5⟩ := hI.encSent h
      exact ⟨cs, key, by simp [h1], by simp [h2], h3, h4, h5⟩
  by_cases hdone : s.phase = .closed ∨ s.phase = .config
  · rw [step_done i hdone]; exact hsame
  cases i with
  | login name nonce key =>
    by_cases hw : s.phase = .waiting ∨ s.phase = .encSent ∨ s.phase = .successSent
    · rw [step_login_wrong hw]; exact hclose _ rfl
    · have hp : s.phase = .expect := by cases h : s.phase <;> simp [h] at hdone hw ⊢
      have ho := hI.expect hp
      subst ho
      rw [step_login_expect hp]
      cases hd : decodable name with
      | false => rw [loginStep_undecodable hd]; exact hclose _ rfl
      | true =>
        cases hv : validName name with
        | false => rw [loginStep_badname hd hv]; exact hclose _ rfl
        | true =>
          cases hkr : keyReject cfg key with
          | some r => rw [loginStep_keyreject hd hv hkr]; exact hclose _ rfl
          | none =>
          by_cases hden : cfg.preLogin name = .denied
          · rw [loginStep_denied hd hv hkr hden]; exact hclose _ rfl
          · by_cases hk : cfg.preMsgs name = 0
            · rw [loginStep_now hd hv hkr hden hk]
              have := complete_inv cfg env (done ++ [In.login name nonce key])
                { phase := .waiting, name := name, verify := nonce, outstanding := [], hasKey := effKey cfg key == .valid }
                [] key (by simp) hv rfl
              simpa [preamble, hk, msgIds] using this
            · rw [loginStep_wait hd hv hkr hden hk]
              refine ⟨by intro h; simp at h, fun _ => ⟨[], key, by simp [preamble], by simp, hv, rfl⟩, by intro h; simp at h, Or.inl ?_⟩
              have := preamble_noadm cfg name []
              simpa [preamble] using this
  | pluginResp id =>
    by_cases hp : s.phase = .waiting
    · obtain ⟨cs, key, ho, hin, hv, hkey⟩ := hI.waiting hp
      rw [step_plugin_waiting hp]
      cases hc : s.outstanding.contains id with
      | false => rw [pluginStep_unknown hc]; exact hsame
      | true =>
        cases hr : (s.outstanding.filter (· != id)).isEmpty with
        | false =>
          rw [pluginStep_more hc hr]
          refine ⟨by intro h; simp [hp] at h, fun _ => ⟨cs ++ [id], key, by simp [ho, preamble_snoc], by simp [hin], hv, hkey⟩,
            by intro h; simp [hp] at h, good_mono _ _ hI.good (by simp [isAuthAdm])⟩
        | true =>
          rw [pluginStep_last hc hr]
          have := complete_inv cfg env (done ++ [In.pluginResp id]) { s with outstanding := [] } (cs ++ [id]) key
            (by simp [hin]) hv hkey
          simpa [ho, preamble_snoc, List.append_assoc] using this
    · rw [step_plugin_other hp]; exact hsame
  | encResp tok secret salt sg =>
    by_cases hw : s.phase = .expect ∨ s.phase = .waiting ∨ s.phase = .successSent
    · rw [step_enc_wrong hw]; exact hclose _ rfl
    · have hp : s.phase = .encSent := by cases h : s.phase <;> simp [h] at hdone hw ⊢
      obtain ⟨cs, key, ho, hin, hv, hn, hkey⟩ := hI.encSent hp
      rw [step_enc_encSent hp]
      cases he : s.verify.isEmpty with
      | true => rw [encStep_noverify he]; exact hclose _ rfl
      | false =>
        cases ht : tokenOk s tok (cfg.keyEra && salt) sg with
        | false => rw [encStep_badtoken he ht]; exact hclose _ rfl
        | true =>
          cases secret with
          | none => rw [encStep_nosecret he ht]; exact hclose _ rfl
          | some sec =>
            cases hk : keyLenOk sec.length with
            | false => rw [encStep_badlen he ht hk]; exact hclose _ rfl
            | true =>
              cases hs : env.sess s.name sec with
              | error => rw [encStep_error he ht hk hs]; exact hclose _ rfl
              | offline => rw [encStep_offline he ht hk hs]; exact hclose _ rfl
              | badProfile => rw [encStep_badprofile he ht hk hs]; exact hclose _ rfl
              | online =>
                rw [encStep_online he ht hk hs]
                have hproof : TokenProof cfg key s.verify tok salt sg := by
                  unfold TokenProof
                  unfold tokenOk at ht
                  rw [hkey] at ht
                  by_cases hkv : effKey cfg key = .valid
                  · simp [hkv] at ht ⊢; exact ⟨ht.1.1, ht.1.2, ht.2⟩
                  · simp [hkv] at ht ⊢; exact ht
                refine ⟨by intro h; simp at h, by intro h; simp at h, by intro h; simp at h,
                  Or.inr ⟨s.name, key, cs, s.verify, sec, tok, salt, sg, [], ?_, rfl, ?_, ?_, hproof, hs, hk, hv, hn⟩⟩
                · simp [ho, chain, List.append_assoc]
                · simp [hin]
                · simp
  | ack =>
    by_cases hw : s.phase = .expect ∨ s.phase = .waiting ∨ s.phase = .encSent
    · rw [step_ack_wrong hw]; exact hclose _ rfl
    · have hp : s.phase = .successSent := by cases h : s.phase <;> simp [h] at hdone hw ⊢
      simp only [step, hp]
      refine ⟨by intro h; simp at h, by intro h; simp at h, by intro h; simp at h,
        by simpa using good_mono .ack [] hI.good rfl⟩
  | other =>
    have hp : s.phase = .expect ∨ s.phase = .waiting ∨ s.phase = .encSent ∨ s.phase = .successSent := by
      cases h : s.phase <;> simp [h] at hdone ⊢
    rw [step_other_open hp]; exact hclose _ rfl

theorem inv_run (cfg : Cfg) (env : Env) (ins : List In) :
    ∀ (done : List In) (s : St) (outs : List Out), Inv cfg env done s outs →
      Inv cfg env (done ++ ins) (run cfg env s ins).1 (outs ++ (run cfg env s ins).2) := by
  induction ins with
  | nil => intro done s outs h; simpa [run] using h
  | cons i is ih =>
    intro done s outs h
    have h1 := inv_step cfg env h i
    have h2 := ih (done ++ [i]) _ _ h1
    simpa [run, List.append_assoc] using h2

theorem run_append (cfg : Cfg) (env : Env) (a b : List In) (s : St) :
    run cfg env s (a ++ b) =
      ((run cfg env (run cfg env s a).1 b).1, (run cfg env s a).2 ++ (run cfg env (run cfg env s a).1 b).2) := by
  induction a generalizing s with
  | nil => simp [run]
  | cons i is ih => simp [run, ih, List.append_assoc]

theorem run_closed (cfg : Cfg) (env : Env) (ins : List In) (s : St) (h : s.phase = .closed) :
    run cfg env s ins = (s, []) := by
  induction ins with
  | nil => rfl
  | cons i is ih =>
    have : step cfg env s i = (s, []) := step_done i (Or.inl h)
    simp [run, this, ih]

/-! ### at most one LoginSuccess -/

/-- rank of a phase: the machine only moves forward -/
def rank : Phase → Nat
  | .expect => 0 | .waiting => 1 | .encSent => 2 | .successSent => 3 | .config => 4 | .closed => 5

def successCount (outs : List Out) : Nat := (outs.filter fun o => match o with | .success _ _ => true | _ => false).length

theorem admitSeq_successCount (cfg : Cfg) (n : Bytes) (o : Bool) : successCount (admitSeq cfg n o) = 1 := by
  cases hc : cfg.compression <;> simp [admitSeq, hc, successCount]
theorem successCount_map_pluginMsg (l : List Int) : successCount (l.map Out.pluginMsg) = 0 := by
  induction l with
  | nil => rfl
  | cons x xs ih => simpa [successCount] using ih
theorem successCount_cons_other (o : Out) (l : List Out) (h : (match o with | .success _ _ => true | _ => false) = false) :
    successCount (o :: l) = successCount l := by
  simp [successCount, List.filter_cons, h]

theorem closeWith_rank (o : List Out) : rank (closeWith o).1.phase = 5 := rfl
theorem rank_expect : rank .expect = 0 := rfl
theorem rank_waiting : rank .waiting = 1 := rfl

/-- the completion moves to rank ≥ 2 and emits a LoginSuccess only when it moves to rank 3 -/
theorem complete_success (cfg : Cfg) (st : St) :
    2 ≤ rank (complete cfg st).1.phase ∧
    successCount (complete cfg st).2 ≤ (if 3 ≤ rank (complete cfg st).1.phase then 1 else 0) := by
  cases hn : needsAuth cfg st.name with
  | true => rw [complete_auth hn]; simp [rank, successCount]
  | false => rw [complete_offline hn]; simp [rank, admitSeq_successCount]

theorem step_success (cfg : Cfg) (env : Env) (s : St) (i : In) :
    rank s.phase ≤ rank (step cfg env s i).1.phase ∧
    successCount (step cfg env s i).2 + (if 3 ≤ rank s.phase then 1 else 0)
      ≤ (if 3 ≤ rank (step cfg env s i).1.phase then 1 else 0) := by
  have hcl : ∀ o : List Out, successCount o = 0 → rank s.phase ≤ rank (closeWith o).1.phase ∧
      successCount (closeWith o).2 + (if 3 ≤ rank s.phase then 1 else 0) ≤ (if 3 ≤ rank (closeWith o).1.phase then 1 else 0) := by
    intro o ho
    rw [closeWith_rank, closeWith_snd, ho]
    cases s.phase <;> simp [rank]
  have hnop : ∀ i, step cfg env s i = (s, []) → rank s.phase ≤ rank (step cfg env s i).1.phase ∧
      successCount (step cfg env s i).2 + (if 3 ≤ rank s.phase then 1 else 0)
        ≤ (if 3 ≤ rank (step cfg env s i).1.phase then 1 else 0) := by
    intro i h; rw [h]; exact ⟨Nat.le_refl _, by simp [successCount]⟩
  by_cases hdone : s.phase = .closed ∨ s.phase = .config
  · exact hnop i (step_done i hdone)
  cases i with
  | login name nonce key =>
    by_cases hw : s.phase = .waiting ∨ s.phase = .encSent ∨ s.phase = .successSent
    · rw [step_login_wrong hw]; exact hcl _ rfl
    · have hp : s.phase = .expect := by cases h : s.phase <;> simp [h] at hdone hw ⊢
      rw [step_login_expect hp]
      cases hd : decodable name with
      | false => rw [loginStep_undecodable hd]; exact hcl _ rfl
      | true =>
        cases hv : validName name with
        | false => rw [loginStep_badname hd hv]; exact hcl _ rfl
        | true =>
          cases hkr : keyReject cfg key with
          | some r => rw [loginStep_keyreject hd hv hkr]; exact hcl _ rfl
          | none =>
          by_cases hden : cfg.preLogin name = .denied
          · rw [loginStep_denied hd hv hkr hden]; exact hcl _ rfl
          · by_cases hk : cfg.preMsgs name = 0
            · rw [loginStep_now hd hv hkr hden hk]
              have := complete_success cfg { phase := .waiting, name := name, verify := nonce, outstanding := [], hasKey := effKey cfg key == .valid }
              rw [successCount_cons_other _ _ rfl]
              simp only [hp, rank_expect]
              refine ⟨by omega, ?_⟩
              simpa using this.2
            · rw [loginStep_wait hd hv hkr hden hk]
              rw [successCount_cons_other _ _ rfl, successCount_map_pluginMsg]
              simp [hp, rank]
  | pluginResp id =>
    by_cases hp : s.phase = .waiting
    · rw [step_plugin_waiting hp]
      cases hc : s.outstanding.contains id with
      | false => rw [pluginStep_unknown hc]; exact ⟨Nat.le_refl _, by simp [successCount]⟩
      | true =>
        cases hr : (s.outstanding.filter (· != id)).isEmpty with
        | false => rw [pluginStep_more hc hr]; simp [hp, rank, successCount]
        | true =>
          rw [pluginStep_last hc hr]
          have := complete_success cfg { s with outstanding := [] }
          rw [successCount_cons_other _ _ rfl]
          simp only [hp, rank_waiting] at this ⊢
          refine ⟨by omega, ?_⟩
          simpa using this.2
    · exact hnop _ (step_plugin_other hp)
  | encResp tok secret salt sg =>
    by_cases hw : s.phase = .expect ∨ s.phase = .waiting ∨ s.phase = .successSent
    · rw [step_enc_wrong hw]; exact hcl _ rfl
    · have hp : s.phase = .encSent := by cases h : s.phase <;> simp [h] at hdone hw ⊢
      rw [step_enc_encSent hp]
      cases he : s.verify.isEmpty with
      | true => rw [encStep_noverify he]; exact hcl _ rfl
      | false =>
        cases ht : tokenOk s tok (cfg.keyEra && salt) sg with
        | false => rw [encStep_badtoken he ht]; exact hcl _ rfl
        | true =>
          cases secret with
          | none => rw [encStep_nosecret he ht]; exact hcl _ rfl
          | some sec =>
            cases hk : keyLenOk sec.length with
            | false => rw [encStep_badlen he ht hk]; exact hcl _ rfl
            | true =>
              cases hs : env.sess s.name sec with
              | error => rw [encStep_error he ht hk hs]; exact hcl _ rfl
              | offline => rw [encStep_offline he ht hk hs]; exact hcl _ rfl
              | badProfile => rw [encStep_badprofile he ht hk hs]; exact hcl _ rfl
              | online =>
                rw [encStep_online he ht hk hs]
                have := admitSeq_successCount cfg s.name true
                simp only [successCount] at this
                simp [hp, rank, successCount, this]
  | ack =>
    by_cases hw : s.phase = .expect ∨ s.phase = .waiting ∨ s.phase = .encSent
    · rw [step_ack_wrong hw]; exact hcl _ rfl
    · have hp : s.phase = .successSent := by cases h : s.phase <;> simp [h] at hdone hw ⊢
      simp [step, hp, successCount, rank]
  | other =>
    have hp : s.phase = .expect ∨ s.phase = .waiting ∨ s.phase = .encSent ∨ s.phase = .successSent := by
      cases h : s.phase <;> simp [h] at hdone ⊢
    rw [step_other_open hp]; exact hcl _ rfl

end Gate.C08
