import GateModel.C08.Model
/- C08 helper lemmas: the reachability invariant of the login machine. -/
set_option linter.unusedSimpArgs false
namespace Gate.C08

/-! ### equations of `step` branch by branch -/

theorem step_login_undecodable {cfg env} {s : St} {name nonce : Bytes} (hp : s.phase = .expect)
    (hd : decodable name = false) : step cfg env s (.login name nonce) = closeWith [.close] := by
  simp [step, hp, hd]
theorem step_login_badname {cfg env} {s : St} {name nonce : Bytes} (hp : s.phase = .expect)
    (hd : decodable name = true) (hv : validName name = false) :
    step cfg env s (.login name nonce) = closeWith [.disconnect .badName] := by
  simp [step, hp, hd, hv]
theorem step_login_denied {cfg env} {s : St} {name nonce : Bytes} (hp : s.phase = .expect)
    (hd : decodable name = true) (hv : validName name = true) (hden : cfg.preLogin = .denied) :
    step cfg env s (.login name nonce) = closeWith [.preLoginEvent name, .disconnect .denied] := by
  simp [step, hp, hd, hv, hden]
theorem step_login_online {cfg env} {s : St} {name nonce : Bytes} (hp : s.phase = .expect)
    (hd : decodable name = true) (hv : validName name = true) (hden : cfg.preLogin ≠ .denied)
    (hn : needsAuth cfg = true) :
    step cfg env s (.login name nonce) =
      ({ phase := .encSent, name := name, verify := nonce }, [.preLoginEvent name, .encReq nonce]) := by
  simp [step, hp, hd, hv, hden, hn]
theorem step_login_offline {cfg env} {s : St} {name nonce : Bytes} (hp : s.phase = .expect)
    (hd : decodable name = true) (hv : validName name = true) (hden : cfg.preLogin ≠ .denied)
    (hn : needsAuth cfg = false) :
    step cfg env s (.login name nonce) =
      ({ phase := .successSent, name := name }, .preLoginEvent name :: admitSeq cfg name false) := by
  simp [step, hp, hd, hv, hden, hn]

theorem step_enc_noverify {cfg env} {s : St} {tok secret} (hp : s.phase = .encSent) (he : s.verify.isEmpty = true) :
    step cfg env s (.encResp tok secret) = closeWith [.close] := by
  simp [step, hp, he]
theorem step_enc_badtoken {cfg env} {s : St} {tok secret} (hp : s.phase = .encSent) (he : s.verify.isEmpty = false)
    (ht : tok ≠ some s.verify) : step cfg env s (.encResp tok secret) = closeWith [.close] := by
  simp [step, hp, he, ht]
theorem step_enc_nosecret {cfg env} {s : St} (hp : s.phase = .encSent) (he : s.verify.isEmpty = false) :
    step cfg env s (.encResp (some s.verify) none) = closeWith [.close] := by
  simp [step, hp, he]
theorem step_enc_badlen {cfg env} {s : St} {sec : Bytes} (hp : s.phase = .encSent) (he : s.verify.isEmpty = false)
    (hk : keyLenOk sec.length = false) :
    step cfg env s (.encResp (some s.verify) (some sec)) = closeWith [.disconnect .internal] := by
  simp [step, hp, he, hk]
theorem step_enc_error {cfg env} {s : St} {sec : Bytes} (hp : s.phase = .encSent) (he : s.verify.isEmpty = false)
    (hk : keyLenOk sec.length = true) (hs : env.sess s.name sec = .error) :
    step cfg env s (.encResp (some s.verify) (some sec)) =
      closeWith [.encOn sec, .hasJoined s.name sec, .disconnect .unable] := by
  simp [step, hp, he, hk, hs]
theorem step_enc_offline {cfg env} {s : St} {sec : Bytes} (hp : s.phase = .encSent) (he : s.verify.isEmpty = false)
    (hk : keyLenOk sec.length = true) (hs : env.sess s.name sec = .offline) :
    step cfg env s (.encResp (some s.verify) (some sec)) =
      closeWith [.encOn sec, .hasJoined s.name sec, .disconnect .onlineOnly] := by
  simp [step, hp, he, hk, hs]
theorem step_enc_badprofile {cfg env} {s : St} {sec : Bytes} (hp : s.phase = .encSent) (he : s.verify.isEmpty = false)
    (hk : keyLenOk sec.length = true) (hs : env.sess s.name sec = .badProfile) :
    step cfg env s (.encResp (some s.verify) (some sec)) =
      closeWith [.encOn sec, .hasJoined s.name sec, .disconnect .unable] := by
  simp [step, hp, he, hk, hs]
theorem step_enc_online {cfg env} {s : St} {sec : Bytes} (hp : s.phase = .encSent) (he : s.verify.isEmpty = false)
    (hk : keyLenOk sec.length = true) (hs : env.sess s.name sec = .online) :
    step cfg env s (.encResp (some s.verify) (some sec)) =
      ({ s with phase := .successSent }, [.encOn sec, .hasJoined s.name sec] ++ admitSeq cfg s.name true) := by
  simp [step, hp, he, hk, hs]

theorem step_login_wrong {cfg env} {s : St} {name nonce : Bytes} (h : s.phase = .encSent ∨ s.phase = .successSent) :
    step cfg env s (.login name nonce) = closeWith [.close] := by
  rcases h with h | h <;> simp [step, h]
theorem step_enc_wrong {cfg env} {s : St} {tok secret} (h : s.phase = .expect ∨ s.phase = .successSent) :
    step cfg env s (.encResp tok secret) = closeWith [.close] := by
  rcases h with h | h <;> simp [step, h]
theorem step_ack_wrong {cfg env} {s : St} (h : s.phase = .expect ∨ s.phase = .encSent) :
    step cfg env s .ack = closeWith [.close] := by
  rcases h with h | h <;> simp [step, h]
theorem step_other_open {cfg env} {s : St} (h : s.phase = .expect ∨ s.phase = .encSent ∨ s.phase = .successSent) :
    step cfg env s .other = closeWith [.close] := by
  rcases h with h | h | h <;> simp [step, h]
theorem step_done {cfg env} {s : St} (i : In) (h : s.phase = .closed ∨ s.phase = .config) :
    step cfg env s i = (s, []) := by
  rcases h with h | h <;> cases i <;> simp [step, h]

def isAdmission : Out → Bool
  | .success _ _ => true
  | .registered _ => true
  | _ => false

/-- the only way to an admission when authentication is required -/
def chain (cfg : Cfg) (name nonce sec : Bytes) : List Out :=
  [.preLoginEvent name, .encReq nonce, .encOn sec, .hasJoined name sec] ++ admitSeq cfg name true

theorem admit_no_admission_false (cfg : Cfg) (n : Bytes) (o : Bool) : (admitSeq cfg n o).any isAdmission = true := by
  cases hc : cfg.compression <;> simp [admitSeq, hc, isAdmission]

/-- everything the machine has emitted so far is either free of admissions, or starts with the full chain
    (justified by the inputs consumed so far) followed by admission-free output -/
def Good (cfg : Cfg) (env : Env) (done : List In) (outs : List Out) : Prop :=
  outs.any isAdmission = false ∨
  ∃ name nonce sec tail, outs = chain cfg name nonce sec ++ tail ∧ tail.any isAdmission = false ∧
    In.login name nonce ∈ done ∧ In.encResp (some nonce) (some sec) ∈ done ∧
    env.sess name sec = .online ∧ keyLenOk sec.length = true ∧ validName name = true

structure Inv (cfg : Cfg) (env : Env) (done : List In) (s : St) (outs : List Out) : Prop where
  expect : s.phase = .expect → outs = []
  encSent : s.phase = .encSent →
    outs = [.preLoginEvent s.name, .encReq s.verify] ∧ In.login s.name s.verify ∈ done ∧ validName s.name = true
  good : Good cfg env done outs

theorem good_mono {cfg env done outs} (i : In) (extra : List Out) (h : Good cfg env done outs)
    (he : extra.any isAdmission = false) : Good cfg env (done ++ [i]) (outs ++ extra) := by
  rcases h with h | ⟨name, nonce, sec, tail, ho, ht, h1, h2, h3, h4, h5⟩
  · left; simp [List.any_append, h, he]
  · right
    refine ⟨name, nonce, sec, tail ++ extra, by simp [ho], by simp [List.any_append, ht, he], ?_, ?_, h3, h4, h5⟩
    · simp [h1]
    · simp [h2]

theorem closeWith_fst (o : List Out) : (closeWith o).1 = { phase := .closed } := rfl
theorem closeWith_snd (o : List Out) : (closeWith o).2 = o := rfl

/-- one step preserves the invariant (authentication required) -/
theorem inv_step (cfg : Cfg) (env : Env) (hn : needsAuth cfg = true) {done : List In} {s : St} {outs : List Out}
    (hI : Inv cfg env done s outs) (i : In) :
    Inv cfg env (done ++ [i]) (step cfg env s i).1 (outs ++ (step cfg env s i).2) := by
  -- closing with admission-free output
  have hclose : ∀ extra : List Out, extra.any isAdmission = false →
      Inv cfg env (done ++ [i]) (closeWith extra).1 (outs ++ (closeWith extra).2) := by
    intro extra he
    refine ⟨by intro h; simp [closeWith] at h, by intro h; simp [closeWith] at h, ?_⟩
    exact good_mono i extra hI.good he
  -- unchanged state, no output
  have hsame : Inv cfg env (done ++ [i]) s (outs ++ []) := by
    refine ⟨by intro h; simpa using hI.expect h, ?_, by simpa using good_mono i [] hI.good rfl⟩
    intro h; have := hI.encSent h; simp [this.1, this.2.1, this.2.2]
  cases i with
  | pluginResp id => simpa [step] using hsame
  | login name nonce =>
    cases hp : s.phase with
    | closed => simpa [step, hp] using hsame
    | config => simpa [step, hp] using hsame
    | encSent => rw [step_login_wrong (Or.inl hp)]; exact hclose _ rfl
    | successSent => rw [step_login_wrong (Or.inr hp)]; exact hclose _ rfl
    | expect =>
      have ho := hI.expect hp
      cases hd : decodable name with
      | false => rw [step_login_undecodable hp hd]; exact hclose _ rfl
      | true =>
        cases hv : validName name with
        | false => rw [step_login_badname hp hd hv]; exact hclose _ rfl
        | true =>
          by_cases hden : cfg.preLogin = .denied
          · rw [step_login_denied hp hd hv hden]; exact hclose _ rfl
          · rw [step_login_online hp hd hv hden hn]
            subst ho
            refine ⟨by intro h; simp at h, ?_, Or.inl (by simp [isAdmission])⟩
            intro _; simp [hv]
  | encResp tok secret =>
    cases hp : s.phase with
    | closed => simpa [step, hp] using hsame
    | config => simpa [step, hp] using hsame
    | expect => rw [step_enc_wrong (Or.inl hp)]; exact hclose _ rfl
    | successSent => rw [step_enc_wrong (Or.inr hp)]; exact hclose _ rfl
    | encSent =>
      obtain ⟨ho, hin, hv⟩ := hI.encSent hp
      cases he : s.verify.isEmpty with
      | true => rw [step_enc_noverify hp he]; exact hclose _ rfl
      | false =>
        by_cases ht : tok = some s.verify
        · subst ht
          cases secret with
          | none => rw [step_enc_nosecret hp he]; exact hclose _ rfl
          | some sec =>
            cases hk : keyLenOk sec.length with
            | false => rw [step_enc_badlen hp he hk]; exact hclose _ rfl
            | true =>
              cases hs : env.sess s.name sec with
              | error => rw [step_enc_error hp he hk hs]; exact hclose _ rfl
              | offline => rw [step_enc_offline hp he hk hs]; exact hclose _ rfl
              | badProfile => rw [step_enc_badprofile hp he hk hs]; exact hclose _ rfl
              | online =>
                rw [step_enc_online hp he hk hs]
                refine ⟨by intro h; simp at h, by intro h; simp at h,
                  Or.inr ⟨s.name, s.verify, sec, [], ?_, rfl, ?_, ?_, hs, hk, hv⟩⟩
                · simp [ho, chain]
                · simp [hin]
                · simp
        · rw [step_enc_badtoken hp he ht]; exact hclose _ rfl
  | ack =>
    cases hp : s.phase with
    | closed => simpa [step, hp] using hsame
    | config => simpa [step, hp] using hsame
    | expect => rw [step_ack_wrong (Or.inl hp)]; exact hclose _ rfl
    | encSent => rw [step_ack_wrong (Or.inr hp)]; exact hclose _ rfl
    | successSent =>
      simp only [step, hp]
      refine ⟨by intro h; simp at h, by intro h; simp at h, by simpa using good_mono .ack [] hI.good rfl⟩
  | other =>
    cases hp : s.phase with
    | closed => simpa [step, hp] using hsame
    | config => simpa [step, hp] using hsame
    | expect => rw [step_other_open (Or.inl hp)]; exact hclose _ rfl
    | encSent => rw [step_other_open (Or.inr (Or.inl hp))]; exact hclose _ rfl
    | successSent => rw [step_other_open (Or.inr (Or.inr hp))]; exact hclose _ rfl

theorem inv_run (cfg : Cfg) (env : Env) (hn : needsAuth cfg = true) (ins : List In) :
    ∀ (done : List In) (s : St) (outs : List Out), Inv cfg env done s outs →
      Inv cfg env (done ++ ins) (run cfg env s ins).1 (outs ++ (run cfg env s ins).2) := by
  induction ins with
  | nil => intro done s outs h; simpa [run] using h
  | cons i is ih =>
    intro done s outs h
    have h1 := inv_step cfg env hn h i
    have h2 := ih (done ++ [i]) _ _ h1
    simpa [run, List.append_assoc] using h2

theorem run_append (cfg : Cfg) (env : Env) (a b : List In) (s : St) :
    run cfg env s (a ++ b) =
      ((run cfg env (run cfg env s a).1 b).1, (run cfg env s a).2 ++ (run cfg env (run cfg env s a).1 b).2) := by
  induction a generalizing s with
  | nil => simp [run]
  | cons i is ih => simp [run, ih, List.append_assoc]

theorem run_closed (cfg : Cfg) (env : Env) (ins : List In) (s : St) (h : s.phase = .closed) :
    run cfg env s ins = (s, []) := by
  induction ins with
  | nil => rfl
  | cons i is ih =>
    have : step cfg env s i = (s, []) := by cases i <;> simp [step, h]
    simp [run, this, ih]

/-- rank of a phase: the machine only moves forward -/
def rank : Phase → Nat
  | .expect => 0 | .encSent => 1 | .successSent => 2 | .config => 3 | .closed => 4

def successCount (outs : List Out) : Nat := (outs.filter fun o => match o with | .success _ _ => true | _ => false).length

theorem admit_successCount (cfg : Cfg) (n : Bytes) (o : Bool) : successCount (admitSeq cfg n o) = 1 := by
  cases hc : cfg.compression <;> simp [admitSeq, hc, successCount]

theorem closeWith_rank (o : List Out) : rank (closeWith o).1.phase = 4 := rfl

theorem step_success (cfg : Cfg) (env : Env) (s : St) (i : In) :
    rank s.phase ≤ rank (step cfg env s i).1.phase ∧
    successCount (step cfg env s i).2 + (if 2 ≤ rank s.phase then 1 else 0)
      ≤ (if 2 ≤ rank (step cfg env s i).1.phase then 1 else 0) := by
  have hcl : ∀ o : List Out, successCount o = 0 → rank s.phase ≤ rank (closeWith o).1.phase ∧
      successCount (closeWith o).2 + (if 2 ≤ rank s.phase then 1 else 0) ≤ (if 2 ≤ rank (closeWith o).1.phase then 1 else 0) := by
    intro o ho
    rw [closeWith_rank, closeWith_snd, ho]
    cases s.phase <;> simp [rank]
  have hnop : ∀ i, step cfg env s i = (s, []) → rank s.phase ≤ rank (step cfg env s i).1.phase ∧
      successCount (step cfg env s i).2 + (if 2 ≤ rank s.phase then 1 else 0)
        ≤ (if 2 ≤ rank (step cfg env s i).1.phase then 1 else 0) := by
    intro i h; rw [h]; exact ⟨Nat.le_refl _, by simp [successCount]⟩
  by_cases hdone : s.phase = .closed ∨ s.phase = .config
  · exact hnop i (step_done i hdone)
  cases i with
  | pluginResp id => exact hnop _ rfl
  | login name nonce =>
    by_cases hw : s.phase = .encSent ∨ s.phase = .successSent
    · rw [step_login_wrong hw]; exact hcl _ rfl
    · have hp : s.phase = .expect := by
        cases h : s.phase <;> simp [h] at hdone hw ⊢
      cases hd : decodable name with
      | false => rw [step_login_undecodable hp hd]; exact hcl _ rfl
      | true =>
        cases hv : validName name with
        | false => rw [step_login_badname hp hd hv]; exact hcl _ rfl
        | true =>
          by_cases hden : cfg.preLogin = .denied
          · rw [step_login_denied hp hd hv hden]; exact hcl _ rfl
          · cases hn : needsAuth cfg with
            | true => rw [step_login_online hp hd hv hden hn]; simp [hp, rank, successCount]
            | false =>
              rw [step_login_offline hp hd hv hden hn]
              have := admit_successCount cfg name false
              simp only [successCount] at this
              simp [hp, rank, successCount, this]
  | encResp tok secret =>
    by_cases hw : s.phase = .expect ∨ s.phase = .successSent
    · rw [step_enc_wrong hw]; exact hcl _ rfl
    · have hp : s.phase = .encSent := by
        cases h : s.phase <;> simp [h] at hdone hw ⊢
      cases he : s.verify.isEmpty with
      | true => rw [step_enc_noverify hp he]; exact hcl _ rfl
      | false =>
        by_cases ht : tok = some s.verify
        · subst ht
          cases secret with
          | none => rw [step_enc_nosecret hp he]; exact hcl _ rfl
          | some sec =>
            cases hk : keyLenOk sec.length with
            | false => rw [step_enc_badlen hp he hk]; exact hcl _ rfl
            | true =>
              cases hs : env.sess s.name sec with
              | error => rw [step_enc_error hp he hk hs]; exact hcl _ rfl
              | offline => rw [step_enc_offline hp he hk hs]; exact hcl _ rfl
              | badProfile => rw [step_enc_badprofile hp he hk hs]; exact hcl _ rfl
              | online =>
                rw [step_enc_online hp he hk hs]
                have := admit_successCount cfg s.name true
                simp only [successCount] at this
                simp [hp, rank, successCount, this]
        · rw [step_enc_badtoken hp he ht]; exact hcl _ rfl
  | ack =>
    by_cases hw : s.phase = .expect ∨ s.phase = .encSent
    · rw [step_ack_wrong hw]; exact hcl _ rfl
    · have hp : s.phase = .successSent := by
        cases h : s.phase <;> simp [h] at hdone hw ⊢
      simp [step, hp, successCount, rank]
  | other =>
    have hp : s.phase = .expect ∨ s.phase = .encSent ∨ s.phase = .successSent := by
      cases h : s.phase <;> simp [h] at hdone ⊢
    rw [step_other_open hp]; exact hcl _ rfl

end Gate.C08
