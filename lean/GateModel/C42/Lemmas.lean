import GateModel.C42.Model
/-
C42 helper lemmas: step inversion, value monotonicity, the value invariant, conservation of
callback occurrences, the termination weight, progress of the repaired code, the protection
invariant behind chain order.
-/
namespace Gate.C42

/-! ### generic list facts -/

theorem sum_map_set {α} (h : α → Nat) : ∀ (l : List α) (t : Nat) (x y : α), l[t]? = some x →
    ((l.set t y).map h).sum + h x = (l.map h).sum + h y
  | [], t, x, y, hx => by simp at hx
  | a :: l, 0, x, y, hx => by
      simp at hx; subst hx
      simp only [List.set_cons_zero, List.map_cons, List.sum_cons]; omega
  | a :: l, t + 1, x, y, hx => by
      simp at hx
      have := sum_map_set h l t x y hx
      simp only [List.set_cons_succ, List.map_cons, List.sum_cons]; omega

theorem sum_filter_split {α} (h : α → Nat) (p : α → Bool) : ∀ l : List α,
    ((l.filter p).map h).sum + ((l.filter (fun a => !p a)).map h).sum = (l.map h).sum
  | [] => by simp
  | a :: l => by
      have := sum_filter_split h p l
      by_cases hp : p a <;> simp [List.filter, hp] <;> omega

theorem mem_of_getElem? {α} {l : List α} {t : Nat} {x : α} (h : l[t]? = some x) : x ∈ l :=
  List.mem_of_getElem? h

/-! ### step inversion and exec induction -/

theorem step_inv {m s t s'} (h : step m s t = some s') :
    ∃ task rest, s.threads[t]? = some (task :: rest) ∧ stepTask m s t task rest = some s' := by
  unfold step at h
  split at h
  · rename_i task rest hh; exact ⟨task, rest, hh, h⟩
  · simp at h

theorem exec_induct (m : Mode) (P : Sys → Prop)
    (hstep : ∀ s t s', P s → step m s t = some s' → P s') :
    ∀ (sched : List Nat) (s s' : Sys), P s → exec m s sched = some s' → P s'
  | [], s, s', hp, h => by simp [exec] at h; subst h; exact hp
  | t :: ts, s, s', hp, h => by
      simp only [exec] at h
      cases hs : step m s t with
      | none => simp [hs] at h
      | some s1 =>
        simp [hs] at h
        exact exec_induct m P hstep ts s1 s' (hstep s t s1 hp hs) h

theorem exec_append (m : Mode) : ∀ (a b : List Nat) (s : Sys),
    exec m s (a ++ b) = (exec m s a).bind (fun s' => exec m s' b)
  | [], b, s => by simp [exec]
  | t :: a, b, s => by
      simp only [List.cons_append, exec]
      cases step m s t with
      | none => simp
      | some s1 => simp [exec_append m a b s1]

theorem upd_keep {m : FId → Option Val} {f o : FId} {x : Option Val} {v : Val}
    (h : m o = some v) (hf : m f = none) : upd m f x o = some v := by
  unfold upd
  by_cases e : o = f
  · subst e; rw [hf] at h; cases h
  · rw [if_neg e]; exact h

/-! ### I1: the value of a future never changes once set -/

theorem stepTask_value_mono {m s t task rest s'} (h : stepTask m s t task rest = some s')
    {f : FId} {v : Val} (hv : s.value f = some v) : s'.value f = some v := by
  unfold stepTask at h
  split at h
  all_goals (try (split at h; · simp at h))
  all_goals (try split at h)
  all_goals (simp at h; subst h; simp_all [upd])
  · intro hfg; subst hfg; simp_all

theorem step_value_mono {m s t s'} (h : step m s t = some s') {f v} (hv : s.value f = some v) :
    s'.value f = some v := by
  obtain ⟨task, rest, _, h2⟩ := step_inv h
  exact stepTask_value_mono h2 hv

theorem exec_value_mono {m sched s s'} (h : exec m s sched = some s') {f v} (hv : s.value f = some v) :
    s'.value f = some v :=
  exec_induct m (fun s => s.value f = some v) (fun _ _ _ hp hs => step_value_mono hs hp) sched s s' hv h

/-! ### I2: values carried by pending invocations, log entries and waiting callbacks -/

structure ValInv (s : Sys) : Prop where
  run  : ∀ th ∈ s.threads, ∀ o cb v, Task.run o cb v ∈ th → s.value o = some v
  log  : ∀ e ∈ s.log, s.value e.2.1 = some e.2.2
  wait : ∀ p ∈ s.waiting, s.value p.1 = none

theorem valInv_mkSys (threads : List (List Call)) : ValInv (mkSys threads) := by
  refine ⟨?_, ?_, ?_⟩
  · intro th hth o cb v hm
    simp [mkSys] at hth
    obtain ⟨cs, _, rfl⟩ := hth
    simp at hm
  · intro e he; simp [mkSys] at he
  · intro p hp; simp [mkSys] at hp

theorem mem_set_cases {α} {l : List α} {t : Nat} {x a : α} (h : a ∈ l.set t x) : a ∈ l ∨ a = x :=
  List.mem_or_eq_of_mem_set h

theorem stepTask_valInv {m s t task rest s'} (hth : s.threads[t]? = some (task :: rest))
    (h : stepTask m s t task rest = some s') (inv : ValInv s) : ValInv s' := by
  have hmem : (task :: rest) ∈ s.threads := mem_of_getElem? hth
  have hrest : ∀ o cb v, Task.run o cb v ∈ rest → s.value o = some v := fun o cb v hm =>
    inv.run _ hmem o cb v (List.mem_cons_of_mem _ hm)
  have hmono : ∀ f v, s.value f = some v → s'.value f = some v := fun f v hv => stepTask_value_mono h hv
  -- generic re-establishment given the new stack satisfies the run condition w.r.t. s'
  have build : ∀ (stack : List Task) (lg : List (Tag × FId × Val)) (wt : List (FId × Cb)),
      s'.threads = s.threads.set t stack → s'.log = lg → s'.waiting = wt →
      (∀ o cb v, Task.run o cb v ∈ stack → s'.value o = some v) →
      (∀ e ∈ lg, s'.value e.2.1 = some e.2.2) → (∀ p ∈ wt, s'.value p.1 = none) → ValInv s' := by
    intro stack lg wt h1 h2 h3 hs hl hw
    refine ⟨?_, by rw [h2]; exact hl, by rw [h3]; exact hw⟩
    intro th hth' o cb v hm
    rw [h1] at hth'
    rcases mem_set_cases hth' with h' | h'
    · exact hmono _ _ (inv.run th h' o cb v hm)
    · subst h'; exact hs o cb v hm
  have hlog : ∀ e ∈ s.log, s'.value e.2.1 = some e.2.2 := fun e he => hmono _ _ (inv.log e he)
  have hhead : ∀ o cb v, task = Task.run o cb v → s.value o = some v := fun o cb v e =>
    inv.run _ hmem o cb v (by rw [e]; exact List.mem_cons_self ..)
  unfold stepTask at h
  split at h
  · -- thenAccept
    rename_i f cb
    split at h
    · simp at h
    · split at h
      · rename_i v hv
        simp at h; subst h
        refine build _ _ _ rfl rfl rfl ?_ hlog inv.wait
        intro o cb' v' hm
        simp at hm
        rcases hm with ⟨rfl, rfl, rfl⟩ | hm
        · exact hv
        · rcases hm with hm | hm
          · cases m <;> simp [lockTail] at hm
          · exact hrest o cb' v' hm
      · rename_i hv
        simp at h; subst h
        refine build _ _ _ rfl rfl rfl (fun o cb' v' hm => hrest o cb' v' hm) hlog ?_
        intro p hp
        simp at hp
        rcases hp with hp | rfl
        · exact inv.wait p hp
        · exact hv
  · -- complete
    rename_i f v
    split at h
    · simp at h
    · split at h
      · simp at h; subst h
        exact build _ _ _ rfl rfl rfl (fun o cb' v' hm => hrest o cb' v' hm) hlog inv.wait
      · rename_i hv
        simp at h; subst h
        refine build _ _ _ rfl rfl rfl ?_ ?_ ?_
        · intro o cb' v' hm
          simp at hm
          rcases hm with hm | hm | hm
          · simp [fired] at hm
            obtain ⟨a, b, _, h1, h2, h3⟩ := hm
            subst h1 h3; simp [upd]
          · cases m <;> simp [lockTail] at hm
          · exact upd_keep (hrest o cb' v' hm) hv
        · intro e he
          exact upd_keep (inv.log e he) hv
        · intro p hp
          simp at hp
          have := inv.wait p hp.1
          simp [upd, hp.2, this]
  · simp at h; subst h
    exact build _ _ _ rfl rfl rfl (fun o cb' v' hm => hrest o cb' v' hm) hlog inv.wait
  · rename_i o tag v
    simp at h; subst h
    refine build _ _ _ rfl rfl rfl (fun o cb' v' hm => hrest o cb' v' hm) ?_ inv.wait
    intro e he
    simp at he
    rcases he with he | rfl
    · exact inv.log e he
    · exact hhead _ _ _ rfl
  · simp at h; subst h
    refine build _ _ _ rfl rfl rfl ?_ hlog inv.wait
    intro o cb' v' hm
    simp at hm
    exact hrest o cb' v' hm
  · simp at h; subst h
    refine build _ _ _ rfl rfl rfl ?_ hlog inv.wait
    intro o cb' v' hm
    simp at hm
    exact hrest o cb' v' hm
  · rename_i o a b v
    simp at h; subst h
    refine build _ _ _ rfl rfl rfl ?_ hlog inv.wait
    intro o' cb' v' hm
    simp at hm
    rcases hm with ⟨rfl, _, rfl⟩ | ⟨rfl, _, rfl⟩ | hm
    · exact hhead _ _ _ rfl
    · exact hhead _ _ _ rfl
    · exact hrest o' cb' v' hm
  · simp at h; subst h
    exact build _ _ _ rfl rfl rfl (fun o cb' v' hm => hrest o cb' v' hm) hlog inv.wait
  · simp at h; subst h
    refine build _ _ _ rfl rfl rfl ?_ hlog inv.wait
    intro o cb' v' hm
    simp at hm
    exact hrest o cb' v' hm

theorem step_valInv {m s t s'} (h : step m s t = some s') (inv : ValInv s) : ValInv s' := by
  obtain ⟨task, rest, h1, h2⟩ := step_inv h
  exact stepTask_valInv h1 h2 inv

theorem exec_valInv {m sched s s'} (h : exec m s sched = some s') (inv : ValInv s) : ValInv s' :=
  exec_induct m ValInv (fun _ _ _ hp hs => step_valInv hs hp) sched s s' inv h

/-! ### generic bookkeeping for sums over the thread list -/

def stackSum (h : Task → Nat) (th : List Task) : Nat := (th.map h).sum

theorem threads_set_sum (h : Task → Nat) {s : Sys} {t task rest} (hth : s.threads[t]? = some (task :: rest))
    (stack : List Task) :
    ((s.threads.set t stack).map (stackSum h)).sum + (h task + stackSum h rest)
      = (s.threads.map (stackSum h)).sum + stackSum h stack := by
  have := sum_map_set (stackSum h) s.threads t (task :: rest) stack hth
  simpa [stackSum] using this

theorem stackSum_append (h : Task → Nat) (a b : List Task) : stackSum h (a ++ b) = stackSum h a + stackSum h b := by
  simp [stackSum]

theorem stackSum_cons (h : Task → Nat) (a : Task) (b : List Task) : stackSum h (a :: b) = h a + stackSum h b := by
  simp [stackSum]

theorem stackSum_fired (h : Task → Nat) (s : Sys) (f : FId) (v : Val) :
    stackSum h (fired s f v) = ((s.waiting.filter (fun p => p.1 == f)).map (fun p => h (Task.run f p.2 v))).sum := by
  simp [stackSum, fired, List.map_map, Function.comp_def]

theorem sum_map_congr_filter {α} (p : α → Bool) (h1 h2 : α → Nat) (hh : ∀ a, p a = true → h1 a = h2 a) :
    ∀ l : List α, ((l.filter p).map h1).sum = ((l.filter p).map h2).sum
  | [] => by simp
  | a :: l => by
      have ih := sum_map_congr_filter p h1 h2 hh l
      by_cases hp : p a = true
      · simp [List.filter, hp, ih, hh a hp]
      · simp [List.filter, hp, ih]

theorem sum_map_le {α} (h1 h2 : α → Nat) (hh : ∀ a, h1 a ≤ h2 a) : ∀ l : List α, (l.map h1).sum ≤ (l.map h2).sum
  | [] => by simp
  | a :: l => by have := sum_map_le h1 h2 hh l; have := hh a; simp; omega

/-! ### I3: conservation of callback occurrences -/

theorem cntStack_eq (τ f) : cntStack τ f = stackSum (cntTask τ f) := rfl

theorem cnt_lockTail (τ f m g) : stackSum (cntTask τ f) (lockTail m g) = 0 := by
  cases m <;> simp [lockTail, stackSum, cntTask]

theorem filter_single_len (τ : Tag) (f : FId) (tag : Tag) (o : FId) (v : Val) :
    (List.filter (fun e : Tag × FId × Val => e.1 == τ && e.2.1 == f) [(tag, o, v)]).length
      = if tag = τ ∧ o = f then 1 else 0 := by
  rw [List.filter_cons]
  split <;> split <;> simp_all

theorem stepTask_total {m s t task rest s'} (hth : s.threads[t]? = some (task :: rest))
    (h : stepTask m s t task rest = some s') (τ : Tag) (f : FId) : total τ f s' = total τ f s := by
  have key := fun stack => threads_set_sum (cntTask τ f) hth stack
  unfold stepTask at h
  split at h
  · rename_i g cb
    split at h
    · simp at h
    · split at h
      · simp at h; subst h
        have := key (Task.run g cb ‹Val› :: (lockTail m g ++ rest))
        simp only [total, logCnt, waitCnt, pend, cntStack_eq, stackSum_cons, stackSum_append, cnt_lockTail,
          cntTask] at this ⊢
        omega
      · simp at h; subst h
        have := key rest
        simp only [total, logCnt, waitCnt, pend, cntStack_eq, cntTask, List.map_append, List.sum_append,
          List.map_cons, List.map_nil, List.sum_cons, List.sum_nil] at this ⊢
        omega
  · rename_i g v
    split at h
    · simp at h
    · split at h
      · simp at h; subst h
        have := key rest
        simp only [total, logCnt, waitCnt, pend, cntStack_eq, cntTask] at this ⊢
        omega
      · simp at h; subst h
        have := key (fired s g v ++ (lockTail m g ++ rest))
        have hsplit := sum_filter_split (fun p : FId × Cb => cntCb τ f p.1 p.2) (fun p => p.1 == g) s.waiting
        have hcong := sum_map_congr_filter (fun p : FId × Cb => p.1 == g)
          (fun p => cntTask τ f (Task.run g p.2 v)) (fun p => cntCb τ f p.1 p.2)
          (by intro a ha; simp at ha; simp [cntTask, ha]) s.waiting
        simp only [total, logCnt, waitCnt, pend, cntStack_eq, stackSum_append, cnt_lockTail, stackSum_fired,
          cntTask] at this hcong ⊢
        omega
  · simp at h; subst h
    have := key rest
    simp only [total, logCnt, waitCnt, pend, cntStack_eq, cntTask, cntCb] at this ⊢
    omega
  · rename_i o tag v
    simp at h; subst h
    have := key rest
    simp only [total, logCnt, waitCnt, pend, cntStack_eq, cntTask, cntCb, List.filter_append,
      List.length_append, filter_single_len] at this ⊢
    omega
  · rename_i o g v
    simp at h; subst h
    have := key (Task.call (Call.complete g v) :: rest)
    simp only [total, logCnt, waitCnt, pend, cntStack_eq, stackSum_cons, cntTask, cntCb] at this ⊢
    omega
  · rename_i g cb v
    simp at h; subst h
    have := key (Task.call (Call.thenAccept g cb) :: rest)
    simp only [total, logCnt, waitCnt, pend, cntStack_eq, stackSum_cons, cntTask, cntCb] at this ⊢
    omega
  · rename_i o a b v
    simp at h; subst h
    have := key (Task.run o a v :: Task.run o b v :: rest)
    simp only [total, logCnt, waitCnt, pend, cntStack_eq, stackSum_cons, cntTask, cntCb] at this ⊢
    omega
  · simp at h; subst h
    have := key rest
    simp only [total, logCnt, waitCnt, pend, cntStack_eq, cntTask] at this ⊢
    omega
  · rename_i g cb
    simp at h; subst h
    have := key (Task.call (Call.thenAccept g cb) :: rest)
    simp only [total, logCnt, waitCnt, pend, cntStack_eq, stackSum_cons, cntTask] at this ⊢
    omega

theorem step_total {m s t s'} (h : step m s t = some s') (τ f) : total τ f s' = total τ f s := by
  obtain ⟨task, rest, h1, h2⟩ := step_inv h
  exact stepTask_total h1 h2 τ f

theorem exec_total {m sched s s'} (h : exec m s sched = some s') (τ f) : total τ f s' = total τ f s :=
  exec_induct m (fun x => total τ f x = total τ f s) (fun _ _ _ hp hs => (step_total hs τ f).trans hp)
    sched s s' rfl h

theorem total_mkSys (τ f) (threads : List (List Call)) : total τ f (mkSys threads) = initCnt τ f threads := by
  simp [total, logCnt, waitCnt, pend, mkSys, initCnt, cntStack, List.map_map, Function.comp_def]

theorem terminal_iff (s : Sys) : terminal s = true ↔ ∀ th ∈ s.threads, th = [] := by
  simp [terminal, List.all_eq_true, List.isEmpty_iff]

theorem pend_terminal {s : Sys} (h : terminal s = true) (τ f) : pend τ f s = 0 := by
  rw [terminal_iff] at h
  unfold pend
  have : ∀ l : List (List Task), (∀ th ∈ l, th = []) → (l.map (cntStack τ f)).sum = 0 := by
    intro l; induction l with
    | nil => simp
    | cons a l ih =>
      intro hl
      have ha := hl a (List.mem_cons_self ..)
      subst ha
      simp [cntStack]
      exact ih (fun th hth => hl th (List.mem_cons_of_mem _ hth))
  exact this _ h

/-! ### termination weight -/

theorem w_lockTail (m g) : stackSum wTask (lockTail m g) ≤ 1 := by
  cases m <;> simp [lockTail, stackSum, wTask]

theorem wCb_pos (cb : Cb) : 1 ≤ wCb cb := by cases cb <;> simp [wCb] <;> omega

theorem stepTask_weight {m s t task rest s'} (hth : s.threads[t]? = some (task :: rest))
    (h : stepTask m s t task rest = some s') : weight s' + 1 ≤ weight s := by
  have key := fun stack => threads_set_sum wTask hth stack
  have wst : wStack = stackSum wTask := rfl
  unfold stepTask at h
  split at h
  · rename_i g cb
    split at h
    · simp at h
    · split at h
      · simp at h; subst h
        have := key (Task.run g cb ‹Val› :: (lockTail m g ++ rest))
        have := w_lockTail m g
        simp only [weight, wst, stackSum_cons, stackSum_append, wTask] at *
        omega
      · simp at h; subst h
        have := key rest
        simp only [weight, wst, wTask, List.map_append, List.sum_append,
          List.map_cons, List.map_nil, List.sum_cons, List.sum_nil] at *
        omega
  · rename_i g v
    split at h
    · simp at h
    · split at h
      · simp at h; subst h
        have := key rest
        simp only [weight, wst, wTask] at *
        omega
      · simp at h; subst h
        have := key (fired s g v ++ (lockTail m g ++ rest))
        have := w_lockTail m g
        have hsplit := sum_filter_split (fun p : FId × Cb => wCb p.2 + 1) (fun p => p.1 == g) s.waiting
        have hle := sum_map_le (fun p : FId × Cb => wTask (Task.run g p.2 v)) (fun p => wCb p.2 + 1)
          (by intro a; simp [wTask]) (s.waiting.filter (fun p => p.1 == g))
        simp only [weight, wst, stackSum_append, stackSum_fired, wTask] at *
        omega
  · simp at h; subst h
    have := key rest
    simp only [weight, wst, wTask, wCb] at *
    omega
  · simp at h; subst h
    have := key rest
    simp only [weight, wst, wTask, wCb] at *
    omega
  · rename_i o g v
    simp at h; subst h
    have := key (Task.call (Call.complete g v) :: rest)
    simp only [weight, wst, stackSum_cons, wTask, wCb] at *
    omega
  · rename_i g cb v
    simp at h; subst h
    have := key (Task.call (Call.thenAccept g cb) :: rest)
    simp only [weight, wst, stackSum_cons, wTask, wCb] at *
    omega
  · rename_i o a b v
    simp at h; subst h
    have := key (Task.run o a v :: Task.run o b v :: rest)
    simp only [weight, wst, stackSum_cons, wTask, wCb] at *
    omega
  · simp at h; subst h
    have := key rest
    simp only [weight, wst, wTask] at *
    omega
  · rename_i g cb
    simp at h; subst h
    have := key (Task.call (Call.thenAccept g cb) :: rest)
    simp only [weight, wst, stackSum_cons, wTask] at *
    omega

theorem step_weight {m s t s'} (h : step m s t = some s') : weight s' + 1 ≤ weight s := by
  obtain ⟨task, rest, h1, h2⟩ := step_inv h
  exact stepTask_weight h1 h2

theorem exec_weight {m} : ∀ (sched : List Nat) (s s' : Sys), exec m s sched = some s' →
    sched.length + weight s' ≤ weight s
  | [], s, s', h => by simp [exec] at h; subst h; simp
  | t :: ts, s, s', h => by
      simp only [exec] at h
      cases hs : step m s t with
      | none => simp [hs] at h
      | some s1 =>
        simp [hs] at h
        have := exec_weight ts s1 s' h
        have := step_weight hs
        simp; omega

/-! ### progress of the repaired code: a thread with work left is always enabled -/

theorem stepTask_repaired_some (s : Sys) (t : Nat) (task : Task) (rest : List Task) :
    (stepTask .repaired s t task rest).isSome = true := by
  unfold stepTask
  split
  · simp [blocked]; split <;> simp
  · simp [blocked]; split <;> simp
  all_goals simp

theorem step_repaired_some {s : Sys} {t task rest} (hth : s.threads[t]? = some (task :: rest)) :
    (step .repaired s t).isSome = true := by
  unfold step; rw [hth]; exact stepTask_repaired_some s t task rest

theorem exists_work_of_not_terminal {s : Sys} (h : terminal s = false) :
    ∃ (t : Nat) (task : Task) (rest : List Task), s.threads[t]? = some (task :: rest) := by
  have : ¬ (∀ th ∈ s.threads, th = []) := by
    intro hh; rw [(terminal_iff s).2 hh] at h; cases h
  have : ∃ th ∈ s.threads, th ≠ [] := by
    apply Classical.byContradiction
    intro hn; apply this
    intro th hth
    apply Classical.byContradiction
    intro hne; exact hn ⟨th, hth, hne⟩
  obtain ⟨th, hth, hne⟩ := this
  obtain ⟨t, ht⟩ := List.getElem?_of_mem hth
  cases th with
  | nil => exact absurd rfl hne
  | cons a r => exact ⟨t, a, r, ht⟩

theorem extend_to_terminal : ∀ (n : Nat) (s : Sys), weight s ≤ n →
    ∃ sched s', exec .repaired s sched = some s' ∧ terminal s' = true
  | 0, s, hw => by
      cases ht : terminal s with
      | true => exact ⟨[], s, rfl, ht⟩
      | false =>
        obtain ⟨t, task, rest, hth⟩ := exists_work_of_not_terminal ht
        have hs := step_repaired_some hth
        obtain ⟨s1, hs1⟩ := Option.isSome_iff_exists.1 hs
        have := step_weight hs1
        omega
  | n + 1, s, hw => by
      cases ht : terminal s with
      | true => exact ⟨[], s, rfl, ht⟩
      | false =>
        obtain ⟨t, task, rest, hth⟩ := exists_work_of_not_terminal ht
        have hs := step_repaired_some hth
        obtain ⟨s1, hs1⟩ := Option.isSome_iff_exists.1 hs
        have hw1 := step_weight hs1
        obtain ⟨sched, s', he, hterm⟩ := extend_to_terminal n s1 (by omega)
        exact ⟨t :: sched, s', by simp [exec, hs1, he], hterm⟩

/-! ### chain order: the protection invariant -/

theorem all_mono {P : List FId} {ok ok' : FId → Bool} (h : ∀ x, ok x = true → ok' x = true)
    (hp : P.all ok = true) : P.all ok' = true := by
  rw [List.all_eq_true] at *
  exact fun x hx => h x (hp x hx)

theorem protCb_mono (P : List FId) (out : FId) : ∀ (cb : Cb) (ok ok' : FId → Bool),
    (∀ x, ok x = true → ok' x = true) → protCb P out ok cb = true → protCb P out ok' cb = true
  | .nop, _, _, _, _ => rfl
  | .log _, _, _, _, _ => rfl
  | .complete o, ok, ok', h, hp => by
      simp only [protCb, Bool.or_eq_true] at *
      rcases hp with hp | hp
      · exact Or.inl hp
      · exact Or.inr (all_mono h hp)
  | .accept g cb, ok, ok', h, hp => by
      simp only [protCb] at *
      refine protCb_mono P out cb _ _ ?_ hp
      intro x hx
      simp only [Bool.or_eq_true] at *
      rcases hx with hx | hx
      · exact Or.inl (h x hx)
      · exact Or.inr hx
  | .seq a b, ok, ok', h, hp => by
      simp only [protCb, Bool.and_eq_true] at *
      exact ⟨protCb_mono P out a ok ok' h hp.1, protCb_mono P out b ok ok' h hp.2⟩

theorem protCb_noComplete (P : List FId) (out : FId) : ∀ (cb : Cb) (ok : FId → Bool),
    noComplete out cb = true → protCb P out ok cb = true
  | .nop, _, _ => rfl
  | .log _, _, _ => rfl
  | .complete o, ok, h => by simp only [noComplete, protCb, Bool.or_eq_true] at *; exact Or.inl h
  | .accept g cb, ok, h => by simp only [noComplete, protCb] at *; exact protCb_noComplete P out cb _ h
  | .seq a b, ok, h => by
      simp only [noComplete, protCb, Bool.and_eq_true] at *
      exact ⟨protCb_noComplete P out a ok h.1, protCb_noComplete P out b ok h.2⟩

theorem protTask_mono (P : List FId) (out : FId) (task : Task) (d d' : FId → Bool)
    (h : ∀ x, d x = true → d' x = true) (hp : protTask P out d task = true) : protTask P out d' task = true := by
  have hor : ∀ g x, (d x || x == g) = true → (d' x || x == g) = true := by
    intro g x hx
    simp only [Bool.or_eq_true] at *
    rcases hx with hx | hx
    · exact Or.inl (h x hx)
    · exact Or.inr hx
  cases task with
  | call c =>
    cases c with
    | thenAccept g cb => exact protCb_mono P out cb _ _ (hor g) hp
    | complete o v =>
      simp only [protTask, Bool.or_eq_true] at *
      rcases hp with hp | hp
      · exact Or.inl hp
      · exact Or.inr (all_mono h hp)
  | run o cb v => exact protCb_mono P out cb _ _ (hor o) hp
  | unlock g => rfl
  | appendCb g cb => exact protCb_mono P out cb _ _ (hor g) hp

structure Prot (P : List FId) (out : FId) (s : Sys) : Prop where
  tasks : ∀ th ∈ s.threads, ∀ task ∈ th, protTask P out (isDone s) task = true
  wait  : ∀ p ∈ s.waiting, protCb P out (fun x => isDone s x || x == p.1) p.2 = true
  outv  : isDone s out = true → P.all (isDone s) = true

theorem isDone_mono {m s t task rest s'} (h : stepTask m s t task rest = some s') (x : FId)
    (hx : isDone s x = true) : isDone s' x = true := by
  unfold isDone at *
  cases hv : s.value x with
  | none => simp [hv] at hx
  | some v => rw [stepTask_value_mono h hv]; rfl

theorem stepTask_prot {P out m s t task rest s'} (hth : s.threads[t]? = some (task :: rest))
    (h : stepTask m s t task rest = some s') (vi : ValInv s) (inv : Prot P out s) : Prot P out s' := by
  have hmem : (task :: rest) ∈ s.threads := mem_of_getElem? hth
  have dmono := isDone_mono h
  have hrest : ∀ x ∈ rest, protTask P out (isDone s') x = true := fun x hx =>
    protTask_mono P out x _ _ dmono (inv.tasks _ hmem x (List.mem_cons_of_mem _ hx))
  have hhead : protTask P out (isDone s) task = true := inv.tasks _ hmem task (List.mem_cons_self ..)
  have hwait : ∀ p ∈ s.waiting, protCb P out (fun x => isDone s' x || x == p.1) p.2 = true := fun p hp =>
    protCb_mono P out p.2 _ _ (by
      intro x hx; simp only [Bool.or_eq_true] at *
      rcases hx with hx | hx
      · exact Or.inl (dmono x hx)
      · exact Or.inr hx) (inv.wait p hp)
  have orMono : ∀ g x, (isDone s x || x == g) = true → (isDone s' x || x == g) = true := by
    intro g x hx; simp only [Bool.or_eq_true] at *
    rcases hx with hx | hx
    · exact Or.inl (dmono x hx)
    · exact Or.inr hx
  have build : ∀ (stack : List Task), s'.threads = s.threads.set t stack →
      (∀ x ∈ stack, protTask P out (isDone s') x = true) →
      (∀ p ∈ s'.waiting, protCb P out (fun x => isDone s' x || x == p.1) p.2 = true) →
      (isDone s' out = true → P.all (isDone s') = true) → Prot P out s' := by
    intro stack h1 hs hw ho
    refine ⟨?_, hw, ho⟩
    intro th hth' x hx
    rw [h1] at hth'
    rcases mem_set_cases hth' with h' | h'
    · exact protTask_mono P out x _ _ dmono (inv.tasks th h' x hx)
    · subst h'; exact hs x hx
  -- when the value function is unchanged the `out` clause is inherited
  have houtSame : s'.value = s.value → (isDone s' out = true → P.all (isDone s') = true) := by
    intro e hd
    have : isDone s' = isDone s := by funext x; simp [isDone, e]
    rw [this] at hd ⊢; exact inv.outv hd
  have hdoneHead : ∀ o cb v, task = Task.run o cb v → isDone s o = true := by
    intro o cb v e
    have := vi.run _ hmem o cb v (by rw [e]; exact List.mem_cons_self ..)
    simp [isDone, this]
  unfold stepTask at h
  split at h
  · rename_i g cb
    split at h
    · simp at h
    · split at h
      · simp at h; subst h
        refine build _ rfl ?_ hwait (houtSame rfl)
        intro x hx
        simp at hx
        rcases hx with rfl | hx | hx
        · exact protCb_mono P out cb _ _ (orMono g) hhead
        · cases m <;> simp [lockTail] at hx; subst hx; rfl
        · exact hrest x hx
      · simp at h; subst h
        refine build _ rfl hrest ?_ (houtSame rfl)
        intro p hp
        simp at hp
        rcases hp with hp | rfl
        · exact hwait p hp
        · exact protCb_mono P out cb _ _ (orMono g) hhead
  · rename_i g v
    split at h
    · simp at h
    · split at h
      · simp at h; subst h
        exact build _ rfl hrest hwait (houtSame rfl)
      · rename_i hv
        simp at h; subst h
        refine build _ rfl ?_ ?_ ?_
        · intro x hx
          simp at hx
          rcases hx with hx | hx | hx
          · simp [fired] at hx
            obtain ⟨a, b, ⟨hab, h1⟩, rfl⟩ := hx
            subst h1
            exact hwait (a, b) hab
          · cases m <;> simp [lockTail] at hx; subst hx; rfl
          · exact hrest x hx
        · intro p hp
          simp at hp
          exact hwait p hp.1
        · intro hd
          by_cases e : g = out
          · subst e
            have : P.all (isDone s) = true := by
              simp only [protTask, Bool.or_eq_true] at hhead
              rcases hhead with hh | hh
              · simp at hh
              · exact hh
            exact all_mono dmono this
          · have : isDone s out = true := by
              simp only [isDone, upd] at hd ⊢
              rw [if_neg (fun e' => e e'.symm)] at hd; exact hd
            exact all_mono dmono (inv.outv this)
  · simp at h; subst h
    exact build _ rfl hrest hwait (houtSame rfl)
  · simp at h; subst h
    exact build _ rfl hrest hwait (houtSame rfl)
  · rename_i o g v
    simp at h; subst h
    refine build _ rfl ?_ hwait (houtSame rfl)
    intro x hx
    simp at hx
    rcases hx with rfl | hx
    · have hdo := hdoneHead o _ v rfl
      simp only [protTask, protCb, Bool.or_eq_true] at hhead ⊢
      rcases hhead with hh | hh
      · exact Or.inl hh
      · refine Or.inr (all_mono ?_ hh)
        intro x hx
        simp only [Bool.or_eq_true] at hx
        rcases hx with hx | hx
        · exact hx
        · simp at hx; subst hx; exact hdo
    · exact hrest x hx
  · rename_i o g cb v
    simp at h; subst h
    refine build _ rfl ?_ hwait (houtSame rfl)
    intro x hx
    simp at hx
    rcases hx with rfl | hx
    · have hdo := hdoneHead o _ v rfl
      simp only [protTask, protCb] at hhead ⊢
      refine protCb_mono P out cb _ _ ?_ hhead
      intro x hx
      simp only [Bool.or_eq_true] at hx ⊢
      rcases hx with (hx | hx) | hx
      · exact Or.inl hx
      · simp at hx; subst hx; exact Or.inl hdo
      · exact Or.inr hx
    · exact hrest x hx
  · rename_i o a b v
    simp at h; subst h
    refine build _ rfl ?_ hwait (houtSame rfl)
    intro x hx
    simp at hx
    simp only [protTask, protCb, Bool.and_eq_true] at hhead
    rcases hx with rfl | rfl | hx
    · exact hhead.1
    · exact hhead.2
    · exact hrest x hx
  · simp at h; subst h
    exact build _ rfl hrest hwait (houtSame rfl)
  · rename_i g cb
    simp at h; subst h
    refine build _ rfl ?_ hwait (houtSame rfl)
    intro x hx
    simp at hx
    rcases hx with rfl | hx
    · exact protCb_mono P out cb _ _ (orMono g) hhead
    · exact hrest x hx

theorem prot_mkSys (P : List FId) (out : FId) (threads : List (List Call))
    (h : ∀ cs ∈ threads, ∀ c ∈ cs, protCall P out c = true) : Prot P out (mkSys threads) := by
  refine ⟨?_, ?_, ?_⟩
  · intro th hth task ht
    simp [mkSys] at hth
    obtain ⟨cs, hcs, rfl⟩ := hth
    simp at ht
    obtain ⟨c, hc, rfl⟩ := ht
    have hd : isDone (mkSys threads) = fun _ => false := by funext x; simp [isDone, mkSys]
    rw [hd]; exact h cs hcs c hc
  · intro p hp; simp [mkSys] at hp
  · intro hd; simp [isDone, mkSys] at hd

theorem exec_prot {P out m sched s s'} (h : exec m s sched = some s') (vi : ValInv s) (inv : Prot P out s) :
    Prot P out s' := by
  have := exec_induct m (fun x => ValInv x ∧ Prot P out x)
    (fun a t b hp hs => by
      obtain ⟨task, rest, h1, h2⟩ := step_inv hs
      exact ⟨stepTask_valInv h1 h2 hp.1, stepTask_prot h1 h2 hp.1 hp.2⟩) sched s s' ⟨vi, inv⟩ h
  exact this.2

/-! ### value transfer: `out` is completed only with the value of `g` -/

def srcTask (out g : FId) (s : Sys) : Task → Prop
  | .call (.thenAccept h cb) => srcCb out g h cb = true
  | .call (.complete x v) => x = out → s.value g = some v
  | .run o cb _ => srcCb out g o cb = true
  | .unlock _ => True
  | .appendCb h cb => srcCb out g h cb = true

structure Src (out g : FId) (s : Sys) : Prop where
  tasks : ∀ th ∈ s.threads, ∀ task ∈ th, srcTask out g s task
  wait  : ∀ p ∈ s.waiting, srcCb out g p.1 p.2 = true
  outv  : ∀ v, s.value out = some v → s.value g = some v

theorem srcTask_mono {out g : FId} {s s' : Sys} (hm : ∀ f v, s.value f = some v → s'.value f = some v)
    (task : Task) (h : srcTask out g s task) : srcTask out g s' task := by
  cases task with
  | call c =>
    cases c with
    | thenAccept h' cb => exact h
    | complete x v => exact fun e => hm _ _ (h e)
  | run o cb v => exact h
  | unlock f => trivial
  | appendCb h' cb => exact h

theorem stepTask_src {out g m s t task rest s'} (hth : s.threads[t]? = some (task :: rest))
    (h : stepTask m s t task rest = some s') (vi : ValInv s) (inv : Src out g s) : Src out g s' := by
  have hmem : (task :: rest) ∈ s.threads := mem_of_getElem? hth
  have hmono : ∀ f v, s.value f = some v → s'.value f = some v := fun f v hv => stepTask_value_mono h hv
  have hrest : ∀ x ∈ rest, srcTask out g s' x := fun x hx =>
    srcTask_mono hmono x (inv.tasks _ hmem x (List.mem_cons_of_mem _ hx))
  have hhead : srcTask out g s task := inv.tasks _ hmem task (List.mem_cons_self ..)
  have build : ∀ (stack : List Task), s'.threads = s.threads.set t stack →
      (∀ x ∈ stack, srcTask out g s' x) → (∀ p ∈ s'.waiting, srcCb out g p.1 p.2 = true) →
      (∀ v, s'.value out = some v → s'.value g = some v) → Src out g s' := by
    intro stack h1 hs hw ho
    refine ⟨?_, hw, ho⟩
    intro th hth' x hx
    rw [h1] at hth'
    rcases mem_set_cases hth' with h' | h'
    · exact srcTask_mono hmono x (inv.tasks th h' x hx)
    · subst h'; exact hs x hx
  have houtSame : s'.value = s.value → (∀ v, s'.value out = some v → s'.value g = some v) := by
    intro e v hv; rw [e] at hv ⊢; exact inv.outv v hv
  have hvalHead : ∀ o cb v, task = Task.run o cb v → s.value o = some v := fun o cb v e =>
    vi.run _ hmem o cb v (by rw [e]; exact List.mem_cons_self ..)
  unfold stepTask at h
  split at h
  · rename_i f cb
    split at h
    · simp at h
    · split at h
      · simp at h; subst h
        refine build _ rfl ?_ inv.wait (houtSame rfl)
        intro x hx
        simp at hx
        rcases hx with rfl | hx | hx
        · exact hhead
        · cases m <;> simp [lockTail] at hx; subst hx; trivial
        · exact hrest x hx
      · simp at h; subst h
        refine build _ rfl hrest ?_ (houtSame rfl)
        intro p hp
        simp at hp
        rcases hp with hp | rfl
        · exact inv.wait p hp
        · exact hhead
  · rename_i f v
    split at h
    · simp at h
    · split at h
      · simp at h; subst h
        exact build _ rfl hrest inv.wait (houtSame rfl)
      · rename_i hv
        simp at h; subst h
        refine build _ rfl ?_ ?_ ?_
        · intro x hx
          simp at hx
          rcases hx with hx | hx | hx
          · simp [fired] at hx
            obtain ⟨a, b, ⟨hab, h1⟩, rfl⟩ := hx
            subst h1
            exact inv.wait (a, b) hab
          · cases m <;> simp [lockTail] at hx; subst hx; trivial
          · exact hrest x hx
        · intro p hp
          simp at hp
          exact inv.wait p hp.1
        · intro v' hv'
          by_cases e : f = out
          · subst e
            have hg : s.value g = some v := hhead rfl
            simp [upd] at hv'; subst hv'
            exact upd_keep hg hv
          · have : s.value out = some v' := by
              simp only [upd] at hv'
              rw [if_neg (fun e' => e e'.symm)] at hv'; exact hv'
            exact upd_keep (inv.outv v' this) hv
  · simp at h; subst h
    exact build _ rfl hrest inv.wait (houtSame rfl)
  · simp at h; subst h
    exact build _ rfl hrest inv.wait (houtSame rfl)
  · rename_i o x v
    simp at h; subst h
    refine build _ rfl ?_ inv.wait (houtSame rfl)
    intro y hy
    simp at hy
    rcases hy with rfl | hy
    · intro e
      subst e
      have hs : srcCb x g o (Cb.complete x) = true := hhead
      simp [srcCb] at hs
      subst hs
      exact hvalHead o _ v rfl
    · exact hrest y hy
  · rename_i o h' cb v
    simp at h; subst h
    refine build _ rfl ?_ inv.wait (houtSame rfl)
    intro y hy
    simp at hy
    rcases hy with rfl | hy
    · exact hhead
    · exact hrest y hy
  · rename_i o a b v
    simp at h; subst h
    refine build _ rfl ?_ inv.wait (houtSame rfl)
    intro y hy
    simp at hy
    have hs : srcCb out g o (Cb.seq a b) = true := hhead
    simp only [srcCb, Bool.and_eq_true] at hs
    rcases hy with rfl | rfl | hy
    · exact hs.1
    · exact hs.2
    · exact hrest y hy
  · simp at h; subst h
    exact build _ rfl hrest inv.wait (houtSame rfl)
  · simp at h; subst h
    refine build _ rfl ?_ inv.wait (houtSame rfl)
    intro y hy
    simp at hy
    rcases hy with rfl | hy
    · exact hhead
    · exact hrest y hy

theorem src_mkSys (out g : FId) (threads : List (List Call))
    (h : ∀ cs ∈ threads, ∀ c ∈ cs, srcCall out g c = true) : Src out g (mkSys threads) := by
  refine ⟨?_, ?_, ?_⟩
  · intro th hth task ht
    simp [mkSys] at hth
    obtain ⟨cs, hcs, rfl⟩ := hth
    simp at ht
    obtain ⟨c, hc, rfl⟩ := ht
    have := h cs hcs c hc
    cases c with
    | thenAccept h' cb => exact this
    | complete x v => intro e; simp [srcCall, e] at this
  · intro p hp; simp [mkSys] at hp
  · intro v hv; simp [mkSys] at hv

theorem exec_src {out g m sched s s'} (h : exec m s sched = some s') (vi : ValInv s) (inv : Src out g s) :
    Src out g s' := by
  have := exec_induct m (fun x => ValInv x ∧ Src out g x)
    (fun a t b hp hs => by
      obtain ⟨task, rest, h1, h2⟩ := step_inv hs
      exact ⟨stepTask_valInv h1 h2 hp.1, stepTask_src h1 h2 hp.1 hp.2⟩) sched s s' ⟨vi, inv⟩ h
  exact this.2

theorem srcCb_noComplete (out g : FId) : ∀ (cb : Cb) (o : FId), noComplete out cb = true → srcCb out g o cb = true
  | .nop, _, _ => rfl
  | .log _, _, _ => rfl
  | .complete x, o, h => by simp only [noComplete, srcCb, Bool.or_eq_true] at *; exact Or.inl h
  | .accept h' cb, o, h => by simp only [noComplete, srcCb] at *; exact srcCb_noComplete out g cb h' h
  | .seq a b, o, h => by
      simp only [noComplete, srcCb, Bool.and_eq_true] at *
      exact ⟨srcCb_noComplete out g a o h.1, srcCb_noComplete out g b o h.2⟩

theorem step_none_of_ge (m : Mode) (s : Sys) (t : Nat) (h : s.threads.length ≤ t) : step m s t = none := by
  unfold step
  rw [List.getElem?_eq_none h]

end Gate.C42
