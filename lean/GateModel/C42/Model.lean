/-
C42 — model of `pkg/internal/future.Future` (future.go) as an interleaving machine.

Go (after the C42 fix; the pre-fix variant is `Mode.defective`):

    ThenAccept(cb):  Lock; if !completed { callback = append(callback, cb); Unlock; return }
                     v := value; Unlock; cb(v)
    Complete(v):     Lock; if completed { Unlock; return }; value = v; completed = true;
                     cbs := callback; callback = nil; Unlock; for fn in cbs { fn(v) }
    ThenCompose(f,k): out := New(); f.ThenAccept(func(v){ k(v).ThenAccept(func(u){ out.Complete(u) }) }); return out

Each API call is ONE critical section (one atomic action of the model) followed by callback
invocations outside any lock.  What a callback does is a small program `Cb`: log an observable
event, complete another future with the received value, register a further callback on another
future, sequence.  A thread is a work stack of `Task`s; a system is a list of threads; a schedule
is a list of thread ids (`exec`).  `Mode.defective` is the code before the fix: the mutex stays
held while callbacks run (`Task.unlock` is the deferred `Unlock`), so a nested call on a held
future is not enabled.

Representation choice: the per-future `callback` slices are kept as ONE registration-ordered list
`waiting : List (FId × Cb)`; future `f`'s slice is `waiting.filter (·.1 = f)`.
-/
namespace Gate.C42

abbrev FId := Nat
abbrev Val := Nat
abbrev Tag := Nat

/-- what a callback does when invoked with value `v` (by future `owner`) -/
inductive Cb where
  | nop
  | log (tag : Tag)              -- observable: record (tag, owner, v)
  | complete (g : FId)           -- futs[g].Complete(v)
  | accept (g : FId) (cb : Cb)   -- futs[g].ThenAccept(cb)
  | seq (a b : Cb)
  deriving Repr, DecidableEq, Inhabited

inductive Call where
  | thenAccept (f : FId) (cb : Cb)
  | complete (f : FId) (v : Val)
  deriving Repr, DecidableEq

inductive Task where
  | call (c : Call)
  | run (owner : FId) (cb : Cb) (v : Val)   -- invoke callback `cb` (registered on `owner`) with `v`
  | unlock (f : FId)                         -- deferred `f.mu.Unlock()` (defective mode only)
  | appendCb (f : FId) (cb : Cb)             -- split-check variant only: the append half of a ThenAccept whose
                                             -- completed-check ran in an EARLIER critical section (see `stepSplit`)
  deriving Repr, DecidableEq

inductive Mode where
  | repaired | defective
  deriving Repr, DecidableEq

structure Sys where
  value   : FId → Option Val        -- `completed`/`value` of every future
  holder  : FId → Option Nat        -- who holds `mu` across callbacks (defective mode only)
  waiting : List (FId × Cb)         -- registered, not yet fired callbacks, in registration order
  threads : List (List Task)
  log     : List (Tag × FId × Val)  -- the callback invocation log

def upd {α} (m : FId → α) (f : FId) (a : α) : FId → α := fun x => if x = f then a else m x

/-- `ThenCompose(f, k)` where `k` performs `eff` and returns future `g`; `out` is the new future. -/
def composeCb (g out : FId) (eff : Cb) : Cb := .seq eff (.accept g (.complete out))
def compose (f g out : FId) (eff : Cb) : Call := .thenAccept f (composeCb g out eff)

def lockTail : Mode → FId → List Task
  | .repaired, _ => []
  | .defective, f => [.unlock f]

def blocked (m : Mode) (s : Sys) (f : FId) : Bool :=
  match m with
  | .repaired => false
  | .defective => (s.holder f).isSome

def hold (m : Mode) (s : Sys) (f : FId) (t : Nat) : FId → Option Nat :=
  match m with
  | .repaired => s.holder
  | .defective => upd s.holder f (some t)

def fired (s : Sys) (f : FId) (v : Val) : List Task :=
  (s.waiting.filter (fun p => p.1 == f)).map (fun p => Task.run f p.2 v)

/-- the effect of thread `t` executing its next task `task` (rest of its stack: `rest`) -/
def stepTask (m : Mode) (s : Sys) (t : Nat) (task : Task) (rest : List Task) : Option Sys :=
  match task with
  | .call (.thenAccept f cb) =>
    if blocked m s f then none else
    match s.value f with
    | some v => some { s with holder := hold m s f t,
                              threads := s.threads.set t (.run f cb v :: (lockTail m f ++ rest)) }
    | none => some { s with waiting := s.waiting ++ [(f, cb)], threads := s.threads.set t rest }
  | .call (.complete f v) =>
    if blocked m s f then none else
    match s.value f with
    | some _ => some { s with threads := s.threads.set t rest }
    | none => some { s with value := upd s.value f (some v), holder := hold m s f t,
                            waiting := s.waiting.filter (fun p => !(p.1 == f)),
                            threads := s.threads.set t (fired s f v ++ (lockTail m f ++ rest)) }
  | .run _ .nop _ => some { s with threads := s.threads.set t rest }
  | .run o (.log tag) v => some { s with log := s.log ++ [(tag, o, v)], threads := s.threads.set t rest }
  | .run _ (.complete g) v => some { s with threads := s.threads.set t (.call (.complete g v) :: rest) }
  | .run _ (.accept g cb) _ => some { s with threads := s.threads.set t (.call (.thenAccept g cb) :: rest) }
  | .run o (.seq a b) v => some { s with threads := s.threads.set t (.run o a v :: .run o b v :: rest) }
  | .unlock f => some { s with holder := upd s.holder f none, threads := s.threads.set t rest }
  -- does not exist in the source (check and append are ONE critical section); unreachable from `mkSys`.
  -- Given the harmless total meaning "perform the whole registration now".
  | .appendCb f cb => some { s with threads := s.threads.set t (.call (.thenAccept f cb) :: rest) }

/-- one scheduling step: thread `t` performs its next atomic action (`none`: not enabled) -/
def step (m : Mode) (s : Sys) (t : Nat) : Option Sys :=
  match s.threads[t]? with
  | some (task :: rest) => stepTask m s t task rest
  | _ => none

/-- run a schedule (list of thread ids); `none` if it schedules a thread that is not enabled -/
def exec (m : Mode) (s : Sys) : List Nat → Option Sys
  | [] => some s
  | t :: ts => (step m s t).bind (fun s' => exec m s' ts)

def mkSys (threads : List (List Call)) : Sys :=
  { value := fun _ => none, holder := fun _ => none, waiting := [],
    threads := threads.map (·.map Task.call), log := [] }

def terminal (s : Sys) : Bool := s.threads.all (·.isEmpty)

/-! ### the split-check variant (NOT the source): `ThenAccept` peeks `completed` in one critical section
(e.g. under a read lock), leaves it, and appends the callback in a LATER critical section without
checking again.  Everything else as in the repaired code. -/

def stepSplit (s : Sys) (t : Nat) : Option Sys :=
  match s.threads[t]? with
  | some (.call (.thenAccept f cb) :: rest) =>
    match s.value f with
    | some _ => step .repaired s t                                            -- completed: run the callback
    | none => some { s with threads := s.threads.set t (.appendCb f cb :: rest) }  -- "not completed", lock released
  | some (.appendCb f cb :: rest) =>
    some { s with waiting := s.waiting ++ [(f, cb)], threads := s.threads.set t rest }  -- append, no re-check
  | _ => step .repaired s t

def execSplit (s : Sys) : List Nat → Option Sys
  | [] => some s
  | t :: ts => (stepSplit s t).bind (fun s' => execSplit s' ts)

/-! ### the schedules the driver uses (any schedule gives the same summary, by the theorems) -/

/-- run thread `t` until its stack is empty or it is not enabled -/
def runThread (m : Mode) : Nat → Sys → Nat → Sys
  | 0, s, _ => s
  | fuel + 1, s, t => match step m s t with
    | some s' => runThread m fuel s' t
    | none => s

/-- round robin over all threads until nothing is enabled -/
def roundRobin (m : Mode) : Nat → Sys → Sys
  | 0, s => s
  | fuel + 1, s =>
    let (s', moved) := (List.range s.threads.length).foldl
      (fun (acc : Sys × Bool) t => match step m acc.1 t with
        | some s2 => (s2, true)
        | none => acc) (s, false)
    if moved then roundRobin m fuel s' else s'

/-! ### occurrence counting (who still owes an invocation of `log τ` on behalf of future `f`) -/

/-- number of `log τ` leaves of `cb` that will be invoked by future `f`; `o` is the future the
    callback `cb` itself is registered on (the owner of its top-level leaves) -/
def cntCb (τ : Tag) (f : FId) : FId → Cb → Nat
  | _, .nop => 0
  | o, .log t => if t = τ ∧ o = f then 1 else 0
  | _, .complete _ => 0
  | _, .accept g cb => cntCb τ f g cb
  | o, .seq a b => cntCb τ f o a + cntCb τ f o b

def cntTask (τ : Tag) (f : FId) : Task → Nat
  | .appendCb g cb => cntCb τ f g cb
  | .call (.thenAccept g cb) => cntCb τ f g cb
  | .call (.complete _ _) => 0
  | .run o cb _ => cntCb τ f o cb
  | .unlock _ => 0

def cntStack (τ : Tag) (f : FId) (th : List Task) : Nat := (th.map (cntTask τ f)).sum
/-- occurrences still on some thread's work stack -/
def pend (τ : Tag) (f : FId) (s : Sys) : Nat := (s.threads.map (cntStack τ f)).sum
/-- occurrences parked in callback lists of futures that are not completed -/
def waitCnt (τ : Tag) (f : FId) (s : Sys) : Nat := (s.waiting.map (fun p => cntCb τ f p.1 p.2)).sum
/-- invocations of `log τ` by future `f` recorded in the log -/
def logCnt (τ : Tag) (f : FId) (s : Sys) : Nat := (s.log.filter (fun e => e.1 == τ && e.2.1 == f)).length
def total (τ : Tag) (f : FId) (s : Sys) : Nat := logCnt τ f s + waitCnt τ f s + pend τ f s
/-- occurrences in the program text -/
def initCnt (τ : Tag) (f : FId) (threads : List (List Call)) : Nat :=
  (threads.map (fun cs => (cs.map (fun c => cntTask τ f (.call c))).sum)).sum

/-! ### chain order: every `complete out` is guarded by the futures in `P` -/

def isDone (s : Sys) (x : FId) : Bool := (s.value x).isSome

/-- every `complete out` leaf of `cb` sits below registrations on all futures of `P` that are not
    already known completed (`ok`) -/
def protCb (P : List FId) (out : FId) : (FId → Bool) → Cb → Bool
  | _, .nop => true
  | _, .log _ => true
  | ok, .complete o => o != out || P.all ok
  | ok, .accept g cb => protCb P out (fun x => ok x || x == g) cb
  | ok, .seq a b => protCb P out ok a && protCb P out ok b

def protTask (P : List FId) (out : FId) (done : FId → Bool) : Task → Bool
  | .appendCb g cb => protCb P out (fun x => done x || x == g) cb
  | .call (.thenAccept g cb) => protCb P out (fun x => done x || x == g) cb
  | .call (.complete o _) => o != out || P.all done
  | .run o cb _ => protCb P out (fun x => done x || x == o) cb
  | .unlock _ => true

def protCall (P : List FId) (out : FId) (c : Call) : Bool := protTask P out (fun _ => false) (.call c)

/-- `complete out` does not occur in `cb` -/
def noComplete (out : FId) : Cb → Bool
  | .nop => true
  | .log _ => true
  | .complete o => o != out
  | .accept _ cb => noComplete out cb
  | .seq a b => noComplete out a && noComplete out b

/-- every `complete out` leaf of `cb` is invoked by future `g` (so it passes on `g`'s value) -/
def srcCb (out g : FId) : FId → Cb → Bool
  | _, .nop => true
  | _, .log _ => true
  | o, .complete x => x != out || o == g
  | _, .accept h cb => srcCb out g h cb
  | o, .seq a b => srcCb out g o a && srcCb out g o b

def srcCall (out g : FId) : Call → Bool
  | .thenAccept h cb => srcCb out g h cb
  | .complete x _ => x != out

/-! ### weights (termination measure) -/

def wCb : Cb → Nat
  | .nop => 1
  | .log _ => 1
  | .complete _ => 3
  | .accept _ cb => wCb cb + 3
  | .seq a b => wCb a + wCb b + 1

def wTask : Task → Nat
  | .appendCb _ cb => wCb cb + 3
  | .call (.thenAccept _ cb) => wCb cb + 2
  | .call (.complete _ _) => 2
  | .run _ cb _ => wCb cb
  | .unlock _ => 1

def wStack (th : List Task) : Nat := (th.map wTask).sum
def weight (s : Sys) : Nat :=
  (s.threads.map wStack).sum + (s.waiting.map (fun p => wCb p.2 + 1)).sum

/-! ### lock-region facts over a `calls` list of tools/gofacts -/

/-- Is `f.mu` held when the first call named `target` happens?  Scans the calls before it: the last
    `f.mu.Lock`/`f.mu.Unlock` decides; a `defer:f.mu.Unlock` releases only at return, so it does
    not end the region. -/
def heldAtCall (calls : List String) (target : String) : Bool :=
  let before := calls.takeWhile (· != target)
  before.foldl (fun held c => if c == "f.mu.Lock" then true else if c == "f.mu.Unlock" then false else held) false

def countOf (calls : List String) (x : String) : Nat := (calls.filter (· == x)).length

end Gate.C42
