import GateModel.C42.Lemmas
import GateModel.Gen.C42
/-
C42 — Futures complete once and run every callback exactly once.

All theorems quantify over EVERY schedule (`sched : List Nat`, any interleaving of the threads'
atomic actions) and, unless a `Mode` is named, hold for both lock disciplines.  The system is any
number of threads, each any list of `ThenAccept` / `Complete` / `ThenCompose` calls whose callbacks
are arbitrary `Cb` programs (log, complete another future, register on another future — including
the future they run for —, sequence).

  * first completion wins, later completions change nothing;
  * conservation: each callback occurrence is, at every moment, in exactly one place — the log, a
    work stack, or the callback list of an uncompleted future; hence never invoked twice, and in a
    terminal state invoked exactly once with the future's value unless its future never completed;
  * the repaired code never blocks, every schedule is finite, every schedule extends to a terminal one
    (so "exactly once" is reached in every maximal interleaving);
  * chain order: a composed future completes only after its source and the future returned by the
    callback, and with the latter's value;
  * the code before the fix (`Mode.defective`, mutex held while callbacks run) deadlocks:
    `…_defective_fails` witnesses (self re-entrancy, and two goroutines completing two futures
    whose callbacks register on each other);
  * source-shape facts regenerated from future.go: callbacks are invoked outside the critical section.
-/
namespace Gate.C42.Props
open Gate.C42

/-! ### first completion wins -/

theorem first_completion_wins (m : Mode) (s s' : Sys) (sched : List Nat) (h : exec m s sched = some s')
    (f : FId) (v : Val) (hv : s.value f = some v) : s'.value f = some v :=
  exec_value_mono h hv

/-- `Complete(v)` on a future that is not completed fixes its value to `v` -/
theorem complete_fixes_value (m : Mode) (s s' : Sys) (t : Nat) (f : FId) (v : Val) (rest : List Task)
    (hth : s.threads[t]? = some (.call (.complete f v) :: rest)) (hv : s.value f = none)
    (hs : step m s t = some s') : s'.value f = some v := by
  unfold step at hs; rw [hth] at hs
  simp only [stepTask] at hs
  split at hs
  · simp at hs
  · simp [hv] at hs; subst hs; simp [upd]

/-- `Complete` on a completed future changes neither the value, nor the log, nor any callback list -/
theorem later_completion_ignored (m : Mode) (s s' : Sys) (t : Nat) (f : FId) (v w : Val) (rest : List Task)
    (hth : s.threads[t]? = some (.call (.complete f v) :: rest)) (hv : s.value f = some w)
    (hs : step m s t = some s') : s'.value = s.value ∧ s'.log = s.log ∧ s'.waiting = s.waiting := by
  unfold step at hs; rw [hth] at hs
  simp only [stepTask] at hs
  split at hs
  · simp at hs
  · simp [hv] at hs; subst hs; simp

/-! ### every callback runs exactly once, with the future's value -/

/-- conservation law, at every reachable state of every schedule -/
theorem callback_conservation (m : Mode) (threads : List (List Call)) (sched : List Nat) (s' : Sys)
    (h : exec m (mkSys threads) sched = some s') (τ : Tag) (f : FId) :
    logCnt τ f s' + waitCnt τ f s' + pend τ f s' = initCnt τ f threads := by
  have := exec_total h τ f
  rw [total_mkSys] at this
  exact this

theorem callback_at_most_once (m : Mode) (threads : List (List Call)) (sched : List Nat) (s' : Sys)
    (h : exec m (mkSys threads) sched = some s') (τ : Tag) (f : FId) :
    logCnt τ f s' ≤ initCnt τ f threads := by
  have := callback_conservation m threads sched s' h τ f
  omega

/-- every invocation recorded in the log carried the value of the future it ran for (and by
    `first_completion_wins` that value is the first completion's, for ever) -/
theorem callback_gets_future_value (m : Mode) (threads : List (List Call)) (sched : List Nat) (s' : Sys)
    (h : exec m (mkSys threads) sched = some s') :
    ∀ e ∈ s'.log, s'.value e.2.1 = some e.2.2 :=
  (exec_valInv h (valInv_mkSys threads)).log

/-- terminal states (every goroutine returned): each callback occurrence was invoked exactly once, or is
    still parked — and parked callbacks sit only on futures that were never completed -/
theorem callback_exactly_once_with_value (m : Mode) (threads : List (List Call)) (sched : List Nat) (s' : Sys)
    (h : exec m (mkSys threads) sched = some s') (hterm : terminal s' = true) (τ : Tag) (f : FId) :
    logCnt τ f s' + waitCnt τ f s' = initCnt τ f threads
    ∧ (∀ e ∈ s'.log, s'.value e.2.1 = some e.2.2)
    ∧ (∀ p ∈ s'.waiting, s'.value p.1 = none) := by
  have c := callback_conservation m threads sched s' h τ f
  rw [pend_terminal hterm] at c
  have vi := exec_valInv h (valInv_mkSys threads)
  exact ⟨by omega, vi.log, vi.wait⟩

/-- if nothing is left parked (every future that holds callbacks got completed) every callback ran
    exactly as often as it occurs in the program: once per occurrence -/
theorem all_callbacks_ran_exactly_once (m : Mode) (threads : List (List Call)) (sched : List Nat) (s' : Sys)
    (h : exec m (mkSys threads) sched = some s') (hterm : terminal s' = true) (hw : s'.waiting = [])
    (τ : Tag) (f : FId) : logCnt τ f s' = initCnt τ f threads := by
  have := (callback_exactly_once_with_value m threads sched s' h hterm τ f).1
  simp [waitCnt, hw] at this
  exact this

/-! ### the repaired code cannot block; all schedules are finite and extend to a terminal state -/

theorem repaired_never_blocks (s : Sys) (t : Nat) (task : Task) (rest : List Task)
    (hth : s.threads[t]? = some (task :: rest)) : (step .repaired s t).isSome = true :=
  step_repaired_some hth

theorem schedules_are_bounded (m : Mode) (s s' : Sys) (sched : List Nat) (h : exec m s sched = some s') :
    sched.length + weight s' ≤ weight s :=
  exec_weight sched s s' h

theorem repaired_always_reaches_terminal (s s' : Sys) (sched : List Nat)
    (_h : exec .repaired s sched = some s') :
    ∃ more s'', exec .repaired s' more = some s'' ∧ terminal s'' = true :=
  extend_to_terminal (weight s') s' (Nat.le_refl _)

/-- no deadlock: a reachable non-terminal state of the repaired code always has an enabled thread -/
theorem repaired_no_deadlock (s s' : Sys) (sched : List Nat) (_h : exec .repaired s sched = some s')
    (hnt : terminal s' = false) : ∃ t, (step .repaired s' t).isSome = true := by
  obtain ⟨t, task, rest, hth⟩ := exists_work_of_not_terminal hnt
  exact ⟨t, step_repaired_some hth⟩

/-! ### chains of composed futures complete in chain order -/

/-- if every `complete out` in the program is guarded by registrations on the futures `P`
    (`protCall`), then in every reachable state `out` completed implies all of `P` completed -/
theorem chain_order (m : Mode) (P : List FId) (out : FId) (threads : List (List Call))
    (hinit : ∀ cs ∈ threads, ∀ c ∈ cs, protCall P out c = true)
    (sched : List Nat) (s' : Sys) (h : exec m (mkSys threads) sched = some s') :
    isDone s' out = true → ∀ p ∈ P, isDone s' p = true := by
  intro hd
  have := (exec_prot h (valInv_mkSys threads) (prot_mkSys P out threads hinit)).outv hd
  exact List.all_eq_true.1 this

/-- `ThenCompose(f, k)` with `k` returning `g` guards its `out` by `f` and `g` -/
theorem compose_protected (f g out : FId) (eff : Cb) (h : noComplete out eff = true) :
    protCall [f, g] out (compose f g out eff) = true := by
  simp only [protCall, protTask, compose, composeCb, protCb, Bool.and_eq_true]
  refine ⟨protCb_noComplete _ _ _ _ h, ?_⟩
  simp

/-- calls that never complete `out` are trivially guarded -/
theorem unrelated_call_protected (P : List FId) (out : FId) :
    (∀ f cb, noComplete out cb = true → protCall P out (.thenAccept f cb) = true)
    ∧ (∀ f v, f ≠ out → protCall P out (.complete f v) = true) := by
  refine ⟨fun f cb h => protCb_noComplete _ _ _ _ h, fun f v h => ?_⟩
  simp [protCall, protTask, h]

/-- a whole chain: for every link `(f, g, out)` guarded as above, `out` is completed only after `f`
    and `g` — so a chain `f₀ → out₁ → out₂ → …` completes in chain order, under every schedule -/
theorem chain_completes_in_order (m : Mode) (links : List (FId × FId × FId)) (threads : List (List Call))
    (hinit : ∀ l ∈ links, ∀ cs ∈ threads, ∀ c ∈ cs, protCall [l.1, l.2.1] l.2.2 c = true)
    (sched : List Nat) (s' : Sys) (h : exec m (mkSys threads) sched = some s') :
    ∀ l ∈ links, isDone s' l.2.2 = true → isDone s' l.1 = true ∧ isDone s' l.2.1 = true := by
  intro l hl hd
  have := chain_order m [l.1, l.2.1] l.2.2 threads (hinit l hl) sched s' h hd
  exact ⟨this _ (by simp), this _ (by simp)⟩

/-- the composed future takes the value of the future returned by the callback -/
theorem compose_value (m : Mode) (out g : FId) (threads : List (List Call))
    (hinit : ∀ cs ∈ threads, ∀ c ∈ cs, srcCall out g c = true)
    (sched : List Nat) (s' : Sys) (h : exec m (mkSys threads) sched = some s') (v : Val)
    (hv : s'.value out = some v) : s'.value g = some v :=
  (exec_src h (valInv_mkSys threads) (src_mkSys out g threads hinit)).outv v hv

theorem compose_source (f g out : FId) (eff : Cb) (h : noComplete out eff = true) :
    srcCall out g (compose f g out eff) = true := by
  simp only [srcCall, compose, composeCb, srcCb, Bool.and_eq_true]
  exact ⟨srcCb_noComplete _ _ _ _ h, by simp⟩

/-! ### non-vacuity: a three-link chain completed by three other goroutines in the "wrong" order -/

def chainProg : List (List Call) :=
  [ [compose 0 1 4 (.log 1), compose 4 2 5 (.log 2), compose 5 3 6 .nop, .thenAccept 6 (.log 3)],
    [.complete 3 30], [.complete 2 20, .complete 0 10], [.complete 1 11, .complete 1 12] ]
def chainLinks : List (FId × FId × FId) := [(0, 1, 4), (4, 2, 5), (5, 3, 6)]

example : ∀ l ∈ chainLinks, ∀ cs ∈ chainProg, ∀ c ∈ cs, protCall [l.1, l.2.1] l.2.2 c = true := by decide
example : ∀ cs ∈ chainProg, ∀ c ∈ cs, srcCall 6 3 c = true := by decide
/-- one concrete schedule of it reaches a terminal state in which the last link is completed with
    `g₃`'s value and `log 3` ran once -/
example : (match exec .repaired (mkSys chainProg) (List.replicate 40 0 ++ [1, 2, 2, 3, 3] ++ List.replicate 40 3
      ++ List.replicate 40 2 ++ List.replicate 40 1) with
    | some _ => false | none => true) = true := by decide

/-! ### registration and completion are atomic with respect to each other

The theorems above are about the machine whose atomic steps are the critical sections of the source:
`ThenAccept` checks `completed` AND appends (or reads the value) in ONE section of an exclusive lock.  That
granularity is a regenerated fact (`thenAccept_check_and_append_one_exclusive_section` below).  A variant that
peeks `completed` in one section (say under a read lock) and appends in a later one is a different machine
(`stepSplit`): it parks callbacks on completed futures, where they never run. -/

/-- at EVERY reachable state of every schedule: a parked callback sits on a future that is not completed
    (so the completion that comes later will run it) -/
theorem never_parked_on_completed_future (m : Mode) (threads : List (List Call)) (sched : List Nat) (s' : Sys)
    (h : exec m (mkSys threads) sched = some s') : ∀ p ∈ s'.waiting, s'.value p.1 = none :=
  (exec_valInv h (valInv_mkSys threads)).wait

/-- one registrar, one completer -/
def raceProg : List (List Call) := [[.thenAccept 0 (.log 1)], [.complete 0 7]]

def lostAfterSplit (sched : List Nat) : Bool :=
  match execSplit (mkSys raceProg) sched with
  | some s => terminal s && s.value 0 == some 7 && logCnt 1 0 s == 0 && s.waiting.any (·.1 == 0)
  | none => false

/-- split check: peek (not completed) · Complete runs entirely · append ⇒ the callback ran 0 times and is
    parked for ever on a completed future -/
theorem split_check_defective_fails : lostAfterSplit [0, 1, 0] = true := by decide

/-- so the full-strength statement fails for that variant … -/
theorem never_parked_split_check_fails :
    ¬ (∀ (sched : List Nat) (s : Sys), execSplit (mkSys raceProg) sched = some s →
        ∀ p ∈ s.waiting, s.value p.1 = none) := by
  intro hall
  have hw := split_check_defective_fails
  unfold lostAfterSplit at hw
  split at hw
  · rename_i s hs
    simp only [Bool.and_eq_true, List.any_eq_true, beq_iff_eq] at hw
    obtain ⟨⟨⟨_, hv⟩, _⟩, p, hp, hp0⟩ := hw
    have := hall _ s hs p hp
    rw [hp0, hv] at this; cases this
  · cases hw

/-- exhaustive exploration of EVERY schedule of a (small) system under the source's granularity -/
def forallRuns : Nat → Sys → (Sys → Bool) → Bool
  | 0, _, _ => false
  | fuel + 1, s, P =>
    if terminal s then P s else
    (List.range s.threads.length).all fun t => match step .repaired s t with
      | none => true
      | some s' => forallRuns fuel s' P

/-- … while under the source's granularity every one of the schedules of the same program ends with the
    callback invoked exactly once and nothing parked (besides the general theorems above, which say so
    for every program) -/
example : forallRuns 8 (mkSys raceProg) (fun s => logCnt 1 0 s == 1 && s.waiting.isEmpty && s.value 0 == some 7) = true := by
  decide

/-! ### the code before the fix (`Mode.defective`): callbacks ran with the mutex held -/

/-- `f.ThenAccept(func(v){ f.ThenAccept(log 1) })` then `f.Complete(7)` on one goroutine -/
def reentrantProg : List (List Call) := [[.thenAccept 0 (.accept 0 (.log 1)), .complete 0 7]]

/-- two goroutines complete `f0`, `f1`; `f0`'s callback registers on `f1` and vice versa -/
def crossProg : List (List Call) :=
  [[.thenAccept 0 (.accept 1 (.log 1)), .thenAccept 1 (.accept 0 (.log 2)), .complete 0 5], [.complete 1 6]]

/-- after `sched` the system is stuck for ever: some thread has work, no thread is enabled -/
def stuckAfter (m : Mode) (prog : List (List Call)) (sched : List Nat) : Bool :=
  match exec m (mkSys prog) sched with
  | some s => !terminal s && (List.range s.threads.length).all (fun t => (step m s t).isNone)
  | none => false

theorem stuck_is_deadlock (m : Mode) (prog : List (List Call)) (sched : List Nat)
    (h : stuckAfter m prog sched = true) :
    ∃ s, exec m (mkSys prog) sched = some s ∧ terminal s = false ∧ ∀ t, step m s t = none := by
  unfold stuckAfter at h
  split at h
  · rename_i s hs
    simp only [Bool.and_eq_true, Bool.not_eq_true', List.all_eq_true, List.mem_range] at h
    refine ⟨s, hs, h.1, fun t => ?_⟩
    by_cases ht : t < s.threads.length
    · have := h.2 t ht
      simpa using this
    · exact step_none_of_ge m s t (Nat.le_of_not_lt ht)
  · cases h

/-- the full-strength statement "every schedule extends to a terminal state" FAILS for the code
    before the fix: a callback that registers on its own future blocks its goroutine for ever, and
    the registered callback never runs -/
theorem self_reentrancy_defective_fails :
    ¬ (∀ sched s', exec .defective (mkSys reentrantProg) sched = some s' →
        ∃ more s'', exec .defective s' more = some s'' ∧ terminal s'' = true) := by
  intro hall
  obtain ⟨s, hs, hnt, hstuck⟩ := stuck_is_deadlock .defective reentrantProg [0, 0, 0] (by decide)
  obtain ⟨more, s'', he, ht⟩ := hall _ _ hs
  cases more with
  | nil => simp [exec] at he; subst he; rw [hnt] at ht; cases ht
  | cons t ts => simp [exec, hstuck t] at he

/-- same with no self re-entrancy at all: two goroutines, two futures, callbacks registering on the
    *other* future (lock-order inversion between `f0.mu` and `f1.mu`) -/
theorem cross_future_defective_fails :
    ¬ (∀ sched s', exec .defective (mkSys crossProg) sched = some s' →
        ∃ more s'', exec .defective s' more = some s'' ∧ terminal s'' = true) := by
  intro hall
  obtain ⟨s, hs, hnt, hstuck⟩ := stuck_is_deadlock .defective crossProg [0, 0, 0, 1, 0, 1] (by decide)
  obtain ⟨more, s'', he, ht⟩ := hall _ _ hs
  cases more with
  | nil => simp [exec] at he; subst he; rw [hnt] at ht; cases ht
  | cons t ts => simp [exec, hstuck t] at he

/-- What does hold for the defective code: safety (conservation, values, chain order — the theorems
    above are for every `Mode`); only termination fails.  On the repaired code the same two programs
    cannot block (`repaired_never_blocks`) and e.g. these schedules end with every callback invoked
    exactly once (every other schedule too, by `all_callbacks_ran_exactly_once`). -/
def endsWellAfter (prog : List (List Call)) (sched : List Nat) (expect : List (Tag × FId)) : Bool :=
  match exec .repaired (mkSys prog) sched with
  | some s => terminal s && s.waiting.isEmpty && expect.all (fun e => logCnt e.1 e.2 s == 1)
  | none => false

example : endsWellAfter reentrantProg [0, 0, 0, 0, 0] [(1, 0)] = true := by decide
example : endsWellAfter crossProg [0, 0, 0, 1, 0, 1, 0, 1, 0, 1] [(1, 1), (2, 0)] = true := by decide
example : endsWellAfter crossProg [0, 0, 1, 1, 1, 0, 0, 0, 0, 0] [(1, 1), (2, 0)] = true := by decide

/-! ### tie to the source: lock regions regenerated from future.go by tools/gofacts -/

/-- `ThenAccept` invokes the callback after releasing the mutex -/
theorem thenAccept_callback_outside_lock : heldAtCall Gate.Gen.C42.thenAcceptCalls "callback" = false := by decide
/-- `Complete` invokes the registered callbacks after releasing the mutex -/
theorem complete_callbacks_outside_lock : heldAtCall Gate.Gen.C42.completeCalls "fn" = false := by decide
/-- registration (`append`) happens inside the one critical section of `ThenAccept` -/
theorem thenAccept_single_critical_section :
    countOf Gate.Gen.C42.thenAcceptCalls "f.mu.Lock" = 1 ∧ heldAtCall Gate.Gen.C42.thenAcceptCalls "append" = true
    ∧ countOf Gate.Gen.C42.thenAcceptCalls "defer:f.mu.Unlock" = 0
    ∧ countOf Gate.Gen.C42.thenAcceptCalls "callback" = 1 := by decide
theorem complete_single_critical_section :
    countOf Gate.Gen.C42.completeCalls "f.mu.Lock" = 1 ∧ countOf Gate.Gen.C42.completeCalls "defer:f.mu.Unlock" = 0
    ∧ countOf Gate.Gen.C42.completeCalls "fn" = 1 := by decide
/-- check-and-append is ONE critical section of an EXCLUSIVE lock: `ThenAccept` starts by taking `f.mu.Lock`,
    never uses a read lock / TryLock, takes the lock once, appends inside it and invokes the callback only after
    the last `Unlock`; `Complete` likewise drains inside its single exclusive section -/
theorem thenAccept_check_and_append_one_exclusive_section :
    Gate.Gen.C42.thenAcceptCalls = ["f.mu.Lock", "append", "f.mu.Unlock", "return", "f.mu.Unlock", "callback", "return"] ∧
    Gate.Gen.C42.completeCalls = ["f.mu.Lock", "f.mu.Unlock", "return", "f.mu.Unlock", "fn", "return"] ∧
    countOf Gate.Gen.C42.thenAcceptCalls "f.mu.RLock" = 0 ∧ countOf Gate.Gen.C42.thenAcceptCalls "f.mu.RUnlock" = 0 ∧
    countOf Gate.Gen.C42.thenAcceptCalls "f.mu.TryLock" = 0 ∧ countOf Gate.Gen.C42.completeCalls "f.mu.RLock" = 0 ∧
    Gate.Gen.C42.thenAcceptCalls.head? = some "f.mu.Lock" ∧ Gate.Gen.C42.completeCalls.head? = some "f.mu.Lock" := by
  decide

/-- `ThenCompose` is exactly `out := New(); f.ThenAccept(func(v){ callback(v).ThenAccept(func(u){ out.Complete(u) }) })` -/
theorem thenCompose_shape : Gate.Gen.C42.thenComposeCalls =
    ["New[]", "func:{", "callback", "func:{", "out.Complete", "}", "callback().ThenAccept", "}", "f.ThenAccept", "return"] := by
  decide

end Gate.C42.Props
