import GateModel.Base.Line
import GateModel.C42.Model
/-
C42 driver.  Case lines (see harness/c42/main.go):

  seq   <nf> <call>…                      one thread; model output = exact invocation log + final values
  par   <nf> <call>… | <call>… | …        prologue thread, then concurrent threads; model output = the
  cross <nf> …                             schedule-independent summary (same as par)

The model always runs `Mode.repaired`.  For `par` it runs ONE schedule (prologue, then round robin):
by the theorems of Props the summary (which callbacks ran, how often, with whose value, which
futures are completed) does not depend on the schedule.

Verdict = the property evaluated on the IMPLEMENTATION's output:
  viol:deadlock          the program did not finish (`hang`)
  viol:callback-twice    a callback was invoked more often than it occurs in the program
  viol:callback-lost     a callback of a completed future was not invoked
  viol:value-mismatch    a callback received a value different from its future's final value
  viol:first-completion  a future's final value is not the first completion's
  viol:callback-lost / callback-twice / chain-stuck   (race) registrations racing ONE completion on fresh futures:
                         a callback ran 0 / more than 1 times, or a composed future downstream never completed
  viol:chain-order       (seq) a composed future is completed although its source / inner future is not
-/
namespace Gate.C42
open Gate

def parseCb : Nat → List String → Option (Cb × List String)
  | 0, _ => none
  | _ + 1, "N" :: r => some (.nop, r)
  | _ + 1, "L" :: a :: r => do pure (.log (← a.toNat?), r)
  | _ + 1, "C" :: a :: r => do pure (.complete (← a.toNat?), r)
  | n + 1, "A" :: a :: r => do
      let g ← a.toNat?
      let (cb, r') ← parseCb n r
      pure (.accept g cb, r')
  | n + 1, "S" :: r => do
      let (a, r1) ← parseCb n r
      let (b, r2) ← parseCb n r1
      pure (.seq a b, r2)
  | _, _ => none

/-- calls of one segment; also returns the compose links (f, g, out) -/
def parseCalls : Nat → List String → Option (List Call × List (FId × FId × FId))
  | 0, _ => none
  | _, [] => some ([], [])
  | n + 1, "T" :: f :: r => do
      let f ← f.toNat?
      let (cb, r') ← parseCb 64 r
      let (cs, ls) ← parseCalls n r'
      pure (.thenAccept f cb :: cs, ls)
  | n + 1, "K" :: f :: v :: r => do
      let (cs, ls) ← parseCalls n r
      pure (.complete (← f.toNat?) (← v.toNat?) :: cs, ls)
  | n + 1, "P" :: f :: g :: o :: r => do
      let f ← f.toNat?
      let g ← g.toNat?
      let o ← o.toNat?
      let (cb, r') ← parseCb 64 r
      let (cs, ls) ← parseCalls n r'
      pure (compose f g o cb :: cs, (f, g, o) :: ls)
  | _, _ => none

def splitBar (toks : List String) : List (List String) :=
  toks.foldr (fun t acc => if t = "|" then [] :: acc else match acc with
    | [] => [[t]]
    | a :: rest => (t :: a) :: rest) [[]]

def parseProg (toks : List String) : Option (List (List Call) × List (FId × FId × FId)) := do
  let segs ← (splitBar toks).mapM (fun seg => parseCalls (seg.length + 1) seg)
  pure (segs.map (·.1), (segs.map (·.2)).flatten)

def showVals (s : Sys) (nf : Nat) : String :=
  ",".intercalate ((List.range nf).map fun f => match s.value f with | some v => toString v | none => "-")

def showLog (l : List (Tag × FId × Val)) : String :=
  if l.isEmpty then "-" else ",".intercalate (l.map fun e => s!"{e.1}:{e.2.1}:{e.2.2}")

def insertSorted (x : Nat × Nat) : List (Nat × Nat) → List (Nat × Nat)
  | [] => [x]
  | y :: r => if x.1 < y.1 then x :: y :: r else if x.1 = y.1 then (y.1, y.2 + x.2) :: r else y :: insertSorted x r

/-- tag → invocation count, sorted by tag -/
def tagCounts (l : List (Tag × FId × Val)) : List (Nat × Nat) :=
  l.foldl (fun acc e => insertSorted (e.1, 1) acc) []

def showCounts (c : List (Nat × Nat)) : String :=
  if c.isEmpty then "-" else ",".intercalate (c.map fun p => s!"{p.1}:{p.2}")

def literals (prog : List (List Call)) : List Val :=
  prog.flatten.filterMap fun c => match c with | .complete _ v => some v | _ => none

def tagOccCb (τ : Tag) : Cb → Nat
  | .nop => 0 | .log t => if t = τ then 1 else 0 | .complete _ => 0
  | .accept _ cb => tagOccCb τ cb | .seq a b => tagOccCb τ a + tagOccCb τ b
def tagOcc (τ : Tag) (prog : List (List Call)) : Nat :=
  (prog.flatten.map fun c => match c with | .thenAccept _ cb => tagOccCb τ cb | _ => 0).sum

def summary (s : Sys) (nf : Nat) (prog : List (List Call)) : String :=
  let done := String.join ((List.range nf).map fun f => if (s.value f).isSome then "1" else "0")
  let agree := s.log.all fun e => s.value e.2.1 == some e.2.2
  let lits := literals prog
  let adm := (List.range nf).all fun f => match s.value f with | some v => lits.contains v | none => true
  s!"tags={showCounts (tagCounts s.log)} done={done} agree={if agree then 1 else 0} adm={if adm then 1 else 0}"

def parseTriple (s : String) : Option (Nat × Nat × Nat) :=
  match s.splitOn ":" with
  | [a, b, c] => do pure (← a.toNat?, ← b.toNat?, ← c.toNat?)
  | _ => none
def parsePair (s : String) : Option (Nat × Nat) :=
  match s.splitOn ":" with
  | [a, b] => do pure (← a.toNat?, ← b.toNat?)
  | _ => none

def field (impl key : String) : Option String :=
  (impl.splitOn " ").findSome? fun kv => match kv.splitOn "=" with
    | [k, v] => if k = key then some v else none
    | _ => none

def listOf {α} (p : String → Option α) (s : String) : Option (List α) :=
  if s = "-" then some [] else (s.splitOn ",").mapM p

/-- verdict for a sequential case, judged on the implementation's log and final values -/
def verdictSeq (impl : String) (s : Sys) (nf : Nat) (prog : List (List Call))
    (links : List (FId × FId × FId)) : String :=
  if impl = "hang" then "viol:deadlock" else if impl = "panic" then "viol:panic" else
  match field impl "log" >>= listOf parseTriple, field impl "vals" with
  | some lg, some vs =>
    let vals : List (Option Nat) := (vs.splitOn ",").map String.toNat?
    let valOf := fun (f : Nat) => (vals[f]?).join
    if lg.any (fun e => valOf e.2.1 != some e.2.2) then "viol:value-mismatch"
    else if (tagCounts lg).any (fun p => p.2 > tagOcc p.1 prog) then "viol:callback-twice"
    else if (List.range nf).any (fun f => valOf f != s.value f) then "viol:first-completion"
    else if links.any (fun l =>
        -- judged only where the theorems' hypotheses hold: every `complete out` of the program is the link's own
        prog.flatten.all (fun c => protCall [l.1, l.2.1] l.2.2 c && srcCall l.2.2 l.2.1 c) &&
        (valOf l.2.2).isSome && !((valOf l.1).isSome && valOf l.2.1 == valOf l.2.2))
      then "viol:chain-order"
    else if (tagCounts s.log).any (fun p => ((tagCounts lg).lookup p.1).getD 0 < p.2) then "viol:callback-lost"
    else if tagCounts lg != tagCounts s.log then "viol:callback-count"
    else "ok"
  | _, _ => "viol:unparsable"

/-- chain programs (op `chain`): for every link `P f g out (L a)` and every `T out (L b)`: `b` logged ⇒ `a`
    logged earlier (the source completed before the composed future did) -/
def orderOK (prog : List (List Call)) (links : List (FId × FId × FId)) (tags : List Tag) : Bool :=
  let calls := prog.flatten
  links.all fun l =>
    let as := calls.filterMap fun c => match c with
      | .thenAccept f (.seq (.log a) (.accept g (.complete o))) => if (f, g, o) = l then some a else none
      | _ => none
    let bs := calls.filterMap fun c => match c with
      | .thenAccept f (.log b) => if f = l.2.2 then some b else none
      | _ => none
    as.all fun a => bs.all fun b => match tags.idxOf? b, tags.idxOf? a with
      | some ib, some ia => ia < ib
      | some _, none => false
      | none, _ => true

def verdictPar (impl : String) (s : Sys) (nf : Nat) (prog : List (List Call)) : String :=
  if impl = "hang" then "viol:deadlock" else if impl = "panic" then "viol:panic" else
  match field impl "tags" >>= listOf parsePair, field impl "done", field impl "agree", field impl "adm" with
  | some tc, some done, some agree, some adm =>
    let mdone := String.join ((List.range nf).map fun f => if (s.value f).isSome then "1" else "0")
    if agree != "1" then "viol:value-mismatch"
    else if tc.any (fun p => p.2 > tagOcc p.1 prog) then "viol:callback-twice"
    else if adm != "1" then "viol:first-completion"
    else if (tagCounts s.log).any (fun p => (tc.lookup p.1).getD 0 < p.2) then "viol:callback-lost"
    else if tc != tagCounts s.log then "viol:callback-count"
    else if done != mdone then "viol:completion-lost"
    else if field impl "order" == some "0" then "viol:chain-order"
    else "ok"
  | _, _, _, _ => "viol:unparsable"

/-- `race G N compose`: G registrars (every second one through ThenCompose when `compose`) and one completer on a
    fresh future, N times.  The model runs one instance under one schedule; by the theorems every schedule gives
    every callback exactly once and every composed future completed, so the expected counts are 0. -/
def raceCase (g n : Nat) (comp : Bool) (impl : String) : String × String :=
  let regs : List (List Call) := (List.range g).map fun i =>
    if comp && i % 2 == 0 then [compose 0 1 (2 + i) (.log i)] else [.thenAccept 0 (.log i)]
  let prog := [[Call.complete 1 1]] ++ regs ++ [[Call.complete 0 7]]
  let s0 := mkSys prog
  let fuel := weight s0 + 1
  let s := roundRobin .repaired fuel (runThread .repaired fuel s0 0)
  let cnt := fun (i : Nat) => (s.log.filter (·.1 == i)).length
  let ran0 := ((List.range g).filter (fun i => cnt i == 0)).length * n
  let ran2 := ((List.range g).filter (fun i => cnt i > 1)).length * n
  let stuck := ((List.range g).filter (fun i => comp && i % 2 == 0 && (s.value (2 + i)).isNone)).length * n
  let out := s!"ran0={ran0} ran2={ran2} stuck={stuck}"
  let verdict :=
    if impl = "hang" then "viol:deadlock" else if impl = "panic" then "viol:panic"
    else if field impl "ran0" != some "0" then "viol:callback-lost"
    else if field impl "ran2" != some "0" then "viol:callback-twice"
    else if field impl "stuck" != some "0" then "viol:chain-stuck"
    else "ok"
  (out, verdict)

def stepCase (c : Case) : String × String :=
  if c.op = "race" then
    match c.args.map String.toNat? with
    | [some g, some n, some k] => raceCase g n (k == 1) c.impl
    | _ => ("bad-case", "-")
  else
  match c.args with
  | nfS :: toks =>
    match nfS.toNat?, parseProg toks with
    | some nf, some (prog, links) =>
      let s0 := mkSys prog
      let fuel := weight s0 + 1
      if c.op = "seq" then
        let s := runThread .repaired fuel s0 0
        (s!"log={showLog s.log} vals={showVals s nf}", verdictSeq c.impl s nf prog links)
      else if c.op = "par" || c.op = "cross" then
        let s := roundRobin .repaired fuel (runThread .repaired fuel s0 0)
        (summary s nf prog, verdictPar c.impl s nf prog)
      else if c.op = "chain" then
        let s := roundRobin .repaired fuel (runThread .repaired fuel s0 0)
        let ord := orderOK prog links (s.log.map (·.1))
        (summary s nf prog ++ s!" order={if ord then 1 else 0}", verdictPar c.impl s nf prog)
      else ("bad-op", "-")
    | _, _ => ("bad-case", "-")
  | _ => ("bad-case", "-")

end Gate.C42

def main : IO Unit := Gate.runPureDriver Gate.C42.stepCase
