import GateModel.C41.Model
/-
C41 — reference: a two-phase protobuf reader.

Phase 1 (`parseFields`) tokenises the WHOLE byte string into records (number, wire type, payload)
and fails if any record is malformed.  Phase 2 reads the principal fields declaratively from the
record list: last value wins for scalars, envelope occurrences are collected, and the reject
conditions of the property are predicates on the record list.  Nothing here mirrors the control
flow of `ExtractSessionPrincipalWire` (one fused pass with early exits); that the two agree is the
content of `Props.lean`.

The wire primitives (`consumeVarint`, `consumeTag`, `consumeBytes`, `consumeFieldValue`) are shared
with the model: they transcribe protowire, which both sides of the real system use as well.
-/
namespace Gate.C41
open Gate

/-- one record of the wire format: `v` is the payload of a varint record, `b` of a
    length-delimited one (for the other wire types the payload is not needed) -/
structure Field where
  num : Nat
  typ : Nat
  v   : Nat := 0
  b   : Bytes := []
  deriving DecidableEq, Repr, Inhabited

/-- read one record value of wire type `typ` -/
def consumeValue (num typ : Nat) (bs : Bytes) : Except PErr (Field × Bytes) :=
  if typ = 0 then
    match consumeVarint bs with
    | .error e => .error e
    | .ok (v, r) => .ok ({ num, typ, v }, r)
  else if typ = 2 then
    match consumeBytes bs with
    | .error e => .error e
    | .ok (b, r) => .ok ({ num, typ, b }, r)
  else
    match consumeFieldValue num typ bs with
    | .error e => .error e
    | .ok r => .ok ({ num, typ }, r)

/-- phase 1: the whole message as a record list, or the first encoding error -/
def parseFields : Nat → Bytes → Except PErr (List Field)
  | _, [] => .ok []
  | 0, _ :: _ => .error .fuel
  | fuel + 1, b :: bs =>
    match consumeTag (b :: bs) with
    | .error e => .error e
    | .ok ((num, typ), r) =>
      match consumeValue num typ r with
      | .error e => .error e
      | .ok (f, r') =>
        match parseFields fuel r' with
        | .error e => .error e
        | .ok fs => .ok (f :: fs)

def parse (bs : Bytes) : Except PErr (List Field) := parseFields (bs.length + 1) bs

/-! ### phase 2: declarative reading of a record list -/

/-- last varint record numbered `n` (last value wins) -/
def lastVarint (n : Nat) : List Field → Option Nat
  | [] => none
  | f :: fs =>
    match lastVarint n fs with
    | some v => some v
    | none => if f.num = n ∧ f.typ = 0 then some f.v else none

/-- last length-delimited record numbered `n` -/
def lastBytes (n : Nat) : List Field → Option Bytes
  | [] => none
  | f :: fs =>
    match lastBytes n fs with
    | some v => some v
    | none => if f.num = n ∧ f.typ = 2 then some f.b else none

def isEnvelopeRec (f : Field) : Bool := decide (f.num = fEnvelope) && decide (f.typ = 2)

/-- all envelope occurrences, in order -/
def envelopes (fs : List Field) : List Bytes := (fs.filter isEnvelopeRec).map (·.b)

/-- the wire type the frozen contract prescribes for a principal field -/
def expectedTyp (num : Nat) : Nat := if wantBytes num then 2 else 0

/-- some field 6..12 has another wire type than the contract's -/
def wrongType (fs : List Field) : Bool := fs.any fun f => isPrincipal f.num && f.typ != expectedTyp f.num
/-- a second envelope -/
def dupEnvelope (fs : List Field) : Bool := decide ((envelopes fs).length ≥ 2)
/-- an empty or oversized envelope -/
def badEnvelopeSize (fs : List Field) : Bool :=
  (envelopes fs).any fun e => e.length = 0 || decide (e.length > maxEnvelopeBytes)
/-- an envelope without a 16-byte nonce -/
def badNonce (fs : List Field) : Bool :=
  !(envelopes fs).isEmpty && ((lastBytes fNonce fs).getD []).length != nonceLen
/-- the proposal carries some principal field -/
def hasPrincipal (fs : List Field) : Bool := fs.any fun f => isPrincipal f.num

/-- any of the property's reject conditions on a well-formed record list -/
def rejectCond (fs : List Field) : Bool :=
  wrongType fs || dupEnvelope fs || badEnvelopeSize fs || badNonce fs

/-- what the reference reads.  The nonce is a binding input of the envelope verifier and is bound
    only alongside an envelope (a `[16]byte` left zero otherwise). -/
def refWire (fs : List Field) : Wire where
  protocol := toInt32 ((lastVarint fProtocol fs).getD 0)
  endpoint := (lastBytes fEndpoint fs).getD []
  org      := (lastBytes fOrg fs).getD []
  nonce    := if (envelopes fs).isEmpty then List.replicate nonceLen 0 else (lastBytes fNonce fs).getD []
  spv      := toInt32 ((lastVarint fSpv fs).getD 0)
  policy   := toInt64 ((lastVarint fPolicy fs).getD 0)
  envelope := (lastBytes fEnvelope fs).getD []

/-- expected outcome of the extractor according to the reference -/
inductive Expected where
  | reject                 -- must be an error
  | none                   -- no principal field at all: nil, nil
  | wire (w : Wire)
  deriving DecidableEq, Repr

def expected (bs : Bytes) : Expected :=
  match parse bs with
  | .error _ => .reject
  | .ok fs =>
    if rejectCond fs then .reject
    else if hasPrincipal fs then .wire (refWire fs) else .none

end Gate.C41
