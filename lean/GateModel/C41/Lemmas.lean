import GateModel.C41.Spec
/-
C41 — helper lemmas: input-consumption bounds (fuel is never exhausted), fusion of the one-pass
scan with the two-phase reference, characterisation of the phase-2 interpreter.
-/
namespace Gate.C41
open Gate

/-! ## consumption bounds -/

theorem varintLoop_len : ∀ (bs : Bytes) (i acc v : Nat) (r : Bytes),
    varintLoop i acc bs = .ok (v, r) → r.length < bs.length := by
  intro bs
  induction bs with
  | nil => intro i acc v r h; simp [varintLoop] at h
  | cons b t ih =>
    intro i acc v r h
    unfold varintLoop at h
    by_cases h9 : i ≥ 9
    · rw [if_pos h9] at h
      by_cases h2 : b.toNat < 2
      · rw [if_pos h2] at h; cases h; simp
      · rw [if_neg h2] at h; cases h
    · rw [if_neg h9] at h
      by_cases h1 : b.toNat < 128
      · rw [if_pos h1] at h; cases h; simp
      · rw [if_neg h1] at h
        have := ih _ _ _ _ h
        simp; omega

theorem varintLoop_nofuel : ∀ (bs : Bytes) (i acc : Nat), varintLoop i acc bs ≠ .error .fuel := by
  intro bs
  induction bs with
  | nil => intro i acc; simp [varintLoop]
  | cons b t ih =>
    intro i acc
    unfold varintLoop
    by_cases h9 : i ≥ 9
    · rw [if_pos h9]; by_cases h2 : b.toNat < 2
      · rw [if_pos h2]; simp
      · rw [if_neg h2]; simp
    · rw [if_neg h9]; by_cases h1 : b.toNat < 128
      · rw [if_pos h1]; simp
      · rw [if_neg h1]; exact ih _ _

theorem consumeVarint_len {bs : Bytes} {v : Nat} {r : Bytes} (h : consumeVarint bs = .ok (v, r)) :
    r.length < bs.length := varintLoop_len bs 0 0 v r h

theorem consumeVarint_nofuel (bs : Bytes) : consumeVarint bs ≠ .error .fuel := varintLoop_nofuel bs 0 0

theorem consumeTag_len {bs : Bytes} {nt : Nat × Nat} {r : Bytes} (h : consumeTag bs = .ok (nt, r)) :
    r.length < bs.length := by
  unfold consumeTag at h
  split at h
  · cases h
  · rename_i v r' hv
    split at h
    · cases h
    · split at h
      · cases h
      · cases h; exact consumeVarint_len hv

theorem consumeTag_nofuel (bs : Bytes) : consumeTag bs ≠ .error .fuel := by
  unfold consumeTag
  split
  · rename_i e he; intro h; cases h; exact consumeVarint_nofuel bs he
  · split
    · simp
    · split <;> simp

theorem consumeBytes_len {bs v r : Bytes} (h : consumeBytes bs = .ok (v, r)) : r.length < bs.length := by
  unfold consumeBytes at h
  split at h
  · cases h
  · rename_i m r' hv
    split at h
    · cases h
    · cases h
      have := consumeVarint_len hv
      simp; omega

theorem consumeBytes_nofuel (bs : Bytes) : consumeBytes bs ≠ .error .fuel := by
  unfold consumeBytes
  split
  · rename_i e he; intro h; cases h; exact consumeVarint_nofuel bs he
  · split <;> simp

theorem consumeScalar_len {typ : Nat} {bs r : Bytes} (h : consumeScalar typ bs = .ok r) :
    r.length ≤ bs.length := by
  unfold consumeScalar consumeFixed at h
  repeat' split at h
  all_goals try cases h
  all_goals try (simp; done)
  · rename_i hv; exact Nat.le_of_lt (consumeVarint_len hv)
  · rename_i hv; exact Nat.le_of_lt (consumeBytes_len hv)

theorem consumeScalar_nofuel (typ : Nat) (bs : Bytes) : consumeScalar typ bs ≠ .error .fuel := by
  unfold consumeScalar consumeFixed
  repeat' split
  all_goals try (simp; done)
  · rename_i e he; intro h; cases h; exact consumeVarint_nofuel bs he
  · rename_i e he; intro h; cases h; exact consumeBytes_nofuel bs he

theorem skipGroup_len : ∀ (fuel : Nat) (st : List Nat) (bs r : Bytes),
    skipGroup fuel st bs = .ok r → r.length ≤ bs.length := by
  intro fuel
  induction fuel with
  | zero =>
    intro st bs r h
    cases st with
    | nil => simp [skipGroup] at h; subst h; exact Nat.le_refl _
    | cons t st => simp [skipGroup] at h
  | succ n ih =>
    intro st bs r h
    cases st with
    | nil => simp [skipGroup] at h; subst h; exact Nat.le_refl _
    | cons t st =>
      unfold skipGroup at h
      split at h
      · cases h
      · rename_i num typ r1 ht
        have h1 := consumeTag_len ht
        split at h
        · split at h
          · have := ih _ _ _ h; omega
          · cases h
        · split at h
          · split at h
            · cases h
            · have := ih _ _ _ h; omega
          · split at h
            · cases h
            · rename_i r2 hs
              have := consumeScalar_len hs
              have := ih _ _ _ h; omega

theorem skipGroup_nofuel : ∀ (fuel : Nat) (st : List Nat) (bs : Bytes),
    bs.length < fuel → skipGroup fuel st bs ≠ .error .fuel := by
  intro fuel
  induction fuel with
  | zero => intro st bs h; omega
  | succ n ih =>
    intro st bs hl
    cases st with
    | nil => simp [skipGroup]
    | cons t st =>
      unfold skipGroup
      split
      · rename_i e he; intro h; cases h; exact consumeTag_nofuel bs he
      · rename_i num typ r1 ht
        have h1 := consumeTag_len ht
        split
        · split
          · exact ih _ _ (by omega)
          · simp
        · split
          · split
            · simp
            · exact ih _ _ (by omega)
          · split
            · rename_i e he; intro h; cases h; exact consumeScalar_nofuel _ _ he
            · rename_i r2 hs
              have := consumeScalar_len hs
              exact ih _ _ (by omega)

theorem consumeFieldValue_len {num typ : Nat} {bs r : Bytes} (h : consumeFieldValue num typ bs = .ok r) :
    r.length ≤ bs.length := by
  unfold consumeFieldValue at h
  split at h
  · exact skipGroup_len _ _ _ _ h
  · exact consumeScalar_len h

theorem consumeFieldValue_nofuel (num typ : Nat) (bs : Bytes) : consumeFieldValue num typ bs ≠ .error .fuel := by
  unfold consumeFieldValue
  split
  · exact skipGroup_nofuel _ _ _ (Nat.lt_succ_self _)
  · exact consumeScalar_nofuel _ _

theorem consumeValue_len {num typ : Nat} {bs r : Bytes} {f : Field} (h : consumeValue num typ bs = .ok (f, r)) :
    r.length ≤ bs.length := by
  unfold consumeValue at h
  split at h
  · split at h
    · cases h
    · rename_i hv; cases h; exact Nat.le_of_lt (consumeVarint_len hv)
  · split at h
    · split at h
      · cases h
      · rename_i hv; cases h; exact Nat.le_of_lt (consumeBytes_len hv)
    · split at h
      · cases h
      · rename_i hv; cases h; exact consumeFieldValue_len hv

theorem consumeValue_nofuel (num typ : Nat) (bs : Bytes) : consumeValue num typ bs ≠ .error .fuel := by
  unfold consumeValue
  split
  · split
    · rename_i e he; intro h; cases h; exact consumeVarint_nofuel bs he
    · simp
  · split
    · split
      · rename_i e he; intro h; cases h; exact consumeBytes_nofuel bs he
      · simp
    · split
      · rename_i e he; intro h; cases h; exact consumeFieldValue_nofuel _ _ bs he
      · simp

theorem consumeValue_field {num typ : Nat} {bs r : Bytes} {f : Field} (h : consumeValue num typ bs = .ok (f, r)) :
    f.num = num ∧ f.typ = typ := by
  unfold consumeValue at h
  repeat' split at h
  all_goals cases h
  all_goals exact ⟨rfl, rfl⟩

/-- the reference tokeniser never runs out of fuel -/
theorem parseFields_nofuel : ∀ (fuel : Nat) (bs : Bytes), bs.length < fuel → parseFields fuel bs ≠ .error .fuel := by
  intro fuel
  induction fuel with
  | zero => intro bs h; omega
  | succ n ih =>
    intro bs hl
    cases bs with
    | nil => simp [parseFields]
    | cons b t =>
      unfold parseFields
      split
      · rename_i e he; intro h; cases h; exact consumeTag_nofuel _ he
      · rename_i num typ r ht
        have h1 := consumeTag_len ht
        split
        · rename_i e he; intro h; cases h; exact consumeValue_nofuel _ _ _ he
        · rename_i f r' hv
          have h2 := consumeValue_len hv
          have := ih r' (by simp at h1 hl; omega)
          split
          · rename_i e he; intro h; cases h; exact this he
          · simp

/-! ## fusion: the one-pass scan = phase-2 interpreter over the phase-1 record list -/

/-- what one record does to the extractor's variables -/
def stepField (a : Acc) (f : Field) : Except XErr Acc :=
  if !isPrincipal f.num then .ok a
  else if f.typ != expectedTyp f.num then .error .wireType
  else if wantBytes f.num then setBytes a f.num f.b
  else .ok (setVarint a f.num f.v)

def interp : Acc → List Field → Except XErr Acc
  | a, [] => .ok a
  | a, f :: fs => match stepField a f with
    | .error e => .error e
    | .ok a' => interp a' fs

theorem consumeValue_rest {num typ : Nat} {bs r : Bytes} {f : Field} (h : consumeValue num typ bs = .ok (f, r)) :
    consumeFieldValue num typ bs = .ok r := by
  unfold consumeValue at h
  split at h
  · rename_i h0
    split at h
    · cases h
    · rename_i hv; cases h
      simp [consumeFieldValue, consumeScalar, h0, hv]
  · rename_i h0
    split at h
    · rename_i h2
      split at h
      · cases h
      · rename_i hv; cases h
        simp [consumeFieldValue, consumeScalar, h2, hv]
    · split at h
      · cases h
      · rename_i hv; cases h; exact hv

theorem consumeValue_err {num typ : Nat} {bs : Bytes} {e : PErr} (h : consumeValue num typ bs = .error e) :
    consumeFieldValue num typ bs = .error e := by
  unfold consumeValue at h
  split at h
  · rename_i h0
    split at h
    · rename_i hv; cases h
      simp [consumeFieldValue, consumeScalar, h0, hv]
    · cases h
  · rename_i h0
    split at h
    · rename_i h2
      split at h
      · rename_i hv; cases h
        simp [consumeFieldValue, consumeScalar, h2, hv]
      · cases h
    · split at h
      · rename_i hv; cases h; exact hv
      · cases h

theorem stepRaw_of_value (a : Acc) {num typ : Nat} {r r' : Bytes} {f : Field}
    (h : consumeValue num typ r = .ok (f, r')) :
    stepRaw a num typ r = match stepField a f with | .error e => .error e | .ok a' => .ok (a', r') := by
  have hf := consumeValue_field h
  have hr := consumeValue_rest h
  obtain ⟨hn, ht⟩ := hf
  unfold stepRaw stepField
  simp only [hn, ht, expectedTyp]
  cases hp : isPrincipal num <;> cases hw : wantBytes num <;> simp [hr]
  · by_cases h0 : typ = 0
    · subst h0
      simp [consumeValue] at h
      split at h
      · cases h
      · rename_i hv; cases h; simp [hv]
    · simp [h0]
  · by_cases h2 : typ = 2
    · subst h2
      simp [consumeValue] at h
      split at h
      · cases h
      · rename_i hv; cases h; simp [hv]
        cases setBytes a num _ <;> rfl
    · simp [h2]

theorem stepRaw_of_value_err (a : Acc) {num typ : Nat} {r : Bytes} {e : PErr}
    (h : consumeValue num typ r = .error e) : ∃ x, stepRaw a num typ r = .error x := by
  have hr := consumeValue_err h
  unfold stepRaw
  cases hp : isPrincipal num <;> cases hw : wantBytes num <;> simp [hr]
  · by_cases h0 : typ = 0
    · subst h0
      simp [consumeValue] at h
      split at h
      · rename_i hv; simp [hv]
      · cases h
    · simp [h0]
  · by_cases h2 : typ = 2
    · subst h2
      simp [consumeValue] at h
      split at h
      · rename_i hv; simp [hv]
      · cases h
    · simp [h2]

theorem scan_fusion : ∀ (fuel : Nat) (a : Acc) (bs : Bytes), bs.length < fuel →
    (∀ fs, parseFields fuel bs = .ok fs → scan fuel a bs = interp a fs) ∧
    (∀ e, parseFields fuel bs = .error e → ∃ x, scan fuel a bs = .error x) := by
  intro fuel
  induction fuel with
  | zero => intro a bs h; omega
  | succ n ih =>
    intro a bs hl
    cases bs with
    | nil =>
      constructor
      · intro fs h; simp [parseFields] at h; subst h; simp [scan, interp]
      · intro e h; simp [parseFields] at h
    | cons b t =>
      unfold parseFields scan
      cases ht : consumeTag (b :: t) with
      | error e => simp
      | ok p =>
        obtain ⟨⟨num, typ⟩, r⟩ := p
        have h1 := consumeTag_len ht
        simp only
        cases hv : consumeValue num typ r with
        | error e =>
          obtain ⟨x, hx⟩ := stepRaw_of_value_err a hv
          simp [hx]
        | ok q =>
          obtain ⟨f, r'⟩ := q
          have h2 := consumeValue_len hv
          have hs := stepRaw_of_value a hv
          simp only
          rw [hs]
          cases hsf : stepField a f with
          | error e =>
            simp
            intro fs
            cases hp : parseFields n r' with
            | error e' => simp
            | ok fs' => simp; intro h; subst h; simp [interp, hsf]
          | ok a' =>
            simp only
            have := ih a' r' (by simp at h1 hl; omega)
            obtain ⟨i1, i2⟩ := this
            constructor
            · intro fs h
              cases hp : parseFields n r' with
              | error e => rw [hp] at h; cases h
              | ok fs' =>
                rw [hp] at h; cases h
                simp [interp, hsf]; exact i1 _ hp
            · intro e h
              cases hp : parseFields n r' with
              | error e' => exact i2 _ hp
              | ok fs' => rw [hp] at h; cases h

/-! ## phase 2: the interpreter computes the declarative reading -/

theorem fnums : fProtocol = 6 ∧ fEndpoint = 7 ∧ fOrg = 8 ∧ fNonce = 9 ∧ fSpv = 10 ∧ fPolicy = 11 ∧ fEnvelope = 12 := by
  decide

theorem lastVarint_miss {n : Nat} {f : Field} (fs : List Field) (h : ¬ (f.num = n ∧ f.typ = 0)) :
    lastVarint n (f :: fs) = lastVarint n fs := by
  simp only [lastVarint, if_neg h]; cases lastVarint n fs <;> rfl
theorem lastVarint_hit {n : Nat} {f : Field} (fs : List Field) (h1 : f.num = n) (h2 : f.typ = 0) :
    lastVarint n (f :: fs) = some ((lastVarint n fs).getD f.v) := by
  simp only [lastVarint, if_pos (And.intro h1 h2)]; cases lastVarint n fs <;> rfl
theorem lastBytes_miss {n : Nat} {f : Field} (fs : List Field) (h : ¬ (f.num = n ∧ f.typ = 2)) :
    lastBytes n (f :: fs) = lastBytes n fs := by
  simp only [lastBytes, if_neg h]; cases lastBytes n fs <;> rfl
theorem lastBytes_hit {n : Nat} {f : Field} (fs : List Field) (h1 : f.num = n) (h2 : f.typ = 2) :
    lastBytes n (f :: fs) = some ((lastBytes n fs).getD f.b) := by
  simp only [lastBytes, if_pos (And.intro h1 h2)]; cases lastBytes n fs <;> rfl

theorem envelopes_miss {f : Field} (fs : List Field) (h : ¬ (f.num = fEnvelope ∧ f.typ = 2)) :
    envelopes (f :: fs) = envelopes fs := by
  have : isEnvelopeRec f = false := by
    simp only [isEnvelopeRec]; cases h1 : decide (f.num = fEnvelope) <;> cases h2 : decide (f.typ = 2) <;> simp_all
  simp [envelopes, List.filter, this]
theorem envelopes_hit {f : Field} (fs : List Field) (h1 : f.num = fEnvelope) (h2 : f.typ = 2) :
    envelopes (f :: fs) = f.b :: envelopes fs := by
  have : isEnvelopeRec f = true := by simp [isEnvelopeRec, h1, h2]
  simp [envelopes, List.filter, this]

/-- the nine things a record can do -/
inductive StepCase (a : Acc) (f : Field) : Prop where
  | other (h : isPrincipal f.num = false) (hs : stepField a f = .ok a)
  | wrong (h : isPrincipal f.num = true) (ht : (f.typ != expectedTyp f.num) = true) (hs : stepField a f = .error .wireType)
  | protocol (hn : f.num = 6) (ht : f.typ = 0) (hs : stepField a f = .ok { a with protocol := toInt32 f.v, found := true })
  | endpoint (hn : f.num = 7) (ht : f.typ = 2) (hs : stepField a f = .ok { a with endpoint := f.b, found := true })
  | org (hn : f.num = 8) (ht : f.typ = 2) (hs : stepField a f = .ok { a with org := f.b, found := true })
  | nonce (hn : f.num = 9) (ht : f.typ = 2) (hs : stepField a f = .ok { a with nonce := f.b, found := true })
  | spv (hn : f.num = 10) (ht : f.typ = 0) (hs : stepField a f = .ok { a with spv := toInt32 f.v, found := true })
  | policy (hn : f.num = 11) (ht : f.typ = 0) (hs : stepField a f = .ok { a with policy := toInt64 f.v, found := true })
  | envelope (hn : f.num = 12) (ht : f.typ = 2) (hs : stepField a f = setBytes a 12 f.b)

theorem stepCase (a : Acc) (f : Field) : StepCase a f := by
  obtain ⟨c6, c7, c8, c9, c10, c11, c12⟩ := fnums
  by_cases hp : isPrincipal f.num = true
  · by_cases ht : (f.typ != expectedTyp f.num) = true
    · exact .wrong hp ht (by simp [stepField, hp, ht])
    · have hte : f.typ = expectedTyp f.num := by simpa using ht
      have hr : 6 ≤ f.num ∧ f.num ≤ 12 := by simpa [isPrincipal, c6, c12] using hp
      by_cases h6 : f.num = 6
      · refine .protocol h6 (by simpa [expectedTyp, wantBytes, h6, c7, c8, c9, c12] using hte) ?_
        simp [stepField, (by decide : isPrincipal 6 = true), hte, wantBytes, setVarint, h6, c6, c7, c8, c9, c12]
      by_cases h7 : f.num = 7
      · refine .endpoint h7 (by simpa [expectedTyp, wantBytes, h7, c7, c8, c9, c12] using hte) ?_
        simp [stepField, (by decide : isPrincipal 7 = true), hte, wantBytes, setBytes, h7, c7, c8, c9, c12]
      by_cases h8 : f.num = 8
      · refine .org h8 (by simpa [expectedTyp, wantBytes, h8, c7, c8, c9, c12] using hte) ?_
        simp [stepField, (by decide : isPrincipal 8 = true), hte, wantBytes, setBytes, h8, c7, c8, c9, c12]
      by_cases h9 : f.num = 9
      · refine .nonce h9 (by simpa [expectedTyp, wantBytes, h9, c7, c8, c9, c12] using hte) ?_
        simp [stepField, (by decide : isPrincipal 9 = true), hte, wantBytes, setBytes, h9, c7, c8, c9, c12]
      by_cases h10 : f.num = 10
      · refine .spv h10 (by simpa [expectedTyp, wantBytes, h10, c7, c8, c9, c12] using hte) ?_
        simp [stepField, (by decide : isPrincipal 10 = true), hte, wantBytes, setVarint, h10, c6, c7, c8, c9, c10, c12]
      by_cases h11 : f.num = 11
      · refine .policy h11 (by simpa [expectedTyp, wantBytes, h11, c7, c8, c9, c12] using hte) ?_
        simp [stepField, (by decide : isPrincipal 11 = true), hte, wantBytes, setVarint, h11, c6, c7, c8, c9, c10, c11, c12]
      have h12 : f.num = 12 := by omega
      refine .envelope h12 (by simpa [expectedTyp, wantBytes, h12, c7, c8, c9, c12] using hte) ?_
      simp [stepField, (by decide : isPrincipal 12 = true), hte, wantBytes, h12, c7, c8, c9, c12]
  · have hp' : isPrincipal f.num = false := by simpa using hp
    exact .other hp' (by simp [stepField, hp'])

theorem lastVarint_cons (n : Nat) (f : Field) (fs : List Field) :
    lastVarint n (f :: fs) = (lastVarint n fs).or (if f.num = n ∧ f.typ = 0 then some f.v else none) := by
  simp only [lastVarint]; cases lastVarint n fs <;> simp
theorem lastBytes_cons (n : Nat) (f : Field) (fs : List Field) :
    lastBytes n (f :: fs) = (lastBytes n fs).or (if f.num = n ∧ f.typ = 2 then some f.b else none) := by
  simp only [lastBytes]; cases lastBytes n fs <;> simp
theorem envelopes_cons (f : Field) (fs : List Field) :
    envelopes (f :: fs) = (if f.num = 12 ∧ f.typ = 2 then [f.b] else []) ++ envelopes fs := by
  by_cases h : f.num = 12 ∧ f.typ = 2
  · rw [if_pos h, envelopes_hit fs (by rw [fnums.2.2.2.2.2.2]; exact h.1) h.2]; rfl
  · rw [if_neg h, envelopes_miss fs (by rw [fnums.2.2.2.2.2.2]; exact h)]; rfl
theorem hasPrincipal_cons (f : Field) (fs : List Field) :
    hasPrincipal (f :: fs) = (isPrincipal f.num || hasPrincipal fs) := by
  simp [hasPrincipal]

/-- the declarative result of reading `fs` on top of `a` -/
def post (a : Acc) (fs : List Field) : Acc where
  protocol := ((lastVarint 6 fs).map toInt32).getD a.protocol
  endpoint := (lastBytes 7 fs).getD a.endpoint
  org      := (lastBytes 8 fs).getD a.org
  nonce    := (lastBytes 9 fs).getD a.nonce
  spv      := ((lastVarint 10 fs).map toInt32).getD a.spv
  policy   := ((lastVarint 11 fs).map toInt64).getD a.policy
  envelope := (lastBytes 12 fs).getD a.envelope
  haveEnv  := a.haveEnv || !(envelopes fs).isEmpty
  found    := a.found || hasPrincipal fs

theorem post_cons {a a1 : Acc} {f : Field} (fs : List Field) (h : stepField a f = .ok a1) :
    post a (f :: fs) = post a1 fs := by
  have hc := stepCase a f
  cases hc with
  | other hp hs =>
    rw [hs] at h; cases h
    have hr : ¬ (6 ≤ f.num ∧ f.num ≤ 12) := by
      simpa [isPrincipal, fnums.1, fnums.2.2.2.2.2.2] using hp
    have n6 : f.num ≠ 6 := by omega
    have n7 : f.num ≠ 7 := by omega
    have n8 : f.num ≠ 8 := by omega
    have n9 : f.num ≠ 9 := by omega
    have n10 : f.num ≠ 10 := by omega
    have n11 : f.num ≠ 11 := by omega
    have n12 : f.num ≠ 12 := by omega
    simp [post, lastVarint_cons, lastBytes_cons, envelopes_cons, hasPrincipal_cons, hp, n6, n7, n8, n9, n10, n11, n12]
  | wrong hp ht hs => rw [hs] at h; cases h
  | protocol hn ht hs =>
    rw [hs] at h; cases h
    simp [post, lastVarint_cons, lastBytes_cons, envelopes_cons, hasPrincipal_cons, hn, ht, (by decide : isPrincipal 6 = true)]
  | endpoint hn ht hs =>
    rw [hs] at h; cases h
    simp [post, lastVarint_cons, lastBytes_cons, envelopes_cons, hasPrincipal_cons, hn, ht, (by decide : isPrincipal 7 = true)]
  | org hn ht hs =>
    rw [hs] at h; cases h
    simp [post, lastVarint_cons, lastBytes_cons, envelopes_cons, hasPrincipal_cons, hn, ht, (by decide : isPrincipal 8 = true)]
  | nonce hn ht hs =>
    rw [hs] at h; cases h
    simp [post, lastVarint_cons, lastBytes_cons, envelopes_cons, hasPrincipal_cons, hn, ht, (by decide : isPrincipal 9 = true)]
  | spv hn ht hs =>
    rw [hs] at h; cases h
    simp [post, lastVarint_cons, lastBytes_cons, envelopes_cons, hasPrincipal_cons, hn, ht, (by decide : isPrincipal 10 = true)]
  | policy hn ht hs =>
    rw [hs] at h; cases h
    simp [post, lastVarint_cons, lastBytes_cons, envelopes_cons, hasPrincipal_cons, hn, ht, (by decide : isPrincipal 11 = true)]
  | envelope hn ht hs =>
    rw [hs] at h
    simp only [setBytes, fnums.2.1, fnums.2.2.1, fnums.2.2.2.1, fnums.2.2.2.2.2.2] at h
    simp at h
    split at h
    · cases h
    · split at h
      · cases h
      · cases h
        simp [post, lastVarint_cons, lastBytes_cons, envelopes_cons, hasPrincipal_cons, hn, ht, (by decide : isPrincipal 12 = true)]

theorem post_nil (a : Acc) : post a [] = a := by
  cases a; simp [post, lastVarint, lastBytes, envelopes, hasPrincipal]

theorem interp_ok : ∀ (fs : List Field) (a a' : Acc), interp a fs = .ok a' → a' = post a fs := by
  intro fs
  induction fs with
  | nil => intro a a' h; simp [interp] at h; subst h; exact (post_nil a).symm
  | cons f fs ih =>
    intro a a' h
    unfold interp at h
    split at h
    · cases h
    · rename_i a1 hs
      rw [post_cons fs hs]; exact ih _ _ h

theorem wrongType_cons (f : Field) (fs : List Field) :
    wrongType (f :: fs) = ((isPrincipal f.num && f.typ != expectedTyp f.num) || wrongType fs) := by
  simp [wrongType]

def badSize (e : Bytes) : Bool := e.length = 0 || decide (e.length > maxEnvelopeBytes)

theorem badEnvelopeSize_cons (f : Field) (fs : List Field) :
    badEnvelopeSize (f :: fs) = ((decide (f.num = 12 ∧ f.typ = 2) && badSize f.b) || badEnvelopeSize fs) := by
  by_cases h : f.num = 12 ∧ f.typ = 2
  · simp [badEnvelopeSize, envelopes_cons, h, badSize]
  · simp [badEnvelopeSize, envelopes_cons, h]

/-- when exactly the interpreter stops with an error, starting from any state -/
def errCond (a : Acc) (fs : List Field) : Bool :=
  wrongType fs || badEnvelopeSize fs || (a.haveEnv && !(envelopes fs).isEmpty) || decide ((envelopes fs).length ≥ 2)

theorem interp_err_iff : ∀ (fs : List Field) (a : Acc), (∃ e, interp a fs = .error e) ↔ errCond a fs = true := by
  intro fs
  induction fs with
  | nil => intro a; simp [interp, errCond, wrongType, badEnvelopeSize, envelopes]
  | cons f fs ih =>
    intro a
    have hc := stepCase a f
    cases hc with
    | other hp hs =>
      have hr : ¬ (6 ≤ f.num ∧ f.num ≤ 12) := by
        simpa [isPrincipal, fnums.1, fnums.2.2.2.2.2.2] using hp
      have n12 : f.num ≠ 12 := by omega
      simp only [interp, hs]
      rw [ih a]
      simp [errCond, wrongType_cons, badEnvelopeSize_cons, envelopes_cons, hp, n12]
    | wrong hp ht hs =>
      simp only [interp, hs]
      simp [errCond, wrongType_cons, hp, ht]
    | protocol hn ht hs =>
      have he : f.typ = expectedTyp 6 := by
        simp [ht, expectedTyp, wantBytes, fnums.2.1, fnums.2.2.1, fnums.2.2.2.1, fnums.2.2.2.2.2.2]
      simp only [interp, hs]
      rw [ih _]
      simp [errCond, wrongType_cons, badEnvelopeSize_cons, envelopes_cons, hn, he]
    | endpoint hn ht hs =>
      have he : f.typ = expectedTyp 7 := by
        simp [ht, expectedTyp, wantBytes, fnums.2.1, fnums.2.2.1, fnums.2.2.2.1, fnums.2.2.2.2.2.2]
      simp only [interp, hs]
      rw [ih _]
      simp [errCond, wrongType_cons, badEnvelopeSize_cons, envelopes_cons, hn, he]
    | org hn ht hs =>
      have he : f.typ = expectedTyp 8 := by
        simp [ht, expectedTyp, wantBytes, fnums.2.1, fnums.2.2.1, fnums.2.2.2.1, fnums.2.2.2.2.2.2]
      simp only [interp, hs]
      rw [ih _]
      simp [errCond, wrongType_cons, badEnvelopeSize_cons, envelopes_cons, hn, he]
    | nonce hn ht hs =>
      have he : f.typ = expectedTyp 9 := by
        simp [ht, expectedTyp, wantBytes, fnums.2.1, fnums.2.2.1, fnums.2.2.2.1, fnums.2.2.2.2.2.2]
      simp only [interp, hs]
      rw [ih _]
      simp [errCond, wrongType_cons, badEnvelopeSize_cons, envelopes_cons, hn, he]
    | spv hn ht hs =>
      have he : f.typ = expectedTyp 10 := by
        simp [ht, expectedTyp, wantBytes, fnums.2.1, fnums.2.2.1, fnums.2.2.2.1, fnums.2.2.2.2.2.2]
      simp only [interp, hs]
      rw [ih _]
      simp [errCond, wrongType_cons, badEnvelopeSize_cons, envelopes_cons, hn, he]
    | policy hn ht hs =>
      have he : f.typ = expectedTyp 11 := by
        simp [ht, expectedTyp, wantBytes, fnums.2.1, fnums.2.2.1, fnums.2.2.2.1, fnums.2.2.2.2.2.2]
      simp only [interp, hs]
      rw [ih _]
      simp [errCond, wrongType_cons, badEnvelopeSize_cons, envelopes_cons, hn, he]
    | envelope hn ht hs =>
      have he : f.typ = expectedTyp 12 := by
        simp [ht, expectedTyp, wantBytes, fnums.2.1, fnums.2.2.1, fnums.2.2.2.1, fnums.2.2.2.2.2.2]
      have he2 : (2 : Nat) = expectedTyp 12 := by rw [← he, ht]
      simp only [interp, hs]
      simp only [setBytes, fnums.2.1, fnums.2.2.1, fnums.2.2.2.1, fnums.2.2.2.2.2.2]
      simp only [(by decide : ¬ (12 = 7)), (by decide : ¬ (12 = 8)), (by decide : ¬ (12 = 9)), if_false, if_true]
      by_cases hh : a.haveEnv = true
      · simp [hh, errCond, envelopes_cons, hn, ht]
      · have hh' : a.haveEnv = false := by simpa using hh
        by_cases hb : badSize f.b = true
        · have hb2 := hb
          simp only [badSize] at hb2
          simp only [hh', hb2]
          simp [errCond, badEnvelopeSize_cons, hn, ht, hb]
        · have hb' : badSize f.b = false := by simpa using hb
          have hb2 := hb'
          simp only [badSize] at hb2
          simp only [hh', hb2]
          simp only [Bool.false_eq_true, if_false]
          rw [ih _]
          simp [errCond, wrongType_cons, badEnvelopeSize_cons, envelopes_cons, hn, ht, ← he2, hb', hh']
          cases envelopes fs <;> simp

end Gate.C41

namespace Gate.C41
open Gate

/-! ## the scan never runs out of fuel -/

theorem stepRaw_len {a a' : Acc} {num typ : Nat} {r r' : Bytes} (h : stepRaw a num typ r = .ok (a', r')) :
    r'.length ≤ r.length := by
  unfold stepRaw at h
  cases hp : isPrincipal num <;> cases hw : wantBytes num <;> simp [hp, hw] at h
  · split at h
    · cases h
    · rename_i hv; cases h; exact consumeFieldValue_len hv
  · split at h
    · cases h
    · rename_i hv; cases h; exact consumeFieldValue_len hv
  · split at h
    · split at h
      · cases h
      · rename_i hv; cases h; exact Nat.le_of_lt (consumeVarint_len hv)
    · cases h
  · split at h
    · split at h
      · cases h
      · rename_i hv
        split at h
        · cases h
        · cases h; exact Nat.le_of_lt (consumeBytes_len hv)
    · cases h

theorem setBytes_noenc (a : Acc) (num : Nat) (v : Bytes) (e : PErr) : setBytes a num v ≠ .error (.enc e) := by
  unfold setBytes
  repeat' split
  all_goals simp

theorem stepRaw_nofuel (a : Acc) (num typ : Nat) (r : Bytes) : stepRaw a num typ r ≠ .error (.enc .fuel) := by
  unfold stepRaw
  cases hp : isPrincipal num <;> cases hw : wantBytes num <;> simp
  · split
    · rename_i e he; intro h; cases h; exact consumeFieldValue_nofuel _ _ _ he
    · simp
  · split
    · rename_i e he; intro h; cases h; exact consumeFieldValue_nofuel _ _ _ he
    · simp
  · split
    · split
      · rename_i e he; intro h; cases h; exact consumeVarint_nofuel _ he
      · simp
    · simp
  · split
    · split
      · rename_i e he; intro h; cases h; exact consumeBytes_nofuel _ he
      · split
        · rename_i e he; intro h; cases h; exact setBytes_noenc _ _ _ _ he
        · simp
    · simp

theorem scan_nofuel : ∀ (fuel : Nat) (a : Acc) (bs : Bytes), bs.length < fuel → scan fuel a bs ≠ .error (.enc .fuel) := by
  intro fuel
  induction fuel with
  | zero => intro a bs h; omega
  | succ n ih =>
    intro a bs hl
    cases bs with
    | nil => simp [scan]
    | cons b t =>
      unfold scan
      split
      · rename_i e he; intro h; cases h; exact consumeTag_nofuel _ he
      · rename_i num typ r ht
        have h1 := consumeTag_len ht
        split
        · rename_i e he; intro h; cases h; exact stepRaw_nofuel _ _ _ _ he
        · rename_i a' r' hs
          have h2 := stepRaw_len hs
          exact ih a' r' (by simp at h1 hl; omega)

end Gate.C41

namespace Gate.C41
open Gate

/-! ## putting the pieces together -/

theorem scan_parse_ok {bs : Bytes} {fs : List Field} (h : parse bs = .ok fs) :
    scan (bs.length + 1) {} bs = interp {} fs :=
  (scan_fusion (bs.length + 1) {} bs (Nat.lt_succ_self _)).1 fs h

theorem scan_parse_err {bs : Bytes} {e : PErr} (h : parse bs = .error e) :
    ∃ x, scan (bs.length + 1) {} bs = .error x :=
  (scan_fusion (bs.length + 1) {} bs (Nat.lt_succ_self _)).2 e h

theorem envelopes_hasPrincipal : ∀ (fs : List Field), (envelopes fs).isEmpty = false → hasPrincipal fs = true := by
  intro fs
  induction fs with
  | nil => simp [envelopes]
  | cons f fs ih =>
    rw [envelopes_cons, hasPrincipal_cons]
    by_cases h : f.num = 12 ∧ f.typ = 2
    · intro _; simp [h.1, (by decide : isPrincipal 12 = true)]
    · rw [if_neg h]; intro h2; simp [ih (by simpa using h2)]

theorem errCond_init (fs : List Field) :
    errCond {} fs = (wrongType fs || badEnvelopeSize fs || dupEnvelope fs) := by
  simp [errCond, dupEnvelope]

/-- the model's result, given the reference's record list, in closed form -/
theorem extract_of_parse {bs : Bytes} {fs : List Field} (h : parse bs = .ok fs) :
    (rejectCond fs = true → ∃ e, extract bs = .error e) ∧
    (rejectCond fs = false → extract bs = .ok (if hasPrincipal fs then some (refWire fs) else none)) := by
  have hs := scan_parse_ok h
  obtain ⟨c6, c7, c8, c9, c10, c11, c12⟩ := fnums
  cases hi : interp {} fs with
  | error x =>
    have he : errCond {} fs = true := (interp_err_iff fs {}).1 ⟨x, hi⟩
    rw [errCond_init] at he
    constructor
    · intro _; exact ⟨x, by simp [extract, hs, hi]⟩
    · intro hr
      simp only [rejectCond] at hr
      cases h1 : wrongType fs <;> cases h2 : badEnvelopeSize fs <;> cases h3 : dupEnvelope fs <;> simp_all
  | ok a' =>
    have hn : errCond {} fs = false := by
      cases hc : errCond {} fs with
      | false => rfl
      | true =>
        obtain ⟨e, he⟩ := (interp_err_iff fs {}).2 hc
        rw [hi] at he; cases he
    rw [errCond_init] at hn
    have hp := interp_ok fs {} a' hi
    have hext : extract bs = finish a' := by simp [extract, hs, hi]
    have hfound : a'.found = hasPrincipal fs := by rw [hp]; simp [post]
    have henv : a'.haveEnv = !(envelopes fs).isEmpty := by rw [hp]; simp [post]
    have hnonce : a'.nonce = (lastBytes fNonce fs).getD [] := by rw [hp, c9]; simp [post]
    have hw1 : a'.protocol = toInt32 ((lastVarint fProtocol fs).getD 0) := by
      rw [hp, c6]; simp [post]; cases lastVarint 6 fs <;> simp [toInt32]
    have hw2 : a'.endpoint = (lastBytes fEndpoint fs).getD [] := by rw [hp, c7]; simp [post]
    have hw3 : a'.org = (lastBytes fOrg fs).getD [] := by rw [hp, c8]; simp [post]
    have hw5 : a'.spv = toInt32 ((lastVarint fSpv fs).getD 0) := by
      rw [hp, c10]; simp [post]; cases lastVarint 10 fs <;> simp [toInt32]
    have hw6 : a'.policy = toInt64 ((lastVarint fPolicy fs).getD 0) := by
      rw [hp, c11]; simp [post]; cases lastVarint 11 fs <;> simp [toInt64]
    have hw7 : a'.envelope = (lastBytes fEnvelope fs).getD [] := by rw [hp, c12]; simp [post]
    have hrc : rejectCond fs = badNonce fs := by
      simp only [rejectCond]
      cases h1 : wrongType fs <;> cases h2 : badEnvelopeSize fs <;> cases h3 : dupEnvelope fs <;> simp_all
    rw [hrc, hext]
    cases hE : (envelopes fs).isEmpty with
    | true =>
      have hb : badNonce fs = false := by simp [badNonce, hE]
      constructor
      · intro h'; rw [hb] at h'; cases h'
      · intro _
        cases hP : hasPrincipal fs with
        | false => simp [finish, hfound, hP]
        | true =>
          simp [finish, hfound, hP, henv, hE, refWire, hw1, hw2, hw3, hw5, hw6, hw7]
    | false =>
      have hP : hasPrincipal fs = true := envelopes_hasPrincipal fs hE
      cases hN : ((lastBytes fNonce fs).getD []).length != nonceLen with
      | true =>
        have hb : badNonce fs = true := by simp [badNonce, hE, hN]
        constructor
        · intro _
          have : a'.nonce.length ≠ nonceLen := by rw [hnonce]; simpa using hN
          exact ⟨.nonceSize, by simp [finish, hfound, hP, henv, hE, this]⟩
        · intro h'; rw [hb] at h'; cases h'
      | false =>
        have hb : badNonce fs = false := by simp [badNonce, hE, hN]
        constructor
        · intro h'; rw [hb] at h'; cases h'
        · intro _
          have hN' : ((lastBytes fNonce fs).getD []).length = nonceLen := by simpa using hN
          simp [finish, hfound, hP, henv, hE, hN', refWire, hw1, hw2, hw3, hw5, hw6, hw7, hnonce]


theorem lastBytes_envelopes : ∀ (fs : List Field), lastBytes 12 fs = (envelopes fs).getLast? := by
  intro fs
  induction fs with
  | nil => simp [lastBytes, envelopes]
  | cons f fs ih =>
    rw [lastBytes_cons, envelopes_cons, List.getLast?_append, ih]
    by_cases h : f.num = 12 ∧ f.typ = 2 <;> simp [h]

theorem noPrincipal_noReject : ∀ (fs : List Field), hasPrincipal fs = false → rejectCond fs = false := by
  intro fs h
  have he : (envelopes fs).isEmpty = true := by
    cases hE : (envelopes fs).isEmpty with
    | true => rfl
    | false => rw [envelopes_hasPrincipal fs hE] at h; cases h
  have hw : wrongType fs = false := by
    simp only [hasPrincipal, List.any_eq_false] at h
    simp only [wrongType, List.any_eq_false]
    intro f hf; simp [h f hf]
  have he' : envelopes fs = [] := by simpa using he
  simp [rejectCond, hw, dupEnvelope, badEnvelopeSize, badNonce, he']

end Gate.C41
