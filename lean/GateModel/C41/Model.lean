import GateModel.Base.Bytes
import GateModel.Gen.C41
/-
C41 — model of pkg/util/connectutil/principal.go:ExtractSessionPrincipalWire and of the
protowire primitives it calls (google.golang.org/protobuf/encoding/protowire).

The generated `connect.Session` descriptor knows fields 1..4 only, so the "typed fields" loop of the
extractor never fires (the harness observes this on every run: case `desc`); the model is the scan of
the unknown-field region `m.GetUnknown()`.

Integers: a varint is a `Nat < 2^64`; `int32(int64(v))` / `int64(v)` are the explicit two's
complement conversions `toInt32` / `toInt64`.  Strings are byte strings.
-/
namespace Gate.C41
open Gate

/-! ## protowire -/

/-- protowire's negative error codes (`ParseError`), plus `fuel` which is proved unreachable -/
inductive PErr where
  | truncated | fieldNumber | overflow | reserved | endGroup | recursion | fuel
  deriving DecidableEq, Repr, Inhabited

def PErr.toString : PErr → String
  | .truncated => "enc-truncated" | .fieldNumber => "enc-fieldnumber" | .overflow => "enc-overflow"
  | .reserved => "enc-reserved" | .endGroup => "enc-endgroup" | .recursion => "enc-recursion" | .fuel => "enc-fuel"

/-- `ConsumeVarint`, unrolled in Go for bytes 0..9: `i` = index of the byte, `acc` = value so far.
    Byte 9 may only contribute bit 63 (`y < 2`), otherwise overflow. -/
def varintLoop : Nat → Nat → Bytes → Except PErr (Nat × Bytes)
  | _, _, [] => .error .truncated
  | i, acc, b :: r =>
    if i ≥ 9 then (if b.toNat < 2 then .ok (acc + b.toNat * 2 ^ 63, r) else .error .overflow)
    else if b.toNat < 128 then .ok (acc + b.toNat * 2 ^ (7 * i), r)
    else varintLoop (i + 1) (acc + (b.toNat - 128) * 2 ^ (7 * i)) r

def consumeVarint (bs : Bytes) : Except PErr (Nat × Bytes) := varintLoop 0 0 bs

/-- `ConsumeTag`: `DecodeTag` yields −1 when `x>>3 > MaxInt32`; numbers below 1 are invalid. -/
def consumeTag (bs : Bytes) : Except PErr ((Nat × Nat) × Bytes) :=
  match consumeVarint bs with
  | .error e => .error e
  | .ok (v, r) =>
    if v / 8 > 2147483647 then .error .fieldNumber
    else if v / 8 < 1 then .error .fieldNumber
    else .ok ((v / 8, v % 8), r)

/-- `ConsumeBytes` -/
def consumeBytes (bs : Bytes) : Except PErr (Bytes × Bytes) :=
  match consumeVarint bs with
  | .error e => .error e
  | .ok (m, r) => if m > r.length then .error .truncated else .ok (r.take m, r.drop m)

/-- `ConsumeFixed32` / `ConsumeFixed64` (only the length matters here) -/
def consumeFixed (n : Nat) (bs : Bytes) : Except PErr Bytes :=
  if bs.length < n then .error .truncated else .ok (bs.drop n)

/-- the non-group arms of `ConsumeFieldValue`; returns the remaining input -/
def consumeScalar (typ : Nat) (bs : Bytes) : Except PErr Bytes :=
  if typ = 0 then (match consumeVarint bs with | .error e => .error e | .ok (_, r) => .ok r)
  else if typ = 5 then consumeFixed 4 bs
  else if typ = 1 then consumeFixed 8 bs
  else if typ = 2 then (match consumeBytes bs with | .error e => .error e | .ok (_, r) => .ok r)
  else if typ = 4 then .error .endGroup
  else .error .reserved

/-- `protowire.DefaultRecursionLimit` (protobuf v1.36.11: `consumeFieldValueD(num, typ, b, 10000)`) -/
def recursionLimit : Nat := 10000

/-- The `StartGroupType` arm of `consumeFieldValueD`.  Go recurses with `depth-1` per nesting level and
    fails with `errCodeRecursionDepth` when a group starts at `depth < 0`; this is the same traversal
    with the open group numbers on an explicit stack (innermost first): a group opened while `s` groups
    are open runs at depth `10000 - s`.  Every round consumes a tag (≥ 1 byte), so
    `fuel = length + 1` always suffices (`skipGroup_nofuel` in Lemmas). -/
def skipGroup : Nat → List Nat → Bytes → Except PErr Bytes
  | _, [], bs => .ok bs
  | 0, _ :: _, _ => .error .fuel
  | fuel + 1, top :: stack, bs =>
    match consumeTag bs with
    | .error e => .error e
    | .ok ((num, typ), r) =>
      if typ = 4 then (if num = top then skipGroup fuel stack r else .error .endGroup)
      else if typ = 3 then
        (if (top :: stack).length > recursionLimit then .error .recursion else skipGroup fuel (num :: top :: stack) r)
      else match consumeScalar typ r with
        | .error e => .error e
        | .ok r' => skipGroup fuel (top :: stack) r'

/-- `ConsumeFieldValue(num, typ, b)`; returns the remaining input -/
def consumeFieldValue (num typ : Nat) (bs : Bytes) : Except PErr Bytes :=
  if typ = 3 then skipGroup (bs.length + 1) [num] bs else consumeScalar typ bs

/-! ## integer conversions -/

/-- `int32(int64(v))` for a `uint64` `v` -/
def toInt32 (v : Nat) : Int :=
  let u : Nat := v % 2 ^ 32
  if u < 2 ^ 31 then (u : Int) else (u : Int) - (2 ^ 32 : Nat)
/-- `int64(v)` for a `uint64` `v` -/
def toInt64 (v : Nat) : Int :=
  let u : Nat := v % 2 ^ 64
  if u < 2 ^ 63 then (u : Int) else (u : Int) - (2 ^ 64 : Nat)

/-! ## constants (regenerated from principal.go) -/

def fProtocol : Nat := Gate.Gen.C41.fieldProtocol.toNat
def fEndpoint : Nat := Gate.Gen.C41.fieldEndpointID.toNat
def fOrg      : Nat := Gate.Gen.C41.fieldOrganizationID.toNat
def fNonce    : Nat := Gate.Gen.C41.fieldNonce.toNat
def fSpv      : Nat := Gate.Gen.C41.fieldSourceProtocolVersion.toNat
def fPolicy   : Nat := Gate.Gen.C41.fieldPolicyRevision.toNat
def fEnvelope : Nat := Gate.Gen.C41.fieldEnvelope.toNat
/-- `bedrockprincipal.MaxEnvelopeBytes` (module go.minekube.com/connect, outside /repo: read back
    through the harness on every run, case `const`) -/
def maxEnvelopeBytes : Nat := 16384
/-- `len(w.ConnectSessionNonce)` -/
def nonceLen : Nat := 16

/-! ## the extractor -/

inductive XErr where
  | enc (e : PErr)     -- "invalid session field encoding: …"
  | wireType           -- "session field %d has unexpected wire type %d"
  | dupEnvelope        -- "session carries more than one signed principal envelope"
  | envelopeSize       -- "signed principal envelope has invalid size"
  | nonceSize          -- "signed principal session nonce has invalid size"
  deriving DecidableEq, Repr, Inhabited

def XErr.toString : XErr → String
  | .enc e => e.toString | .wireType => "wiretype" | .dupEnvelope => "dup-envelope"
  | .envelopeSize => "envelope-size" | .nonceSize => "nonce-size"

/-- the local variables of `ExtractSessionPrincipalWire` (`w`, `found`, `nonce`, `haveEnvelope`) -/
structure Acc where
  protocol : Int := 0
  endpoint : Bytes := []
  org      : Bytes := []
  nonce    : Bytes := []
  spv      : Int := 0
  policy   : Int := 0
  envelope : Bytes := []
  haveEnv  : Bool := false
  found    : Bool := false
  deriving DecidableEq, Repr, Inhabited

/-- `*SessionPrincipalWire` -/
structure Wire where
  protocol : Int
  endpoint : Bytes
  org      : Bytes
  nonce    : Bytes       -- always 16 bytes
  spv      : Int
  policy   : Int
  envelope : Bytes
  deriving DecidableEq, Repr, Inhabited

def isPrincipal (num : Nat) : Bool := decide (fProtocol ≤ num) && decide (num ≤ fEnvelope)
def wantBytes (num : Nat) : Bool :=
  decide (num = fEndpoint) || decide (num = fOrg) || decide (num = fNonce) || decide (num = fEnvelope)

/-- the `switch num` after `ConsumeBytes` -/
def setBytes (a : Acc) (num : Nat) (v : Bytes) : Except XErr Acc :=
  if num = fEndpoint then .ok { a with endpoint := v, found := true }
  else if num = fOrg then .ok { a with org := v, found := true }
  else if num = fNonce then .ok { a with nonce := v, found := true }
  else if num = fEnvelope then
    if a.haveEnv then .error .dupEnvelope
    else if v.length = 0 || decide (v.length > maxEnvelopeBytes) then .error .envelopeSize
    else .ok { a with envelope := v, haveEnv := true, found := true }
  else .ok a

/-- the `switch num` after `ConsumeVarint` -/
def setVarint (a : Acc) (num : Nat) (v : Nat) : Acc :=
  if num = fProtocol then { a with protocol := toInt32 v, found := true }
  else if num = fSpv then { a with spv := toInt32 v, found := true }
  else if num = fPolicy then { a with policy := toInt64 v, found := true }
  else a

/-- one round of `for len(raw) > 0 { … }` after `ConsumeTag` returned `(num, typ)`, rest `r` -/
def stepRaw (a : Acc) (num typ : Nat) (r : Bytes) : Except XErr (Acc × Bytes) :=
  let wb := wantBytes num
  if !isPrincipal num || (wb && typ != 2) || (!wb && typ != 0) then
    if isPrincipal num then .error .wireType
    else match consumeFieldValue num typ r with
      | .error e => .error (.enc e)
      | .ok r' => .ok (a, r')
  else if wb then
    match consumeBytes r with
    | .error e => .error (.enc e)
    | .ok (v, r') => match setBytes a num v with
      | .error e => .error e
      | .ok a' => .ok (a', r')
  else
    match consumeVarint r with
    | .error e => .error (.enc e)
    | .ok (v, r') => .ok (setVarint a num v, r')

/-- the scan loop; `fuel = length + 1` always suffices (`scan_fuel`) -/
def scan : Nat → Acc → Bytes → Except XErr Acc
  | _, a, [] => .ok a
  | 0, _, _ :: _ => .error (.enc .fuel)
  | fuel + 1, a, b :: bs =>
    match consumeTag (b :: bs) with
    | .error e => .error (.enc e)
    | .ok ((num, typ), r) =>
      match stepRaw a num typ r with
      | .error e => .error e
      | .ok (a', r') => scan fuel a' r'

/-- the tail of the function: `if !found …; if haveEnvelope { nonce check; copy }` -/
def finish (a : Acc) : Except XErr (Option Wire) :=
  if !a.found then .ok none
  else if a.haveEnv then
    if a.nonce.length ≠ nonceLen then .error .nonceSize
    else .ok (some ⟨a.protocol, a.endpoint, a.org, a.nonce, a.spv, a.policy, a.envelope⟩)
  else .ok (some ⟨a.protocol, a.endpoint, a.org, List.replicate nonceLen 0, a.spv, a.policy, a.envelope⟩)

/-- `ExtractSessionPrincipalWire` on a session whose unknown-field region is `raw` -/
def extract (raw : Bytes) : Except XErr (Option Wire) :=
  match scan (raw.length + 1) {} raw with
  | .error e => .error e
  | .ok a => finish a

/-! ## protobuf-go's split of the message into known fields and the unknown region

`proto.Unmarshal` into `connect.Session` (impl.unmarshalPointerEager) consumes the records (field 1..4,
wire type 2) as typed fields and appends every other record, in order, to the unknown region: the tag
re-encoded minimally (`protowire.AppendTag`), the value bytes verbatim.  Only used by the driver to
predict `GetUnknown()` for messages whose known fields carry valid contents. -/

/-- `protowire.AppendVarint` (10 bytes suffice for a uint64) -/
def appendVarintF : Nat → Nat → Bytes
  | 0, v => [UInt8.ofNat (v % 128)]
  | fuel + 1, v => if v < 128 then [UInt8.ofNat v] else UInt8.ofNat (v % 128 + 128) :: appendVarintF fuel (v / 128)
def appendVarint (v : Nat) : Bytes := appendVarintF 9 v

def isKnown (num typ : Nat) : Bool := decide (1 ≤ num) && decide (num ≤ 4) && decide (typ = 2)

def unknownOf : Nat → Bytes → Except PErr Bytes
  | _, [] => .ok []
  | 0, _ :: _ => .error .fuel
  | fuel + 1, b :: bs =>
    match consumeTag (b :: bs) with
    | .error e => .error e
    | .ok ((num, typ), r) =>
      -- protobuf-go's own tag check: numbers above MaxValidNumber (2^29-1) are a decode error
      if num > 536870911 then .error .fieldNumber else
      match consumeFieldValue num typ r with
      | .error e => .error e
      | .ok r' =>
        match unknownOf fuel r' with
        | .error e => .error e
        | .ok u =>
          if isKnown num typ then .ok u
          else .ok (appendVarint (num * 8 + typ) ++ r.take (r.length - r'.length) ++ u)

end Gate.C41
