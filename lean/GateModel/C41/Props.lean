import GateModel.C41.Lemmas
/-
C41 — Connect session principal fields are extracted exactly or rejected.

`extract raw` is the model of `ExtractSessionPrincipalWire` on a session whose unknown-field region is
`raw` (Model.lean).  `parse raw` is the two-phase reference reader's record list; `refWire`,
`rejectCond` (= `wrongType ∨ dupEnvelope ∨ badEnvelopeSize ∨ badNonce`), `hasPrincipal` and
`expected` are its declarative reading (Spec.lean).  Every theorem is for ALL byte strings — any field
numbers, wire types, orders, repetitions, truncations, group nesting.  Helper lemmas: Lemmas.lean.
-/
namespace Gate.C41.Props
open Gate Gate.C41

/-! ### exact extraction -/

/-- A well-formed proposal with no reject condition: the extractor returns exactly what the reference
    reads (last value wins for every scalar), or "no principal" when no field 6..12 occurs. -/
theorem extract_eq_reference (bs : Bytes) (fs : List Field) (h : parse bs = .ok fs)
    (hr : rejectCond fs = false) :
    extract bs = .ok (if hasPrincipal fs then some (refWire fs) else none) :=
  (extract_of_parse h).2 hr

/-- The same against the executable reference used by the correspondence run. -/
theorem extract_matches_expected (bs : Bytes) :
    match expected bs with
    | .reject => ∃ e, extract bs = .error e
    | .none => extract bs = .ok none
    | .wire w => extract bs = .ok (some w) := by
  unfold expected
  cases hp : parse bs with
  | error e =>
    obtain ⟨x, hx⟩ := scan_parse_err hp
    exact ⟨x, by simp [extract, hx]⟩
  | ok fs =>
    cases hr : rejectCond fs with
    | true => simp only [hr, if_true]; exact (extract_of_parse hp).1 hr
    | false =>
      have := (extract_of_parse hp).2 hr
      cases hP : hasPrincipal fs with
      | false => rw [hP] at this; simp only [hr, hP, Bool.false_eq_true, if_false]; exact this
      | true => rw [hP] at this; simp only [hr, hP, Bool.false_eq_true, if_false, if_true]; exact this

/-! ### rejection: exactly the listed conditions, never a silent downgrade -/

/-- The extractor fails if and only if the proposal is malformed or carries a reject condition. -/
theorem rejects_iff (bs : Bytes) :
    (∃ e, extract bs = .error e) ↔
      (∃ e, parse bs = .error e) ∨ (∃ fs, parse bs = .ok fs ∧ rejectCond fs = true) := by
  constructor
  · intro ⟨e, he⟩
    cases hp : parse bs with
    | error e' => exact Or.inl ⟨e', rfl⟩
    | ok fs =>
      refine Or.inr ⟨fs, rfl, ?_⟩
      cases hr : rejectCond fs with
      | true => rfl
      | false => rw [(extract_of_parse hp).2 hr] at he; cases he
  · intro h
    rcases h with ⟨e, he⟩ | ⟨fs, hp, hr⟩
    · obtain ⟨x, hx⟩ := scan_parse_err he
      exact ⟨x, by simp [extract, hx]⟩
    · exact (extract_of_parse hp).1 hr

theorem malformed_rejected (bs : Bytes) (e : PErr) (h : parse bs = .error e) : ∃ x, extract bs = .error x :=
  (rejects_iff bs).2 (Or.inl ⟨e, h⟩)
theorem wrong_wire_type_rejected (bs : Bytes) (fs : List Field) (h : parse bs = .ok fs)
    (hw : wrongType fs = true) : ∃ x, extract bs = .error x :=
  (rejects_iff bs).2 (Or.inr ⟨fs, h, by simp [rejectCond, hw]⟩)
theorem second_envelope_rejected (bs : Bytes) (fs : List Field) (h : parse bs = .ok fs)
    (hd : (envelopes fs).length ≥ 2) : ∃ x, extract bs = .error x :=
  (rejects_iff bs).2 (Or.inr ⟨fs, h, by simp [rejectCond, dupEnvelope, hd]⟩)
theorem bad_envelope_size_rejected (bs : Bytes) (fs : List Field) (h : parse bs = .ok fs) (e : Bytes)
    (he : e ∈ envelopes fs) (hs : e.length = 0 ∨ e.length > maxEnvelopeBytes) : ∃ x, extract bs = .error x := by
  refine (rejects_iff bs).2 (Or.inr ⟨fs, h, ?_⟩)
  have : badEnvelopeSize fs = true := by
    simp only [badEnvelopeSize, List.any_eq_true]
    refine ⟨e, he, ?_⟩
    rcases hs with h0 | h1
    · simp [h0]
    · simp [h1]
  simp [rejectCond, this]
theorem envelope_without_nonce_rejected (bs : Bytes) (fs : List Field) (h : parse bs = .ok fs)
    (he : envelopes fs ≠ []) (hn : ((lastBytes fNonce fs).getD []).length ≠ 16) : ∃ x, extract bs = .error x := by
  refine (rejects_iff bs).2 (Or.inr ⟨fs, h, ?_⟩)
  have : badNonce fs = true := by simp [badNonce, he, nonceLen, hn]
  simp [rejectCond, this]

/-- "No principal" is returned exactly for well-formed proposals without any field numbered 6..12 … -/
theorem none_iff_no_principal_field (bs : Bytes) :
    extract bs = .ok none ↔ ∃ fs, parse bs = .ok fs ∧ hasPrincipal fs = false := by
  constructor
  · intro he
    cases hp : parse bs with
    | error e =>
      obtain ⟨x, hx⟩ := malformed_rejected bs e hp
      rw [hx] at he; cases he
    | ok fs =>
      refine ⟨fs, rfl, ?_⟩
      cases hr : rejectCond fs with
      | true => obtain ⟨x, hx⟩ := (extract_of_parse hp).1 hr; rw [hx] at he; cases he
      | false =>
        rw [(extract_of_parse hp).2 hr] at he
        cases hP : hasPrincipal fs with
        | false => rfl
        | true => simp [hP] at he
  · intro ⟨fs, hp, hP⟩
    rw [(extract_of_parse hp).2 (noPrincipal_noReject fs hP)]; simp [hP]

/-- … so a malformed proposal or one carrying any reject condition is never downgraded to "no principal". -/
theorem never_downgrades (bs : Bytes)
    (h : (∃ e, parse bs = .error e) ∨ (∃ fs, parse bs = .ok fs ∧ rejectCond fs = true)) :
    extract bs ≠ .ok none := by
  obtain ⟨x, hx⟩ := (rejects_iff bs).2 h
  rw [hx]; intro h'; cases h'

/-! ### shape of an extracted principal -/

/-- An accepted proposal has at most one envelope and it is the one returned. -/
theorem envelope_unique (bs : Bytes) (fs : List Field) (w : Wire) (h : parse bs = .ok fs)
    (he : extract bs = .ok (some w)) : envelopes fs = [] ∧ w.envelope = [] ∨ envelopes fs = [w.envelope] := by
  cases hr : rejectCond fs with
  | true => obtain ⟨x, hx⟩ := (extract_of_parse h).1 hr; rw [hx] at he; cases he
  | false =>
    rw [(extract_of_parse h).2 hr] at he
    cases hP : hasPrincipal fs with
    | false => simp [hP] at he
    | true =>
      simp [hP] at he
      have hd : dupEnvelope fs = false := by
        simp only [rejectCond] at hr
        cases h2 : dupEnvelope fs <;> simp_all
      have hlen : (envelopes fs).length < 2 := by simpa [dupEnvelope] using hd
      have hl := lastBytes_envelopes fs
      have hw : w.envelope = (lastBytes fEnvelope fs).getD [] := by rw [← he]; rfl
      rw [fnums.2.2.2.2.2.2, hl] at hw
      match hE : envelopes fs with
      | [] => left; rw [hE] at hw; exact ⟨rfl, by simpa using hw⟩
      | [x] => right; rw [hE] at hw; simp at hw; rw [hw]
      | _ :: _ :: _ => rw [hE] at hlen; simp at hlen; omega

/-- The nonce of a returned principal always has 16 bytes; with an envelope it is the proposal's last
    nonce field, and WITHOUT an envelope it is all-zero even if the proposal carried a nonce field: the
    extractor binds the nonce only alongside an envelope (the verifier, its only consumer, runs only
    then).  Stated so that this behaviour is visible, not hidden in `refWire`. -/
theorem nonce_bound_only_with_envelope (bs : Bytes) (fs : List Field) (w : Wire) (h : parse bs = .ok fs)
    (he : extract bs = .ok (some w)) :
    w.nonce.length = 16 ∧
    (envelopes fs ≠ [] → w.nonce = (lastBytes fNonce fs).getD []) ∧
    (envelopes fs = [] → w.nonce = List.replicate 16 0) := by
  cases hr : rejectCond fs with
  | true => obtain ⟨x, hx⟩ := (extract_of_parse h).1 hr; rw [hx] at he; cases he
  | false =>
    rw [(extract_of_parse h).2 hr] at he
    cases hP : hasPrincipal fs with
    | false => simp [hP] at he
    | true =>
      simp [hP] at he
      have hb : badNonce fs = false := by
        simp only [rejectCond] at hr
        cases h2 : badNonce fs <;> simp_all
      have hw : w.nonce = if (envelopes fs).isEmpty then List.replicate nonceLen 0 else (lastBytes fNonce fs).getD [] := by
        rw [← he]; rfl
      cases hE : (envelopes fs).isEmpty with
      | true =>
        have hE' : envelopes fs = [] := by simpa using hE
        simp [hw, hE', nonceLen]
      | false =>
        have hE' : envelopes fs ≠ [] := by simpa using hE
        simp [badNonce, hE, nonceLen] at hb
        simp [hw, hE, hE', hb]

/-! ### integer conversions (`int32(int64(v))`, `int64(v)`): two's complement of the low bits -/

theorem toInt32_spec (v : Nat) :
    -2147483648 ≤ toInt32 v ∧ toInt32 v < 2147483648 ∧ (toInt32 v - (v : Int)) % 4294967296 = 0 := by
  have e32 : (2 : Nat) ^ 32 = 4294967296 := by decide
  have e31 : (2 : Nat) ^ 31 = 2147483648 := by decide
  simp only [toInt32, e32, e31]
  split <;> omega
theorem toInt64_spec (v : Nat) :
    -9223372036854775808 ≤ toInt64 v ∧ toInt64 v < 9223372036854775808 ∧
      (toInt64 v - (v : Int)) % 18446744073709551616 = 0 := by
  have e64 : (2 : Nat) ^ 64 = 18446744073709551616 := by decide
  have e63 : (2 : Nat) ^ 63 = 9223372036854775808 := by decide
  simp only [toInt64, e64, e63]
  split <;> omega

/-! ### totality: the fuel of the model's loops is never exhausted -/

theorem extract_total (bs : Bytes) : extract bs ≠ .error (.enc .fuel) := by
  unfold extract
  have := scan_nofuel (bs.length + 1) {} bs (Nat.lt_succ_self _)
  cases hs : scan (bs.length + 1) {} bs with
  | error e => intro h; cases h; exact this hs
  | ok a =>
    simp only [finish]
    repeat' split
    all_goals simp
theorem parse_total (bs : Bytes) : parse bs ≠ .error .fuel :=
  parseFields_nofuel _ _ (Nat.lt_succ_self _)

/-! ### tie to the source: facts regenerated by `tools/gofacts` from principal.go -/

/-- the frozen field numbers are 6..12 in this order (the model's constants ARE these values) -/
theorem field_numbers :
    [fProtocol, fEndpoint, fOrg, fNonce, fSpv, fPolicy, fEnvelope] = [6, 7, 8, 9, 10, 11, 12] := by decide

/-- positions of `x` in a call sequence -/
def positions (x : String) (cs : List String) : List Nat :=
  (cs.zipIdx.filter fun p => p.1 == x).map (·.2)

/-- The extractor reads the unknown region once and scans it with protowire's primitives in the
    modelled order: tag, then (skip | bytes | varint); nothing else from protowire parses input. -/
theorem extractor_call_shape :
    (positions "m.GetUnknown" Gate.Gen.C41.extractCalls).length = 1 ∧
    (positions "protowire.ConsumeTag" Gate.Gen.C41.extractCalls).length = 1 ∧
    (positions "protowire.ConsumeFieldValue" Gate.Gen.C41.extractCalls).length = 1 ∧
    (positions "protowire.ConsumeBytes" Gate.Gen.C41.extractCalls).length = 1 ∧
    (positions "protowire.ConsumeVarint" Gate.Gen.C41.extractCalls).length = 1 ∧
    positions "m.GetUnknown" Gate.Gen.C41.extractCalls < positions "protowire.ConsumeTag" Gate.Gen.C41.extractCalls ∧
    positions "protowire.ConsumeTag" Gate.Gen.C41.extractCalls < positions "protowire.ConsumeFieldValue" Gate.Gen.C41.extractCalls ∧
    positions "protowire.ConsumeFieldValue" Gate.Gen.C41.extractCalls < positions "protowire.ConsumeBytes" Gate.Gen.C41.extractCalls ∧
    positions "protowire.ConsumeBytes" Gate.Gen.C41.extractCalls < positions "protowire.ConsumeVarint" Gate.Gen.C41.extractCalls ∧
    (Gate.Gen.C41.extractCalls.filter fun c => c.startsWith "protowire.Consume").length = 4 := by
  decide +kernel

/-- the switches of the unknown-region scan handle exactly the bytes fields 7,8,9,12 and the varint
    fields 6,10,11 (after the seven cases of the typed branch) -/
theorem extractor_switch_cases :
    Gate.Gen.C41.extractCases.drop 7 =
      ["sessionFieldEndpointID", "sessionFieldOrganizationID", "sessionFieldConnectSessionNonce",
       "sessionFieldSignedPrincipalV2", "sessionFieldProtocol", "sessionFieldSourceProtocolVersion",
       "sessionFieldPolicyRevision"] := by decide

/-! ### non-vacuity: the hypotheses are satisfiable and every outcome occurs -/

/-- protocol=2 (Bedrock), endpoint "e", nonce 16×0xAA, envelope "JWS": accepted, fields as sent -/
example : extract ([0x30, 0x02, 0x3a, 0x01, 0x65, 0x4a, 0x10] ++ List.replicate 16 0xAA ++ [0x62, 0x03, 0x4a, 0x57, 0x53])
    = .ok (some ⟨2, [0x65], [], List.replicate 16 0xAA, 0, 0, [0x4a, 0x57, 0x53]⟩) := by rfl
/-- last value wins: protocol 1 then protocol 2 -/
example : extract [0x30, 0x01, 0x30, 0x02] = .ok (some ⟨2, [], [], List.replicate 16 0, 0, 0, []⟩) := by rfl
/-- only foreign fields (13 varint, 15 group containing field 1): no principal -/
example : extract [0x68, 0x05, 0x7b, 0x08, 0x01, 0x7c] = .ok none := by rfl
example : parse [0x68, 0x05, 0x7b, 0x08, 0x01, 0x7c] = .ok [⟨13, 0, 5, []⟩, ⟨15, 3, 0, []⟩] := by rfl
/-- envelope sent as varint: wire-type error, not "no principal" -/
example : extract [0x60, 0x01] = .error .wireType := by rfl
/-- two envelopes -/
example : extract [0x62, 0x01, 0x41, 0x62, 0x01, 0x42] = .error .dupEnvelope := by rfl
/-- empty envelope -/
example : extract [0x62, 0x00] = .error .envelopeSize := by rfl
/-- envelope without nonce -/
example : extract [0x62, 0x01, 0x41] = .error .nonceSize := by rfl
/-- truncated length-delimited field after a valid one -/
example : extract [0x30, 0x02, 0x3a, 0x05, 0x65] = .error (.enc .truncated) := by rfl
/-- a nonce without an envelope is accepted and not bound (all-zero nonce in the result) -/
example : extract ([0x4a, 0x10] ++ List.replicate 16 0xAA) = .ok (some ⟨0, [], [], List.replicate 16 0, 0, 0, []⟩) := by rfl
/-- `rejectCond` is satisfiable in each disjunct and refutable -/
example : wrongType [⟨12, 0, 1, []⟩] = true ∧ dupEnvelope [⟨12, 2, 0, [1]⟩, ⟨12, 2, 0, [2]⟩] = true ∧
    badEnvelopeSize [⟨12, 2, 0, []⟩] = true ∧ badNonce [⟨12, 2, 0, [1]⟩] = true ∧
    rejectCond [⟨6, 0, 2, []⟩] = false := by decide

end Gate.C41.Props
