import GateModel.Base.Line
import GateModel.C41.Model
import GateModel.C41.Spec
/-
C41 driver.  Case lines:
  `desc`            : which of the field numbers 6..12 the generated Session descriptor knows (`-` = none)
  `const <name>`    : constants living outside /repo (`maxenv`, `noncelen`)
  `nil`             : ExtractSessionPrincipalWire(nil)
  `raw <hex>`       : fresh Session, SetUnknown(hex), extract
  `msg <hex>`       : proto.Unmarshal(hex) into a Session, then `unk=<GetUnknown hex> <extract output>`
                      (or `unmarshal-err`)
Extract output: `nil` | `err <class>` | `ok p=<int> e=<hex> o=<hex> n=<hex> s=<int> r=<int> v=<hex>`.
Verdict: the reference reading (`expected`, two-phase parse of the WHOLE input) against the
implementation's output.
-/
namespace Gate.C41
open Gate

def showWire (w : Wire) : String :=
  "ok p=" ++ toString w.protocol ++ " e=" ++ toHex w.endpoint ++ " o=" ++ toHex w.org ++ " n=" ++ toHex w.nonce ++
  " s=" ++ toString w.spv ++ " r=" ++ toString w.policy ++ " v=" ++ toHex w.envelope

def showExtract : Except XErr (Option Wire) → String
  | .error e => "err " ++ e.toString
  | .ok none => "nil"
  | .ok (some w) => showWire w

/-- spec verdict for an extractor output `impl` on input `bs` -/
def verdict (bs : Bytes) (impl : String) : String :=
  if impl = "panic" || impl = "hang" then "viol:crash" else
  match expected bs with
  | .reject =>
    if impl.startsWith "err " then "ok"
    else if impl = "nil" then "viol:downgraded" else "viol:accepted-invalid"
  | .none =>
    if impl = "nil" then "ok"
    else if impl.startsWith "err " then "viol:spurious-reject" else "viol:fields-differ"
  | .wire w =>
    if impl = showWire w then "ok"
    else if impl = "nil" then "viol:downgraded"
    else if impl.startsWith "err " then "viol:spurious-reject" else "viol:fields-differ"

def step (c : Case) : String × String :=
  match c.op, c.args with
  | "desc", _ => ("-", "-")
  | "const", ["maxenv"] => (toString maxEnvelopeBytes, "-")
  | "const", ["noncelen"] => (toString nonceLen, "-")
  | "nil", _ => ("nil", "-")
  | "raw", [hx] =>
    match parseHex hx with
    | some bs => (showExtract (extract bs), verdict bs c.impl)
    | none => ("bad-op", "-")
  | "msg", [hx] =>
    match parseHex hx with
    | some bs =>
      match unknownOf (bs.length + 1) bs with
      | .error _ =>
        -- not decodable as a Session at all: rejected before the extractor; fine if the reference rejects too
        ("unmarshal-err", if c.impl = "unmarshal-err" then (match expected bs with | .reject => "ok" | _ => "-") else
                          verdict bs ((c.impl.splitOn " ").drop 1 |> " ".intercalate))
      | .ok unk =>
        let out := "unk=" ++ toHex unk ++ " " ++ showExtract (extract unk)
        let implX := if c.impl = "unmarshal-err" then c.impl else " ".intercalate ((c.impl.splitOn " ").drop 1)
        (out, if c.impl = "unmarshal-err" then (match expected bs with | .reject => "ok" | _ => "viol:unmarshal-rejected") else verdict bs implX)
    | none => ("bad-op", "-")
  | _, _ => ("bad-op", "-")

end Gate.C41

def main : IO Unit := Gate.runPureDriver Gate.C41.step
