import GateModel.Base.Bytes
import GateModel.Gen.C37
/-
C37 — model of configuration validation:
  pkg/gate/config.(*Config).Validate            (health probe bind + "java:" errors)
  pkg/edition/java/config.(*Config).Validate    (bind, quotas, trusted proxies, Lite early return, via,
                                                 forwarding mode, servers, try, forced hosts, compression)
  pkg/edition/java/lite/config.Config.Validate  (routes, strategies, backend addresses)
  pkg/util/validation.ValidHostPort / ValidServerName, pkg/util/netutil.Parse

Strings are byte strings (Go indexes bytes; every character class that matters is ASCII).  Only *errors*
are modelled (warnings never decide acceptance).  External: `validNet` (netip.ParsePrefix/ParseAddr on the
trimmed entry, as used by netutil.ParseTrustedNetworks) is a parameter; `net.SplitHostPort`,
`strconv.Atoi`, `strings.TrimSpace(s) == ""` and the one regular expression are transcribed below and
compared with the real functions by the harness.  bedrock.backendFloodgate and api.* are outside the
model (the harness keeps them disabled).
Core Lean only.
-/
namespace Gate.C37
open Gate

def ascii (s : String) : Bytes := s.toList.map (fun c => UInt8.ofNat c.toNat)

/-! ### net.SplitHostPort -/

inductive SplitErr where
  | missingPort | tooManyColons | missingBracket | unexpectedOpen | unexpectedClose
  deriving DecidableEq, Repr

def COLON : UInt8 := 58
def LBR : UInt8 := 91
def RBR : UInt8 := 93

/-- split at the LAST occurrence of `c`: (`s[:i]`, `s[i+1:]`) -/
def splitLast (c : UInt8) : Bytes → Option (Bytes × Bytes)
  | [] => none
  | x :: r => match splitLast c r with
    | some (a, b) => some (x :: a, b)
    | none => if x = c then some ([], r) else none

/-- split at the FIRST occurrence of `c` -/
def splitFirst (c : UInt8) : Bytes → Option (Bytes × Bytes)
  | [] => none
  | x :: r => if x = c then some ([], r) else
    match splitFirst c r with
    | some (a, b) => some (x :: a, b)
    | none => none

def has (c : UInt8) (s : Bytes) : Bool := s.any (· = c)

def splitHostPort (s : Bytes) : Except SplitErr (Bytes × Bytes) :=
  match splitLast COLON s with
  | none => .error .missingPort
  | some (pre, port) =>
    match s with
    | [] => .error .missingPort
    | first :: body =>
      if first = LBR then
        match splitFirst RBR body with
        | none => .error .missingBracket
        | some (host, after) =>
          if after = [] then .error .missingPort
          else if after = COLON :: port then
            if has LBR body then .error .unexpectedOpen
            else if has RBR after then .error .unexpectedClose
            else .ok (host, port)
          else if after.head? = some COLON then .error .tooManyColons
          else .error .missingPort
      else
        if has COLON pre then .error .tooManyColons
        else if has LBR s then .error .unexpectedOpen
        else if has RBR s then .error .unexpectedClose
        else .ok (pre, port)

/-- `validation.ValidHostPort(s) == nil` -/
def hostPortOk (s : Bytes) : Bool :=
  match splitHostPort s with
  | .ok _ => true
  | .error _ => false

/-! ### strconv.Atoi (64-bit int) and netutil.Parse -/

def isDigit (b : UInt8) : Bool := 48 ≤ b && b ≤ 57
def digitsVal (ds : Bytes) : Nat := ds.foldl (fun acc d => acc * 10 + (d.toNat - 48)) 0

def atoiOk (p : Bytes) : Bool :=
  match p with
  | 45 :: ds => !ds.isEmpty && ds.all isDigit && decide (digitsVal ds ≤ 2 ^ 63)
  | 43 :: ds => !ds.isEmpty && ds.all isDigit && decide (digitsVal ds < 2 ^ 63)
  | ds => !ds.isEmpty && ds.all isDigit && decide (digitsVal ds < 2 ^ 63)

/-- `netutil.Parse(addr, "tcp")` returns a nil error -/
def parseAddrOk (a : Bytes) : Bool :=
  match splitHostPort a with
  | .ok (_, port) => atoiOk port
  | .error .missingPort => true
  | .error .tooManyColons => true
  | .error _ => false

/-- `containsParameters`: the regular expression `\$\d+` matches somewhere -/
def containsParams : Bytes → Bool
  | [] => false
  | 36 :: d :: r => isDigit d || containsParams (d :: r)
  | _ :: r => containsParams r

/-! ### validation.ValidServerName -/

def isAlnum (b : UInt8) : Bool := (48 ≤ b && b ≤ 57) || (65 ≤ b && b ≤ 90) || (97 ≤ b && b ≤ 122)
def isExt (b : UInt8) : Bool := isAlnum b || b = 45 || b = 95 || b = 46

def nameMax : Nat := Gate.Gen.C37.nameMax.toNat

/-- `str != "" && len(str) <= 63 && ^([A-Za-z0-9][-A-Za-z0-9_.]*)?[A-Za-z0-9]$` -/
def validServerName (s : Bytes) : Bool :=
  !s.isEmpty && decide (s.length ≤ nameMax) &&
  (match s.head? with | some b => isAlnum b | none => false) &&
  (match s.getLast? with | some b => isAlnum b | none => false) &&
  s.all isExt

/-! ### strings.TrimSpace(s) == "" -/

def isAsciiSpace (b : UInt8) : Bool := b = 9 || b = 10 || b = 11 || b = 12 || b = 13 || b = 32

/-- three-byte UTF-8 encodings of U+1680, U+2000–U+200A, U+2028, U+2029, U+202F, U+205F, U+3000 -/
def isSpace3 (b0 b1 b2 : UInt8) : Bool :=
  (b0 = 0xE1 && b1 = 0x9A && b2 = 0x80) ||
  (b0 = 0xE2 && b1 = 0x80 && ((0x80 ≤ b2 && b2 ≤ 0x8A) || b2 = 0xA8 || b2 = 0xA9 || b2 = 0xAF)) ||
  (b0 = 0xE2 && b1 = 0x81 && b2 = 0x9F) ||
  (b0 = 0xE3 && b1 = 0x80 && b2 = 0x80)

/-- U+0085, U+00A0 -/
def isSpace2 (b0 b1 : UInt8) : Bool := b0 = 0xC2 && (b1 = 0x85 || b1 = 0xA0)

/-- one Unicode White_Space code point (UTF-8) at the front: how many bytes it takes, 0 if none -/
def spaceWidth : Bytes → Nat
  | [] => 0
  | b0 :: r =>
    if isAsciiSpace b0 then 1 else
    match r with
    | [] => 0
    | b1 :: r2 =>
      if isSpace2 b0 b1 then 2 else
      match r2 with
      | [] => 0
      | b2 :: _ => if isSpace3 b0 b1 b2 then 3 else 0

def allSpaceFuel : Nat → Bytes → Bool
  | _, [] => true
  | 0, _ => false
  | n + 1, s => match spaceWidth s with
    | 0 => false
    | w => allSpaceFuel n (s.drop w)

def allSpace (s : Bytes) : Bool := allSpaceFuel s.length s

/-! ### the configuration (validated fields only) -/

/-- float32 `ops` as far as `ops <= 0` can tell -/
inductive Ops where
  | neg | zero | pos | nan | inf
  deriving DecidableEq, Repr

structure Quota where
  enabled : Bool
  ops : Ops
  burst : Int
  maxEntries : Int

structure Route where
  hosts : List Bytes
  backends : List Bytes
  strategy : Bytes

structure Cfg where
  healthEnabled : Bool
  healthBind : Bytes
  bind : Bytes
  quotaConn : Quota
  quotaLogin : Quota
  trusted : List Bytes
  liteEnabled : Bool
  routes : List Route
  viaEnabled : Bool
  viaMode : Bytes
  viaBind : Bytes
  fwdMode : Bytes
  servers : List (Bytes × Bytes)           -- a Go map: each name once; list order = iteration order
  try_ : List Bytes
  forced : List (Bytes × List Bytes)       -- a Go map
  level : Int
  threshold : Int

inductive ErrKind where
  | healthBind | bindEmpty | bindInvalid | quotaOps | quotaBurst | quotaMax | trusted
  | liteNoRoutes | liteNoHost (i : Nat) | liteNoBackend (i : Nat) | liteStrategy (i : Nat)
  | liteAddr (i b : Nat)
  | viaMode | viaBind | fwdMode
  | serverName (n : Bytes) | serverAddr (n : Bytes)
  | tryUnknown (n : Bytes) | forcedUnknown (h n : Bytes)
  | compLevel | compThreshold
  deriving DecidableEq, Repr

def fwdModes : List Bytes :=
  [ascii Gate.Gen.C37.fwdNone, ascii Gate.Gen.C37.fwdLegacy, ascii Gate.Gen.C37.fwdVelocity,
   ascii Gate.Gen.C37.fwdBungeeGuard]
def strategies : List Bytes :=
  [ascii Gate.Gen.C37.stratSequential, ascii Gate.Gen.C37.stratRandom, ascii Gate.Gen.C37.stratRoundRobin,
   ascii Gate.Gen.C37.stratLeastConnections, ascii Gate.Gen.C37.stratLowestLatency]
def viaModes : List Bytes := [[], ascii "embedded", ascii "subprocess"]
def defaultTrusted : List Bytes := Gate.Gen.C37.defaultTrusted.map ascii

def healthErrs (c : Cfg) : List ErrKind :=
  if c.healthEnabled && !hostPortOk c.healthBind then [.healthBind] else []

def bindErrs (c : Cfg) : List ErrKind :=
  if allSpace c.bind then [.bindEmpty] else if hostPortOk c.bind then [] else [.bindInvalid]

/-- Go, before the fix: `quota.OPS <= 0` (false for NaN) -/
def Ops.leZero : Ops → Bool
  | .neg => true | .zero => true | _ => false

/-- Go, repaired: `!(quota.OPS > 0)` -/
def Ops.notPositive : Ops → Bool
  | .pos => false | .inf => false | _ => true

def quotaErrs (q : Quota) : List ErrKind :=
  if q.enabled then
    (if q.ops.notPositive then [.quotaOps] else []) ++
    (if q.burst < 1 then [.quotaBurst] else []) ++
    (if q.maxEntries < 1 then [.quotaMax] else [])
  else []

/-- the loop body as it was before fixes/C37-quota-ops-nan.diff -/
def quotaErrsDefective (q : Quota) : List ErrKind :=
  if q.enabled then
    (if q.ops.leZero then [.quotaOps] else []) ++
    (if q.burst < 1 then [.quotaBurst] else []) ++
    (if q.maxEntries < 1 then [.quotaMax] else [])
  else []

/-- `ResolveProxyProtocolTrustedProxies` -/
def resolveTrusted (configured : List Bytes) : List Bytes :=
  if configured.isEmpty then defaultTrusted else configured

/-- `ParseTrustedNetworks` fails on the first bad entry: one error whatever the number of bad entries -/
def trustedErrs (validNet : Bytes → Bool) (c : Cfg) : List ErrKind :=
  if (resolveTrusted c.trusted).all validNet then [] else [.trusted]

def backendErrs (i : Nat) : Nat → List Bytes → List ErrKind
  | _, [] => []
  | bi, a :: r =>
    (if !parseAddrOk a && !containsParams a then [.liteAddr i bi] else []) ++ backendErrs i (bi + 1) r

def routeErrs (i : Nat) (r : Route) : List ErrKind :=
  (if r.hosts.isEmpty then [.liteNoHost i] else []) ++
  (if r.backends.isEmpty then [.liteNoBackend i] else []) ++
  (if !strategies.contains r.strategy && !r.strategy.isEmpty then [.liteStrategy i] else []) ++
  -- the backend check sits inside `for hostIdx, host := range ep.Host`: once per host
  (r.hosts.flatMap fun _ => backendErrs i 0 r.backends)

def routesErrs : Nat → List Route → List ErrKind
  | _, [] => []
  | i, r :: rs => routeErrs i r ++ routesErrs (i + 1) rs

def liteErrs (c : Cfg) : List ErrKind :=
  if c.routes.isEmpty then [.liteNoRoutes] else routesErrs 0 c.routes

def viaErrs (c : Cfg) : List ErrKind :=
  if c.viaEnabled then
    (if viaModes.contains c.viaMode then [] else [.viaMode]) ++
    (if !c.viaBind.isEmpty && !hostPortOk c.viaBind then [.viaBind] else [])
  else []

def fwdErrs (c : Cfg) : List ErrKind := if fwdModes.contains c.fwdMode then [] else [.fwdMode]

def serverErrs : List (Bytes × Bytes) → List ErrKind
  | [] => []
  | (n, a) :: r =>
    (if validServerName n then [] else [.serverName n]) ++
    (if hostPortOk a then [] else [.serverAddr n]) ++ serverErrs r

def registered (c : Cfg) (n : Bytes) : Bool := c.servers.any (·.1 = n)

def tryErrs (c : Cfg) : List ErrKind :=
  c.try_.flatMap fun n => if registered c n then [] else [.tryUnknown n]

def forcedErrs (c : Cfg) : List ErrKind :=
  c.forced.flatMap fun hn => hn.2.flatMap fun n => if registered c n then [] else [.forcedUnknown hn.1 n]

def compErrs (c : Cfg) : List ErrKind :=
  (if c.level < -1 || c.level > 9 then [.compLevel] else []) ++
  (if c.threshold < -1 then [.compThreshold] else [])

def fullErrs (c : Cfg) : List ErrKind :=
  viaErrs c ++ fwdErrs c ++ serverErrs c.servers ++ tryErrs c ++ forcedErrs c ++ compErrs c

/-- `(*jconfig.Config).Validate` — errors, in source order (Lite mode returns early) -/
def validateJava (validNet : Bytes → Bool) (c : Cfg) : List ErrKind :=
  bindErrs c ++ quotaErrs c.quotaConn ++ quotaErrs c.quotaLogin ++ trustedErrs validNet c ++
  (if c.liteEnabled then liteErrs c else fullErrs c)

/-- `(*gate/config.Config).Validate` with bedrock and api disabled -/
def validate (validNet : Bytes → Bool) (c : Cfg) : List ErrKind :=
  healthErrs c ++ validateJava validNet c

end Gate.C37
