import GateModel.C37.Lemmas
/-
C37 — Validation accepts exactly the documented configuration space.

`validate` (Model.lean) mirrors the error-producing part of (*gate/config.Config).Validate →
(*java/config.Config).Validate → lite/config.Config.Validate; `Ok` (Spec.lean) is the documented
configuration space written as a predicate (grammars for host:port and server names, ranges, references,
the Lite/full-proxy split).  `validNet` — "this trusted-proxy entry is an IP address or CIDR block" — is a
parameter (netip parsing is external).  Property theorems only; helper lemmas are in Lemmas.lean.
The serialise-and-reload clause has no theorem (YAML/JSON libraries are not modelled): it is observed by
the harness only.
-/
namespace Gate.C37.Props
open Gate Gate.C37

/-! ### the two string grammars -/

/-- `validation.ValidHostPort` (net.SplitHostPort) accepts exactly  h ":" p  |  "[" h "]:" p -/
theorem hostport_grammar (s : Bytes) : hostPortOk s = true ↔ HostPort s := hostPortOk_iff s

/-- `validation.ValidServerName` accepts exactly  alnum | alnum ext* alnum  of 1..63 bytes -/
theorem servername_grammar (s : Bytes) : validServerName s = true ↔ ServerName s := validServerName_iff s

/-- a blank bind (`strings.TrimSpace(bind) == ""`) is never a host:port: "Bind is empty" and
    "Invalid bind" are the same documented constraint -/
theorem blank_is_not_hostport (s : Bytes) (h : allSpace s = true) : ¬ HostPort s := by
  rw [← hostPortOk_iff, allSpace_not_hostPort s h]; simp

/-! ### each group of checks is silent exactly when its documented constraint holds -/

theorem health_error_iff (c : Cfg) :
    healthErrs c = [] ↔ (c.healthEnabled = true → HostPort c.healthBind) := healthErrs_nil_iff c
theorem bind_error_iff (c : Cfg) : bindErrs c = [] ↔ HostPort c.bind := bindErrs_nil_iff c
/-- enabled quota: ops a number > 0, burst ≥ 1, maxEntries ≥ 1; a disabled quota is not looked at -/
theorem quota_error_iff (q : Quota) : quotaErrs q = [] ↔ QuotaOk q := quotaErrs_nil_iff q
/-- every entry of the effective list (the built-in defaults when none is configured), whether or not
    proxyProtocol is enabled -/
theorem trusted_error_iff (vn : Bytes → Bool) (c : Cfg) : trustedErrs vn c = [] ↔ TrustedOk vn c :=
  trustedErrs_nil_iff vn c
theorem lite_error_iff (c : Cfg) : liteErrs c = [] ↔ LiteOk c := liteErrs_nil_iff c
theorem via_error_iff (c : Cfg) : viaErrs c = [] ↔ ViaOk c := viaErrs_nil_iff c
theorem forwarding_error_iff (c : Cfg) : fwdErrs c = [] ↔ c.fwdMode ∈ fwdModes := fwdErrs_nil_iff c
theorem servers_error_iff (c : Cfg) :
    serverErrs c.servers = [] ↔ ∀ na ∈ c.servers, ServerName na.1 ∧ HostPort na.2 := serverErrs_nil_iff _
theorem try_error_iff (c : Cfg) : tryErrs c = [] ↔ ∀ n ∈ c.try_, Registered c n := tryErrs_nil_iff c
theorem forced_hosts_error_iff (c : Cfg) :
    forcedErrs c = [] ↔ ∀ hn ∈ c.forced, ∀ n ∈ hn.2, Registered c n := forcedErrs_nil_iff c
/-- level −1..9 and threshold ≥ −1 -/
theorem compression_error_iff (c : Cfg) :
    compErrs c = [] ↔ (-1 ≤ c.level ∧ c.level ≤ 9) ∧ -1 ≤ c.threshold := compErrs_nil_iff c

/-! ### the whole validation -/

/-- Validation reports no error exactly on the documented configuration space — for every configuration,
    every visiting order of the servers / forcedHosts maps, every `validNet`. -/
theorem validate_accepts_iff_ok (vn : Bytes → Bool) (c : Cfg) : validate vn c = [] ↔ Ok vn c := by
  unfold validate validateJava Ok
  simp only [List.append_eq_nil_iff, healthErrs_nil_iff, bindErrs_nil_iff, quotaErrs_nil_iff,
    trustedErrs_nil_iff, and_assoc]
  cases c.liteEnabled <;> simp [liteErrs_nil_iff, fullErrs_nil_iff]

/-- The other direction named: an error is reported exactly when some documented constraint is broken. -/
theorem validate_rejects_iff_broken (vn : Bytes → Bool) (c : Cfg) : validate vn c ≠ [] ↔ ¬ Ok vn c :=
  not_congr (validate_accepts_iff_ok vn c)

/-- Lite mode returns before the full-proxy checks: via, forwarding mode, servers, try, forced hosts and
    compression cannot produce an error (the code warns that they are ignored). -/
theorem lite_mode_skips_full_proxy_checks (vn : Bytes → Bool) (c : Cfg) (h : c.liteEnabled = true) :
    validateJava vn c =
      bindErrs c ++ quotaErrs c.quotaConn ++ quotaErrs c.quotaLogin ++ trustedErrs vn c ++ liteErrs c := by
  simp [validateJava, h]

/-- the executable oracle the driver evaluates on the implementation's verdict is the spec -/
theorem oracle_is_spec (vn : Bytes → Bool) (c : Cfg) : okClasses vn c = [] ↔ Ok vn c := okClasses_nil_iff vn c

/-! ### the defect that was repaired (fixes/C37-quota-ops-nan.diff) -/

/-- before the fix (`quota.OPS <= 0`) an enabled quota with ops = NaN was accepted -/
theorem quota_nan_fails : ¬ ∀ q : Quota, quotaErrsDefective q = [] ↔ QuotaOk q := by
  intro h
  have := (h ⟨true, .nan, 1, 1⟩).mp (by decide)
  have := (this rfl).1
  simp [Ops.positive] at this

/-- … and that was the only difference -/
theorem quota_defective_partial (q : Quota) (h : q.ops ≠ .nan) : quotaErrsDefective q = quotaErrs q := by
  unfold quotaErrsDefective quotaErrs
  cases ho : q.ops <;> simp_all [Ops.leZero, Ops.notPositive]

/-! ### source shape (regenerated from /repo on every run) -/

theorem validHostPort_is_splitHostPort : Gate.Gen.C37.validHostPortCalls = ["net.SplitHostPort", "return"] := by decide
theorem validServerName_shape :
    Gate.Gen.C37.validServerNameCalls = ["len", "qualifiedNameRegexp.MatchString", "return"] := by decide
theorem servername_regex : Gate.Gen.C37.nameRegex = "^([A-Za-z0-9][-A-Za-z0-9_.]*)?[A-Za-z0-9]$" := by decide
theorem servername_max : Gate.Gen.C37.nameMax = 63 := by decide
theorem netutil_split_shape :
    Gate.Gen.C37.netutilSplitCalls =
      ["net.SplitHostPort", "strconv.Atoi", "isMissingPortErr", "isTooManyColonsErr", "uint16", "return"] := by decide
theorem forwarding_switch_cases :
    Gate.Gen.C37.validateCases =
      ["NoneForwardingMode", "LegacyForwardingMode", "VelocityForwardingMode", "BungeeGuardForwardingMode", "default"] := by
  decide
theorem forwarding_mode_names :
    [Gate.Gen.C37.fwdNone, Gate.Gen.C37.fwdLegacy, Gate.Gen.C37.fwdVelocity, Gate.Gen.C37.fwdBungeeGuard]
      = ["none", "legacy", "velocity", "bungeeguard"] := by decide
theorem strategy_names :
    [Gate.Gen.C37.stratSequential, Gate.Gen.C37.stratRandom, Gate.Gen.C37.stratRoundRobin,
     Gate.Gen.C37.stratLeastConnections, Gate.Gen.C37.stratLowestLatency]
      = ["sequential", "random", "round-robin", "least-connections", "lowest-latency"] := by decide
theorem via_switch_cases : Gate.Gen.C37.viaCases = ["\"\"", "\"embedded\"", "\"subprocess\"", "default"] := by decide
theorem via_shape : Gate.Gen.C37.viaCalls = ["return", "e", "validation.ValidHostPort", "e"] := by decide
/-- order of the checks in (*java/config.Config).Validate, with the Lite early return before validateVia -/
theorem validate_order :
    Gate.Gen.C37.validateCalls.filter (fun c => c ∈
        ["strings.TrimSpace", "validation.ValidHostPort", "validation.ValidServerName", "validateProxyProtocol",
         "validateBackendFloodgate", "c.Lite.Validate", "validateVia", "return"])
      = ["return", "strings.TrimSpace", "validation.ValidHostPort", "validateProxyProtocol",
         "validateBackendFloodgate", "c.Lite.Validate", "return", "validateVia",
         "validation.ValidServerName", "validation.ValidHostPort", "return"] := by decide
theorem lite_validate_order :
    Gate.Gen.C37.liteCalls.filter (fun c => c ∈ ["slices.Contains", "netutil.Parse", "containsParameters", "return"])
      = ["return", "slices.Contains", "netutil.Parse", "containsParameters", "return"] := by decide
theorem trusted_proxies_shape :
    Gate.Gen.C37.proxyProtocolCalls.take 2 = ["ResolveProxyProtocolTrustedProxies", "netutil.ParseTrustedNetworks"] := by
  decide

/-! ### non-vacuity -/

private def baseCfg : Cfg := {
  healthEnabled := false, healthBind := ascii "0.0.0.0:9090", bind := ascii "0.0.0.0:25565",
  quotaConn := ⟨true, .pos, 10, 1000⟩, quotaLogin := ⟨true, .pos, 3, 1000⟩, trusted := [],
  liteEnabled := false, routes := [⟨[ascii "*.example.com"], [ascii "b1:25565"], []⟩],
  viaEnabled := false, viaMode := [], viaBind := [], fwdMode := ascii "legacy",
  servers := [(ascii "lobby", ascii "localhost:25566")], try_ := [ascii "lobby"],
  forced := [(ascii "play.example.com", [ascii "lobby"])], level := -1, threshold := 256 }

example : validate (fun _ => true) baseCfg = [] := by decide
example : Ok (fun _ => true) baseCfg := (validate_accepts_iff_ok _ _).mp (by decide)
example : validate (fun _ => true) { baseCfg with level := 10, try_ := [ascii "ghost"] }
    = [.tryUnknown (ascii "ghost"), .compLevel] := by decide
example : validate (fun _ => true) { baseCfg with liteEnabled := true, level := 10 } = [] := by decide
example : HostPort (ascii "[::1]:25565") := (hostport_grammar _).mp (by decide)
example : ¬ HostPort (ascii "::1:25565") := fun h => absurd ((hostport_grammar _).mpr h) (by decide)

end Gate.C37.Props
