import GateModel.Base.Line
import GateModel.C37.Spec
/-
C37 driver.  Case lines:
  val <cfg tokens>\t<sorted error kinds | ok>     (*gate/config.Config).Validate on the configuration
        model output: the model's error kinds, sorted; verdict: every documented constraint class is
        reported by the implementation iff the declarative spec says it is broken
  rt <cfg tokens>\t<same | diff:…>                 YAML and JSON serialise-and-reload of an ACCEPTED config
        (observed only: no model of yaml/json) — model output `same`, verdict ok iff same
  hp <hex>\t<ok h p | err class>                   net.SplitHostPort / validation.ValidHostPort
  name <hex>\t<0|1>                                validation.ValidServerName
  addr <hex>\t<0|1>                                netutil.Parse(addr,"tcp") == nil error
  space <hex>\t<0|1>                               strings.TrimSpace(s) == ""
cfg tokens (fixed order):
  h=<0|1>,<hex> bind=<hex> qc=<en>,<ops>,<burst>,<max> ql=… tp=<defaultsValid>|<hex>:<0|1>;… lite=<0|1>
  routes=<hosts>/<backends>/<strategy>;… via=<0|1>,<hex>,<hex> fwd=<hex> servers=<hex>:<hex>;… try=<hex>,…
  forced=<hex>:<hex>,…;… lvl=<int> thr=<int>          (`_` = empty list, `-` = empty string)
-/
namespace Gate.C37
open Gate

def val (s : String) : String := match s.splitOn "=" with | [_, v] => v | _ => ""
def listOf (sep : String) (s : String) : List String := if s = "_" then [] else s.splitOn sep
def hexList (sep : String) (s : String) : Option (List Bytes) := (listOf sep s).mapM parseHex
def bit (s : String) : Bool := s = "1"

def parseOps : String → Option Ops
  | "neg" => some .neg | "zero" => some .zero | "pos" => some .pos | "nan" => some .nan | "inf" => some .inf
  | _ => none

def parseQuota (s : String) : Option Quota :=
  match s.splitOn "," with
  | [e, o, b, m] => do pure ⟨bit e, ← parseOps o, ← b.toInt?, ← m.toInt?⟩
  | _ => none

def parseRoute (s : String) : Option Route :=
  match s.splitOn "/" with
  | [h, b, st] => do pure ⟨← hexList "," h, ← hexList "," b, ← parseHex st⟩
  | _ => none

def parsePair (s : String) : Option (Bytes × Bytes) :=
  match s.splitOn ":" with
  | [a, b] => do pure (← parseHex a, ← parseHex b)
  | _ => none

def parseForced (s : String) : Option (Bytes × List Bytes) :=
  match s.splitOn ":" with
  | [a, b] => do pure (← parseHex a, ← hexList "," b)
  | _ => none

structure Parsed where
  cfg : Cfg
  table : List (Bytes × Bool)
  defaultsValid : Bool

def parseCfg : List String → Option Parsed
  | [h, bind, qc, ql, tp, lite, routes, via, fwd, servers, try_, forced, lvl, thr] => do
    let (he, hb) ← match (val h).splitOn "," with | [a, b] => some (bit a, ← parseHex b) | _ => none
    let (dv, entries) ← match (val tp).splitOn "|" with | [a, b] => some (bit a, b) | _ => none
    let table ← (listOf ";" entries).mapM fun e => match e.splitOn ":" with
      | [x, f] => do pure (← parseHex x, bit f)
      | _ => none
    let (ve, vm, vb) ← match (val via).splitOn "," with
      | [a, b, c] => some (bit a, ← parseHex b, ← parseHex c) | _ => none
    let c : Cfg := {
      healthEnabled := he, healthBind := hb, bind := ← parseHex (val bind),
      quotaConn := ← parseQuota (val qc), quotaLogin := ← parseQuota (val ql),
      trusted := table.map (·.1), liteEnabled := bit (val lite),
      routes := ← (listOf ";" (val routes)).mapM parseRoute,
      viaEnabled := ve, viaMode := vm, viaBind := vb, fwdMode := ← parseHex (val fwd),
      servers := ← (listOf ";" (val servers)).mapM parsePair,
      try_ := ← hexList "," (val try_),
      forced := ← (listOf ";" (val forced)).mapM parseForced,
      level := ← (val lvl).toInt?, threshold := ← (val thr).toInt? }
    pure ⟨c, table, dv⟩
  | _ => none

def Parsed.validNet (p : Parsed) (e : Bytes) : Bool :=
  match p.table.find? (·.1 = e) with
  | some (_, f) => f
  | none => defaultTrusted.contains e && p.defaultsValid

def hx (b : Bytes) : String := toHex b

def ErrKind.token : ErrKind → String
  | .healthBind => "health-bind" | .bindEmpty => "bind-empty" | .bindInvalid => "bind-invalid"
  | .quotaOps => "quota-ops" | .quotaBurst => "quota-burst" | .quotaMax => "quota-max" | .trusted => "trusted"
  | .liteNoRoutes => "lite-noroutes" | .liteNoHost i => s!"lite-nohost:{i}" | .liteNoBackend i => s!"lite-nobackend:{i}"
  | .liteStrategy i => s!"lite-strategy:{i}" | .liteAddr i b => s!"lite-addr:{i}:{b}"
  | .viaMode => "via-mode" | .viaBind => "via-bind" | .fwdMode => "fwd-mode"
  | .serverName n => "server-name:" ++ hx n | .serverAddr n => "server-addr:" ++ hx n
  | .tryUnknown n => "try:" ++ hx n | .forcedUnknown h n => "forced:" ++ hx h ++ ":" ++ hx n
  | .compLevel => "comp-level" | .compThreshold => "comp-threshold"

def insertSorted (x : String) : List String → List String
  | [] => [x]
  | y :: r => if x < y then x :: y :: r else y :: insertSorted x r
def sortStrings (xs : List String) : List String := xs.foldl (fun acc x => insertSorted x acc) []

/-- constraint class of an implementation error token -/
def classOf (tok : String) : String :=
  let head := (tok.splitOn ":").headD ""
  match head with
  | "health-bind" => "health" | "bind-empty" => "bind" | "bind-invalid" => "bind"
  | "quota-ops" => "quota" | "quota-burst" => "quota" | "quota-max" => "quota"
  | "trusted" => "trusted" | "lite-noroutes" => "lite-routes" | "lite-nohost" => "lite-host"
  | "lite-nobackend" => "lite-backend" | "lite-strategy" => "lite-strategy" | "lite-addr" => "lite-addr"
  | "via-mode" => "via-mode" | "via-bind" => "via-bind" | "fwd-mode" => "fwd"
  | "server-name" => "server-name" | "server-addr" => "server-addr" | "try" => "try" | "forced" => "forced"
  | "comp-level" => "comp-level" | "comp-threshold" => "comp-threshold"
  | other => "unmodelled-" ++ other

def splitErrToken : SplitErr → String
  | .missingPort => "missing-port" | .tooManyColons => "too-many-colons" | .missingBracket => "missing-bracket"
  | .unexpectedOpen => "unexpected-open" | .unexpectedClose => "unexpected-close"

def b01 (b : Bool) : String := if b then "1" else "0"

def step (c : Case) : String × String :=
  match c.op, c.args with
  | "val", args =>
    match parseCfg args with
    | some p =>
      let errs := sortStrings ((validate p.validNet p.cfg).map ErrKind.token)
      let out := if errs.isEmpty then "ok" else ",".intercalate errs
      let implClasses := if c.impl = "ok" then [] else (c.impl.splitOn ",").map classOf
      let specClasses := okClasses p.validNet p.cfg
      let verdict :=
        match specClasses.find? (fun k => !implClasses.contains k) with
        | some k => "viol:" ++ k ++ "-accepted"
        | none => match implClasses.find? (fun k => !specClasses.contains k) with
          | some k => "viol:" ++ k ++ "-spurious"
          | none => "ok"
      (out, verdict)
    | none => ("bad-op", "-")
  | "rt", _ => ("same", if c.impl = "same" then "ok" else "viol:roundtrip-" ++ ((c.impl.splitOn ":").getD 1 "x"))
  | "hp", [h] =>
    match parseHex h with
    | some s =>
      let out := match splitHostPort s with
        | .ok (a, b) => "ok " ++ hx a ++ " " ++ hx b
        | .error e => "err " ++ splitErrToken e
      (out, if c.impl.startsWith "ok" = hostPortSpec s then "ok" else "viol:hostport-grammar")
    | none => ("bad-op", "-")
  | "name", [h] =>
    match parseHex h with
    | some s => (b01 (validServerName s), if c.impl = b01 (serverNameSpec s) then "ok" else "viol:servername-grammar")
    | none => ("bad-op", "-")
  | "addr", [h] =>
    match parseHex h with
    | some s => (b01 (parseAddrOk s), "-")
    | none => ("bad-op", "-")
  | "space", [h] =>
    match parseHex h with
    | some s => (b01 (allSpace s), "-")
    | none => ("bad-op", "-")
  | _, _ => ("bad-op", "-")

end Gate.C37

def main : IO Unit := Gate.runPureDriver Gate.C37.step
