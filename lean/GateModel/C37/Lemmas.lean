import GateModel.C37.Spec
/-
C37 — helper lemmas: the scanning functions against the grammars.
-/
namespace Gate.C37
open Gate

theorem has_nil (c : UInt8) : has c [] = false := rfl
theorem has_cons (c x : UInt8) (s : Bytes) : has c (x :: s) = (decide (x = c) || has c s) := by
  simp [has]
theorem has_append (c : UInt8) (a b : Bytes) : has c (a ++ b) = (has c a || has c b) := by
  simp [has]

/-! ### splitLast / splitFirst -/

theorem splitLast_none (c : UInt8) (s : Bytes) : splitLast c s = none ↔ has c s = false := by
  induction s with
  | nil => simp [splitLast, has]
  | cons x r ih =>
    simp only [splitLast, has_cons]
    cases h : splitLast c r with
    | some p => 
      have : has c r ≠ false := fun e => by rw [← ih] at e; simp [h] at e
      simp at this; simp [this]
    | none =>
      have hr := ih.mp h
      by_cases hx : x = c <;> simp [hx, hr]

theorem splitLast_some {c : UInt8} {s a b : Bytes} (h : splitLast c s = some (a, b)) :
    s = a ++ c :: b ∧ has c b = false := by
  induction s generalizing a b with
  | nil => simp [splitLast] at h
  | cons x r ih =>
    simp only [splitLast] at h
    cases hr : splitLast c r with
    | some p =>
      obtain ⟨a', b'⟩ := p
      rw [hr] at h
      simp only [Option.some.injEq, Prod.mk.injEq] at h
      obtain ⟨rfl, rfl⟩ := h
      obtain ⟨e, hb⟩ := ih hr
      exact ⟨by rw [e]; rfl, hb⟩
    | none =>
      rw [hr] at h
      by_cases hx : x = c
      · simp only [hx, if_true, Option.some.injEq, Prod.mk.injEq] at h
        obtain ⟨rfl, rfl⟩ := h
        exact ⟨by simp [hx], (splitLast_none c r).mp hr⟩
      · simp [hx] at h

theorem splitLast_intro (c : UInt8) (a b : Bytes) (hb : has c b = false) :
    splitLast c (a ++ c :: b) = some (a, b) := by
  induction a with
  | nil =>
    simp only [List.nil_append, splitLast, (splitLast_none c b).mpr hb, if_true]
  | cons x r ih => simp [splitLast, ih]

theorem splitFirst_some {c : UInt8} {s a b : Bytes} (h : splitFirst c s = some (a, b)) :
    s = a ++ c :: b ∧ has c a = false := by
  induction s generalizing a b with
  | nil => simp [splitFirst] at h
  | cons x r ih =>
    simp only [splitFirst] at h
    by_cases hx : x = c
    · simp only [hx, if_true, Option.some.injEq, Prod.mk.injEq] at h
      obtain ⟨rfl, rfl⟩ := h
      exact ⟨by simp [hx], rfl⟩
    · simp only [hx, if_false] at h
      cases hr : splitFirst c r with
      | none => simp [hr] at h
      | some p =>
        obtain ⟨a', b'⟩ := p
        rw [hr] at h
        simp only [Option.some.injEq, Prod.mk.injEq] at h
        obtain ⟨rfl, rfl⟩ := h
        obtain ⟨e, ha⟩ := ih hr
        exact ⟨by rw [e]; rfl, by simp [has_cons, hx, ha]⟩

theorem splitFirst_intro (c : UInt8) (a b : Bytes) (ha : has c a = false) :
    splitFirst c (a ++ c :: b) = some (a, b) := by
  induction a with
  | nil => simp [splitFirst]
  | cons x r ih =>
    simp only [has_cons, Bool.or_eq_false_iff, decide_eq_false_iff_not] at ha
    simp [splitFirst, ha.1, ih ha.2]


/-! ### net.SplitHostPort accepts exactly the HostPort grammar -/

theorem hostPortOk_of_grammar {s : Bytes} (h : HostPort s) : hostPortOk s = true := by
  cases h with
  | plain h p hh hp =>
    obtain ⟨hc, hl, hr⟩ := hh
    obtain ⟨pc, pl, pr⟩ := hp
    unfold lacks at *
    have hs : splitLast COLON (h ++ COLON :: p) = some (h, p) := splitLast_intro COLON h p pc
    unfold hostPortOk splitHostPort
    rw [hs]
    cases h with
    | nil =>
      have n1 : ¬ COLON = LBR := by decide
      have n2 : ¬ COLON = RBR := by decide
      simp [has_cons, n1, n2, pl, pr, hc]
    | cons x r =>
      simp only [has_cons, Bool.or_eq_false_iff, decide_eq_false_iff_not] at hl hc hr
      have n1 : ¬ COLON = LBR := by decide
      have n2 : ¬ COLON = RBR := by decide
      simp [has_cons, has_append, hl.1, hl.2, hc.1, hc.2, hr.1, hr.2, pl, pr, n1, n2]
  | bracketed h p hl hr hp =>
    obtain ⟨pc, pl, pr⟩ := hp
    unfold lacks at *
    have e : LBR :: (h ++ RBR :: COLON :: p) = (LBR :: (h ++ [RBR])) ++ COLON :: p := by simp
    have hs : splitLast COLON (LBR :: (h ++ RBR :: COLON :: p)) = some (LBR :: (h ++ [RBR]), p) := by
      rw [e]; exact splitLast_intro COLON _ p pc
    have hf : splitFirst RBR (h ++ RBR :: COLON :: p) = some (h, COLON :: p) := splitFirst_intro RBR h _ hr
    unfold hostPortOk splitHostPort
    rw [hs]
    have n1 : ¬ COLON = LBR := by decide
    have n2 : ¬ COLON = RBR := by decide
    have n3 : ¬ RBR = LBR := by decide
    simp [hf, has_append, has_cons, hl, pl, pr, n1, n2, n3]

theorem grammar_of_hostPortOk {s : Bytes} (h : hostPortOk s = true) : HostPort s := by
  unfold hostPortOk splitHostPort at h
  cases hs : splitLast COLON s with
  | none => simp [hs] at h
  | some pp =>
    obtain ⟨pre, port⟩ := pp
    obtain ⟨es, pc⟩ := splitLast_some hs
    rw [hs] at h
    cases s with
    | nil => simp at h
    | cons first body =>
      simp only at h
      by_cases hb : first = LBR
      · simp only [hb, if_true] at h
        cases hf : splitFirst RBR body with
        | none => simp [hf] at h
        | some ha =>
          obtain ⟨host, after⟩ := ha
          obtain ⟨eb, hr⟩ := splitFirst_some hf
          rw [hf] at h
          simp only at h
          by_cases h1 : after = [] <;> simp only [h1, if_true, if_false] at h
          · simp at h
          by_cases h2 : after = COLON :: port
          · simp only [h2, if_true] at h
            cases h3 : has LBR body <;> simp only [h3, if_true, Bool.false_eq_true, if_false] at h
            cases h4 : has RBR (COLON :: port) <;> simp only [h4, if_true, Bool.false_eq_true, if_false] at h
            subst hb
            rw [eb, h2] at h3
            rw [eb, h2]
            simp only [has_append, has_cons, Bool.or_eq_false_iff] at h3 h4
            exact HostPort.bracketed host port h3.1 hr ⟨pc, h3.2.2.2, h4.2⟩
          · simp only [h2, if_false] at h
            by_cases h5 : after.head? = some COLON <;> simp [h5] at h
      · simp only [hb, if_false] at h
        cases h1 : has COLON pre <;> simp only [h1, if_true, Bool.false_eq_true, if_false] at h
        cases h2 : has LBR (first :: body) <;> simp only [h2, if_true, Bool.false_eq_true, if_false] at h
        cases h3 : has RBR (first :: body) <;> simp only [h3, if_true, Bool.false_eq_true, if_false] at h
        rw [es] at h2 h3 ⊢
        simp only [has_append, has_cons, Bool.or_eq_false_iff] at h2 h3
        exact HostPort.plain pre port ⟨h1, h2.1, h3.1⟩ ⟨pc, h2.2.2, h3.2.2⟩

theorem hostPortOk_iff (s : Bytes) : hostPortOk s = true ↔ HostPort s :=
  ⟨grammar_of_hostPortOk, hostPortOk_of_grammar⟩


/-! ### ValidServerName accepts exactly the ServerName grammar -/

theorem nameMax_eq : nameMax = 63 := rfl

theorem isExt_of_isAlnum {b : UInt8} (h : isAlnum b = true) : isExt b = true := by simp [isExt, h]

theorem validServerName_of_grammar {s : Bytes} (h : ServerName s) : validServerName s = true := by
  cases h with
  | single a ha => simp [validServerName, ha, isExt_of_isAlnum ha, nameMax_eq]
  | multi a mid z ha hm hz hl =>
    have hall : (mid ++ [z]).all isExt = true := by
      simp only [List.all_append, List.all_cons, List.all_nil, Bool.and_true, Bool.and_eq_true, List.all_eq_true]
      exact ⟨hm, isExt_of_isAlnum hz⟩
    have hlast : (a :: (mid ++ [z])).getLast? = some z := by
      rw [← List.cons_append, List.getLast?_append]; simp
    simp only [validServerName, List.isEmpty_cons, Bool.not_false, Bool.true_and, List.head?_cons, hlast,
      List.all_cons, isExt_of_isAlnum ha, hall, ha, hz, Bool.and_true, decide_eq_true_eq]
    simp only [List.length_cons, List.length_append, List.length_nil]
    omega

theorem grammar_of_validServerName {s : Bytes} (h : validServerName s = true) : ServerName s := by
  cases s with
  | nil => simp [validServerName] at h
  | cons a r =>
    simp only [validServerName, List.isEmpty_cons, Bool.not_false, Bool.true_and, List.head?_cons,
      Bool.and_eq_true, decide_eq_true_eq, List.all_cons] at h
    obtain ⟨⟨⟨hlen, ha⟩, hlast⟩, _, hall⟩ := h
    by_cases hr : r = []
    · subst hr; exact ServerName.single a ha
    · have e : r = r.dropLast ++ [r.getLast hr] := (List.dropLast_concat_getLast hr).symm
      have hl : (a :: r).getLast? = some (r.getLast hr) := by
        rw [List.getLast?_cons_of_ne_nil hr] <;> simp [List.getLast?_eq_some_getLast hr]
      rw [hl] at hlast
      rw [e]
      refine ServerName.multi a r.dropLast (r.getLast hr) ha ?_ hlast ?_
      · intro b hb
        exact (List.all_eq_true.mp hall) b ((List.dropLast_sublist r).subset hb)
      · have : (a :: r).length = r.dropLast.length + 2 := by
          conv => lhs; rw [e]
          simp
        omega

theorem validServerName_iff (s : Bytes) : validServerName s = true ↔ ServerName s :=
  ⟨grammar_of_validServerName, validServerName_of_grammar⟩


/-! ### every group of checks reports nothing exactly when its documented constraint holds -/

theorem ite_nil_iff {α} {p : Prop} [Decidable p] (x : α) : (if p then [x] else ([] : List α)) = [] ↔ ¬ p := by
  by_cases h : p <;> simp [h]
theorem ite_nil_iff' {α} {p : Prop} [Decidable p] (x : α) : (if p then ([] : List α) else [x]) = [] ↔ p := by
  by_cases h : p <;> simp [h]

/-- whitespace never contains a colon, so a blank bind is not a host:port either -/
theorem spaceWidth_no_colon (s : Bytes) : has COLON (s.take (spaceWidth s)) = false := by
  cases s with
  | nil => rfl
  | cons b0 r =>
    unfold spaceWidth
    by_cases h0 : isAsciiSpace b0 = true
    · simp only [h0, if_true, List.take_succ_cons, List.take_zero, has_cons, has_nil, Bool.or_false,
        decide_eq_false_iff_not]
      intro e; subst e; simp [isAsciiSpace, COLON] at h0
    · simp only [h0, Bool.false_eq_true, if_false]
      cases r with
      | nil => rfl
      | cons b1 r2 =>
        simp only []
        by_cases h1 : isSpace2 b0 b1 = true
        · simp only [h1, if_true, List.take_succ_cons, List.take_zero, has_cons, has_nil, Bool.or_false,
            Bool.or_eq_false_iff, decide_eq_false_iff_not]
          constructor <;> (intro e; subst e; simp [isSpace2, COLON] at h1)
        · simp only [h1, Bool.false_eq_true, if_false]
          cases r2 with
          | nil => rfl
          | cons b2 r3 =>
            simp only []
            by_cases h2 : isSpace3 b0 b1 b2 = true
            · simp only [h2, if_true, List.take_succ_cons, List.take_zero, has_cons, has_nil, Bool.or_false,
                Bool.or_eq_false_iff, decide_eq_false_iff_not]
              refine ⟨?_, ?_, ?_⟩ <;> (intro e; subst e; simp [isSpace3, COLON] at h2)
            · simp only [h2, Bool.false_eq_true, if_false]; rfl

theorem allSpaceFuel_no_colon (n : Nat) (s : Bytes) (h : allSpaceFuel n s = true) : has COLON s = false := by
  induction n generalizing s with
  | zero =>
    cases s with
    | nil => rfl
    | cons b r => simp [allSpaceFuel] at h
  | succ n ih =>
    cases s with
    | nil => rfl
    | cons b r =>
      simp only [allSpaceFuel] at h
      have hw := spaceWidth_no_colon (b :: r)
      cases hsw : spaceWidth (b :: r) with
      | zero => simp [hsw] at h
      | succ w =>
        rw [hsw] at h hw
        simp only at h
        have := ih _ h
        rw [← List.take_append_drop (w + 1) (b :: r), has_append, hw, this]; rfl

theorem allSpace_not_hostPort (s : Bytes) (h : allSpace s = true) : hostPortOk s = false := by
  have hc := allSpaceFuel_no_colon _ _ h
  unfold hostPortOk splitHostPort
  rw [(splitLast_none COLON s).mpr hc]

theorem bindErrs_nil_iff (c : Cfg) : bindErrs c = [] ↔ HostPort c.bind := by
  unfold bindErrs
  rw [← hostPortOk_iff]
  cases hs : allSpace c.bind with
  | true => simp [allSpace_not_hostPort _ hs]
  | false => cases hostPortOk c.bind <;> simp

theorem healthErrs_nil_iff (c : Cfg) : healthErrs c = [] ↔ (c.healthEnabled = true → HostPort c.healthBind) := by
  unfold healthErrs
  rw [ite_nil_iff, ← hostPortOk_iff]
  cases c.healthEnabled <;> cases hostPortOk c.healthBind <;> simp

theorem quotaErrs_nil_iff (q : Quota) : quotaErrs q = [] ↔ QuotaOk q := by
  unfold quotaErrs QuotaOk
  cases q.enabled with
  | false => simp
  | true =>
    simp only [if_true, List.append_eq_nil_iff, ite_nil_iff, forall_const]
    have : q.ops.notPositive = true ↔ ¬ q.ops.positive = true := by
      cases q.ops <;> simp [Ops.notPositive, Ops.positive]
    rw [this]
    constructor
    · rintro ⟨⟨a, b⟩, c⟩; exact ⟨by simpa using a, by omega, by omega⟩
    · rintro ⟨a, b, c⟩; exact ⟨⟨by simpa using a, by omega⟩, by omega⟩

theorem trustedErrs_nil_iff (vn : Bytes → Bool) (c : Cfg) : trustedErrs vn c = [] ↔ TrustedOk vn c := by
  unfold trustedErrs TrustedOk
  rw [ite_nil_iff', List.all_eq_true]

theorem backendErrs_nil_iff (i k : Nat) (bs : List Bytes) :
    backendErrs i k bs = [] ↔ ∀ a ∈ bs, BackendOk a := by
  induction bs generalizing k with
  | nil => simp [backendErrs]
  | cons a r ih =>
    simp only [backendErrs, List.append_eq_nil_iff, ite_nil_iff, ih, List.mem_cons, forall_eq_or_imp, BackendOk]
    cases parseAddrOk a <;> cases containsParams a <;> simp

theorem contains_iff_mem (l : List Bytes) (x : Bytes) : l.contains x = true ↔ x ∈ l := by
  simp

theorem routeErrs_nil_iff (i : Nat) (r : Route) : routeErrs i r = [] ↔ RouteOk r := by
  unfold routeErrs RouteOk
  simp only [List.append_eq_nil_iff, ite_nil_iff, List.flatMap_eq_nil_iff, backendErrs_nil_iff]
  constructor
  · rintro ⟨⟨⟨h1, h2⟩, h3⟩, h4⟩
    have hh : r.hosts ≠ [] := by simpa using h1
    refine ⟨hh, by simpa using h2, ?_, ?_⟩
    · by_cases hs : r.strategy = []
      · exact Or.inl hs
      · right
        have := h3
        simp only [Bool.and_eq_true, Bool.not_eq_true', not_and, Bool.not_eq_false] at this
        by_cases hc : strategies.contains r.strategy = true
        · exact (contains_iff_mem _ _).mp hc
        · have hc' : strategies.contains r.strategy = false := by simpa using hc
          have := this hc'
          simp [List.isEmpty_iff, hs] at this
    · obtain ⟨h, hr⟩ := List.exists_cons_of_ne_nil hh
      obtain ⟨t, ht⟩ := hr
      exact h4 h (by rw [ht]; simp)
  · rintro ⟨h1, h2, h3, h4⟩
    refine ⟨⟨⟨by simpa using h1, by simpa using h2⟩, ?_⟩, fun _ _ => h4⟩
    rcases h3 with h3 | h3
    · simp [h3]
    · simp [h3]

theorem routesErrs_nil_iff (i : Nat) (rs : List Route) : routesErrs i rs = [] ↔ ∀ r ∈ rs, RouteOk r := by
  induction rs generalizing i with
  | nil => simp [routesErrs]
  | cons r t ih => simp [routesErrs, routeErrs_nil_iff, ih]

theorem liteErrs_nil_iff (c : Cfg) : liteErrs c = [] ↔ LiteOk c := by
  unfold liteErrs LiteOk
  cases h : c.routes with
  | nil => simp
  | cons r t => simp [routesErrs_nil_iff]

theorem viaErrs_nil_iff (c : Cfg) : viaErrs c = [] ↔ ViaOk c := by
  unfold viaErrs ViaOk
  cases c.viaEnabled with
  | false => simp
  | true =>
    simp only [if_true, List.append_eq_nil_iff, ite_nil_iff, ite_nil_iff', forall_const, contains_iff_mem,
      ← hostPortOk_iff]
    cases hb : c.viaBind with
    | nil => simp
    | cons x t => cases hostPortOk (x :: t) <;> simp

theorem fwdErrs_nil_iff (c : Cfg) : fwdErrs c = [] ↔ c.fwdMode ∈ fwdModes := by
  unfold fwdErrs; rw [ite_nil_iff', contains_iff_mem]

theorem serverErrs_nil_iff (l : List (Bytes × Bytes)) :
    serverErrs l = [] ↔ ∀ na ∈ l, ServerName na.1 ∧ HostPort na.2 := by
  induction l with
  | nil => simp [serverErrs]
  | cons na t ih =>
    obtain ⟨n, a⟩ := na
    simp only [serverErrs, List.append_eq_nil_iff, ite_nil_iff', ih, List.mem_cons, forall_eq_or_imp,
      validServerName_iff, hostPortOk_iff, and_assoc]

theorem registered_iff (c : Cfg) (n : Bytes) : registered c n = true ↔ Registered c n := by
  unfold registered Registered
  simp only [List.any_eq_true, decide_eq_true_eq]
  constructor
  · rintro ⟨⟨n', a⟩, hm, rfl⟩; exact ⟨a, hm⟩
  · rintro ⟨a, hm⟩; exact ⟨(n, a), hm, rfl⟩

theorem tryErrs_nil_iff (c : Cfg) : tryErrs c = [] ↔ ∀ n ∈ c.try_, Registered c n := by
  unfold tryErrs
  simp only [List.flatMap_eq_nil_iff, ite_nil_iff', registered_iff]

theorem forcedErrs_nil_iff (c : Cfg) : forcedErrs c = [] ↔ ∀ hn ∈ c.forced, ∀ n ∈ hn.2, Registered c n := by
  unfold forcedErrs
  simp only [List.flatMap_eq_nil_iff, ite_nil_iff', registered_iff]

theorem compErrs_nil_iff (c : Cfg) :
    compErrs c = [] ↔ (-1 ≤ c.level ∧ c.level ≤ 9) ∧ -1 ≤ c.threshold := by
  unfold compErrs
  simp only [List.append_eq_nil_iff, ite_nil_iff, Bool.or_eq_true, decide_eq_true_eq]
  omega

theorem fullErrs_nil_iff (c : Cfg) : fullErrs c = [] ↔ FullOk c := by
  unfold fullErrs FullOk
  simp only [List.append_eq_nil_iff, viaErrs_nil_iff, fwdErrs_nil_iff, serverErrs_nil_iff, tryErrs_nil_iff,
    forcedErrs_nil_iff, compErrs_nil_iff, and_assoc]


/-! ### the driver's oracle is the declarative spec -/

theorem quotaClasses_nil_iff (q : Quota) : quotaClasses q = [] ↔ QuotaOk q := by
  unfold quotaClasses QuotaOk
  rw [ite_nil_iff]
  cases q.enabled <;> simp [and_assoc]

theorem any_bad_false_iff (bs : List Bytes) :
    (bs.any (fun a => !(parseAddrOk a || containsParams a)) = false) ↔ ∀ a ∈ bs, BackendOk a := by
  induction bs with
  | nil => simp
  | cons a t ih =>
    simp only [List.any_cons, Bool.or_eq_false_iff, ih, List.mem_cons, forall_eq_or_imp, BackendOk]
    cases parseAddrOk a <;> cases containsParams a <;> simp

theorem routeClasses_nil_iff (r : Route) : routeClasses r = [] ↔ RouteOk r := by
  unfold routeClasses RouteOk
  simp only [List.append_eq_nil_iff, ite_nil_iff, ite_nil_iff', and_assoc]
  have h1 : (¬ r.hosts.isEmpty = true) ↔ r.hosts ≠ [] := by simp [List.isEmpty_iff]
  have h2 : (¬ r.backends.isEmpty = true) ↔ r.backends ≠ [] := by simp [List.isEmpty_iff]
  have h3 : ((r.strategy.isEmpty || strategies.contains r.strategy) = true) ↔
      (r.strategy = [] ∨ r.strategy ∈ strategies) := by
    rw [Bool.or_eq_true, contains_iff_mem, List.isEmpty_iff]
  rw [h1, h2, h3]
  constructor
  · rintro ⟨a, b, c, d⟩
    refine ⟨a, b, c, (any_bad_false_iff _).mp ?_⟩
    have : r.hosts.isEmpty = false := by simpa [List.isEmpty_iff] using a
    simpa [this] using d
  · rintro ⟨a, b, c, d⟩
    refine ⟨a, b, c, ?_⟩
    rw [(any_bad_false_iff _).mpr d]; simp

theorem okClasses_nil_iff (vn : Bytes → Bool) (c : Cfg) : okClasses vn c = [] ↔ Ok vn c := by
  unfold okClasses Ok
  simp only [List.append_eq_nil_iff, quotaClasses_nil_iff, ite_nil_iff, ite_nil_iff', and_assoc]
  rw [← hostPortOk_iff, ← hostPortOk_iff]
  have hh : (¬(c.healthEnabled && !hostPortOk c.healthBind) = true) ↔
      (c.healthEnabled = true → hostPortOk c.healthBind = true) := by
    cases c.healthEnabled <;> cases hostPortOk c.healthBind <;> simp
  rw [hh]
  have ht : ((resolveTrusted c.trusted).all vn = true) ↔ TrustedOk vn c := by
    unfold TrustedOk; rw [List.all_eq_true]
  rw [ht]
  cases hl : c.liteEnabled with
  | true =>
    simp only [if_true]
    unfold LiteOk
    cases hr : c.routes with
    | nil => simp
    | cons r t => simp [List.flatMap_eq_nil_iff, routeClasses_nil_iff]
  | false =>
    simp only [Bool.false_eq_true, if_false, List.append_eq_nil_iff, ite_nil_iff, ite_nil_iff', and_assoc]
    unfold FullOk ViaOk
    have hv : (¬(c.viaEnabled && !viaModes.contains c.viaMode) = true ∧
        ¬(c.viaEnabled && !c.viaBind.isEmpty && !hostPortOk c.viaBind) = true) ↔
        (c.viaEnabled = true → c.viaMode ∈ viaModes ∧ (c.viaBind ≠ [] → HostPort c.viaBind)) := by
      rw [← hostPortOk_iff, ← contains_iff_mem]
      cases c.viaEnabled <;> cases viaModes.contains c.viaMode <;> cases hb : c.viaBind <;>
        cases hostPortOk c.viaBind <;> simp_all
    have hs : (c.servers.all (fun na => validServerName na.1) = true ∧
        c.servers.all (fun na => hostPortOk na.2) = true) ↔
        ∀ na ∈ c.servers, ServerName na.1 ∧ HostPort na.2 := by
      simp only [List.all_eq_true, validServerName_iff, hostPortOk_iff]
      exact ⟨fun ⟨a, b⟩ na h => ⟨a na h, b na h⟩, fun h => ⟨fun na m => (h na m).1, fun na m => (h na m).2⟩⟩
    have htry : (c.try_.all (fun n => c.servers.any (·.1 = n)) = true) ↔ ∀ n ∈ c.try_, Registered c n := by
      simp only [List.all_eq_true]
      exact forall_congr' fun n => imp_congr_right fun _ => registered_iff c n
    have hf : (c.forced.all (fun hn => hn.2.all fun n => c.servers.any (·.1 = n)) = true) ↔
        ∀ hn ∈ c.forced, ∀ n ∈ hn.2, Registered c n := by
      simp only [List.all_eq_true]
      exact forall_congr' fun hn => imp_congr_right fun _ => forall_congr' fun n =>
        imp_congr_right fun _ => registered_iff c n
    have hc : ((decide (-1 ≤ c.level) && decide (c.level ≤ 9)) = true ∧ decide (-1 ≤ c.threshold) = true) ↔
        ((-1 ≤ c.level ∧ c.level ≤ 9) ∧ -1 ≤ c.threshold) := by simp
    rw [← hv, ← hs, ← htry, ← hf, ← hc, contains_iff_mem]
    simp only [and_assoc]

end Gate.C37
