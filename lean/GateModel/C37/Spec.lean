import GateModel.C37.Model
/-
C37 — the documented configuration space as a declarative predicate `Ok` (Prop) and its executable
counterpart `okClasses` used by the driver as oracle on the implementation's output.

The grammars are written without indices or scanning state:
  HostPort   :  h ":" p            h, p free of ':' '[' ']'
             |  "[" h "]:" p       h free of '[' ']', p free of ':' '[' ']'
  ServerName :  alnum | alnum ext* alnum,   1..63 bytes,  ext = alnum | '-' | '_' | '.'
Core Lean only.
-/
namespace Gate.C37
open Gate

/-- `s` does not contain the byte `c` -/
def lacks (c : UInt8) (s : Bytes) : Prop := has c s = false

/-- none of ':' '[' ']' -/
def plainPart (s : Bytes) : Prop := lacks COLON s ∧ lacks LBR s ∧ lacks RBR s

inductive HostPort : Bytes → Prop where
  | plain (h p : Bytes) : plainPart h → plainPart p → HostPort (h ++ COLON :: p)
  | bracketed (h p : Bytes) : lacks LBR h → lacks RBR h → plainPart p →
      HostPort (LBR :: (h ++ RBR :: COLON :: p))

inductive ServerName : Bytes → Prop where
  | single (a : UInt8) : isAlnum a = true → ServerName [a]
  | multi (a : UInt8) (mid : Bytes) (z : UInt8) : isAlnum a = true → (∀ b ∈ mid, isExt b = true) →
      isAlnum z = true → mid.length + 2 ≤ nameMax → ServerName (a :: (mid ++ [z]))

/-- "use a number > 0" -/
def Ops.positive : Ops → Bool
  | .pos => true | .inf => true | _ => false

def QuotaOk (q : Quota) : Prop :=
  q.enabled = true → q.ops.positive = true ∧ 1 ≤ q.burst ∧ 1 ≤ q.maxEntries

def TrustedOk (validNet : Bytes → Bool) (c : Cfg) : Prop :=
  ∀ e ∈ resolveTrusted c.trusted, validNet e = true

/-- a Lite backend is `host`, `host:port` with a numeric port, or contains `$n` placeholders
    (netutil.Parse semantics — see `parseAddrOk`) -/
def BackendOk (a : Bytes) : Prop := parseAddrOk a = true ∨ containsParams a = true

def RouteOk (r : Route) : Prop :=
  r.hosts ≠ [] ∧ r.backends ≠ [] ∧ (r.strategy = [] ∨ r.strategy ∈ strategies) ∧ ∀ a ∈ r.backends, BackendOk a

def LiteOk (c : Cfg) : Prop := c.routes ≠ [] ∧ ∀ r ∈ c.routes, RouteOk r

def ViaOk (c : Cfg) : Prop :=
  c.viaEnabled = true → c.viaMode ∈ viaModes ∧ (c.viaBind ≠ [] → HostPort c.viaBind)

def Registered (c : Cfg) (n : Bytes) : Prop := ∃ a, (n, a) ∈ c.servers

def FullOk (c : Cfg) : Prop :=
  ViaOk c ∧ c.fwdMode ∈ fwdModes ∧
  (∀ na ∈ c.servers, ServerName na.1 ∧ HostPort na.2) ∧
  (∀ n ∈ c.try_, Registered c n) ∧
  (∀ hn ∈ c.forced, ∀ n ∈ hn.2, Registered c n) ∧
  (-1 ≤ c.level ∧ c.level ≤ 9) ∧ -1 ≤ c.threshold

/-- the documented configuration space -/
def Ok (validNet : Bytes → Bool) (c : Cfg) : Prop :=
  (c.healthEnabled = true → HostPort c.healthBind) ∧
  HostPort c.bind ∧ QuotaOk c.quotaConn ∧ QuotaOk c.quotaLogin ∧ TrustedOk validNet c ∧
  (if c.liteEnabled then LiteOk c else FullOk c)

/-! ### executable oracles
`hostPortSpec` / `serverNameSpec`: independent transcriptions of the two grammars, used for the `hp` / `name`
lines (cross-check only, not proved). -/

def count (c : UInt8) (s : Bytes) : Nat := (s.filter (· = c)).length

def hostPortSpec (s : Bytes) : Bool :=
  match s with
  | 91 :: rest =>
    let h := rest.takeWhile (· ≠ RBR)
    match rest.dropWhile (· ≠ RBR) with
    | 93 :: 58 :: p => !has LBR h && !has COLON p && !has LBR p && !has RBR p
    | _ => false
  | _ => count COLON s = 1 && !has LBR s && !has RBR s

def serverNameSpec (s : Bytes) : Bool :=
  match s with
  | [] => false
  | [a] => isAlnum a
  | a :: r => isAlnum a && (match r.getLast? with | some z => isAlnum z | none => false) &&
      r.dropLast.all isExt && decide (s.length ≤ 63)

def quotaClasses (q : Quota) : List String :=
  if q.enabled && !(q.ops.positive && decide (1 ≤ q.burst) && decide (1 ≤ q.maxEntries)) then ["quota"] else []

def routeClasses (r : Route) : List String :=
  (if r.hosts.isEmpty then ["lite-host"] else []) ++
  (if r.backends.isEmpty then ["lite-backend"] else []) ++
  (if r.strategy.isEmpty || strategies.contains r.strategy then [] else ["lite-strategy"]) ++
  (if !r.hosts.isEmpty && r.backends.any (fun a => !(parseAddrOk a || containsParams a)) then ["lite-addr"] else [])

/-- Names of the documented constraints a configuration breaks (the driver's oracle for `val` lines).
    Written constraint by constraint — no error list, no source order, no early return — over the atoms
    `hostPortOk` / `validServerName`, which `Props` proves equal to the grammars above.
    `Props.okClasses_nil_iff`: it is empty exactly on `Ok`. -/
def okClasses (validNet : Bytes → Bool) (c : Cfg) : List String :=
  (if c.healthEnabled && !hostPortOk c.healthBind then ["health"] else []) ++
  (if hostPortOk c.bind then [] else ["bind"]) ++
  quotaClasses c.quotaConn ++ quotaClasses c.quotaLogin ++
  (if (resolveTrusted c.trusted).all validNet then [] else ["trusted"]) ++
  (if c.liteEnabled then
    (if c.routes.isEmpty then ["lite-routes"] else c.routes.flatMap routeClasses)
   else
    (if c.viaEnabled && !viaModes.contains c.viaMode then ["via-mode"] else []) ++
    (if c.viaEnabled && !c.viaBind.isEmpty && !hostPortOk c.viaBind then ["via-bind"] else []) ++
    (if fwdModes.contains c.fwdMode then [] else ["fwd"]) ++
    (if c.servers.all (fun na => validServerName na.1) then [] else ["server-name"]) ++
    (if c.servers.all (fun na => hostPortOk na.2) then [] else ["server-addr"]) ++
    (if c.try_.all (fun n => c.servers.any (·.1 = n)) then [] else ["try"]) ++
    (if c.forced.all (fun hn => hn.2.all fun n => c.servers.any (·.1 = n)) then [] else ["forced"]) ++
    (if decide (-1 ≤ c.level) && decide (c.level ≤ 9) then [] else ["comp-level"]) ++
    (if decide (-1 ≤ c.threshold) then [] else ["comp-threshold"]))

end Gate.C37
