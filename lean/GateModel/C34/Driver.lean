import GateModel.Base.Line
import GateModel.C34.Spec
/-
C34 driver (stateful).  Case lines `<op> <args…>\t<impl-output>`:

  ipkey  <texthex> <parsed16|nil>                 model: hex of the key string `ipKey` returns
  samekey <textA> <parsedA> <textB> <parsedB>     model: 1 iff both keys are non-empty and equal; spec: sameGroup
  cnew <interval>                                 new counter
  cadd <now> <count>                              updateAndAdd; model prints the whole ring state (digest);
                                                  spec: total = windowSum of the history (monotone histories)
  cexp <now> / cput <now> <count>                 expire / add alone (correspondence only)
  lnew <pps> <bps> <window>                       packetlimiter.New
  lacct <now> <bytes>                             Account; `now` is the clock value the real call used
                                                  (recovered from the counter: minTime + interval);
                                                  spec: closes iff window count/sum exceeds rate × window
  qnew <num> <den> <burst> <maxEntries>           NewQuota(eps = num/den, burst, maxEntries)
  qblk <t> <texthex> <parsed16|nil>               Blocked at (nominal) time t; spec: per-group bucket, while no
                                                  eviction can have happened (distinct groups ≤ maxEntries)
  qconc 0 1 <burst> <maxEntries> <workers> <per> <rounds> <witnessgrouphex|-> <witnessAllowed>
                                                  rate 0; per round `workers` goroutines hit one FRESH group at once with `per`
                                                  attempts each; impl `min=<a> max=<b>` of allowed-per-group over the rounds;
                                                  spec: max ≤ burst (the witness group is the replay input)
  qrt <num> <den> <burst> <attempts> <allowed> <elapsedNs>   real-time run on one group: spec only,
                                                  allowed ≤ burst + rate × elapsed (+1 token slack for float rounding)
-/
namespace Gate.C34
open Gate

def cksM : Int := 1000000007
def cks (xs : List Int) : Int :=
  (xs.foldl (fun (acc : Int × Int) x => ((acc.1 + (x % cksM) * acc.2) % cksM, acc.2 + 1)) (0, 1)).1

def showCounter (c : Counter) : String :=
  s!"s={c.total} h={c.head} t={c.tail} n={c.times.length} m={c.minTime} ct={cks c.times} cc={cks c.counts}"

def parseAddr (s : String) : Option (Option Bytes) :=
  if s = "nil" then some none else (parseHex s).map some

structure St where
  ctr      : Counter := newCounter 0
  ctrHist  : List Ev := []          -- reversed
  ctrMono  : Bool := true
  ctrPure  : Bool := true           -- only `cadd` so far
  lim      : Option Limiter := none
  limWin   : Int := 0
  limHist  : List Ev := []          -- reversed
  limMono  : Bool := true
  limAllOk : Bool := true
  qcfg     : QCfg := ⟨0, 1, 0, 0⟩
  cache    : Cache := []
  spec     : SpecQuota := []
  groups   : List Bytes := []

def lastT (h : List Ev) : Option Int := h.head?.map (·.1)

def step (s : St) (c : Case) : St × String × String :=
  match c.op, c.args with
  | "reset", _ => ({}, "ok", "-")
  | "ipkey", [_, p] =>
    match parseAddr p with
    | some a => (s, toHex (ipKeyString a).toUTF8.toList, "-")
    | none => (s, "bad-op", "-")
  | "samekey", [_, pa, _, pb] =>
    match parseAddr pa, parseAddr pb with
    | some a, some b =>
      let same := match ipKeyBytes a, ipKeyBytes b with
        | some x, some y => x == y | _, _ => false
      let want := match a, b with
        | some x, some y => sameGroup x y | _, _ => false
      (s, if same then "1" else "0",
       if c.impl = (if want then "1" else "0") then "ok" else "viol:bucket")
    | _, _ => (s, "bad-op", "-")
  | "cnew", [iv] =>
    match iv.toInt? with
    | some iv => ({ s with ctr := newCounter iv, ctrHist := [], ctrMono := true, ctrPure := true }, "ok", "-")
    | none => (s, "bad-op", "-")
  | "cadd", [now, cnt] =>
    match now.toInt?, cnt.toInt? with
    | some now, some cnt =>
      let ctr := s.ctr.updateAndAdd cnt now
      let mono := s.ctrMono && (match lastT s.ctrHist with | some t => decide (t ≤ now) | none => true)
      let hist := (now, cnt) :: s.ctrHist
      let verdict :=
        if mono && s.ctrPure && decide (0 ≤ ctr.interval) then
          let want := windowSum ctr.interval hist.reverse now
          if c.impl.startsWith (s!"s={want} ") then "ok" else "viol:window-sum"
        else "-"
      ({ s with ctr, ctrHist := hist, ctrMono := mono }, showCounter ctr, verdict)
    | _, _ => (s, "bad-op", "-")
  | "cexp", [now] =>
    match now.toInt? with
    | some now => let ctr := s.ctr.expire now; ({ s with ctr, ctrPure := false }, showCounter ctr, "-")
    | none => (s, "bad-op", "-")
  | "cput", [now, cnt] =>
    match now.toInt?, cnt.toInt? with
    | some now, some cnt => let ctr := s.ctr.add now cnt; ({ s with ctr, ctrPure := false }, showCounter ctr, "-")
    | _, _ => (s, "bad-op", "-")
  | "lnew", [pps, bps, win] =>
    match pps.toInt?, bps.toInt?, win.toInt? with
    | some pps, some bps, some win =>
      let l := Limiter.new pps bps win
      ({ s with lim := l, limWin := win, limHist := [], limMono := true, limAllOk := true },
       if l.isSome then "ok" else "nil", "-")
    | _, _, _ => (s, "bad-op", "-")
  | "lacct", [now, bytes] =>
    match now.toInt?, bytes.toInt?, s.lim with
    | some now, some bytes, some l =>
      let (l', ok) := l.account now bytes
      let mono := s.limMono && (match lastT s.limHist with | some t => decide (t ≤ now) | none => true)
      let hist := (now, bytes) :: s.limHist
      let sh := fun (o : Option Counter) => match o with | some k => toString k.total | none => "-"
      let out := s!"{if ok then 1 else 0} p={sh l'.packets} b={sh l'.bytes}"
      let verdict :=
        if mono && s.limAllOk then
          let closes := closesSpec l.pps l.bps s.limWin hist.reverse now
          if c.impl.startsWith (if closes then "0 " else "1 ") then "ok" else "viol:account"
        else "-"
      ({ s with lim := some l', limHist := hist, limMono := mono, limAllOk := s.limAllOk && ok }, out, verdict)
    | some _, some _, none => (s, "1 p=- b=-", if c.impl.startsWith "1 " then "ok" else "viol:account")
    | _, _, _ => (s, "bad-op", "-")
  | "qnew", [num, den, burst, mx] =>
    match num.toNat?, den.toNat?, burst.toNat?, mx.toInt? with
    | some num, some den, some burst, some mx =>
      ({ s with qcfg := ⟨num, den, burst, mx⟩, cache := [], spec := [], groups := [] }, "ok", "-")
    | _, _, _, _ => (s, "bad-op", "-")
  | "qblk", [t, _, p] =>
    match t.toInt?, parseAddr p with
    | some t, some a =>
      let key := ipKeyBytes a
      let (cache, blocked) := s.qcfg.blocked s.cache t key
      match a with
      | none => ({ s with cache }, if blocked then "1" else "0", if c.impl = "0" then "ok" else "viol:quota")
      | some ip =>
        -- reference: group representative computed by the spec's own notion of group
        let grp := if isV4 ip then (ip.drop 12).take 3 else ip.take 8
        let groups := if s.groups.contains grp then s.groups else grp :: s.groups
        let (spec, want) := specBlocked s.qcfg s.spec t grp
        let applies := decide (s.qcfg.maxEntries = 0) || decide ((groups.length : Int) ≤ s.qcfg.maxEntries)
        ({ s with cache, spec, groups }, if blocked then "1" else "0",
         if applies then (if c.impl = (if want then "1" else "0") then "ok" else "viol:quota") else "-")
    | _, _ => (s, "bad-op", "-")
  | "qconc", [_, _, burst, _, workers, per, _, _, _] =>
    match burst.toNat?, workers.toNat?, per.toNat? with
    | some burst, some workers, some per =>
      -- rate 0, one fresh group per round, `workers * per` concurrent attempts: every linearisation of the
      -- atomic get-or-create + Allow lets exactly min(attempts, burst) through (Props.concurrent_first_contact_bound)
      let e := min (workers * per) burst
      let maxA := match c.impl.splitOn " max=" with | [_, m] => m.toNat? | _ => none
      (s, s!"min={e} max={e}",
       match maxA with
       | some m => if m ≤ burst then "ok" else "viol:quota-concurrent-overadmit"
       | none => "viol:quota-concurrent-overadmit")
    | _, _, _ => (s, "bad-op", "-")
  | "qrt", [num, den, burst, _, allowed, elapsed] =>
    match num.toNat?, den.toNat?, burst.toNat?, allowed.toNat?, elapsed.toNat? with
    | some num, some den, some burst, some allowed, some elapsed =>
      let unit : Nat := den * 1000000000
      (s, "rt", if allowed * unit ≤ (burst + 1) * unit + num * elapsed then "ok" else "viol:quota-bound")
    | _, _, _, _, _ => (s, "bad-op", "-")
  | _, _ => (s, "bad-op", "-")

end Gate.C34

def main : IO Unit := Gate.runDriver ({} : Gate.C34.St) Gate.C34.step
