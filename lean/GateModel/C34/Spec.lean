import GateModel.C34.Model
/-
C34 — executable reference specifications (what the property says), independent of the ring buffer,
the LRU and the masking code:

* `windowSum`: the straightforward sliding-window count — sum of the sizes of all events whose
  timestamp lies in the trailing window `[now - interval, now]`.
* `closesSpec`: a connection is closed exactly when packets or bytes counted in the trailing window
  exceed rate × window.
* `sameGroup`: two addresses share a quota bucket iff both are IPv4 (incl. IPv4-mapped) in the same
  /24, or both are IPv6 in the same /64.
* `SpecQuota`: one token bucket per group, never forgotten (`burst + rate × elapsed`).
-/
namespace Gate.C34
open Gate

/-- events in arrival order: (timestamp, size) -/
abbrev Ev := Int × Int

def inWindow (iv now : Int) (e : Ev) : Bool := decide (now - iv ≤ e.1)

def windowSum (iv : Int) (evs : List Ev) (now : Int) : Int :=
  ((evs.filter (inWindow iv now)).map (·.2)).sum

def windowCount (iv : Int) (evs : List Ev) (now : Int) : Int :=
  ((evs.filter (inWindow iv now)).length : Int)

/-- timestamps arrive in non-decreasing order -/
def Mono (evs : List Ev) : Prop := evs.Pairwise (fun a b => a.1 ≤ b.1)

/-- `rate × window` exceeded, exactly: `n / (iv ns) > perSecond / (10^9 ns)` -/
def over (n perSecond iv : Int) : Bool := decide (n * 1000000000 > perSecond * iv)

/-- the property's verdict for the event just recorded at `now` (history `evs` includes it) -/
def closesSpec (pps bps iv : Int) (evs : List Ev) (now : Int) : Bool :=
  (decide (pps > 0) && over (windowCount iv evs now) pps iv) ||
  (decide (bps > 0) && over (windowSum iv evs now) bps iv)

/-! ### address groups (on the 16-byte form) -/

def isV4 (a : Bytes) : Bool := a.take 10 == List.replicate 10 0 && (a.drop 10).take 2 == [0xff, 0xff]

/-- first `n` bits equal, for `n` a multiple of 8 -/
def samePrefixBytes (n : Nat) (a b : Bytes) : Bool := a.take n == b.take n

def sameGroup (a b : Bytes) : Bool :=
  if isV4 a && isV4 b then samePrefixBytes 3 (a.drop 12) (b.drop 12)      -- same /24
  else if !isV4 a && !isV4 b then samePrefixBytes 8 a b                     -- same /64
  else false

/-! ### quota reference machine: one bucket per group, no eviction -/

abbrev SpecQuota := List (Bytes × Bucket)

def specBlocked (c : QCfg) (s : SpecQuota) (t : Int) (grp : Bytes) : SpecQuota × Bool :=
  match s.lookup grp with
  | some b => let (b', ok) := c.allow b t; (cacheSet grp b' s, !ok)
  | none => let (b', ok) := c.allow c.fresh t; ((grp, b') :: s, !ok)

end Gate.C34
