import GateModel.C34.Spec
/-
C34 — helper lemmas.

A. ring buffer: representation invariant `Rep c L` (live slots hold the list `L` in order, all other
   `counts` slots are zero, `total` = sum of `L`), preserved by `pop` (one `expire` iteration),
   `resize`, `push` (the write in `add`); hence the counter refines the deque machine `absStep`
   for ARBITRARY timestamps (`run_refines`).
B. on time-ordered histories the deque machine holds exactly the trailing window (`absRun_window`).
C. Limiter: the packet counter sees every event with size 1, the byte counter every event while all
   previous calls returned true (`runAll_inv`, `account_inv`).
D. ipKey: masking = prefix truncation (`same_bucket`).
E. token bucket bound (`bucket_bound`), LRU of buckets under the capacity hypothesis (`allowedOf_eq`).
-/
namespace Gate.C34
open Gate

/-! ## list access helpers -/
theorem getD_set_self {l : List Int} {i : Nat} {a d : Int} (h : i < l.length) : (l.set i a).getD i d = a := by
  simp [List.getD_eq_getElem?_getD, h]
theorem getD_set_ne {l : List Int} {i j : Nat} {a d : Int} (h : i ≠ j) : (l.set i a).getD j d = l.getD j d := by
  simp [List.getD_eq_getElem?_getD, h]

/-! ## ring-buffer geometry -/
def Counter.size (c : Counter) : Nat :=
  if c.head ≤ c.tail then c.tail - c.head else c.tail + c.times.length - c.head
def Counter.slot (c : Counter) (i : Nat) : Nat :=
  if c.head + i < c.times.length then c.head + i else c.head + i - c.times.length
def Counter.inLive (c : Counter) (j : Nat) : Prop :=
  (c.head ≤ c.tail ∧ c.head ≤ j ∧ j < c.tail) ∨ (c.tail < c.head ∧ (c.head ≤ j ∨ j < c.tail))

theorem size_cases (c : Counter) :
    (c.head ≤ c.tail ∧ c.size = c.tail - c.head) ∨ (c.tail < c.head ∧ c.size = c.tail + c.times.length - c.head) := by
  unfold Counter.size; split <;> omega
theorem slot_cases (c : Counter) (i : Nat) :
    (c.head + i < c.times.length ∧ c.slot i = c.head + i) ∨
    (c.times.length ≤ c.head + i ∧ c.slot i = c.head + i - c.times.length) := by
  unfold Counter.slot; split <;> omega

/-- Representation invariant: the live slots `[head, tail)` (cyclically) hold the list `L` in order,
    every other `counts` slot is zero, and `total` is the sum of `L`'s sizes. -/
structure Rep (c : Counter) (L : List Ev) : Prop where
  lenEq : c.counts.length = c.times.length
  hd : c.head < c.times.length
  tl : c.tail < c.times.length
  sz : L.length = c.size
  content : ∀ i, i < c.size →
    c.times.getD (c.slot i) 0 = (L.getD i (0, 0)).1 ∧ c.counts.getD (c.slot i) 0 = (L.getD i (0, 0)).2
  zero : ∀ j, j < c.times.length → ¬ c.inLive j → c.counts.getD j 0 = 0
  tot : c.total = (L.map (·.2)).sum

theorem pop_head_cases (c : Counter) :
    (c.head + 1 ≥ c.times.length ∧ c.pop.head = 0) ∨ (c.head + 1 < c.times.length ∧ c.pop.head = c.head + 1) := by
  unfold Counter.pop; simp only; split <;> omega

theorem pop_rep {c : Counter} {e : Ev} {L : List Ev} (h : Rep c (e :: L)) :
    c.head ≠ c.tail ∧ c.times.getD c.head 0 = e.1 ∧ Rep c.pop L := by
  have hsz := h.sz
  have hd := h.hd
  have tl := h.tl
  simp only [List.length_cons] at hsz
  have hne : c.head ≠ c.tail := by
    rcases size_cases c with ⟨a, b⟩ | ⟨a, b⟩ <;> omega
  have h0 := h.content 0 (by omega)
  have hs0 : c.slot 0 = c.head := by rcases slot_cases c 0 with ⟨a, b⟩ | ⟨a, b⟩ <;> omega
  rw [hs0] at h0
  simp only [List.getD_cons_zero] at h0
  refine ⟨hne, h0.1, ?_⟩
  have ptimes : c.pop.times = c.times := rfl
  have ptail : c.pop.tail = c.tail := rfl
  have pcounts : c.pop.counts = c.counts.set c.head 0 := rfl
  have ptotal : c.pop.total = c.total - c.counts.getD c.head 0 := rfl
  have hlt : c.size < c.times.length := by
    rcases size_cases c with ⟨a, b⟩ | ⟨a, b⟩ <;> omega
  have hsize : c.pop.size + 1 = c.size := by
    rcases size_cases c with ⟨a, b⟩ | ⟨a, b⟩ <;> rcases size_cases c.pop with ⟨a', b'⟩ | ⟨a', b'⟩ <;>
      rcases pop_head_cases c with ⟨p, q⟩ | ⟨p, q⟩ <;> rw [ptimes] at * <;> rw [ptail] at * <;> omega
  constructor
  · rw [pcounts, ptimes, List.length_set]; exact h.lenEq
  · rw [ptimes]; rcases pop_head_cases c with ⟨p, q⟩ | ⟨p, q⟩ <;> omega
  · rw [ptimes, ptail]; exact tl
  · omega
  · intro i hi
    have hc := h.content (i + 1) (by omega)
    have hslot : c.pop.slot i = c.slot (i + 1) := by
      rcases slot_cases c (i + 1) with ⟨a, b⟩ | ⟨a, b⟩ <;> rcases slot_cases c.pop i with ⟨a', b'⟩ | ⟨a', b'⟩ <;>
        rcases pop_head_cases c with ⟨p, q⟩ | ⟨p, q⟩ <;> rw [ptimes] at * <;> omega
    have hne' : c.head ≠ c.slot (i + 1) := by
      rcases slot_cases c (i + 1) with ⟨a, b⟩ | ⟨a, b⟩ <;> omega
    rw [hslot, ptimes, pcounts, getD_set_ne hne']
    simpa using hc
  · intro j hj hnl
    rw [ptimes] at hj
    rw [pcounts]
    by_cases hjh : c.head = j
    · subst hjh; exact getD_set_self (by rw [h.lenEq]; exact hd)
    · rw [getD_set_ne hjh]
      apply h.zero j hj
      intro hl
      apply hnl
      unfold Counter.inLive at *
      rw [ptail]
      rcases pop_head_cases c with ⟨p, q⟩ | ⟨p, q⟩ <;> rw [q] <;> omega
  · rw [ptotal, h.tot, h0.2]; simp only [List.map_cons, List.sum_cons]; omega

theorem rep_size_lt {c : Counter} {L : List Ev} (h : Rep c L) : c.size < c.times.length := by
  have := h.hd; have := h.tl
  rcases size_cases c with ⟨a, b⟩ | ⟨a, b⟩ <;> omega

theorem rep_nil_iff {c : Counter} {L : List Ev} (h : Rep c L) : L = [] ↔ c.head = c.tail := by
  have := h.hd; have := h.tl; have hs := h.sz
  constructor
  · intro hl; subst hl; simp at hs
    rcases size_cases c with ⟨a, b⟩ | ⟨a, b⟩ <;> omega
  · intro he
    have : c.size = 0 := by rcases size_cases c with ⟨a, b⟩ | ⟨a, b⟩ <;> omega
    rw [this] at hs; exact List.length_eq_zero_iff.mp hs

/-- the predicate of the `expire` loop on an abstract event -/
def expired (m : Int) (e : Ev) : Bool := decide (e.1 - m < 0)

theorem pop_fields (c : Counter) : c.pop.times = c.times ∧ c.pop.interval = c.interval ∧ c.pop.minTime = c.minTime :=
  ⟨rfl, rfl, rfl⟩

theorem expireLoop_rep (m : Int) : ∀ (fuel : Nat) (c : Counter) (L : List Ev), Rep c L → L.length ≤ fuel →
    Rep (expireLoop m fuel c) (L.dropWhile (expired m)) ∧
    (expireLoop m fuel c).times.length = c.times.length ∧ (expireLoop m fuel c).interval = c.interval := by
  intro fuel
  induction fuel with
  | zero =>
    intro c L h hl
    have : L = [] := List.length_eq_zero_iff.mp (by omega)
    subst this
    exact ⟨h, rfl, rfl⟩
  | succ f ih =>
    intro c L h hl
    cases L with
    | nil =>
      have he := (rep_nil_iff h).mp rfl
      simp only [expireLoop, he, ne_eq, not_true_eq_false, false_and, if_false, List.dropWhile_nil]
      exact ⟨h, trivial, trivial⟩
    | cons e L' =>
      obtain ⟨hne, ht, hp⟩ := pop_rep h
      by_cases hx : e.1 - m < 0
      · have hc : c.head ≠ c.tail ∧ c.times.getD c.head 0 - m < 0 := ⟨hne, by rw [ht]; exact hx⟩
        have hd : (e :: L').dropWhile (expired m) = L'.dropWhile (expired m) := by
          simp [expired, hx]
        rw [hd]
        simp only [expireLoop, if_pos hc]
        have := ih c.pop L' hp (by simp at hl; omega)
        exact ⟨this.1, this.2.1, this.2.2⟩
      · have hc : ¬ (c.head ≠ c.tail ∧ c.times.getD c.head 0 - m < 0) := by rw [ht]; intro hh; exact hx hh.2
        have hd : (e :: L').dropWhile (expired m) = e :: L' := by
          simp [expired, hx]
        rw [hd]
        simp only [expireLoop, if_neg hc]
        exact ⟨h, trivial, trivial⟩

/-- `Rep` ignores `interval` and `minTime`. -/
theorem rep_with_minTime {c : Counter} {L : List Ev} (h : Rep c L) (m : Int) : Rep { c with minTime := m } L :=
  ⟨h.lenEq, h.hd, h.tl, h.sz, h.content, h.zero, h.tot⟩

theorem expire_rep {c : Counter} {L : List Ev} (h : Rep c L) (now : Int) :
    Rep (c.expire now) (L.dropWhile (expired (now - c.interval))) ∧
    (c.expire now).times.length = c.times.length ∧ (c.expire now).interval = c.interval ∧
    (c.expire now).minTime = now - c.interval := by
  have hl : L.length ≤ c.times.length := by have := rep_size_lt h; have := h.sz; omega
  obtain ⟨r, l, i⟩ := expireLoop_rep (now - c.interval) c.times.length c L h hl
  exact ⟨rep_with_minTime r _, l, i, rfl⟩

theorem resizeCopy_length (h t : Nat) (xs : List Int) (hh : h < xs.length) (ht : t < xs.length) :
    (resizeCopy h t xs).length = xs.length * 2 := by
  unfold resizeCopy
  simp only
  split <;> simp only [List.length_append, List.length_take, List.length_drop, List.length_replicate] <;> omega

theorem resizeCopy_get (h t : Nat) (xs : List Int) (hh : h < xs.length) (ht : t < xs.length) (i : Nat) :
    (resizeCopy h t xs).getD i 0 =
      if h ≤ t then (if i < t - h then xs.getD (h + i) 0 else 0)
      else (if i < t + xs.length - h then (if h + i < xs.length then xs.getD (h + i) 0 else xs.getD (h + i - xs.length) 0) else 0) := by
  unfold resizeCopy
  simp only [List.getD_eq_getElem?_getD]
  by_cases hc : h ≤ t
  · simp only [ge_iff_le, hc, if_true, List.getElem?_append, List.length_take, List.length_drop,
      List.getElem?_take, List.getElem?_drop, List.getElem?_replicate]
    by_cases hi : i < t - h
    · have : i < min (t - h) (xs.length - h) := by omega
      simp [hi, this]
    · have : ¬ i < min (t - h) (xs.length - h) := by omega
      simp only [hi, this, if_false]
      split <;> simp
  · have hc' : ¬ t ≥ h := by omega
    simp only [hc', if_false, List.getElem?_append, List.length_take, List.length_drop,
      List.getElem?_take, List.getElem?_drop, List.getElem?_replicate, List.length_append]
    by_cases hi : i < t + xs.length - h
    · simp only [hi, if_true]
      by_cases h2 : h + i < xs.length
      · have : i < xs.length - h + min t xs.length := by omega
        have h3 : i < xs.length - h := by omega
        simp [this, h3, h2]
      · have : i < xs.length - h + min t xs.length := by omega
        have h3 : ¬ i < xs.length - h := by omega
        have h5 : i - (xs.length - h) = h + i - xs.length := by omega
        have h4 : h + i - xs.length < t := by omega
        simp [this, h3, h2, h4, h5]
    · have : ¬ i < xs.length - h + min t xs.length := by omega
      simp only [hi, this, if_false]
      split <;> simp

theorem resize_fields (c : Counter) :
    c.resize.head = 0 ∧ c.resize.tail = c.size ∧ c.resize.total = c.total ∧ c.resize.interval = c.interval ∧
    c.resize.minTime = c.minTime ∧ c.resize.times = resizeCopy c.head c.tail c.times ∧
    c.resize.counts = resizeCopy c.head c.tail c.counts := by
  refine ⟨rfl, ?_, rfl, rfl, rfl, rfl, rfl⟩
  unfold Counter.resize Counter.size; simp only; split <;> split <;> omega

theorem resizeCopy_get_live (c : Counter) (xs : List Int) (hx : xs.length = c.times.length)
    (hd : c.head < c.times.length) (tl : c.tail < c.times.length) (i : Nat) (hi : i < c.size) :
    (resizeCopy c.head c.tail xs).getD i 0 = xs.getD (c.slot i) 0 := by
  rw [resizeCopy_get _ _ _ (by omega) (by omega), hx]
  rcases size_cases c with ⟨a, b⟩ | ⟨a, b⟩ <;> rcases slot_cases c i with ⟨a', b'⟩ | ⟨a', b'⟩
  · have h1 : i < c.tail - c.head := by omega
    simp only [a, h1, if_true, b']
  · omega
  · have h0 : ¬ c.head ≤ c.tail := by omega
    have h1 : i < c.tail + c.times.length - c.head := by omega
    simp only [h0, h1, a', if_true, if_false, b']
  · have h0 : ¬ c.head ≤ c.tail := by omega
    have h1 : i < c.tail + c.times.length - c.head := by omega
    have h2 : ¬ c.head + i < c.times.length := by omega
    simp only [h0, h1, h2, if_true, if_false, b']

theorem resizeCopy_get_dead (c : Counter) (xs : List Int) (hx : xs.length = c.times.length)
    (hd : c.head < c.times.length) (tl : c.tail < c.times.length) (i : Nat) (hi : c.size ≤ i) :
    (resizeCopy c.head c.tail xs).getD i 0 = 0 := by
  rw [resizeCopy_get _ _ _ (by omega) (by omega), hx]
  rcases size_cases c with ⟨a, b⟩ | ⟨a, b⟩
  · have h1 : ¬ i < c.tail - c.head := by omega
    simp only [a, h1, if_true, if_false]
  · have h0 : ¬ c.head ≤ c.tail := by omega
    have h1 : ¬ i < c.tail + c.times.length - c.head := by omega
    simp only [h0, h1, if_false]

theorem resize_rep {c : Counter} {L : List Ev} (h : Rep c L) :
    Rep c.resize L ∧ c.resize.times.length = c.times.length * 2 := by
  obtain ⟨rh, rt, rtot, _, _, rtimes, rcounts⟩ := resize_fields c
  have hd := h.hd; have tl := h.tl; have hlt := rep_size_lt h; have hle := h.lenEq
  have tlen : c.resize.times.length = c.times.length * 2 := by rw [rtimes]; exact resizeCopy_length _ _ _ hd tl
  have clen : c.resize.counts.length = c.times.length * 2 := by
    rw [rcounts, resizeCopy_length _ _ _ (by omega) (by omega), hle]
  have rsize : c.resize.size = c.size := by
    rcases size_cases c.resize with ⟨a, b⟩ | ⟨a, b⟩ <;> omega
  refine ⟨⟨by omega, by omega, by omega, by rw [rsize]; exact h.sz, ?_, ?_, by rw [rtot]; exact h.tot⟩, tlen⟩
  · intro i hi
    rw [rsize] at hi
    have hs : c.resize.slot i = i := by rcases slot_cases c.resize i with ⟨a, b⟩ | ⟨a, b⟩ <;> omega
    have hc := h.content i hi
    rw [hs, rtimes, rcounts, resizeCopy_get_live c _ rfl hd tl i hi, resizeCopy_get_live c _ hle hd tl i hi]
    exact hc
  · intro j _ hnl
    have hj : c.size ≤ j := by
      apply Nat.le_of_not_lt; intro hh; apply hnl; unfold Counter.inLive; omega
    rw [rcounts, resizeCopy_get_dead c _ hle hd tl j hj]

theorem succ_mod_cases (t n : Nat) (h : t < n) : (t + 1 = n ∧ (t + 1) % n = 0) ∨ (t + 1 < n ∧ (t + 1) % n = t + 1) := by
  by_cases h1 : t + 1 = n
  · left; exact ⟨h1, by rw [h1]; exact Nat.mod_self n⟩
  · right; exact ⟨by omega, Nat.mod_eq_of_lt (by omega)⟩

/-- the tail of `add`: write the slot at `tail`, advance `tail` -/
def Counter.push (c : Counter) (now count : Int) : Counter :=
  { c with times := c.times.set c.tail now,
           counts := c.counts.set c.tail (c.counts.getD c.tail 0 + count),
           total := c.total + count, tail := (c.tail + 1) % c.times.length }

theorem add_eq (c : Counter) (now count : Int) :
    c.add now count = if now - c.minTime < 0 then c
      else (if (c.tail + 1) % c.times.length = c.head then c.resize else c).push now count := rfl

theorem push_rep {c : Counter} {L : List Ev} (h : Rep c L) (now count : Int)
    (hfull : (c.tail + 1) % c.times.length ≠ c.head) : Rep (c.push now count) (L ++ [(now, count)]) := by
  have hd := h.hd; have tl := h.tl; have hlt := rep_size_lt h; have hle := h.lenEq; have hsz := h.sz
  have ptimes : (c.push now count).times = c.times.set c.tail now := rfl
  have pcounts : (c.push now count).counts = c.counts.set c.tail (c.counts.getD c.tail 0 + count) := rfl
  have phead : (c.push now count).head = c.head := rfl
  have ptail : (c.push now count).tail = (c.tail + 1) % c.times.length := rfl
  have ptot : (c.push now count).total = c.total + count := rfl
  have plen : (c.push now count).times.length = c.times.length := by rw [ptimes, List.length_set]
  have hsize : (c.push now count).size = c.size + 1 := by
    rcases size_cases c with ⟨a, b⟩ | ⟨a, b⟩ <;> rcases size_cases (c.push now count) with ⟨a', b'⟩ | ⟨a', b'⟩ <;>
      rcases succ_mod_cases c.tail c.times.length tl with ⟨p, q⟩ | ⟨p, q⟩ <;>
      rw [plen, phead, ptail] at * <;> omega
  have hslot : ∀ i, (c.push now count).slot i = c.slot i := by
    intro i
    rcases slot_cases c i with ⟨a, b⟩ | ⟨a, b⟩ <;> rcases slot_cases (c.push now count) i with ⟨a', b'⟩ | ⟨a', b'⟩ <;>
      rw [plen, phead] at * <;> omega
  have htail : c.slot c.size = c.tail := by
    rcases size_cases c with ⟨a, b⟩ | ⟨a, b⟩ <;> rcases slot_cases c c.size with ⟨a', b'⟩ | ⟨a', b'⟩ <;> omega
  have hnl : ¬ c.inLive c.tail := by unfold Counter.inLive; omega
  have hz := h.zero c.tail tl hnl
  constructor
  · rw [pcounts, ptimes, List.length_set, List.length_set]; exact hle
  · rw [plen, phead]; exact hd
  · rw [plen, ptail]; exact Nat.mod_lt _ (by omega)
  · rw [hsize, List.length_append]; simp; exact hsz
  · intro i hi
    rw [hsize] at hi
    rw [hslot, ptimes, pcounts]
    by_cases hi' : i < c.size
    · have hne : c.tail ≠ c.slot i := by
        rcases size_cases c with ⟨a, b⟩ | ⟨a, b⟩ <;> rcases slot_cases c i with ⟨a', b'⟩ | ⟨a', b'⟩ <;> omega
      rw [getD_set_ne hne, getD_set_ne hne]
      have hc := h.content i hi'
      have : (L ++ [(now, count)]).getD i (0, 0) = L.getD i (0, 0) := by
        simp only [List.getD_eq_getElem?_getD]; rw [List.getElem?_append_left (by omega)]
      rw [this]; exact hc
    · have hi2 : i = c.size := by omega
      subst hi2
      rw [htail, getD_set_self tl, getD_set_self (by omega), hz]
      have : (L ++ [(now, count)]).getD c.size (0, 0) = (now, count) := by
        simp only [List.getD_eq_getElem?_getD]; rw [List.getElem?_append_right (by omega)]; simp [hsz]
      rw [this]; simp
  · intro j hj hnl'
    rw [plen] at hj
    have hjt : c.tail ≠ j := by
      intro he; subst he; apply hnl'; unfold Counter.inLive; rw [phead, ptail]
      rcases succ_mod_cases c.tail c.times.length tl with ⟨p, q⟩ | ⟨p, q⟩ <;> omega
    rw [pcounts, getD_set_ne hjt]
    apply h.zero j hj
    intro hl; apply hnl'
    unfold Counter.inLive at *; rw [phead, ptail]
    rcases succ_mod_cases c.tail c.times.length tl with ⟨p, q⟩ | ⟨p, q⟩ <;> omega
  · rw [ptot, h.tot]; simp [List.sum_append]

theorem add_rep {c : Counter} {L : List Ev} (h : Rep c L) (now count : Int) (hm : ¬ now - c.minTime < 0) :
    Rep (c.add now count) (L ++ [(now, count)]) ∧ (c.add now count).interval = c.interval := by
  rw [add_eq, if_neg hm]
  have hd := h.hd; have tl := h.tl; have hlt := rep_size_lt h
  by_cases hf : (c.tail + 1) % c.times.length = c.head
  · rw [if_pos hf]
    obtain ⟨hr, hl⟩ := resize_rep h
    obtain ⟨rh, rt, _, ri, _, _, _⟩ := resize_fields c
    refine ⟨push_rep hr now count ?_, ri⟩
    rw [rh, rt, hl, Nat.mod_eq_of_lt (by omega)]; omega
  · rw [if_neg hf]
    exact ⟨push_rep h now count hf, rfl⟩

theorem newCounter_rep (iv : Int) : Rep (newCounter iv) [] := by
  have h8 : 0 < initialCounterSize := by decide
  refine ⟨by simp [newCounter], by simp [newCounter, h8], by simp [newCounter, h8], by simp [newCounter, Counter.size], ?_, ?_, rfl⟩
  · intro i hi; simp [newCounter, Counter.size] at hi
  · intro j _ _; simp [newCounter, List.getD_eq_getElem?_getD, List.getElem?_replicate]; split <;> rfl

/-! ## the abstract machine: a deque of (time, size) -/

def absStep (iv : Int) (L : List Ev) (e : Ev) : List Ev := L.dropWhile (expired (e.1 - iv)) ++ [e]
def absRun (iv : Int) (evs : List Ev) : List Ev := evs.foldl (absStep iv) []
/-- the counter after a history of `updateAndAdd` calls -/
def runCounter (iv : Int) (evs : List Ev) : Counter :=
  evs.foldl (fun c e => c.updateAndAdd e.2 e.1) (newCounter iv)

theorem updateAndAdd_rep {c : Counter} {L : List Ev} {iv : Int} (h : Rep c L) (hi : c.interval = iv) (h0 : 0 ≤ iv)
    (e : Ev) : Rep (c.updateAndAdd e.2 e.1) (absStep iv L e) ∧ (c.updateAndAdd e.2 e.1).interval = iv := by
  obtain ⟨hr, _, hiv, hmin⟩ := expire_rep h e.1
  unfold Counter.updateAndAdd absStep
  have hm : ¬ e.1 - (c.expire e.1).minTime < 0 := by rw [hmin, hi]; omega
  obtain ⟨ha, hb⟩ := add_rep hr e.1 e.2 hm
  rw [hi] at hr ha
  exact ⟨ha, by rw [hb, hiv, hi]⟩

theorem run_refines_gen (iv : Int) (h0 : 0 ≤ iv) : ∀ (evs : List Ev) (c : Counter) (L : List Ev),
    Rep c L → c.interval = iv →
    Rep (evs.foldl (fun c e => c.updateAndAdd e.2 e.1) c) (evs.foldl (absStep iv) L) ∧
    (evs.foldl (fun c e => c.updateAndAdd e.2 e.1) c).interval = iv := by
  intro evs
  induction evs with
  | nil => intro c L h hi; exact ⟨h, hi⟩
  | cons e evs ih =>
    intro c L h hi
    obtain ⟨h1, h2⟩ := updateAndAdd_rep h hi h0 e
    exact ih _ _ h1 h2

theorem run_refines (iv : Int) (h0 : 0 ≤ iv) (evs : List Ev) :
    Rep (runCounter iv evs) (absRun iv evs) ∧ (runCounter iv evs).interval = iv :=
  run_refines_gen iv h0 evs _ _ (newCounter_rep iv) rfl

/-! ## the deque machine on time-ordered histories = the trailing window -/

/-- the window of a history: all events within `iv` of the last event's timestamp -/
def window (iv : Int) (P : List Ev) : List Ev :=
  match P.getLast? with
  | none => []
  | some l => P.filter (inWindow iv l.1)

theorem expired_eq_not_inWindow (iv t : Int) (x : Ev) : expired (t - iv) x = !inWindow iv t x := by
  unfold expired inWindow
  by_cases h : t - iv ≤ x.1
  · simp [h]
  · simp [h]; omega

/-- on a list sorted by time, dropping the expired prefix = filtering the window -/
theorem dropWhile_eq_filter (iv t : Int) : ∀ (S : List Ev), Mono S →
    S.dropWhile (expired (t - iv)) = S.filter (inWindow iv t) := by
  intro S
  induction S with
  | nil => intro _; rfl
  | cons x S ih =>
    intro hm
    have hm' : Mono S := (List.pairwise_cons.mp hm).2
    have hx : ∀ y ∈ S, x.1 ≤ y.1 := (List.pairwise_cons.mp hm).1
    rw [List.dropWhile_cons, List.filter_cons, expired_eq_not_inWindow]
    by_cases h : inWindow iv t x = true
    · simp only [h, Bool.not_true, if_true]
      -- everything after x is in the window as well
      have : S.filter (inWindow iv t) = S := by
        apply List.filter_eq_self.mpr
        intro y hy
        have := hx y hy
        unfold inWindow at *
        simp only [decide_eq_true_eq] at *
        omega
      rw [this]; simp
    · simp only [h, Bool.not_false, if_true]
      simp only [Bool.false_eq_true, if_false]
      exact ih hm'

theorem mono_append_singleton {P : List Ev} {e : Ev} (h : Mono (P ++ [e])) :
    Mono P ∧ ∀ x ∈ P, x.1 ≤ e.1 := by
  unfold Mono at *
  rw [List.pairwise_append] at h
  exact ⟨h.1, fun x hx => h.2.2 x hx e (by simp)⟩

theorem step_window (iv : Int) (h0 : 0 ≤ iv) (P : List Ev) (e : Ev) (hm : Mono (P ++ [e])) :
    absStep iv (window iv P) e = window iv (P ++ [e]) := by
  obtain ⟨hmP, hle⟩ := mono_append_singleton hm
  have hwe : inWindow iv e.1 e = true := by unfold inWindow; simp; omega
  have rhs : window iv (P ++ [e]) = P.filter (inWindow iv e.1) ++ [e] := by
    unfold window; simp [List.getLast?_append, List.filter_append, hwe]
  rw [rhs]
  unfold absStep
  congr 1
  unfold window
  cases hl : P.getLast? with
  | none =>
    have : P = [] := List.getLast?_eq_none_iff.mp hl
    subst this; rfl
  | some l =>
    simp only
    have hlP : l ∈ P := List.mem_of_getLast? hl
    have hmf : Mono (P.filter (inWindow iv l.1)) := List.Pairwise.filter _ hmP
    rw [dropWhile_eq_filter iv e.1 _ hmf, List.filter_filter]
    apply List.filter_congr
    intro x _
    have := hle l hlP
    unfold inWindow
    by_cases h1 : e.1 - iv ≤ x.1
    · have h2 : l.1 - iv ≤ x.1 := by omega
      simp [h1, h2]
    · simp [h1]

theorem absRun_window_gen (iv : Int) (h0 : 0 ≤ iv) : ∀ (evs P : List Ev), Mono (P ++ evs) →
    evs.foldl (absStep iv) (window iv P) = window iv (P ++ evs) := by
  intro evs
  induction evs with
  | nil => intro P _; simp
  | cons e evs ih =>
    intro P hm
    have hm1 : Mono (P ++ [e]) := by
      have : P ++ e :: evs = (P ++ [e]) ++ evs := by simp
      unfold Mono at *
      rw [this, List.pairwise_append] at hm
      exact hm.1
    simp only [List.foldl_cons]
    rw [step_window iv h0 P e hm1]
    have : P ++ e :: evs = (P ++ [e]) ++ evs := by simp
    rw [this]
    apply ih
    rw [← this]; exact hm

theorem absRun_window (iv : Int) (h0 : 0 ≤ iv) (evs : List Ev) (hm : Mono evs) : absRun iv evs = window iv evs := by
  have := absRun_window_gen iv h0 evs [] (by simpa using hm)
  simpa [absRun, window] using this


/-! ## counter total = window sum; Limiter -/

theorem window_snoc (iv : Int) (P : List Ev) (e : Ev) : window iv (P ++ [e]) = (P ++ [e]).filter (inWindow iv e.1) := by
  unfold window; simp [List.getLast?_append]

theorem runCounter_total (iv : Int) (h0 : 0 ≤ iv) (evs : List Ev) (e : Ev) (hm : Mono (evs ++ [e])) :
    (runCounter iv (evs ++ [e])).total = windowSum iv (evs ++ [e]) e.1 := by
  have h := (run_refines iv h0 (evs ++ [e])).1
  rw [absRun_window iv h0 _ hm, window_snoc] at h
  rw [h.tot]; rfl

theorem runCounter_snoc (iv : Int) (P : List Ev) (e : Ev) :
    runCounter iv (P ++ [e]) = (runCounter iv P).updateAndAdd e.2 e.1 := by
  simp [runCounter, List.foldl_append]

/-! ## Limiter -/

def ones (evs : List Ev) : List Ev := evs.map (fun e => (e.1, 1))

theorem mono_ones {evs : List Ev} (h : Mono evs) : Mono (ones evs) := by
  unfold Mono ones at *; rw [List.pairwise_map]; exact h

theorem windowSum_ones (iv : Int) (evs : List Ev) (t : Int) : windowSum iv (ones evs) t = windowCount iv evs t := by
  unfold windowSum windowCount ones
  induction evs with
  | nil => rfl
  | cons x xs ih =>
    simp only [List.map_cons, List.filter_cons]
    have : inWindow iv t (x.1, 1) = inWindow iv t x := rfl
    rw [this]
    by_cases h : inWindow iv t x = true
    · simp only [h, if_true, List.map_cons, List.sum_cons, List.length_cons, ih]; omega
    · simp only [h]; exact ih

theorem exceeds_eq_over (c : Counter) (r : Int) : c.exceeds r = over c.total r c.interval := rfl

/-- `Account` applied to a whole history; the flag says whether every call returned `true`. -/
def Limiter.runAll (l : Limiter) (evs : List Ev) : Limiter × Bool :=
  evs.foldl (fun s e => ((s.1.account e.1 e.2).1, s.2 && (s.1.account e.1 e.2).2)) (l, true)

structure LInv (pps bps w : Int) (l : Limiter) (P : List Ev) : Prop where
  hp : l.pps = pps
  hb : l.bps = bps
  pk : l.packets = if pps > 0 then some (runCounter w (ones P)) else none
  by_ : l.bytes = if bps > 0 then some (runCounter w P) else none

theorem new_inv {pps bps w : Int} {l : Limiter} (h : Limiter.new pps bps w = some l) : 0 < w ∧ LInv pps bps w l [] := by
  unfold Limiter.new at h
  split at h
  · cases h
  · rename_i hc
    cases h
    exact ⟨by omega, ⟨rfl, rfl, rfl, rfl⟩⟩

theorem ones_snoc (P : List Ev) (e : Ev) : ones (P ++ [e]) = ones P ++ [(e.1, 1)] := by simp [ones]

/-- the result of one `Account` call, and the invariant afterwards when it returned `true` -/
theorem account_inv {pps bps w : Int} {l : Limiter} {P : List Ev} (h : LInv pps bps w l P) (e : Ev) :
    (l.account e.1 e.2).2 =
      (!(decide (pps > 0) && (runCounter w (ones (P ++ [e]))).exceeds pps) &&
       !(decide (bps > 0) && (runCounter w (P ++ [e])).exceeds bps)) ∧
    ((l.account e.1 e.2).2 = true → LInv pps bps w (l.account e.1 e.2).1 (P ++ [e])) := by
  obtain ⟨hp, hb, pk, by_⟩ := h
  rw [ones_snoc, runCounter_snoc, runCounter_snoc]
  by_cases h1 : pps > 0 <;> by_cases h2 : bps > 0
  · rw [if_pos h1] at pk; rw [if_pos h2] at by_
    cases hx : ((runCounter w (ones P)).updateAndAdd 1 e.1).exceeds pps
    · have hacc : l.account e.1 e.2 = (({ l with packets := some ((runCounter w (ones P)).updateAndAdd 1 e.1), bytes := some ((runCounter w P).updateAndAdd e.2 e.1) } : Limiter),
          !((runCounter w P).updateAndAdd e.2 e.1).exceeds bps) := by
        simp [Limiter.account, pk, by_, hp, hb, hx]
      rw [hacc]
      exact ⟨by simp [h1, h2], fun _ => ⟨hp, hb, by simp [h1, ones_snoc, runCounter_snoc], by simp [h2, runCounter_snoc]⟩⟩
    · have hacc : (l.account e.1 e.2).2 = false := by simp [Limiter.account, pk, hp, hx]
      rw [hacc]
      exact ⟨by simp [h1], fun hh => by cases hh⟩
  · rw [if_pos h1] at pk; rw [if_neg h2] at by_
    cases hx : ((runCounter w (ones P)).updateAndAdd 1 e.1).exceeds pps
    · have hacc : l.account e.1 e.2 = (({ l with packets := some ((runCounter w (ones P)).updateAndAdd 1 e.1) } : Limiter), true) := by
        simp [Limiter.account, pk, by_, hp, hx]
      rw [hacc]
      exact ⟨by simp [h1, h2], fun _ => ⟨hp, hb, by simp [h1, ones_snoc, runCounter_snoc], by simp [h2, by_]⟩⟩
    · have hacc : (l.account e.1 e.2).2 = false := by simp [Limiter.account, pk, hp, hx]
      rw [hacc]
      exact ⟨by simp [h1], fun hh => by cases hh⟩
  · rw [if_neg h1] at pk; rw [if_pos h2] at by_
    have hacc : l.account e.1 e.2 = (({ l with bytes := some ((runCounter w P).updateAndAdd e.2 e.1) } : Limiter),
        !((runCounter w P).updateAndAdd e.2 e.1).exceeds bps) := by
      simp [Limiter.account, pk, by_, hb]
    rw [hacc]
    exact ⟨by simp [h1, h2], fun _ => ⟨hp, hb, by simp [h1, pk], by simp [h2, runCounter_snoc]⟩⟩
  · rw [if_neg h1] at pk; rw [if_neg h2] at by_
    have hacc : l.account e.1 e.2 = (l, true) := by simp [Limiter.account, pk, by_]
    rw [hacc]
    exact ⟨by simp [h1, h2], fun _ => ⟨hp, hb, by simp [h1, pk], by simp [h2, by_]⟩⟩

theorem runAll_false (evs : List Ev) (l : Limiter) :
    (evs.foldl (fun (s : Limiter × Bool) e => ((s.1.account e.1 e.2).1, s.2 && (s.1.account e.1 e.2).2)) (l, false)).2 = false := by
  induction evs generalizing l with
  | nil => rfl
  | cons e evs ih => simp only [List.foldl_cons, Bool.false_and]; exact ih _

theorem runAll_inv_gen {pps bps w : Int} : ∀ (evs : List Ev) (l : Limiter) (P : List Ev), LInv pps bps w l P →
    (evs.foldl (fun (s : Limiter × Bool) e => ((s.1.account e.1 e.2).1, s.2 && (s.1.account e.1 e.2).2)) (l, true)).2 = true →
    LInv pps bps w
      (evs.foldl (fun (s : Limiter × Bool) e => ((s.1.account e.1 e.2).1, s.2 && (s.1.account e.1 e.2).2)) (l, true)).1
      (P ++ evs) := by
  intro evs
  induction evs with
  | nil => intro l P h _; simpa using h
  | cons e evs ih =>
    intro l P h hok
    simp only [List.foldl_cons, Bool.true_and] at hok ⊢
    cases hr : (l.account e.1 e.2).2
    · rw [hr, runAll_false] at hok; cases hok
    · rw [hr] at hok
      have := ih _ (P ++ [e]) ((account_inv h e).2 hr) hok
      simpa using this

theorem runAll_inv {pps bps w : Int} {l0 : Limiter} (hn : Limiter.new pps bps w = some l0) (evs : List Ev)
    (hok : (l0.runAll evs).2 = true) : LInv pps bps w (l0.runAll evs).1 evs := by
  have := runAll_inv_gen evs l0 [] (new_inv hn).2 hok
  simpa [Limiter.runAll] using this


/-! ## ipKey -/
theorem u8_and_ff (x : UInt8) : x &&& 0xff = x := by
  have : (0xff : UInt8) = -1 := by decide
  rw [this]; simp

theorem maskIP_zero : ∀ (m : Nat) (ip : Bytes), ip.length = m → maskIP ip (List.replicate m 0) = List.replicate m 0 := by
  intro m
  induction m with
  | zero => intro ip h; have : ip = [] := List.length_eq_zero_iff.mp h; subst this; rfl
  | succ m ih =>
    intro ip h
    cases ip with
    | nil => simp at h
    | cons x ip =>
      simp only [List.length_cons, Nat.add_right_cancel_iff] at h
      simp only [maskIP, List.replicate_succ, List.zipWith_cons_cons, UInt8.and_zero, List.cons.injEq, true_and]
      exact ih ip h

theorem maskIP_ff_zero : ∀ (k m : Nat) (ip : Bytes), ip.length = k + m →
    maskIP ip (List.replicate k 0xff ++ List.replicate m 0) = ip.take k ++ List.replicate m 0 := by
  intro k
  induction k with
  | zero => intro m ip h; simpa using maskIP_zero m ip (by omega)
  | succ k ih =>
    intro m ip h
    cases ip with
    | nil => simp at h; omega
    | cons x ip =>
      have h' : ip.length = k + m := by simp at h; omega
      have := ih m ip h'
      simp only [maskIP] at this ⊢
      simp only [List.replicate_succ, List.cons_append, List.zipWith_cons_cons, u8_and_ff, List.take_succ_cons,
        List.cons.injEq, true_and]
      exact this

theorem cidr24 : cidrMask 24 32 = List.replicate 3 0xff ++ List.replicate 1 0 := by decide
theorem cidr64 : cidrMask 64 128 = List.replicate 8 0xff ++ List.replicate 8 0 := by decide

theorem to4_eq (a : Bytes) (ha : a.length = 16) : to4 a = if isV4 a then some (a.drop 12) else none := by
  unfold to4 isV4
  have h12 : a.take 12 = a.take 10 ++ (a.drop 10).take 2 := List.take_add (i := 10) (j := 2)
  have hp : v4InV6Prefix = List.replicate 10 0 ++ [0xff, 0xff] := by decide
  have hl : (a.take 10).length = (List.replicate 10 (0 : UInt8)).length := by simp; omega
  rw [h12, hp]
  by_cases h : a.take 10 = List.replicate 10 0 ∧ (a.drop 10).take 2 = [0xff, 0xff]
  · have : a.take 10 ++ (a.drop 10).take 2 = List.replicate 10 0 ++ [0xff, 0xff] := by rw [h.1, h.2]
    rw [if_pos ⟨ha, this⟩, h.1, h.2]; rfl
  · have : ¬ (a.take 10 ++ (a.drop 10).take 2 = List.replicate 10 0 ++ [0xff, 0xff]) := by
      intro he; exact h (List.append_inj he hl)
    have h' : ((a.take 10 == List.replicate 10 0) && ((a.drop 10).take 2 == [0xff, 0xff])) = false := by
      simp only [Bool.and_eq_false_iff, beq_eq_false_iff_ne, ne_eq]
      by_cases h1 : a.take 10 = List.replicate 10 0
      · right; intro h2; exact h ⟨h1, h2⟩
      · left; exact h1
    rw [if_neg (fun hh => this hh.2), h']; rfl

theorem ipKey_v4 (a : Bytes) (ha : a.length = 16) (h : isV4 a = true) :
    ipKeyBytes (some a) = some ((a.drop 12).take 3 ++ [0]) := by
  simp only [ipKeyBytes, to4_eq a ha, h, if_true, cidr24]
  rw [maskIP_ff_zero 3 1 _ (by simp; omega)]; rfl

theorem ipKey_v6 (a : Bytes) (ha : a.length = 16) (h : isV4 a = false) :
    ipKeyBytes (some a) = some (a.take 8 ++ List.replicate 8 0) := by
  simp only [ipKeyBytes, to4_eq a ha, h, Bool.false_eq_true, if_false, cidr64]
  rw [maskIP_ff_zero 8 8 _ (by omega)]

theorem same_bucket (a b : Bytes) (ha : a.length = 16) (hb : b.length = 16) :
    ipKeyBytes (some a) = ipKeyBytes (some b) ↔ sameGroup a b = true := by
  unfold sameGroup samePrefixBytes
  cases h1 : isV4 a <;> cases h2 : isV4 b
  · rw [ipKey_v6 a ha h1, ipKey_v6 b hb h2]; simp
  · rw [ipKey_v6 a ha h1, ipKey_v4 b hb h2]
    simp only [Bool.false_and, Bool.false_eq_true, if_false, Bool.not_false, Bool.not_true, Bool.and_false, iff_false]
    intro he
    have := congrArg (fun o => (o.map List.length)) he
    simp at this; omega
  · rw [ipKey_v4 a ha h1, ipKey_v6 b hb h2]
    simp only [Bool.true_and, Bool.false_eq_true, if_false, Bool.not_false, Bool.not_true, Bool.false_and, iff_false]
    intro he
    have := congrArg (fun o => (o.map List.length)) he
    simp at this; omega
  · rw [ipKey_v4 a ha h1, ipKey_v4 b hb h2]; simp


/-! ## token bucket -/

/-- number of allowed events when `Allow()` is called at the given times -/
def QCfg.countAllowed (c : QCfg) : Bucket → List Int → Nat
  | _, [] => 0
  | b, t :: ts => (if (c.allow b t).2 then 1 else 0) + c.countAllowed (c.allow b t).1 ts

def lastOr (t : Int) : List Int → Int
  | [] => t
  | x :: xs => lastOr x xs

def QCfg.cap (c : QCfg) : Int := (c.burst : Int) * c.unit

theorem unit_nonneg (c : QCfg) : 0 ≤ c.unit := by unfold QCfg.unit; omega
theorem cap_nonneg (c : QCfg) : 0 ≤ c.cap := Int.mul_nonneg (by omega) (unit_nonneg c)

theorem avail_cases (c : QCfg) (b : Bucket) (t : Int) :
    ∃ l : Int, ((t < b.last ∧ l = t) ∨ (b.last ≤ t ∧ l = b.last)) ∧
      ((b.tokens + (c.num : Int) * t - (c.num : Int) * l > c.cap ∧ c.avail b t = c.cap) ∨
       (b.tokens + (c.num : Int) * t - (c.num : Int) * l ≤ c.cap ∧ c.avail b t = b.tokens + (c.num : Int) * t - (c.num : Int) * l)) := by
  unfold QCfg.avail QCfg.cap
  by_cases h : t < b.last
  · refine ⟨t, Or.inl ⟨h, rfl⟩, ?_⟩
    simp only [h, if_true, Int.mul_sub]
    split <;> omega
  · refine ⟨b.last, Or.inr ⟨by omega, rfl⟩, ?_⟩
    simp only [h, if_false, Int.mul_sub]
    split <;> omega

theorem mul_mono (n : Nat) {x y : Int} (h : x ≤ y) : (n : Int) * x ≤ (n : Int) * y :=
  Int.mul_le_mul_of_nonneg_left h (by omega)

theorem avail_le_cap (c : QCfg) (b : Bucket) (t : Int) : c.avail b t ≤ c.cap := by
  obtain ⟨l, _, h⟩ := avail_cases c b t
  omega

theorem avail_nonneg (c : QCfg) (b : Bucket) (t : Int) (hb : 0 ≤ b.tokens) : 0 ≤ c.avail b t := by
  obtain ⟨l, hl, h⟩ := avail_cases c b t
  have := cap_nonneg c
  have : (c.num : Int) * l ≤ (c.num : Int) * t := mul_mono _ (by omega)
  omega

theorem avail_mono (c : QCfg) (b : Bucket) (t0 t1 : Int) (h : t0 ≤ t1) :
    c.avail b t1 ≤ c.avail b t0 + ((c.num : Int) * t1 - (c.num : Int) * t0) := by
  obtain ⟨l0, hl0, h0⟩ := avail_cases c b t0
  obtain ⟨l1, hl1, h1⟩ := avail_cases c b t1
  have m1 : (c.num : Int) * t0 ≤ (c.num : Int) * t1 := mul_mono _ h
  have m2 : (c.num : Int) * l0 ≤ (c.num : Int) * l1 := mul_mono _ (by omega)
  have m3 : (c.num : Int) * l0 ≤ (c.num : Int) * t0 := mul_mono _ (by omega)
  rcases hl0 with ⟨a, rfl⟩ | ⟨a, rfl⟩ <;> rcases hl1 with ⟨a', rfl⟩ | ⟨a', rfl⟩ <;> omega

theorem allow_cases (c : QCfg) (b : Bucket) (t : Int) :
    (c.avail b t - c.unit ≥ 0 ∧ c.allow b t = ({ tokens := c.avail b t - c.unit, last := t }, true)) ∨
    (c.avail b t - c.unit < 0 ∧ c.allow b t = (b, false)) := by
  unfold QCfg.allow
  simp only
  split
  · left; exact ⟨by assumption, rfl⟩
  · right; exact ⟨by omega, rfl⟩

/-- Token-bucket bound: starting from any bucket state, over any time-ordered sequence of attempts,
    `allowed × unit ≤ tokens available at the first attempt + refill over the elapsed time`. -/
theorem bucket_bound_gen (c : QCfg) : ∀ (ts : List Int) (b : Bucket) (t0 : Int), 0 ≤ b.tokens →
    (t0 :: ts).Pairwise (· ≤ ·) →
    (c.countAllowed b (t0 :: ts) : Int) * c.unit ≤ c.avail b t0 + ((c.num : Int) * lastOr t0 ts - (c.num : Int) * t0) := by
  intro ts
  induction ts with
  | nil =>
    intro b t0 hb _
    have hn := avail_nonneg c b t0 hb
    simp only [QCfg.countAllowed, lastOr]
    rcases allow_cases c b t0 with ⟨a, e⟩ | ⟨a, e⟩ <;> rw [e] <;> simp <;> omega
  | cons t1 ts ih =>
    intro b t0 hb hs
    have hs' : (t1 :: ts).Pairwise (· ≤ ·) := (List.pairwise_cons.mp hs).2
    have h01 : t0 ≤ t1 := (List.pairwise_cons.mp hs).1 t1 (by simp)
    have hu := unit_nonneg c
    rw [QCfg.countAllowed]
    simp only [lastOr]
    rcases allow_cases c b t0 with ⟨a, e⟩ | ⟨a, e⟩
    · rw [e]
      simp only [if_true]
      have := ih { tokens := c.avail b t0 - c.unit, last := t0 } t1 (by simpa using a) hs'
      -- tokens available at t1 from the new state
      obtain ⟨l, hl, hc⟩ := avail_cases c { tokens := c.avail b t0 - c.unit, last := t0 } t1
      simp only at hl hc
      have hl' : l = t0 := by omega
      rw [hl'] at hc
      have e1 : ((1 + c.countAllowed { tokens := c.avail b t0 - c.unit, last := t0 } (t1 :: ts) : Nat) : Int) * c.unit
          = c.unit + (c.countAllowed { tokens := c.avail b t0 - c.unit, last := t0 } (t1 :: ts) : Int) * c.unit := by
        rw [Int.natCast_add, Int.add_mul]; simp
      rw [e1]
      omega
    · rw [e]
      simp only [Bool.false_eq_true, if_false, Nat.zero_add]
      have := ih b t1 hb hs'
      have := avail_mono c b t0 t1 h01
      omega

theorem bucket_bound (c : QCfg) (b : Bucket) (t0 : Int) (ts : List Int) (hb : 0 ≤ b.tokens)
    (hs : (t0 :: ts).Pairwise (· ≤ ·)) :
    (c.countAllowed b (t0 :: ts) : Int) * c.unit ≤ (c.burst : Int) * c.unit + (c.num : Int) * (lastOr t0 ts - t0) := by
  have := bucket_bound_gen c ts b t0 hb hs
  have := avail_le_cap c b t0
  unfold QCfg.cap at this
  rw [Int.mul_sub]; omega


/-! ## Quota: LRU of buckets -/

abbrev QEv := Int × Option Bytes     -- (clock reading, derived key; `none` = unparsable address)

/-- number of events of group `g` that `Blocked` lets through over a history -/
def QCfg.allowedOf (c : QCfg) (g : Bytes) : Cache → List QEv → Nat
  | _, [] => 0
  | cache, e :: r =>
    (if e.2 = some g ∧ (c.blocked cache e.1 e.2).2 = false then 1 else 0) + c.allowedOf g (c.blocked cache e.1 e.2).1 r

def QCfg.stateAfter (c : QCfg) : Cache → List QEv → Cache
  | cache, [] => cache
  | cache, e :: r => c.stateAfter (c.blocked cache e.1 e.2).1 r

/-- timestamps of the events of group `g` -/
def gtimes (g : Bytes) (evs : List QEv) : List Int :=
  evs.filterMap (fun e => if e.2 = some g then some e.1 else none)

/-- number of first occurrences of keys not in `seen`: the number of distinct new groups -/
def firsts (seen : List Bytes) : List QEv → Nat
  | [] => 0
  | (_, none) :: r => firsts seen r
  | (_, some k) :: r => (if k ∈ seen then 0 else 1) + firsts (k :: seen) r

theorem lookup_filter_gen (p : Bytes × Bucket → Bool) (cache : Cache) (k g : Bytes)
    (hp : ∀ e, p e = true ↔ e.1 ≠ k) (h : g ≠ k) : (cache.filter p).lookup g = cache.lookup g := by
  induction cache with
  | nil => rfl
  | cons x r ih =>
    obtain ⟨k', b'⟩ := x
    by_cases hk : k' = k
    · subst hk
      have h1 : (g == k') = false := by simp [h]
      have h2 : p (k', b') = false := by
        cases hh : p (k', b') with
        | false => rfl
        | true => exact absurd rfl ((hp _).mp hh)
      rw [List.filter_cons, h2, List.lookup_cons, h1]; exact ih
    · have h2 : p (k', b') = true := (hp _).mpr hk
      rw [List.filter_cons, h2]; simp only [if_true, List.lookup_cons, ih]

theorem length_filter_gen (p : Bytes × Bucket → Bool) (cache : Cache) (k : Bytes) (b : Bucket)
    (hp : ∀ e, p e = true ↔ e.1 ≠ k) (h : cache.lookup k = some b) :
    (cache.filter p).length + 1 ≤ cache.length := by
  induction cache with
  | nil => simp at h
  | cons x r ih =>
    obtain ⟨k', b'⟩ := x
    by_cases hk : k' = k
    · subst hk
      have h2 : p (k', b') = false := by
        cases hh : p (k', b') with
        | false => rfl
        | true => exact absurd rfl ((hp _).mp hh)
      have := List.length_filter_le p r
      rw [List.filter_cons, h2]; simp only [Bool.false_eq_true, if_false, List.length_cons]; omega
    · have hb : (k == k') = false := by simp; exact fun e => hk e.symm
      have h2 : p (k', b') = true := (hp _).mpr hk
      simp only [List.lookup_cons, hb] at h
      have := ih h
      rw [List.filter_cons, h2]; simp only [if_true, List.length_cons]; omega

theorem neKey_spec (k : Bytes) : ∀ e : Bytes × Bucket, (decide (e.1 ≠ k)) = true ↔ e.1 ≠ k := by
  intro e; simp

theorem lookup_filter_ne (cache : Cache) (k g : Bytes) (h : g ≠ k) :
    (cache.filter (fun e => e.1 ≠ k)).lookup g = cache.lookup g :=
  lookup_filter_gen _ cache k g (neKey_spec k) h

theorem length_filter_lt (cache : Cache) (k : Bytes) (b : Bucket) (h : cache.lookup k = some b) :
    (cache.filter (fun e => e.1 ≠ k)).length + 1 ≤ cache.length :=
  length_filter_gen _ cache k b (neKey_spec k) h

theorem blocked_hit (c : QCfg) (cache : Cache) (t : Int) (k : Bytes) (b : Bucket) (h : cache.lookup k = some b) :
    c.blocked cache t (some k) = ((k, (c.allow b t).1) :: cache.filter (fun e => e.1 ≠ k), !(c.allow b t).2) := by
  simp [QCfg.blocked, h, cacheSet]

theorem blocked_miss (c : QCfg) (cache : Cache) (t : Int) (k : Bytes) (h : cache.lookup k = none)
    (hcap : ¬ (c.maxEntries ≠ 0 ∧ ((cache.length + 1 : Nat) : Int) > c.maxEntries)) :
    c.blocked cache t (some k) = ((k, (c.allow c.fresh t).1) :: cache, !(c.allow c.fresh t).2) := by
  simp only [QCfg.blocked, h, List.length_cons]
  rw [if_neg hcap]
  simp [cacheSet]

/-- invariants of a quota state w.r.t. the set of groups seen so far and the remaining history -/
structure Good (c : QCfg) (cache : Cache) (seen : List Bytes) (rest : List QEv) : Prop where
  keys : ∀ k, (cache.lookup k).isSome ↔ k ∈ seen
  room : c.maxEntries = 0 ∨ ((cache.length + firsts seen rest : Nat) : Int) ≤ c.maxEntries
  nonneg : ∀ k b, cache.lookup k = some b → 0 ≤ b.tokens

def seenAfter (seen : List Bytes) : List QEv → List Bytes
  | [] => seen
  | (_, none) :: r => seenAfter seen r
  | (_, some k) :: r => seenAfter (k :: seen) r

theorem fresh_nonneg (c : QCfg) : 0 ≤ c.fresh.tokens := cap_nonneg c

theorem allow_nonneg (c : QCfg) (b : Bucket) (t : Int) (h : 0 ≤ b.tokens) : 0 ≤ (c.allow b t).1.tokens := by
  rcases allow_cases c b t with ⟨a, e⟩ | ⟨a, e⟩ <;> rw [e] <;> simp <;> omega

/-- one step: what happens to the state and to the view of group `g` -/
theorem good_step {c : QCfg} {cache : Cache} {seen : List Bytes} {t : Int} {k : Bytes} {r : List QEv}
    (h : Good c cache seen ((t, some k) :: r)) :
    Good c (c.blocked cache t (some k)).1 (k :: seen) r ∧
    (c.blocked cache t (some k)).2 = !(c.allow ((cache.lookup k).getD c.fresh) t).2 ∧
    (c.blocked cache t (some k)).1.lookup k = some (c.allow ((cache.lookup k).getD c.fresh) t).1 ∧
    ∀ g, g ≠ k → (c.blocked cache t (some k)).1.lookup g = cache.lookup g := by
  obtain ⟨hk, hroom, hnn⟩ := h
  cases hl : cache.lookup k with
  | some b =>
    have hin : k ∈ seen := (hk k).mp (by simp [hl])
    rw [blocked_hit c cache t k b hl]
    have hlen := length_filter_lt cache k b hl
    refine ⟨⟨?_, ?_, ?_⟩, by simp, by simp [List.lookup_cons], ?_⟩
    · intro g
      by_cases hg : g = k
      · subst hg; simp [List.lookup_cons]
      · have : (g == k) = false := by simp [hg]
        simp only [List.lookup_cons, this, lookup_filter_ne cache k g hg, hk g, List.mem_cons, hg, false_or]
    · rcases hroom with h0 | h1
      · left; exact h0
      · right
        simp only [firsts, hin, if_true, Nat.zero_add] at h1
        simp only [List.length_cons]
        omega
    · intro g b' hg
      by_cases hgk : g = k
      · subst hgk
        simp [List.lookup_cons] at hg
        rw [← hg]; exact allow_nonneg c b t (hnn _ _ hl)
      · have : (g == k) = false := by simp [hgk]
        simp only [List.lookup_cons, this, lookup_filter_ne cache k g hgk] at hg
        exact hnn g b' hg
    · intro g hg
      have : (g == k) = false := by simp [hg]
      simp only [List.lookup_cons, this, lookup_filter_ne cache k g hg]
  | none =>
    have hnin : k ∉ seen := fun hh => by have := (hk k).mpr hh; simp [hl] at this
    have hcap : ¬ (c.maxEntries ≠ 0 ∧ ((cache.length + 1 : Nat) : Int) > c.maxEntries) := by
      rcases hroom with h0 | h1
      · intro hh; exact hh.1 h0
      · simp only [firsts, hnin, if_false] at h1
        intro hh; omega
    rw [blocked_miss c cache t k hl hcap]
    refine ⟨⟨?_, ?_, ?_⟩, by simp, by simp [List.lookup_cons], ?_⟩
    · intro g
      by_cases hg : g = k
      · subst hg; simp [List.lookup_cons]
      · have : (g == k) = false := by simp [hg]
        simp only [List.lookup_cons, this, hk g, List.mem_cons, hg, false_or]
    · rcases hroom with h0 | h1
      · left; exact h0
      · right
        simp only [firsts, hnin, if_false] at h1
        simp only [List.length_cons]
        omega
    · intro g b' hg
      by_cases hgk : g = k
      · subst hgk
        simp [List.lookup_cons] at hg
        rw [← hg]; exact allow_nonneg c _ t (fresh_nonneg c)
      · have : (g == k) = false := by simp [hgk]
        simp only [List.lookup_cons, this] at hg
        exact hnn g b' hg
    · intro g hg
      have : (g == k) = false := by simp [hg]
      simp only [List.lookup_cons, this]

theorem good_skip {c : QCfg} {cache : Cache} {seen : List Bytes} {t : Int} {r : List QEv}
    (h : Good c cache seen ((t, none) :: r)) : Good c cache seen r :=
  ⟨h.keys, by simpa [firsts] using h.room, h.nonneg⟩

/-- Over any history that never overflows the LRU, the events of group `g` see exactly one token bucket. -/
theorem allowedOf_eq (c : QCfg) (g : Bytes) : ∀ (evs : List QEv) (cache : Cache) (seen : List Bytes),
    Good c cache seen evs →
    c.allowedOf g cache evs = c.countAllowed ((cache.lookup g).getD c.fresh) (gtimes g evs) ∧
    Good c (c.stateAfter cache evs) (seenAfter seen evs) [] := by
  intro evs
  induction evs with
  | nil => intro cache seen h; exact ⟨rfl, h⟩
  | cons e r ih =>
    intro cache seen h
    obtain ⟨t, ko⟩ := e
    cases ko with
    | none =>
      have := ih cache seen (good_skip h)
      simp only [QCfg.allowedOf, QCfg.stateAfter, seenAfter, gtimes, List.filterMap_cons, QCfg.blocked]
      simp only [reduceCtorEq, false_and, if_false, Nat.zero_add]
      exact this
    | some k =>
      obtain ⟨hg, hout, hlk, hother⟩ := good_step h
      have := ih _ _ hg
      simp only [QCfg.allowedOf, QCfg.stateAfter, seenAfter]
      refine ⟨?_, this.2⟩
      rw [this.1]
      by_cases hk : k = g
      · subst hk
        have hgt : gtimes k ((t, some k) :: r) = t :: gtimes k r := by simp [gtimes]
        rw [hgt, QCfg.countAllowed, hlk, hout]
        cases (c.allow ((cache.lookup k).getD c.fresh) t).2 <;> simp
      · have hgt : gtimes g ((t, some k) :: r) = gtimes g r := by
          simp [gtimes, hk]
        have hne : g ≠ k := fun e => hk e.symm
        rw [hgt, hother g hne]
        have : ¬ (some k = some g) := by simp [hk]
        simp [this]

theorem good_init (c : QCfg) (evs : List QEv)
    (hcap : c.maxEntries = 0 ∨ ((firsts [] evs : Nat) : Int) ≤ c.maxEntries) : Good c [] [] evs :=
  ⟨by intro k; simp, by simpa using hcap, by intro k b h; simp at h⟩

theorem gtimes_sorted (g : Bytes) (evs : List QEv) (h : (evs.map (·.1)).Pairwise (· ≤ ·)) :
    (gtimes g evs).Pairwise (· ≤ ·) := by
  rw [List.pairwise_map] at h
  unfold gtimes
  apply List.Pairwise.filterMap _ _ h
  intro a a' hr b hb b' hb'
  split at hb <;> split at hb' <;> simp at hb hb'
  subst hb; subst hb'; exact hr


theorem good_prefix (c : QCfg) : ∀ (pre : List QEv) (cache : Cache) (seen : List Bytes) (seg : List QEv),
    Good c cache seen (pre ++ seg) → Good c (c.stateAfter cache pre) (seenAfter seen pre) seg := by
  intro pre
  induction pre with
  | nil => intro cache seen seg h; exact h
  | cons e r ih =>
    intro cache seen seg h
    obtain ⟨t, ko⟩ := e
    cases ko with
    | none =>
      simp only [QCfg.stateAfter, seenAfter, QCfg.blocked]
      exact ih cache seen seg (good_skip h)
    | some k =>
      simp only [QCfg.stateAfter, seenAfter]
      exact ih _ _ seg (good_step h).1

/-! ## the float64 comparison in `Account` -/

theorem over_eq_gt_floor (n r iv : Int) : over n r iv = decide (n > (r * iv) / 1000000000) := by
  unfold over
  rw [decide_eq_decide]
  omega

/-! ## concurrent first contact of one group (rate 0): atomic sections of `Quota.Blocked`

Threads are sequences of atomic actions on a shared state: a heap of buckets (remaining tokens), the cache slot
of the group's key, a per-thread local limiter reference.  `acq` is the critical section of the code as it is
(`q.mu.Lock … cache.Get / NewLimiter + cache.Add … q.mu.Unlock`: get-or-create, atomic); `alw` is
`limiter.Allow()` (atomic under the limiter's own mutex).  `look` / `create` are the two halves of a
check-then-act variant (lookup in one critical section, create + Add in another). -/

inductive CAct where
  | acq (i : Nat) | alw (i : Nat) | look (i : Nat) | create (i : Nat)
  deriving DecidableEq, Repr

structure CState where
  heap    : List Nat
  cache   : Option Nat
  loc     : Nat → Option Nat
  allowed : Nat

def CState.init : CState := { heap := [], cache := none, loc := fun _ => none, allowed := 0 }

def setLoc (loc : Nat → Option Nat) (i : Nat) (v : Option Nat) : Nat → Option Nat :=
  fun j => if j = i then v else loc j

def cstep (burst : Nat) (s : CState) : CAct → CState
  | .acq i =>
    match s.cache with
    | some k => { s with loc := setLoc s.loc i (some k) }
    | none => { s with heap := s.heap ++ [burst], cache := some s.heap.length, loc := setLoc s.loc i (some s.heap.length) }
  | .alw i =>
    match s.loc i with
    | some k => if s.heap.getD k 0 > 0 then { s with heap := s.heap.set k (s.heap.getD k 0 - 1), allowed := s.allowed + 1 } else s
    | none => s
  | .look i => { s with loc := setLoc s.loc i s.cache }
  | .create i =>
    match s.loc i with
    | some _ => s
    | none => { s with heap := s.heap ++ [burst], cache := some s.heap.length, loc := setLoc s.loc i (some s.heap.length) }

def crun (burst : Nat) (s : CState) (sched : List CAct) : CState := sched.foldl (cstep burst) s

def CAct.atomic : CAct → Bool
  | .acq _ | .alw _ => true
  | _ => false

/-- invariant of the atomic-section system: at most one bucket ever exists for the group -/
def CInv (burst : Nat) (s : CState) : Prop :=
  (s.cache = none ∧ s.heap = [] ∧ s.allowed = 0 ∧ ∀ i, s.loc i = none) ∨
  (∃ r, s.cache = some 0 ∧ s.heap = [r] ∧ s.allowed + r = burst ∧ ∀ i, s.loc i = none ∨ s.loc i = some 0)

theorem cinv_step (burst : Nat) (s : CState) (a : CAct) (ha : a.atomic = true) (h : CInv burst s) :
    CInv burst (cstep burst s a) := by
  cases a with
  | look i => cases ha
  | create i => cases ha
  | acq i =>
    rcases h with ⟨hc, hh, hal, hl⟩ | ⟨r, hc, hh, hal, hl⟩
    · right
      refine ⟨burst, ?_⟩
      simp only [cstep, hc, hh, List.nil_append, List.length_nil]
      refine ⟨trivial, trivial, by omega, ?_⟩
      intro j; unfold setLoc; by_cases hj : j = i <;> simp [hj, hl j]
    · right
      refine ⟨r, ?_⟩
      simp only [cstep, hc]
      refine ⟨trivial, hh, hal, ?_⟩
      intro j; unfold setLoc; by_cases hj : j = i
      · simp [hj]
      · simp only [hj, if_false]; exact hl j
  | alw i =>
    rcases h with ⟨hc, hh, hal, hl⟩ | ⟨r, hc, hh, hal, hl⟩
    · left
      simp only [cstep, hl i]
      exact ⟨hc, hh, hal, hl⟩
    · rcases hl i with hn | hs
      · right; refine ⟨r, ?_⟩; simp only [cstep, hn]; exact ⟨hc, hh, hal, hl⟩
      · right
        simp only [cstep, hs, hh, List.getD_cons_zero]
        by_cases hr : r > 0
        · refine ⟨r - 1, ?_⟩
          simp only [hr, if_true, List.set_cons_zero]
          exact ⟨hc, trivial, by omega, hl⟩
        · refine ⟨r, ?_⟩
          simp only [hr, if_false]
          exact ⟨hc, hh, hal, hl⟩

theorem cinv_run (burst : Nat) : ∀ (sched : List CAct) (s : CState), (∀ a ∈ sched, a.atomic = true) → CInv burst s →
    CInv burst (crun burst s sched) := by
  intro sched
  induction sched with
  | nil => intro s _ h; exact h
  | cons a r ih =>
    intro s ha h
    exact ih _ (fun b hb => ha b (by simp [hb])) (cinv_step burst s a (ha a (by simp)) h)


end Gate.C34
