import GateModel.Base.Bytes
import GateModel.Gen.C34
/-
C34 — model of pkg/internal/packetlimiter/{counter,limiter}.go and pkg/internal/addrquota/quota.go.

* `Counter` mirrors the Go `counter` field by field (ring buffer `times`/`counts`, `head`, `tail`,
  running `total`, `minTime`); `expire`, `add`, `resize`, `updateAndAdd` mirror the Go functions
  statement by statement.  Go `int64` values are `Int` (timestamps are UnixNano, sums of packet
  sizes: no overflow for 292 years / 2^63 bytes — stated as an assumption of the check).
* `Limiter.account` mirrors `Limiter.Account` with the clock reading as an argument.  The Go code
  compares `float64(total) / (float64(interval) * 1e-9) > float64(perSecond)`; the model compares the
  same quantities exactly (`total * 10^9 > perSecond * interval`).  Agreement of the two at the boundary
  is probed on the real code for every configuration the harness uses (see Props: `float_verdict_agrees`).
* `ipKeyBytes` mirrors `ipKey` on the 16-byte form `net.ParseIP` returns (`none` = parse failure);
  `fmtKey` mirrors `net.IP.String()` for the masked result.
* `Quota.blocked` mirrors `Quota.Blocked`: groupcache `lru.Cache` (MRU-first list, eviction of the
  oldest when `maxEntries ≠ 0 ∧ len > maxEntries`) holding one token bucket per key; the bucket is
  `x/time/rate`'s `Limiter.reserveN/advance` for `n = 1`, in exact arithmetic (tokens scaled so that
  one token = `den * 10^9` units and the refill is `num` units per nanosecond for `eps = num/den`).
-/
namespace Gate.C34
open Gate

/-! ## sliding-window counter (counter.go) -/

structure Counter where
  interval : Int
  times    : List Int
  counts   : List Int
  head     : Nat
  tail     : Nat
  total    : Int
  minTime  : Int
  deriving Repr, DecidableEq

/-- `initialCounterSize`, regenerated from the source. -/
def initialCounterSize : Nat := Gate.Gen.C34.initialCounterSize.toNat

def newCounter (interval : Int) : Counter :=
  { interval, times := List.replicate initialCounterSize 0, counts := List.replicate initialCounterSize 0,
    head := 0, tail := 0, total := 0, minTime := 0 }

/-- one iteration of the `for` loop in `expire` (body only; the loop condition is in `expireLoop`) -/
def Counter.pop (c : Counter) : Counter :=
  { c with total := c.total - c.counts.getD c.head 0,
           counts := c.counts.set c.head 0,
           head := if c.head + 1 ≥ c.times.length then 0 else c.head + 1 }

/-- `for c.head != c.tail && c.times[c.head]-minTime < 0 { … }`; the loop runs at most `len` times. -/
def expireLoop (minTime : Int) : Nat → Counter → Counter
  | 0, c => c
  | fuel + 1, c =>
    if c.head ≠ c.tail ∧ c.times.getD c.head 0 - minTime < 0 then expireLoop minTime fuel c.pop else c

def Counter.expire (c : Counter) (now : Int) : Counter :=
  let minTime := now - c.interval
  { expireLoop minTime c.times.length c with minTime := minTime }

/-- `copy(new, old[head:tail])` resp. the two-part copy, into a zeroed slice of twice the length -/
def resizeCopy (head tail : Nat) (xs : List Int) : List Int :=
  let live := if tail ≥ head then (xs.drop head).take (tail - head) else xs.drop head ++ xs.take tail
  live ++ List.replicate (xs.length * 2 - live.length) 0

def Counter.resize (c : Counter) : Counter :=
  let oldLen := c.times.length
  let size := if c.tail < c.head then c.tail + oldLen - c.head else c.tail - c.head
  { c with times := resizeCopy c.head c.tail c.times, counts := resizeCopy c.head c.tail c.counts,
           head := 0, tail := size }

def Counter.add (c : Counter) (now count : Int) : Counter :=
  if now - c.minTime < 0 then c else
  let c1 := if (c.tail + 1) % c.times.length = c.head then c.resize else c
  let nextTail := (c1.tail + 1) % c1.times.length
  { c1 with times := c1.times.set c1.tail now,
            counts := c1.counts.set c1.tail (c1.counts.getD c1.tail 0 + count),
            total := c1.total + count, tail := nextTail }

def Counter.updateAndAdd (c : Counter) (count now : Int) : Counter := (c.expire now).add now count

/-- exact form of `c.rate() > float64(perSecond)`: `total / (interval * 1e-9) > perSecond` -/
def Counter.exceeds (c : Counter) (perSecond : Int) : Bool := decide (c.total * 1000000000 > perSecond * c.interval)

/-! ## Limiter (limiter.go) -/

structure Limiter where
  packets : Option Counter
  bytes   : Option Counter
  pps     : Int
  bps     : Int
  deriving Repr, DecidableEq

/-- `New`: `none` is the nil limiter (allows everything). -/
def Limiter.new (pps bps window : Int) : Option Limiter :=
  if window ≤ 0 ∨ (pps ≤ 0 ∧ bps ≤ 0) then none
  else some { packets := if pps > 0 then some (newCounter window) else none,
              bytes := if bps > 0 then some (newCounter window) else none, pps, bps }

/-- `Account` with the value of `time.Now().UnixNano()` as argument.  Returns the new state and the
    result; when the packet rate is exceeded the byte counter is not touched (early `return false`). -/
def Limiter.account (l : Limiter) (now bytes : Int) : Limiter × Bool :=
  let (l1, okP) := match l.packets with
    | some p => let p' := p.updateAndAdd 1 now
                ({ l with packets := some p' }, !p'.exceeds l.pps)
    | none => (l, true)
  if !okP then (l1, false) else
  match l1.bytes with
  | some b => let b' := b.updateAndAdd bytes now
              ({ l1 with bytes := some b' }, !b'.exceeds l1.bps)
  | none => (l1, true)

/-! ## ipKey (quota.go) -/

def v4InV6Prefix : Bytes := [0, 0, 0, 0, 0, 0, 0, 0, 0, 0, 0xff, 0xff]

/-- `IP.To4` on a 16-byte address -/
def to4 (ip : Bytes) : Option Bytes :=
  if ip.length = 16 ∧ ip.take 12 = v4InV6Prefix then some (ip.drop 12) else none

/-- `net.CIDRMask(ones, bits)` for `bits ∈ {32,128}`, `ones ≤ bits` -/
def cidrMask (ones bits : Nat) : Bytes :=
  (List.range (bits / 8)).map fun i =>
    if ones ≥ 8 * (i + 1) then 0xff
    else if ones ≤ 8 * i then 0
    else UInt8.ofNat (255 - 255 / 2 ^ (ones - 8 * i))   -- ^byte(0xff >> n)

/-- `IP.Mask` for equal lengths -/
def maskIP (ip mask : Bytes) : Bytes := List.zipWith (· &&& ·) ip mask

/-- `ipKey` up to the final `String()`: the masked 4- or 16-byte address; `none` is the key `""`.
    Argument: what `net.ParseIP` returned (`none` = nil). -/
def ipKeyBytes : Option Bytes → Option Bytes
  | none => none
  | some ip =>
    match to4 ip with
    | some v4 => some (maskIP v4 (cidrMask 24 32))
    | none => some (maskIP ip (cidrMask 64 128))

/-! ### `net.IP.String()` -/

def dotted (b : Bytes) : String := ".".intercalate (b.map fun x => toString x.toNat)

def hexNoLead (n : Nat) : String := String.ofList (Nat.toDigits 16 n)

def groups16 : Bytes → List Nat
  | a :: b :: r => (a.toNat * 256 + b.toNat) :: groups16 r
  | _ => []

/-- length of the run of zero groups starting at the head -/
def zeroRun : List Nat → Nat
  | 0 :: r => zeroRun r + 1
  | _ => 0

/-- longest run of ≥ 2 zero groups, first on ties: (start, end) -/
def bestZeroRun (gs : List Nat) : Option (Nat × Nat) :=
  (List.range gs.length).foldl (fun best i =>
    let l := zeroRun (gs.drop i)
    let cur := match best with | some (s, e) => e - s | none => 0
    if l ≥ 2 ∧ l > cur then some (i, i + l) else best) none

def fmtV6 (ip : Bytes) : String :=
  let gs := groups16 ip
  let hx := fun (xs : List Nat) => ":".intercalate (xs.map hexNoLead)
  match bestZeroRun gs with
  | some (s, e) => hx (gs.take s) ++ "::" ++ hx (gs.drop e)
  | none => hx gs

def fmtIP (ip : Bytes) : String :=
  if ip.length = 4 then dotted ip
  else match to4 ip with
    | some v4 => dotted v4
    | none => fmtV6 ip

/-- the string `ipKey` returns -/
def ipKeyString (p : Option Bytes) : String :=
  match ipKeyBytes p with | none => "" | some k => fmtIP k

/-! ## token bucket (x/time/rate Limiter, n = 1, exact arithmetic) and Quota (quota.go) -/

/-- configuration: `eps = num/den` events per second, `burst`, `maxEntries` of the LRU -/
structure QCfg where
  num : Nat
  den : Nat
  burst : Nat
  maxEntries : Int
  deriving Repr, DecidableEq

/-- units per token -/
def QCfg.unit (c : QCfg) : Int := (c.den : Int) * 1000000000

structure Bucket where
  tokens : Int     -- in units of 1/(den*10^9) token
  last   : Int     -- ns
  deriving Repr, DecidableEq

def QCfg.fresh (c : QCfg) : Bucket := { tokens := (c.burst : Int) * c.unit, last := 0 }

/-- `advance(t)`: tokens available at time `t` (capped at burst) -/
def QCfg.avail (c : QCfg) (b : Bucket) (t : Int) : Int :=
  let last := if t < b.last then t else b.last
  let tok := b.tokens + (c.num : Int) * (t - last)
  if tok > (c.burst : Int) * c.unit then (c.burst : Int) * c.unit else tok

/-- `Allow()` at time `t`: state changes only when the event is allowed -/
def QCfg.allow (c : QCfg) (b : Bucket) (t : Int) : Bucket × Bool :=
  let tok := c.avail b t
  if tok - c.unit ≥ 0 then ({ tokens := tok - c.unit, last := t }, true) else (b, false)

abbrev Cache := List (Bytes × Bucket)   -- most recently used first

def cacheSet (k : Bytes) (b : Bucket) : Cache → Cache
  | [] => []
  | (k', b') :: r => if k' = k then (k', b) :: r else (k', b') :: cacheSet k b r

/-- `Quota.Blocked` with the clock reading `t` and the already-derived key (`none` = `""`). -/
def QCfg.blocked (c : QCfg) (cache : Cache) (t : Int) : Option Bytes → Cache × Bool
  | none => (cache, false)
  | some k =>
    let (b, cache1) := match cache.lookup k with
      | some b => (b, (k, b) :: cache.filter (fun e => e.1 ≠ k))            -- Get: move to front
      | none =>
        let cs := (k, c.fresh) :: cache                                       -- Add: push front
        (c.fresh, if c.maxEntries ≠ 0 ∧ (cs.length : Int) > c.maxEntries then cs.dropLast else cs)
    let (b', ok) := c.allow b t
    (cacheSet k b' cache1, !ok)

end Gate.C34
