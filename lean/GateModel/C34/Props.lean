import GateModel.C34.Lemmas
/-
C34 — Rate limiters enforce exactly their configured windows and buckets.

Property theorems only (helper lemmas: `Lemmas.lean`; model: `Model.lean`; reference specs: `Spec.lean`).

1. packet limiter
   * `ring_is_deque`            the ring buffer (any timestamps, any sizes, any number of resizes) is a
                                faithful deque: live slots = abstract list, `total` = its sum
   * `ring_holds_window`        on time-ordered histories the live slots hold EXACTLY the events of the
                                trailing window `[now - interval, now]`, in order
   * `ring_refines_window`      hence `counter.sum()` = straightforward sliding-window sum
   * `account_closes_iff`       `Limiter.Account` returns false exactly when the packets or the bytes
                                counted in the trailing window exceed rate × window
   * `float_verdict_agrees`     the float64 comparison of the Go code coincides with the exact comparison of
                                the model for every total as soon as it does at the two boundary totals
                                K = ⌊rate × window⌋ and K + 1 (which the harness probes on the real code)
   * `ring_nonmonotone_overcounts`  the time-order hypothesis cannot be dropped
2. address quota
   * `same_bucket_iff`          two addresses get the same key iff same IPv4 /24 (incl. IPv4-mapped) or
                                same IPv6 /64
   * `bucket_bound`             a bucket in ANY state lets through at most burst + rate × elapsed events
                                over any time-ordered sequence of attempts
   * `quota_bound`, `quota_bound_any_interval`  the same for each group through `Quota.Blocked`, for
                                every history whose number of distinct groups fits the LRU (`maxEntries`)
   * `quota_capacity_needed`    beyond the LRU capacity the bound is lost (eviction forgets the bucket)
   * `concurrent_first_contact_bound`  all interleavings of the atomic sections (get-or-create, Allow) of any number
                                of goroutines hitting a fresh group admit ≤ burst (rate 0);
     `check_then_act_overadmits`  the split lookup/create variant does not
3. `src_*`                      source-shape facts regenerated from /repo by tools/gofacts
-/
namespace Gate.C34.Props
open Gate Gate.C34

/-! ### 1. sliding-window counter -/

/-- For arbitrary timestamps and sizes the ring buffer behaves as the deque machine
    "drop expired entries from the front, append at the back" (covers wrap-around and every resize). -/
theorem ring_is_deque (iv : Int) (h0 : 0 ≤ iv) (evs : List Ev) :
    Rep (runCounter iv evs) (absRun iv evs) ∧ (runCounter iv evs).total = ((absRun iv evs).map (·.2)).sum :=
  ⟨(run_refines iv h0 evs).1, (run_refines iv h0 evs).1.tot⟩

/-- Time-ordered history: the live slots hold exactly the trailing window, in arrival order. -/
theorem ring_holds_window (iv : Int) (h0 : 0 ≤ iv) (evs : List Ev) (hm : Mono evs) :
    Rep (runCounter iv evs) (window iv evs) := by
  have := (run_refines iv h0 evs).1
  rwa [absRun_window iv h0 evs hm] at this

/-- `counter.sum()` after recording `e` = sum of the sizes of all events with `e.t - interval ≤ t`. -/
theorem ring_refines_window (iv : Int) (h0 : 0 ≤ iv) (evs : List Ev) (e : Ev) (hm : Mono (evs ++ [e])) :
    (runCounter iv (evs ++ [e])).total = windowSum iv (evs ++ [e]) e.1 := runCounter_total iv h0 evs e hm

example : Mono [(0, 3), (0, 1), (5, 2), (17, 0)] := by unfold Mono; decide

/-- The time-order hypothesis is necessary: an out-of-order event stays behind a newer head entry. -/
theorem ring_nonmonotone_overcounts :
    (runCounter 10 [(100, 1), (50, 1), (105, 1)]).total = 3 ∧ windowSum 10 [(100, 1), (50, 1), (105, 1)] 105 = 2 := by
  decide

/-- `Account` closes the connection exactly when the window count or the window byte sum exceeds
    rate × window — for every limiter `New` can return, every time-ordered history on which the
    connection is still open (all earlier calls returned true), every next packet. -/
theorem account_closes_iff (pps bps w : Int) (l0 : Limiter) (hn : Limiter.new pps bps w = some l0)
    (evs : List Ev) (e : Ev) (hm : Mono (evs ++ [e])) (hok : (l0.runAll evs).2 = true) :
    ((l0.runAll evs).1.account e.1 e.2).2 = !closesSpec pps bps w (evs ++ [e]) e.1 := by
  obtain ⟨hw, _⟩ := new_inv hn
  have hinv := runAll_inv hn evs hok
  rw [(account_inv hinv e).1]
  have hmo : Mono (ones evs ++ [(e.1, 1)]) := by rw [← ones_snoc]; exact mono_ones hm
  have h1 := runCounter_total w (by omega) (ones evs) (e.1, 1) hmo
  have h2 := runCounter_total w (by omega) evs e hm
  have i1 := (run_refines w (by omega) (ones (evs ++ [e]))).2
  have i2 := (run_refines w (by omega) (evs ++ [e])).2
  rw [exceeds_eq_over, exceeds_eq_over, i1, i2, h2, ones_snoc, h1, ← ones_snoc, windowSum_ones]
  unfold closesSpec
  simp [Bool.not_or]

/-- `New` returns the nil limiter (which allows everything) exactly for a non-positive window or when
    both rates are non-positive -/
theorem new_nil_iff (pps bps w : Int) : Limiter.new pps bps w = none ↔ (w ≤ 0 ∨ (pps ≤ 0 ∧ bps ≤ 0)) := by
  unfold Limiter.new; split <;> simp_all

example : ∃ l, Limiter.new 500 (-1) 7000000000 = some l := ⟨_, rfl⟩
example : ((Limiter.mk (some (newCounter 10)) none 1 0).runAll [(0, 5), (3, 5)]).2 = false := by decide

/-- The Go code decides `float64(total)/(float64(interval)*1e-9) > float64(rate)`.  Any verdict function
    that is monotone in `total` (IEEE conversions, division by a positive constant and `>` are monotone)
    and is right at the two totals around the boundary is the exact comparison of the model everywhere. -/
theorem float_verdict_agrees (f : Int → Bool) (rate iv : Int)
    (hmono : ∀ a b, a ≤ b → f a = true → f b = true)
    (hK : f ((rate * iv) / 1000000000) = false) (hK1 : f ((rate * iv) / 1000000000 + 1) = true) :
    ∀ n, f n = over n rate iv := by
  intro n
  rw [over_eq_gt_floor]
  by_cases h : n > (rate * iv) / 1000000000
  · rw [decide_eq_true h]; exact hmono _ _ (by omega) hK1
  · rw [decide_eq_false h]
    cases hf : f n with
    | false => rfl
    | true => rw [hmono n _ (by omega) hf] at hK; cases hK

example : (fun n : Int => decide (n > 3500)) ((500 * 7000000000) / 1000000000) = false := by decide

/-! ### 2. address quota -/

/-- `ipKey a = ipKey b` (as masked addresses) iff same /24 for IPv4 / IPv4-mapped, same /64 for IPv6;
    an IPv4 and an IPv6 address never share a bucket. -/
theorem same_bucket_iff (a b : Bytes) (ha : a.length = 16) (hb : b.length = 16) :
    ipKeyBytes (some a) = ipKeyBytes (some b) ↔ sameGroup a b = true := same_bucket a b ha hb

/-- an unparsable address has the empty key (and is never limited: see `QCfg.blocked`) -/
theorem unparsable_never_blocked (c : QCfg) (cache : Cache) (t : Int) :
    ipKeyBytes none = none ∧ c.blocked cache t none = (cache, false) := ⟨rfl, rfl⟩

/-- Token bucket: from ANY state with non-negative tokens, over any time-ordered attempts `t0 ≤ … ≤ tn`,
    allowed ≤ burst + rate × (tn − t0)   (scaled by `unit` = den × 10^9 to stay in integers). -/
theorem bucket_bound (c : QCfg) (b : Bucket) (t0 : Int) (ts : List Int) (hb : 0 ≤ b.tokens)
    (hs : (t0 :: ts).Pairwise (· ≤ ·)) :
    (c.countAllowed b (t0 :: ts) : Int) * c.unit ≤ (c.burst : Int) * c.unit + (c.num : Int) * (lastOr t0 ts - t0) :=
  Gate.C34.bucket_bound c b t0 ts hb hs

/-- `Quota.Blocked`: in any segment `seg` of a time-ordered history `pre ++ seg` whose distinct groups fit
    the LRU, every group `g` gets at most burst + rate × elapsed events through, where elapsed is the time
    between `g`'s first and last attempt in the segment. -/
theorem quota_bound_any_interval (c : QCfg) (g : Bytes) (pre seg : List QEv)
    (hcap : c.maxEntries = 0 ∨ ((firsts [] (pre ++ seg) : Nat) : Int) ≤ c.maxEntries)
    (hs : (seg.map (·.1)).Pairwise (· ≤ ·)) (t0 : Int) (ts : List Int) (hg : gtimes g seg = t0 :: ts) :
    (c.allowedOf g (c.stateAfter [] pre) seg : Int) * c.unit ≤
      (c.burst : Int) * c.unit + (c.num : Int) * (lastOr t0 ts - t0) := by
  have hgood := good_prefix c pre [] [] seg (good_init c _ hcap)
  rw [(allowedOf_eq c g seg _ _ hgood).1, hg]
  apply Gate.C34.bucket_bound
  · cases hl : (c.stateAfter [] pre).lookup g with
    | none => exact fresh_nonneg c
    | some b => exact hgood.nonneg g b hl
  · rw [← hg]; exact gtimes_sorted g seg hs

theorem quota_bound (c : QCfg) (g : Bytes) (evs : List QEv)
    (hcap : c.maxEntries = 0 ∨ ((firsts [] evs : Nat) : Int) ≤ c.maxEntries)
    (hs : (evs.map (·.1)).Pairwise (· ≤ ·)) (t0 : Int) (ts : List Int) (hg : gtimes g evs = t0 :: ts) :
    (c.allowedOf g [] evs : Int) * c.unit ≤ (c.burst : Int) * c.unit + (c.num : Int) * (lastOr t0 ts - t0) :=
  quota_bound_any_interval c g [] evs hcap hs t0 ts hg

/-- a group without attempts lets nothing through -/
theorem quota_no_attempts (c : QCfg) (g : Bytes) (evs : List QEv)
    (hcap : c.maxEntries = 0 ∨ ((firsts [] evs : Nat) : Int) ≤ c.maxEntries) (hg : gtimes g evs = []) :
    c.allowedOf g [] evs = 0 := by
  rw [(allowedOf_eq c g evs _ _ (good_init c _ hcap)).1, hg]; rfl

example : firsts [] [(0, some [1]), (1, some [2]), (2, some [1]), (3, none)] = 2 := by decide

/-- The capacity hypothesis is necessary: with `maxEntries = 1`, `burst = 1`, rate 0, two alternating
    groups evict each other and group `[1]` gets 3 events through. -/
theorem quota_capacity_needed :
    (QCfg.mk 0 1 1 1).allowedOf [1] [] [(0, some [1]), (0, some [2]), (0, some [1]), (0, some [2]), (0, some [1])] = 3 := by
  decide

/-! ### 2b. concurrent first contact (interleavings of the atomic sections of `Blocked`, rate 0) -/

/-- Any number of goroutines, any interleaving of their atomic sections — get-or-create under the Quota mutex
    (`acq`, one critical section as `src_quota_shape` pins it) and `Allow` on the bucket obtained (`alw`) —
    lets at most `burst` events of a fresh group through: only one bucket is ever created. -/
theorem concurrent_first_contact_bound (burst : Nat) (sched : List CAct) (h : ∀ a ∈ sched, a.atomic = true) :
    (crun burst CState.init sched).allowed ≤ burst := by
  have hi : CInv burst CState.init := Or.inl ⟨rfl, rfl, rfl, fun _ => rfl⟩
  rcases cinv_run burst sched CState.init h hi with ⟨_, _, h0, _⟩ | ⟨r, _, _, hr, _⟩ <;> omega

/-- The check-then-act variant (lookup and create+Add in separate critical sections) is NOT safe: two
    goroutines that both miss each install a full bucket and both pass with `burst = 1`.  This is the
    schedule class the harness's `qconc` probe looks for on the real code. -/
theorem check_then_act_overadmits :
    (crun 1 CState.init [.look 0, .look 1, .create 0, .create 1, .alw 0, .alw 1]).allowed = 2 := by decide

/-! ### 3. tie to the source: facts regenerated by `tools/gofacts` -/

/-- in a call sequence `a` occurs, and before the first `b` -/
def before (a b : String) (cs : List String) : Bool := cs.idxOf a < cs.idxOf b && cs.idxOf a < cs.length

open Gate.Gen.C34 in
/-- `updateAndAdd` = `expire` then `add`; `Account` reads the clock once, updates and checks the packet
    counter before the byte counter (early return in between), all under the mutex. -/
theorem src_counter_and_account_shape :
    updateAndAddCalls = ["c.expire", "c.add"] ∧
    accountCalls = ["return", "time.Now", "time.Now().UnixNano", "l.mu.Lock", "defer:l.mu.Unlock",
      "l.packets.updateAndAdd", "l.packets.rate", "float64", "return",
      "int64", "l.bytes.updateAndAdd", "l.bytes.rate", "float64", "return", "return"] ∧
    "c.resize" ∈ addCalls ∧ rateCalls = ["float64", "float64", "return"] ∧
    newCalls = ["return", "newCounter", "newCounter", "return"] := by decide

open Gate.Gen.C34 in
/-- `Blocked`: key derivation first, LRU `Get`/`Add` inside the critical section, `Allow` on the bucket;
    `ipKey`: parse, `To4`, /24 mask else /64 mask. -/
theorem src_quota_shape :
    blockedCalls = ["ipKey", "q.mu.Lock", "q.cache.Get", "rate.Limit", "rate.NewLimiter", "q.cache.Add",
      "q.mu.Unlock", "limiter.Allow", "return"] ∧
    ipKeyCalls = ["net.ParseIP", "return", "ip.To4", "net.CIDRMask", "v4.Mask", "v4.Mask().String", "return",
      "net.CIDRMask", "ip.Mask", "ip.Mask().String", "return"] := by decide

theorem src_initial_size_positive : 0 < initialCounterSize := by decide

end Gate.C34.Props
