import GateModel.Base.Line
import GateModel.C22.Model
/-
C22 driver.  Stateful: the current proxy command tree and the player's permissions.

  tree <node>…        node = <parent>:<L|W|G>:<name|->:<perm|->:<handler><o|f|e>|-     impl `ok`
  perms <p,p,…|->                                                                         impl `ok`
  cmd <legacy|keyed|session|unsigned> <signed> <keyV2> <forceKey> <p1205> <denied> <forward> <newCmdHex|~> <lineHex>
        impl: `inv=<h,h…|-> be=<kind:texthex,…|-> x=<disconnects> msg=<messages to the player>`
        kind ∈ legacy, keyed1, keyed0, session1, session0, unsigned (1 = the client's own packet object)
  disp <lineHex>      impl: `unknown` | `syntax` | `ran:<h>:<o|f|e>`     (cmdMgr.Do alone, no handler logic)

Strings are hex of their (ASCII) bytes, `-` = empty.
Spec verdict: the property's clauses evaluated on the implementation's observations, with brigodier's answer for
the command line taken from `dispatch` (itself compared with the real dispatcher on the `disp` lines and through
every `cmd` line).
-/
namespace Gate.C22
open Gate

def strHex (s : String) : String := toHex (s.toList.map (fun c => UInt8.ofNat c.toNat))
def hexStr (h : String) : Option String :=
  (parseHex h).map (fun bs => String.ofList (bs.map (fun b => Char.ofNat b.toNat)))

def parseBit : String → Option Bool
  | "0" => some false | "1" => some true | _ => none
def bit (b : Bool) : String := if b then "1" else "0"

def parseHKind : Char → Option HKind
  | 'o' => some .ok | 'f' => some .fwd | 'e' => some .fail | _ => none
def HKind.ch : HKind → String
  | .ok => "o" | .fwd => "f" | .fail => "e"

def parseExec (s : String) : Option (Option (Nat × HKind)) :=
  if s = "-" then some none else
  match s.toList.reverse with
  | k :: digits => do
    let hk ← parseHKind k
    let n ← (String.ofList digits.reverse).toNat?
    pure (some (n, hk))
  | [] => none

def parseNode (s : String) : Option FNode :=
  match s.splitOn ":" with
  | [p, k, name, req, ex] => do
    let parent ← p.toNat?
    let kind ← match k with
      | "L" => some (NKind.lit name) | "W" => some .word | "G" => some .greedy | _ => none
    let req ← if req = "-" then some none else req.toNat?.map some
    let exec ← parseExec ex
    pure ⟨parent, kind, req, exec⟩
  | _ => none

def parsePerms (s : String) : Option (List Nat) :=
  if s = "-" then some [] else (s.splitOn ",").mapM String.toNat?

def parseFamily : String → Option Family
  | "legacy" => some .legacy | "keyed" => some .keyed | "session" => some .session | "unsigned" => some .unsigned
  | _ => none

def BKind.show : BKind → String
  | .legacyChat => "legacy" | .keyed o => "keyed" ++ bit o | .session o => "session" ++ bit o | .unsigned => "unsigned"

def Out.show (o : Out) : String :=
  "inv=" ++ (match o.invoked with | some h => toString h | none => "-") ++
  " be=" ++ (match o.backend with | some (k, t) => k.show ++ ":" ++ strHex t | none => "-") ++
  " x=" ++ bit o.disc ++ " msg=" ++ bit o.msg

def Disp.show : Disp → String
  | .unknown => "unknown" | .syntaxErr => "syntax" | .ran h k => s!"ran:{h}:{k.ch}"

structure Obs where
  inv : List Nat
  be : List (String × String)   -- kind, text
  x : Nat
  msg : Nat

def parseBe (e : String) : Option (String × String) :=
  match e.splitOn ":" with
  | [k, t] => (hexStr t).map (fun x => (k, x))
  | _ => none

def parseObs (s : String) : Option Obs :=
  match s.splitOn " " with
  | [i, b, x, m] =>
    if i.startsWith "inv=" && b.startsWith "be=" && x.startsWith "x=" && m.startsWith "msg=" then do
      let i := (i.drop 4).toString
      let b := (b.drop 3).toString
      let inv ← if i = "-" then some [] else (i.splitOn ",").mapM String.toNat?
      let be ← if b = "-" then some [] else (b.splitOn ",").mapM parseBe
      pure ⟨inv, be, ← (x.drop 2).toString.toNat?, ← (m.drop 4).toString.toNat?⟩
    else none
  | _ => none

/-- the property, clause by clause, on what the implementation did -/
def verdict (d : Disp) (fam : Family) (f : Flags) (cmd : String) (ev : Ev) (o : Obs) : String :=
  let c := commandToRun cmd ev
  let wantInv : List Nat := if !ev.denied && !ev.forward then (match d with | .ran h _ => [h] | _ => []) else []
  let toBackend : Bool := !ev.denied && (ev.forward || (match d with | .unknown => true | .ran _ .fwd => true | _ => false))
  if o.inv != wantInv then "viol:proxy-run-mismatch"
  else if ev.denied then (if o.be.isEmpty then "ok" else "viol:denied-forwarded")
  else if toBackend then
    if lockedRewrite fam f cmd ev then (if o.be.isEmpty && o.x ≥ 1 then "ok" else "viol:locked-rewrite")
    else match o.be with
      | [] => "viol:command-lost"
      | [(_, t)] => if t == c then "ok" else "viol:not-rewritten-as-requested"
      | _ => "viol:duplicated"
  else (if o.be.isEmpty then "ok" else "viol:consumed-and-forwarded")

structure DS where
  tree : Tree := []
  perms : List Nat := []

def step (ds : DS) (c : Case) : DS × String × String :=
  match c.op, c.args with
  | "tree", nodes =>
    match (nodes.filter (· ≠ "")).mapM parseNode with
    | some t => ({ ds with tree := t }, "ok", "-")
    | none => (ds, "bad-op", "-")
  | "perms", [p] =>
    match parsePerms p with
    | some ps => ({ ds with perms := ps }, "ok", "-")
    | none => (ds, "bad-op", "-")
  | "disp", [l] =>
    match hexStr l with
    | some line => (ds, (dispatch ds.tree ds.perms line).show, "-")
    | none => (ds, "bad-op", "-")
  | "cmd", [fam, sg, kv, fk, p, den, fwd, nc, l] =>
    let parsed : Option (Family × Flags × Ev × String) := do
      let fam ← parseFamily fam
      let f : Flags := ⟨← parseBit sg, ← parseBit kv, ← parseBit fk, ← parseBit p, true⟩
      let nc ← if nc = "~" then some none else (hexStr nc).map some
      let ev : Ev := ⟨← parseBit den, ← parseBit fwd, nc⟩
      pure (fam, f, ev, ← hexStr l)
    match parsed with
    | none => (ds, "bad-op", "-")
    | some (fam, f, ev, line) =>
      let disp := dispatch ds.tree ds.perms
      let out := decide disp fam f line ev
      let v := match parseObs c.impl with
        | some o => verdict (disp (commandToRun line ev)) fam f line ev o
        | none => "viol:" ++ (if c.impl = "hang" then "hang" else if c.impl = "panic" then "panic" else "unreadable")
      (ds, out.show, v)
  | _, _ => (ds, "bad-op", "-")

end Gate.C22

def main : IO Unit := Gate.runDriver ({} : Gate.C22.DS) Gate.C22.step
