import GateModel.C22.Lemmas
import GateModel.Gen.C22
/-
C22 — commands run on the proxy or reach the backend exactly once.

The decision theorems hold for EVERY dispatch function `disp` (brigodier is a parameter), every command line, every
event outcome (allow / deny / forward / SetCommand), every protocol family and flag combination.  `f.repaired = true`
is the code after fixes/C22-command-forwarding.diff.  A handler produces at most one backend packet by
construction (`Out.backend : Option _`: each packet-creating function returns one packet or nil and the chat queue
writes it once — C21), so "exactly once" is "backend = some _".

Reading of the statement (see checks/C22.json):
  "names a registered proxy command the player may use"  = brigodier does not answer `unknown command`
       (`Disp.ran` / `Disp.syntax`); by `ran_only_usable_nodes` / `ran_below_usable_root_literal` that implies a root literal
       named by the first word whose requirement — and the requirement of the executed node — the player passes;
  "executed by the proxy" = a handler ran (`invoked`), or brigodier reported a syntax error to the player;
  "rewritten as the event requested" = the packet's command text is `commandToRun` (= SetCommand's text, else the original).
`lockedRewrite` (forceKeyAuthentication and a rewrite of a signed command) is answered by disconnecting the player.
-/
namespace Gate.C22.Props
open Gate.C22

/-! ### source shape -/

def subseq : List String → List String → Bool
  | [], _ => true
  | _ :: _, [] => false
  | a :: as, b :: bs => if a = b then subseq as bs else subseq (a :: as) bs

/-- executeCommand maps the dispatcher's errors in this order: ErrForward / unknown command → not run;
    syntax error → reported to the player; anything else → error -/
theorem executeCommand_shape :
    subseq ["cmdMgr.Do", "errors.Is", "errors.Is", "return", "errors.As", "player.SendMessage", "return", "return", "return"]
      Gate.Gen.C22.executeCommandCalls = true := by decide

/-- the event is fired once, before the packet-creating function is queued -/
theorem event_fired_before_queueing :
    subseq ["c.eventMgr.Fire", "go:{", "packetCreator", "f.Complete", "}", "c.player.chatQueue.QueuePacket"]
      Gate.Gen.C22.queueCommandResultCalls = true := by decide

theorem manager_do_shape : Gate.Gen.C22.managerDoCalls = ["m.Parse", "m.Execute", "return"] := by decide

/-! ### decision logic -/

set_option hygiene false in
/-- case split over family, event flags and the dispatcher's answer for the command line that is run -/
macro "c22_cases" : tactic => `(tactic| (
  obtain ⟨den, fwd, nc⟩ := ev
  cases fam <;> simp only [decide, decideLegacy, decideKeyed, decideSession, commandToRun, lockedRewrite, Flags.keyedLocked] at * <;>
    generalize disp (Option.getD nc cmd) = d at * <;>
    (rcases d with _ | _ | ⟨h', k⟩) <;> (try cases k) <;> cases den <;> cases fwd <;>
    (try simp [execute] at *) <;> (repeat' split) <;> (try simp_all)))

/-- The proxy runs a command handler exactly when the event neither denied nor forwarded the command and the
    dispatcher resolves the command line (as rewritten by the event) to that handler. -/
theorem proxy_runs_iff (disp : String → Disp) (fam : Family) (f : Flags) (cmd : String) (ev : Ev) (h : Nat) :
    (decide disp fam f cmd ev).invoked = some h ↔
      (ev.denied = false ∧ ev.forward = false ∧ ∃ k, disp (commandToRun cmd ev) = .ran h k) := by
  c22_cases

/-- A denied command never reaches the backend (and is not run by the proxy). -/
theorem denied_never_forwarded (disp : String → Disp) (fam : Family) (f : Flags) (cmd : String) (ev : Ev)
    (hden : ev.denied = true) :
    (decide disp fam f cmd ev).backend = none ∧ (decide disp fam f cmd ev).invoked = none := by
  c22_cases

/-- Otherwise (the event forwards it, or the dispatcher does not know it, or its handler asks to forward it) and
    unless denied, the backend receives one command packet carrying the command the event asked for. -/
theorem otherwise_exactly_one_backend_packet (disp : String → Disp) (fam : Family) (f : Flags) (cmd : String) (ev : Ev)
    (hr : f.repaired = true) (hden : ev.denied = false)
    (hto : ev.forward = true ∨ disp (commandToRun cmd ev) = .unknown ∨ ∃ h, disp (commandToRun cmd ev) = .ran h .fwd)
    (hlock : lockedRewrite fam f cmd ev = false) :
    ∃ k, (decide disp fam f cmd ev).backend = some (k, commandToRun cmd ev) := by
  c22_cases

/-- A command the proxy takes (its handler ran to completion or failed, or brigodier reported a syntax error to the
    player) is not also sent to the backend. -/
theorem consumed_not_forwarded (disp : String → Disp) (fam : Family) (f : Flags) (cmd : String) (ev : Ev)
    (hfwd : ev.forward = false)
    (hc : disp (commandToRun cmd ev) = .syntaxErr ∨
          ∃ h, disp (commandToRun cmd ev) = .ran h .ok ∨ disp (commandToRun cmd ev) = .ran h .fail) :
    (decide disp fam f cmd ev).backend = none := by
  c22_cases

/-- Whatever reaches the backend carries the command line the event requested (the original if no handler changed it). -/
theorem rewritten_as_requested (disp : String → Disp) (fam : Family) (f : Flags) (cmd : String) (ev : Ev)
    (hr : f.repaired = true) :
    ∀ bk t, (decide disp fam f cmd ev).backend = some (bk, t) → t = commandToRun cmd ev := by
  c22_cases

/-- With forceKeyAuthentication, rewriting a signed command that would go to the backend disconnects the player instead. -/
theorem locked_rewrite_disconnects (disp : String → Disp) (fam : Family) (f : Flags) (cmd : String) (ev : Ev)
    (hr : f.repaired = true) (hden : ev.denied = false)
    (hto : ev.forward = true ∨ disp (commandToRun cmd ev) = .unknown ∨ ∃ h, disp (commandToRun cmd ev) = .ran h .fwd)
    (hlock : lockedRewrite fam f cmd ev = true) :
    (decide disp fam f cmd ev).backend = none ∧ (decide disp fam f cmd ev).disc = true := by
  c22_cases

/-! ### what "the dispatcher resolves the line" means for the modelled brigodier -/

/-- the proxy only ever runs handlers of nodes whose requirement the player passes -/
theorem ran_only_usable_nodes (t : Tree) (perms : List Nat) (line : String) (h : Nat) (k : HKind)
    (hd : dispatch t perms line = .ran h k) :
    ∃ nd ∈ t, nd.exec = some (h, k) ∧ usable perms nd = true := dispatch_ran_usable t perms line h k hd

/-- … and only below a root literal that the first word of the line names and the player may use -/
theorem ran_below_usable_root_literal (t : Tree) (perms : List Nat) (line : String) (h : Nat) (k : HKind)
    (hroot : ∀ x ∈ children t 0, x.2.isLit = true) (hd : dispatch t perms line = .ran h k) :
    ∃ x ∈ children t 0, x.2.kind = .lit (firstWord line) ∧ usable perms x.2 = true :=
  dispatch_root t perms line h k hroot hd

/-! ### what the code did before fixes/C22-command-forwarding.diff (`repaired = false`) -/

/-- legacy clients: a command rewritten by the event that is not a proxy command reached the backend UNCHANGED -/
theorem legacy_rewrite_forwards_original_fails :
    (decide (fun _ => .unknown) .legacy ⟨false, false, false, false, false⟩ "h" ⟨false, false, some "home"⟩).backend
      = some (.legacyChat, "h") := by decide

/-- 1.19–1.19.2 clients with a LinkedV2 key and forceKeyAuthentication off: a signed command that the event
    rewrote and forwarded reached nobody (no backend packet, no disconnect, not run) -/
theorem keyed_forwarded_rewrite_lost_fails :
    decide (fun _ => .unknown) .keyed ⟨true, true, false, false, false⟩ "h" ⟨false, true, some "home"⟩ = {} := by
  decide

/-! ### non-vacuity -/

/-- the hypotheses of `otherwise_exactly_one_backend_packet` are satisfiable (here: the repaired keyed path) -/
example : ∃ k, (decide (fun _ => .unknown) .keyed ⟨true, true, false, false, true⟩ "h" ⟨false, true, some "home"⟩).backend
    = some (k, "home") :=
  otherwise_exactly_one_backend_packet (fun _ => .unknown) .keyed ⟨true, true, false, false, true⟩ "h"
    ⟨false, true, some "home"⟩ rfl rfl (Or.inl rfl) (by decide)

example : (decide (fun _ => .unknown) .keyed ⟨true, true, false, false, true⟩ "h" ⟨false, true, some "home"⟩).backend
    = some (.keyed false, "home") := by decide

example : lockedRewrite .session ⟨true, false, true, false, true⟩ "msg a b" ⟨false, true, some "w a b"⟩ = true := by decide

/-- the dispatch model on a small tree: `server` (executable) with a word argument; `admin` needs permission 1 -/
example : dispatch [⟨0, .lit "server", none, some (1, .ok)⟩, ⟨1, .word, none, some (2, .ok)⟩,
                    ⟨0, .lit "admin", some 1, some (3, .ok)⟩] [] "server lobby" = .ran 2 .ok := by decide
example : dispatch [⟨0, .lit "server", none, some (1, .ok)⟩, ⟨1, .word, none, some (2, .ok)⟩,
                    ⟨0, .lit "admin", some 1, some (3, .ok)⟩] [] "admin" = .unknown := by decide
example : dispatch [⟨0, .lit "server", none, some (1, .ok)⟩, ⟨1, .word, none, some (2, .ok)⟩,
                    ⟨0, .lit "admin", some 1, some (3, .ok)⟩] [1] "admin" = .ran 3 .ok := by decide
example : dispatch [⟨0, .lit "server", none, some (1, .ok)⟩, ⟨1, .word, none, some (2, .ok)⟩,
                    ⟨0, .lit "admin", some 1, some (3, .ok)⟩] [] "server a b" = .syntaxErr := by decide

end Gate.C22.Props
