import GateModel.C22.Lemmas
import GateModel.Gen.C22
/-
C22 — commands run on the proxy or reach the backend exactly once.

The decision theorems hold for EVERY dispatch function `disp` (brigodier is a parameter), every command line, every
event outcome (allow / deny / forward / SetCommand), every protocol family and flag combination.  `f.repaired = true`
is the code after fixes/C22-command-forwarding.diff.  A handler produces at most one backend packet by
construction (`Out.backend : Option _`: each packet-creating function returns one packet or nil and the chat queue
writes it once — C21), so "exactly once" is "backend = some _".

Reading of the statement (see checks/C22.json):
  "names a registered proxy command the player may use"  = brigodier does not answer `unknown command`
       (`Disp.ran` / `Disp.syntax`); by `ran_only_usable_nodes` / `ran_below_usable_root_literal` that implies a root literal
       named by the first word whose requirement — and the requirement of the executed node — the player passes;
  "executed by the proxy" = a handler ran (`invoked`), or brigodier reported a syntax error to the player;
  "rewritten as the event requested" = the packet's command text is `commandToRun` (= SetCommand's text, else the original).
`lockedRewrite` (forceKeyAuthentication and a rewrite of a signed command) is answered by disconnecting the player.
-/
namespace Gate.C22.Props
open Gate.C22

/-! ### source shape -/

def subseq : List String → List String → Bool
  | [], _ => true
  | _ :: _, [] => false
  | a :: as, b :: bs => if a = b then subseq as bs else subseq (a :: as) bs

/-- executeCommand maps the dispatcher's errors in this order: ErrForward / unknown command → not run;
    syntax error → reported to the player; anything else → error -/
theorem executeCommand_shape :
    subseq ["cmdMgr.Do", "errors.Is", "errors.Is", "return", "errors.As", "player.SendMessage", "return", "return", "return"]
      Gate.Gen.C22.executeCommandCalls = true := by decide

/-- the event is fired once, before the packet-creating function is queued -/
theorem event_fired_before_queueing :
    subseq ["c.eventMgr.Fire", "go:{", "packetCreator", "f.Complete", "}", "c.player.chatQueue.QueuePacket"]
      Gate.Gen.C22.queueCommandResultCalls = true := by decide

theorem manager_do_shape : Gate.Gen.C22.managerDoCalls = ["m.Parse", "m.Execute", "return"] := by decide

/-! ### decision logic -/

/-- The proxy runs a command handler exactly when the event neither denied nor forwarded the command and the
    dispatcher resolves the command line (as rewritten by the event) to that handler. -/
theorem proxy_runs_iff (disp : String → Disp) (fam : Family) (f : Flags) (cmd : String) (ev : Ev) (h : Nat) :
    (decide disp fam f cmd ev).invoked = some h ↔
      (ev.denied = false ∧ ev.forward = false ∧ ∃ k, disp (commandToRun cmd ev) = .ran h k) := by
  obtain ⟨den, fwd, nc⟩ := ev
  cases fam <;> cases den <;> cases fwd <;>
    simp only [decide, decideLegacy, decideKeyed, decideSession, Bool.false_eq_true, if_false, if_true] <;>
    (try split) <;> (try split) <;> (try split) <;> simp_all [execute]
  all_goals
    (generalize hd : disp (commandToRun cmd ⟨_, _, nc⟩) = d at *
     cases d with
     | unknown => simp_all [execute]
     | syntax => simp_all [execute]
     | ran h' k => cases k <;> simp_all [execute])

end Gate.C22.Props
