/-
C22 — model of the command path of gate:
  pkg/edition/java/proxy/handle_cmd.go  handleCommand, queueCommandResult, handleLegacyCommand, handleKeyedCommand,
                                        handleSessionCommand (consume/modify/forwardCommand), executeCommand
  pkg/command/command.go                Manager.Do  (brigodier dispatch)

`decide` mirrors the four protocol-family handlers as one decision function.  brigodier's dispatch is a
PARAMETER `disp : String → Disp` of `decide` (the theorems hold for every dispatch function); `dispatch` below is
an executable model of brigodier's parse/execute for the tree class the harness generates (literal / single-word /
greedy nodes, per-node requirement, at most one argument child per node, no redirects), validated against the real
brigodier by the correspondence run.

`Flags.repaired` is the variant switch for the two sites repaired by fixes/C22-command-forwarding.diff.
-/
namespace Gate.C22

inductive Family where
  | legacy     -- < 1.19: LegacyChat starting with "/"
  | keyed      -- 1.19 – 1.19.2: KeyedPlayerCommand
  | session    -- 1.19.3+: SessionPlayerCommand
  | unsigned   -- 1.20.5+: UnsignedPlayerCommand
  deriving DecidableEq, Repr

/-- what the handler of a proxy command returns -/
inductive HKind where
  | ok     -- nil
  | fwd    -- command.ErrForward
  | fail   -- any other error
  deriving DecidableEq, Repr

/-- outcome of `cmdMgr.Do(ctx, player, commandline)` -/
inductive Disp where
  | unknown                      -- brigodier.ErrDispatcherUnknownCommand: nothing usable/executable is named
  | syntaxErr                       -- another *brigodier.CommandSyntaxError (unknown argument, argument parse error)
  | ran (h : Nat) (k : HKind)    -- the handler `h` ran and returned `k`
  deriving DecidableEq, Repr

/-- CommandExecuteEvent after all subscribers ran -/
structure Ev where
  denied : Bool
  forward : Bool
  newCmd : Option String     -- SetCommand
  deriving DecidableEq, Repr

structure Flags where
  /-- keyed: `!packet.Unsigned`; session: `packet.Signed()` (argument signatures present); else false -/
  signed : Bool
  /-- keyed: the player has an identified key of revision ≥ LinkedV2 -/
  keyV2 : Bool
  forceKey : Bool
  /-- protocol ≥ 1.20.5 (chat.Builder.ToServer builds an UnsignedPlayerCommand) -/
  p1205 : Bool
  /-- code after fixes/C22-command-forwarding.diff -/
  repaired : Bool
  deriving DecidableEq, Repr

/-- kind of command packet written to the backend; `orig` = the client's own packet object is passed on -/
inductive BKind where
  | legacyChat
  | keyed (orig : Bool)
  | session (orig : Bool)
  | unsigned
  deriving DecidableEq, Repr

structure Out where
  /-- command packet written to the backend: kind and command line (without the leading "/") -/
  backend : Option (BKind × String) := none
  /-- the proxy command handler that ran -/
  invoked : Option Nat := none
  /-- player.Disconnect ("illegal protocol state") -/
  disc : Bool := false
  /-- an error / syntax message was sent to the player -/
  msg : Bool := false
  deriving DecidableEq, Repr

/-- executeCommand: (hasRun, err) classes -/
inductive Exec where
  | notRun | ran | err
  deriving DecidableEq, Repr

def execute : Disp → Exec × Option Nat × Bool
  | .unknown => (.notRun, none, false)
  | .syntaxErr => (.ran, none, true)          -- reported to the player; SendMessage's error is returned (nil here)
  | .ran h .ok => (.ran, some h, false)
  | .ran h .fwd => (.notRun, some h, false)
  | .ran h .fail => (.err, some h, true)    -- "An error occurred while running this command."

def commandToRun (cmd : String) (ev : Ev) : String := ev.newCmd.getD cmd

/-- keyed: `!packet.Unsigned && playerKey != nil && revision ≥ LinkedV2` -/
def Flags.keyedLocked (f : Flags) : Bool := f.signed && f.keyV2

def decideLegacy (disp : String → Disp) (f : Flags) (cmd : String) (ev : Ev) : Out :=
  if ev.denied then {}
  else
    let c := commandToRun cmd ev
    if ev.forward then { backend := some (.legacyChat, c) }
    else match execute (disp c) with
      | (.err, h, _) => { invoked := h, msg := true }
      | (.notRun, h, _) => { backend := some (.legacyChat, if f.repaired then c else cmd), invoked := h }
      | (.ran, h, m) => { invoked := h, msg := m }

def decideKeyed (disp : String → Disp) (f : Flags) (cmd : String) (ev : Ev) : Out :=
  if ev.denied then { disc := f.keyedLocked && f.forceKey }
  else
    let c := commandToRun cmd ev
    if ev.forward then
      if f.signed && c == cmd then { backend := some (.keyed true, cmd) }
      else if f.keyedLocked then
        (if f.repaired then (if f.forceKey then { disc := true } else { backend := some (.keyed false, c) })
         else { disc := f.forceKey })
      else { backend := some (.keyed false, c) }
    else match execute (disp c) with
      | (.err, h, _) => { invoked := h, msg := true }
      | (.notRun, h, _) =>
        if c == cmd then { backend := some (.keyed true, cmd), invoked := h }
        else if f.keyedLocked && f.forceKey then { disc := true, invoked := h }
        else { backend := some (.keyed false, c), invoked := h }
      | (.ran, h, m) => { invoked := h, msg := m }

/-- session / unsigned family (`unsigned` = the packet is an UnsignedPlayerCommand); last-seen offset 0 -/
def decideSession (disp : String → Disp) (f : Flags) (unsigned : Bool) (cmd : String) (ev : Ev) : Out :=
  let consume : Out := if !unsigned && f.signed then { disc := f.forceKey } else {}
  let modify (c : String) : Out :=
    if f.signed && f.forceKey then { disc := true }
    else { backend := some (if f.p1205 then .unsigned else .session false, c) }
  let forwardCommand (c : String) : Out :=
    if c == cmd then { backend := some (if unsigned then .unsigned else .session true, cmd) }
    else modify c
  if ev.denied then consume
  else
    let c := commandToRun cmd ev
    if ev.forward then forwardCommand c
    else match execute (disp c) with
      | (.err, h, _) => { consume with invoked := h, msg := true }
      | (.notRun, h, _) => { forwardCommand c with invoked := h }
      | (.ran, h, m) => { consume with invoked := h, msg := m }

def decide (disp : String → Disp) (fam : Family) (f : Flags) (cmd : String) (ev : Ev) : Out :=
  match fam with
  | .legacy => decideLegacy disp f cmd ev
  | .keyed => decideKeyed disp f cmd ev
  | .session => decideSession disp f false cmd ev
  | .unsigned => decideSession disp { f with signed := false } true cmd ev

/-- a rewrite of a signed command that the handlers answer by disconnecting the player -/
def lockedRewrite (fam : Family) (f : Flags) (cmd : String) (ev : Ev) : Bool :=
  commandToRun cmd ev != cmd && f.forceKey &&
    (match fam with
     | .keyed => f.keyedLocked
     | .session => f.signed
     | _ => false)

/-! ### brigodier dispatch for the generated tree class -/

inductive NKind where
  | lit (name : String)
  | word          -- brigodier.StringWord
  | greedy        -- brigodier.StringPhrase
  deriving DecidableEq, Repr

/-- a node of the proxy's command tree, flat: `parent` = id of the parent (0 = root), own id = position + 1 -/
structure FNode where
  parent : Nat
  kind : NKind
  req : Option Nat              -- permission the source must have (requirement)
  exec : Option (Nat × HKind)   -- Executes: handler id and what it returns
  deriving DecidableEq, Repr

abbrev Tree := List FNode

def FNode.isLit (n : FNode) : Bool := match n.kind with | .lit _ => true | _ => false

def children (t : Tree) (n : Nat) : List (Nat × FNode) :=
  (t.zipIdx.filter (fun x => x.1.parent == n)).map (fun x => (x.2 + 1, x.1))

def usable (perms : List Nat) (nd : FNode) : Bool :=
  match nd.req with
  | none => true
  | some p => perms.contains p

def allowedChar (c : Char) : Bool :=
  ('0' ≤ c && c ≤ '9') || ('A' ≤ c && c ≤ 'Z') || ('a' ≤ c && c ≤ 'z') || c == '_' || c == '-' || c == '.' || c == '+'

/-- result of brigodier's parseNodes: command of the deepest parsed node, unread input, number of per-child
    errors at the level where parsing stopped, whether any node was parsed -/
structure PR where
  cmd : Option (Nat × HKind)
  rest : List Char
  errs : Nat
  parsed : Bool
  deriving DecidableEq, Repr

/-- `child.Parse` + the "expected argument separator" check: remaining input after the node, or none on error -/
def parseChild (nd : FNode) (rem : List Char) : Option (List Char) :=
  match nd.kind with
  | .lit name => some (rem.drop name.length)
  | .word =>
    let r := rem.dropWhile allowedChar
    match r with
    | [] => some []
    | c :: _ => if c == ' ' then some r else none
  | .greedy => some []

/-- brigodier's parseNodes on node `n` with unread input `rem` (fuel ≥ number of unread characters + 1).
    Of the relevant children the source may use, the first that parses wins (the class has ≤ 1 candidate, so
    brigodier's sorting of several potentials never matters); if none parses, every failed candidate is an error. -/
def parseNodes (t : Tree) (perms : List Nat) : Nat → Nat → List Char → Option (Nat × HKind) → Bool → PR
  | 0, _, rem, cmd, parsed => ⟨cmd, rem, 0, parsed⟩
  | fuel + 1, n, rem, cmd, parsed =>
    let ch := children t n
    let lits := ch.filter (·.2.isLit)
    let args := ch.filter (!·.2.isLit)
    let text := String.ofList (rem.takeWhile (· != ' '))
    let relevant :=
      if lits.isEmpty then args
      else match lits.find? (fun x => x.2.kind == .lit text) with
        | some l => [l]
        | none => args
    let cands := relevant.filter (fun x => usable perms x.2)
    match cands.find? (fun x => (parseChild x.2 rem).isSome) with
    | none => ⟨cmd, rem, cands.length, parsed⟩
    | some (id, nd) =>
      match parseChild nd rem with
      | none => ⟨cmd, rem, cands.length, parsed⟩
      | some rem' =>
        if rem'.length ≥ 2 then parseNodes t perms fuel id (rem'.drop 1) nd.exec true
        else ⟨nd.exec, rem', 0, true⟩

/-- `Dispatcher.Execute` on a parse result -/
def dispatchOf (r : PR) : Disp :=
  if !r.rest.isEmpty then
    (if r.errs == 1 then .syntaxErr else if !r.parsed then .unknown else .syntaxErr)
  else match r.cmd with
    | some (h, k) => .ran h k
    | none => .unknown

/-- `Dispatcher.Execute(Dispatcher.Parse(line))` -/
def dispatch (t : Tree) (perms : List Nat) (line : String) : Disp :=
  dispatchOf (parseNodes t perms (line.length + 1) 0 line.toList none false)

end Gate.C22
