import GateModel.C22.Model
/-
C22 helper lemmas about the dispatch model: whatever handler `dispatch` runs belongs to a node of the tree whose
requirement the source passes, and sits below a usable root literal named by the first word of the line.
-/
namespace Gate.C22

theorem mem_children (t : Tree) (n : Nat) (x : Nat × FNode) (h : x ∈ children t n) : x.2 ∈ t ∧ x.2.parent = n := by
  simp only [children, List.mem_map, List.mem_filter] at h
  obtain ⟨⟨nd, i⟩, ⟨hm, hp⟩, rfl⟩ := h
  refine ⟨?_, by simpa using hp⟩
  exact List.mem_of_getElem? (List.mem_zipIdx_iff_getElem?.mp hm)

/-- the nodes brigodier considers at a node are children of that node -/
theorem relevant_sub (ch lits args : List (Nat × FNode)) (text : String)
    (hl : ∀ x ∈ lits, x ∈ ch) (ha : ∀ x ∈ args, x ∈ ch) :
    ∀ x ∈ (if lits.isEmpty then args
           else match lits.find? (fun x => x.2.kind == .lit text) with
             | some l => [l]
             | none => args), x ∈ ch := by
  intro x hx
  split at hx
  · exact ha x hx
  · split at hx
    · rename_i l hf
      simp at hx; subst hx
      exact hl _ (List.mem_of_find?_eq_some hf)
    · exact ha x hx

/-- the command `parseNodes` ends with is the one it started with or the `exec` of a usable node of the tree -/
theorem parseNodes_cmd (t : Tree) (perms : List Nat) :
    ∀ (fuel n : Nat) (rem : List Char) (cmd : Option (Nat × HKind)) (parsed : Bool),
      (parseNodes t perms fuel n rem cmd parsed).cmd = cmd ∨
      ∃ nd ∈ t, nd.exec = (parseNodes t perms fuel n rem cmd parsed).cmd ∧ usable perms nd = true := by
  intro fuel
  induction fuel with
  | zero => intro n rem cmd parsed; left; simp [parseNodes]
  | succ fuel ih =>
    intro n rem cmd parsed
    simp only [parseNodes]
    split
    · left; rfl
    · rename_i id nd hf
      have hmem := List.mem_of_find?_eq_some hf
      simp only [List.mem_filter] at hmem
      obtain ⟨hrel, huse⟩ := hmem
      have hch : (id, nd) ∈ children t n :=
        relevant_sub (children t n) _ _ _ (fun x hx => (List.mem_filter.mp hx).1) (fun x hx => (List.mem_filter.mp hx).1) _ hrel
      have hnd : nd ∈ t := (mem_children t n _ hch).1
      split
      · left; rfl
      · rename_i rem' _
        split
        · rcases ih id (rem'.drop 1) nd.exec true with h | h
          · right; exact ⟨nd, hnd, h.symm, huse⟩
          · right; exact h
        · right; exact ⟨nd, hnd, rfl, huse⟩

theorem dispatchOf_ran (r : PR) (h : Nat) (k : HKind) (hd : dispatchOf r = .ran h k) : r.cmd = some (h, k) := by
  unfold dispatchOf at hd
  split at hd
  · split at hd
    · cases hd
    · split at hd <;> cases hd
  · split at hd
    · rename_i h' k' hc
      cases hd; exact hc
    · cases hd

/-- only handlers of nodes whose requirement the source passes are ever run -/
theorem dispatch_ran_usable (t : Tree) (perms : List Nat) (line : String) (h : Nat) (k : HKind)
    (hd : dispatch t perms line = .ran h k) :
    ∃ nd ∈ t, nd.exec = some (h, k) ∧ usable perms nd = true := by
  have hc := dispatchOf_ran _ h k hd
  rcases parseNodes_cmd t perms (line.length + 1) 0 line.toList none false with e | ⟨nd, hnd, he, hu⟩
  · rw [hc] at e; cases e
  · exact ⟨nd, hnd, by rw [he, hc], hu⟩

/-- the first word of a command line -/
def firstWord (line : String) : String := String.ofList (line.toList.takeWhile (· != ' '))

/-- a handler only runs below a root literal that is named by the first word of the line and that the source may use
    (brigodier's root holds literals only) -/
theorem dispatch_root (t : Tree) (perms : List Nat) (line : String) (h : Nat) (k : HKind)
    (hroot : ∀ x ∈ children t 0, x.2.isLit = true)
    (hd : dispatch t perms line = .ran h k) :
    ∃ x ∈ children t 0, x.2.kind = .lit (firstWord line) ∧ usable perms x.2 = true := by
  have hargs : (children t 0).filter (fun x => !x.2.isLit) = [] := by
    rw [List.filter_eq_nil_iff]
    intro x hx; simp [hroot x hx]
  have hc := dispatchOf_ran _ h k hd
  simp only [parseNodes, hargs] at hc
  split at hc
  · simp at hc
  · rename_i id nd hf
    have hmem := List.mem_of_find?_eq_some hf
    simp only [List.mem_filter] at hmem
    obtain ⟨hrel, huse⟩ := hmem
    split at hrel
    · simp at hrel
    · split at hrel
      · rename_i l hfl
        simp at hrel
        have hl := List.mem_of_find?_eq_some hfl
        have hk := List.find?_some hfl
        simp only [beq_iff_eq] at hk
        refine ⟨l, (List.mem_filter.mp hl).1, ?_, ?_⟩
        · simpa [firstWord] using hk
        · rw [← hrel]; exact huse
      · simp at hrel

end Gate.C22
