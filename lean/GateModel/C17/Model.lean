import GateModel.Base.Bytes
/-
C17 — model of the initial / fallback server choice of pkg/edition/java/proxy:

  * `cleanHost`        = connectedPlayer.getVirtualHostname: lite.ClearVirtualHost (cut at the first NUL — Forge —,
                         cut at the first "///" — TCPShield —, trim dots), netutil.HostStr (net.SplitHostPort with
                         gate's fall-backs), strings.ToLower;
  * `nextServerToTry`  = connectedPlayer.nextServerToTry with the remembered list and cursor exactly as coded;
  * `kick`             = handleConnectionErr2 + handleKickEvent when every redirect's dial fails (the failure is
                         handled by handleConnectionErr → handleConnectionErr2 again: a chain);
  * `backendKick`      = handleDisconnectWithReason.

Strings are byte strings; `lower` is ASCII lower-casing (Go's strings.ToLower also maps non-ASCII letters:
bytes ≥ 0x80 are outside the model).  The server registry is the list of registered servers' names
(`ServerInfo().Name()`), looked up case-insensitively like Proxy.Server.
-/
namespace Gate.C17
open Gate

abbrev Name := Bytes

/-- which code stands at the `sameName` site of nextServerToTry -/
inductive Variant where
  | repaired     -- strings.ToLower(a) == strings.ToLower(b)
  | defective    -- a == b (pre-fix)
  deriving DecidableEq, Repr

/-! ### host normalisation -/

def lowerByte (b : UInt8) : UInt8 := if 65 ≤ b ∧ b ≤ 90 then b + 32 else b
def lower (s : Bytes) : Bytes := s.map lowerByte

/-- `strings.Split(s, "\x00")[0]` -/
def beforeNul : Bytes → Bytes
  | [] => []
  | b :: r => if b = 0 then [] else b :: beforeNul r

/-- `strings.Split(s, "///")[0]` -/
def beforeTriple : Bytes → Bytes
  | [] => []
  | b :: r => if b = 47 ∧ r.take 2 = [47, 47] then [] else b :: beforeTriple r

def dropDots (s : Bytes) : Bytes := s.dropWhile (· = 46)
/-- `strings.Trim(s, ".")` -/
def trimDots (s : Bytes) : Bytes := (dropDots (dropDots s).reverse).reverse

/-- lite.ClearVirtualHost -/
def clearVirtualHost (s : Bytes) : Bytes := trimDots (beforeTriple (beforeNul s))

def indexOf (c : UInt8) : Bytes → Option Nat
  | [] => none
  | b :: r => if b = c then some 0 else (indexOf c r).map (· + 1)
def lastIndexOf (c : UInt8) : Bytes → Option Nat
  | [] => none
  | b :: r => match lastIndexOf c r with
    | some i => some (i + 1)
    | none => if b = c then some 0 else none

/-- netutil.HostStr: host of net.SplitHostPort; "missing port" and "too many colons" give the whole input,
    every other error the empty string. -/
def hostStr (s : Bytes) : Bytes :=
  match lastIndexOf 58 s with
  | none => s
  | some i =>
    if s.head? = some 91 then
      match indexOf 93 s with
      | none => []
      | some e =>
        if e + 1 = s.length then s
        else if e + 1 = i then
          if (s.drop 1).contains 91 then [] else if (s.drop (e + 1)).contains 93 then [] else (s.take e).drop 1
        else s
    else
      let host := s.take i
      if host.contains 58 then s
      else if s.contains 91 then [] else if s.contains 93 then [] else host

/-- connectedPlayer.getVirtualHostname -/
def cleanHost (vhost : Bytes) : Bytes := lower (hostStr (clearVirtualHost vhost))

/-! ### the try cursor -/

structure World where
  forced : List (Bytes × List Name)   -- config.ForcedHosts (a Go map: keys distinct)
  try_   : List Name                   -- config.Try
  reg    : List Name                   -- names of the registered servers (distinct modulo `lower`)
  vhost  : Bytes                       -- player.virtualHost.String()

structure PState where
  list   : List Name       -- serversToTry
  idx    : Nat             -- tryIndex
  conn   : Option Name     -- connectedServer_ (its server's name)
  infl   : Option Name     -- connInFlight
  active : Bool
  deriving DecidableEq, Repr

def PState.fresh : PState := { list := [], idx := 0, conn := none, infl := none, active := true }

/-- Proxy.Server(name): `servers[strings.ToLower(name)]` -/
def lookupReg (reg : List Name) (n : Name) : Option Name := reg.find? fun r => lower r = lower n

/-- `config.ForcedHosts[key]` (exact key) -/
def lookupForced (forced : List (Bytes × List Name)) (k : Bytes) : List Name :=
  match forced.find? fun e => e.1 = k with
  | some (_, l) => l
  | none => []

def same (v : Variant) (a : Option Name) (n : Name) : Bool :=
  match a with
  | none => false
  | some x => match v with
    | .repaired => lower x = lower n
    | .defective => x = n

def skips (v : Variant) (s : PState) (cur : Option Name) (n : Name) : Bool :=
  same v s.conn n || same v s.infl n || same v cur n

/-- the `for i := p.tryIndex; …` loop over the entries from position `i` on; `idx` is the value of `p.tryIndex`
    so far.  Returns the final `tryIndex` and the server found. -/
def scan (skip : Name → Bool) (reg : Name → Option Name) : List Name → Nat → Nat → Nat × Option Name
  | [], _, idx => (idx, none)
  | n :: rest, i, idx =>
    if skip n then scan skip reg rest (i + 1) idx
    else match reg n with
      | some r => (i, some r)
      | none => scan skip reg rest (i + 1) i

/-- the list nextServerToTry works on: the remembered one, else the forced hosts of the virtual host, else `try` -/
def chosenList (w : World) (s : PState) : List Name :=
  if s.list.isEmpty then
    let f := lookupForced w.forced (cleanHost w.vhost)
    if f.isEmpty then w.try_ else f
  else s.list

def nextServerToTry (v : Variant) (w : World) (s : PState) (cur : Option Name) : PState × Option Name :=
  let l := chosenList w s
  if l.isEmpty then ({ s with list := [] }, none)
  else
    let (idx', r) := scan (skips v s cur) (lookupReg w.reg) (l.drop s.idx) s.idx s.idx
    ({ s with list := l, idx := idx' }, r)

/-- setConnectedServer with a connection object other than the in-flight one (the in-flight slot is cleared
    only when the very same connection object is promoted — pointer identity, not modelled) -/
def setConnected (s : PState) (c : Option Name) : PState := { s with conn := c, idx := 0 }

/-! ### kick handling -/

inductive KickRes where
  | disconnect (reason : Bytes)
  | redirect (target : Name)
  | notify (msg : Bytes)
  deriving DecidableEq, Repr

structure Ev where
  src    : Name      -- the server the player was kicked from
  during : Bool      -- KickedDuringServerConnect
  res    : KickRes
  deriving DecidableEq, Repr

structure Out where
  st      : PState
  evs     : List Ev
  dials   : Nat
  runaway : Bool      -- the model ran out of fuel: the chain did not end

def unableMsg (n : Name) : Bytes :=
  "Unable to connect to \"".toUTF8.toList ++ n ++ "\". Try again later.".toUTF8.toList
def kickedMsg (k : Bytes) : Bytes := "The server you were on kicked you: ".toUTF8.toList ++ k
def cantConnectMsg (n : Name) (k : Bytes) : Bytes :=
  "Can't connect to server \"".toUTF8.toList ++ n ++ "\": ".toUTF8.toList ++ k

/-- handleConnectionErr2 followed by handleKickEvent, every dial failing -/
def kick (v : Variant) (w : World) : Nat → PState → Name → Bytes → Bool → Out
  | 0, s, _, _, _ => ⟨s, [], 0, true⟩
  | fuel + 1, s, rs, friendly, safe =>
    if !s.active then ⟨s, [], 0, false⟩
    else if !safe then ⟨{ s with active := false }, [], 0, false⟩
    else if s.conn.isNone || s.conn == some rs then
      let (s1, next) := nextServerToTry v w s (some rs)
      match next with
      | none =>
        ⟨{ s1 with infl := none, conn := none, active := false }, [⟨rs, false, .disconnect friendly⟩], 0, false⟩
      | some n =>
        let o := kick v w fuel { s1 with infl := none, conn := none } n (unableMsg n) true
        ⟨o.st, ⟨rs, false, .redirect n⟩ :: o.evs, o.dials + 1, o.runaway⟩
    else
      ⟨{ s with infl := none }, [⟨rs, true, .notify friendly⟩], 0, false⟩

/-- handleDisconnectWithReason -/
def backendKick (v : Variant) (w : World) (fuel : Nat) (s : PState) (rs : Name) (k : Bytes) (safe : Bool) : Out :=
  if !s.active then ⟨s, [], 0, false⟩
  else if s.conn == some rs then kick v w fuel s rs (kickedMsg k) safe
  else kick v w fuel s rs (cantConnectMsg rs k) safe

end Gate.C17
