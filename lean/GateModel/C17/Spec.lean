import GateModel.C17.Model
import GateModel.Gen.C17
/-
C17 — regenerated facts about the source, and the executable reference spec evaluated on the implementation's
output.
-/
namespace Gate.C17
open Gate

/-! ### regenerated facts -/

/-- body of the first function literal (`sameName`) in nextServerToTry -/
def firstClosure : List String → List String
  | [] => []
  | x :: xs => if x == "func:{" then xs.takeWhile (· != "}") else firstClosure xs

/-- which variant the source is: `sameName` lower-cases both names -/
def codeVariant : Variant :=
  if (firstClosure Gate.Gen.C17.nextServerToTryCalls).count "strings.ToLower" == 2 then .repaired else .defective

/-! ### reference spec -/

/-- the property's choice: the first entry at or after the cursor that is registered and is none of the
    excluded servers (compared like the registry compares: case-insensitively) -/
def specChoice (reg : List Name) (l : List Name) (cursor : Nat) (excluded : List Name) : Option Name :=
  (l.drop cursor).findSome? fun n =>
    if excluded.any (fun x => lower x = lower n) then none else lookupReg reg n

def optList : Option Name → List Name
  | none => []
  | some x => [x]

/-- verdict for a `next` call: `ret` is what the real code returned -/
def nextVerdict (w : World) (s : PState) (cur : Option Name) (ret : Option Name) : String :=
  let excluded := optList cur ++ optList s.conn ++ optList s.infl
  let expected := specChoice w.reg (chosenList w s) s.idx excluded
  if ret = expected then "ok"
  else match ret with
    | some r => if excluded.any (fun x => lower x = lower r) then "viol:rechoose-excluded" else "viol:wrong-choice"
    | none => "viol:wrong-choice"

/-- verdict for a kick chain: no redirect back to the server that just failed, the chain ends -/
def chainVerdict (evs : List (Name × Char × Name)) (runaway : Bool) : String :=
  if runaway then "viol:runaway-retry"
  else if evs.any (fun (src, kind, tgt) => kind = 'R' && lower src = lower tgt) then "viol:rechoose-excluded"
  else "ok"

/-- verdict for the FIRST decision of a kick from the current server (player active, safe, nothing connected or
    connected to `rs`): the redirect target must be the property's choice given the failed, current and in-flight
    servers as they were when the kick arrived; a disconnect is right only when that choice is empty -/
def firstKickVerdict (w : World) (s : PState) (rs : Name) (first : Option (Name × Char × Name)) : String :=
  let excluded := [rs] ++ optList s.conn ++ optList s.infl
  let expected := specChoice w.reg (chosenList w s) s.idx excluded
  match first with
  | some (_, 'R', t) =>
    if expected = some t then "ok"
    else if excluded.any (fun x => lower x = lower t) then "viol:rechoose-excluded" else "viol:wrong-choice"
  | some (_, 'D', _) => if expected = none then "ok" else "viol:wrong-choice"
  | _ => "ok"

def hostCharsB (h : Bytes) : Bool := h.all fun b => b != 0 && b != 47 && b != 58 && b != 91 && b != 93
def noEdgeDotsB (h : Bytes) : Bool := h.head? != some 46 && h.getLast? != some 46

/-- verdict for a structured spelling of host `h`: the real code must answer `lower h` -/
def hostVerdict (h : Bytes) (impl : Bytes) : String :=
  if hostCharsB h && noEdgeDotsB h then (if impl = lower h then "ok" else "viol:host-normalisation") else "-"

end Gate.C17
